package pool

// C19 harness: runs the REAL pool (pool.go with scheduler yields inserted at check time, see
// /verif/checks/c19.py) under the deterministic cooperative scheduler vcoop, one generated schedule per case.
//   correspondence: after every step the synchronisation point the stepped goroutine reached, and at the
//   end the whole pool state, are written next to the op line; the Lean model replays the same line.
//   monitor: independent of the model, instrumented connection objects check the property itself.

import (
	"context"
	"fmt"
	"reflect"
	"sort"
	"strconv"
	"strings"
	"sync/atomic"
	"testing"
	"time"

	"github.com/foxcpp/maddy/internal/verifshim/vcoop"
	"github.com/foxcpp/maddy/internal/verifshim/vh"
)

type c19Conn struct {
	run        *c19Run
	id         int
	usable     bool
	lastUse    int64
	closeCount int
	owner      int   // worker holding it, -1: nobody
	fresh      bool  // created by cfg.New and not yet seen by the worker
	takenShut  bool  // the pool's receive that took it out happened after shutdown had completed
	retLive    bool  // was handed to Return while the pool was live (lock taken with keys != nil)
	retDead    bool  // was handed to Return after shutdown (dropped by the pool)
	newKey     int   // the key cfg.New was called with
	retKey     int   // the key of the last Return call (-1: never returned); the monitor's own record
	retAt      int64 // the clock at the last Return call; the monitor's own record
	usedAt     int64 // the clock when a worker last used it (or it was created); the monitor's own record
}

func (c *c19Conn) Usable() bool {
	r := c.run
	// first thing the pool does after taking the connection out of a bucket
	c.takenShut = r.shutDone
	r.recvd = append(r.recvd, c.id)
	if c.closeCount > 0 {
		r.violate("C19/closed-conn-in-pool", fmt.Sprintf("conn %d was closed %d time(s) and is still in a bucket", c.id, c.closeCount))
	}
	if c.owner >= 0 {
		// one owner at a time: the pool talks on a connection (its usability probe) while a worker holds it
		r.violate("C19/two-owners", fmt.Sprintf("pool code probes conn %d (Usable) while worker %d holds it", c.id, c.owner))
	}
	vcoop.Point("us", c.id)
	return c.usable
}

func (c *c19Conn) LastUseAt() time.Time { return time.Unix(c.lastUse, 0) }

func (c *c19Conn) Close() error {
	vcoop.Point("cc", c.id)
	r := c.run
	c.closeCount++
	r.closedOrder = append(r.closedOrder, c.id)
	if c.closeCount > 1 {
		r.violate("C19/closed-twice", fmt.Sprintf("conn %d closed %d times", c.id, c.closeCount))
	}
	if c.owner >= 0 {
		r.violate("C19/closed-while-owned", fmt.Sprintf("conn %d closed while worker %d uses it", c.id, c.owner))
	}
	return nil
}

// c19Ctx is the context of one worker (a delivery has one for its whole life).  The schedule decides when it is
// done (entry "x<w>"): cancelled, or — for the workers whose context carries a deadline — timed out.  Nothing
// depends on the wall clock: the deadline is far away and never fires by itself.  Only one goroutine runs at a
// time under vcoop, so the fields need no lock.
type c19Ctx struct {
	done     chan struct{}
	err      error
	deadline bool
}

var c19Far = time.Unix(1<<36, 0)

func (c *c19Ctx) Deadline() (time.Time, bool) {
	if c.deadline {
		return c19Far, true
	}
	return time.Time{}, false
}
func (c *c19Ctx) Done() <-chan struct{}             { return c.done }
func (c *c19Ctx) Err() error                        { return c.err }
func (c *c19Ctx) Value(key interface{}) interface{} { return nil }
func (c *c19Ctx) fire() {
	if c.err != nil {
		return
	}
	c.err = context.Canceled
	if c.deadline {
		c.err = context.DeadlineExceeded
	}
	close(c.done)
}

type c19Case struct {
	maxKeys, maxConns int
	maxLife, stale    int64
	progs             [][]string // ops: g<k> r u d c s; a LAST program of k's only is the pool's own ticker goroutine: one k = its ticker fires once
	sched             []string   // "<task>[:pick]" | "t<d>" | "b<c>" | "x<w>" (the context of worker w is cancelled / times out)
	script            []string   // adaptive directives (generation only): the above, or "U<task>:<label prefix>"
	style             string
}

type c19Run struct {
	cs        *c19Case
	p         *P
	s         *vcoop.Sched
	conns     []*c19Conn
	held      [][]*c19Conn
	heldKey   [][]int
	returning []*c19Conn
	chans     []chan Conn
	chanKey   []int
	shutDone  bool
	shutCalls int
	ctxs      []*c19Ctx
	ctxErrs   int // Gets that came back with the error of their context
	inGet     []bool
	inCall    []string // the pool call worker w is in ("Get", "Return", "Close", "CleanUp"; "": none)

	// the pool's own ticker goroutine (cleanUpTick, started by pool.New): the scheduler's daemon task.  In a case
	// whose last program consists of k's it is task tkIdx of the schedule; a step of it while it is parked in its
	// select makes its ticker fire (one k each); with no k left it is finished as far as the case is concerned.
	daemon     *vcoop.Task
	tkIdx      int
	tkLeft     int
	tkFinished bool
	tkFired    int
	tkMoved    bool // the last step of the ticker task consumed a k
	tkInClose  bool // the ticker fired while a worker was inside Close()

	recvd       []int
	closedOrder []int
	leakedOrder []int
	hands       []string
	viol        map[string]string
}

func (r *c19Run) violate(sig, detail string) {
	if _, ok := r.viol[sig]; !ok {
		r.viol[sig] = detail
	}
}

func c19Key(k int) string { return "k" + strconv.Itoa(k) }

func (r *c19Run) chanID(ch chan Conn) int {
	for i, c := range r.chans {
		if c == ch {
			return i
		}
	}
	return -1
}

// scanChans registers buckets that appeared in the map (all goroutines are parked: no race).
func (r *c19Run) scanChans() {
	if r.p.keys == nil {
		return
	}
	var newKeys []string
	for k, v := range r.p.keys {
		if r.chanID(v.c) < 0 {
			newKeys = append(newKeys, k)
		}
	}
	sort.Strings(newKeys)
	for _, k := range newKeys {
		kk, _ := strconv.Atoi(k[1:])
		r.chans = append(r.chans, r.p.keys[k].c)
		r.chanKey = append(r.chanKey, kk)
	}
}

func (r *c19Run) label(t *vcoop.Task) string {
	if t == r.daemon && !t.Done && t.Label == "t.wait" {
		return "idle" // parked in the select of cleanUpTick
	}
	if t.Done {
		if t.Panic != nil {
			return "PANIC"
		}
		return "done"
	}
	switch a := t.Arg.(type) {
	case nil:
		return t.Label
	case int:
		return t.Label + ":" + strconv.Itoa(a)
	case chan Conn:
		return t.Label + ":" + strconv.Itoa(r.chanID(a))
	default:
		return t.Label + ":?"
	}
}

func (r *c19Run) worker(w int) func() {
	return func() {
		ctx := r.ctxs[w]
		for _, op := range r.cs.progs[w] {
			vcoop.Point("idle", nil)
			switch op[0] {
			case 'g':
				k, _ := strconv.Atoi(op[1:])
				r.inGet[w] = true
				r.inCall[w] = "Get"
				c, err := r.p.Get(ctx, c19Key(k))
				r.inCall[w] = ""
				r.inGet[w] = false
				if err != nil && ctx.Err() != nil {
					// the cancellation outcome of Get: the caller gets nothing (what became of a connection Get had
					// already taken out of a bucket is the business of the end-of-run rules: held, idle, or closed)
					r.ctxErrs++
					continue
				}
				if err != nil || c == nil {
					r.violate("C19/get-failed", fmt.Sprintf("Get returned (%v, %v)", c, err))
					continue
				}
				cn := c.(*c19Conn)
				r.handout(w, cn, k)
				r.held[w] = append(r.held[w], cn)
				r.heldKey[w] = append(r.heldKey[w], k)
			case 'r':
				if len(r.held[w]) == 0 {
					continue
				}
				cn, k := r.held[w][0], r.heldKey[w][0]
				r.held[w], r.heldKey[w] = r.held[w][1:], r.heldKey[w][1:]
				cn.owner = -1
				r.returning[w] = cn
				cn.retKey, cn.retAt = k, r.s.Clock
				r.inCall[w] = "Return"
				c19Return(r.p, c19Key(k), cn)
				r.inCall[w] = ""
				r.returning[w] = nil
			case 'u':
				if len(r.held[w]) == 0 {
					continue
				}
				cn := r.held[w][0]
				if cn.closeCount > 0 {
					r.violate("C19/use-after-close", fmt.Sprintf("worker %d uses conn %d which was closed", w, cn.id))
				}
				if cn.owner != w {
					r.violate("C19/two-owners", fmt.Sprintf("worker %d uses conn %d owned by %d", w, cn.id, cn.owner))
				}
				cn.lastUse = r.s.Clock
				cn.usedAt = r.s.Clock
			case 'd':
				if len(r.held[w]) == 0 {
					continue
				}
				cn := r.held[w][0]
				r.held[w], r.heldKey[w] = r.held[w][1:], r.heldKey[w][1:]
				cn.owner = -1
				cn.Close()
			case 'c', 'k':
				r.inCall[w] = "CleanUp"
				r.p.CleanUp(ctx)
				r.inCall[w] = ""
			case 's':
				r.shutCalls++
				r.inCall[w] = "Close"
				r.p.Close()
				r.inCall[w] = ""
				r.shutDone = true
			}
		}
		vcoop.Point("idle", nil)
	}
}

// handout: Get returned cn to worker w — the property's hand-out clauses, on the real objects.
func (r *c19Run) handout(w int, cn *c19Conn, k int) {
	if cn.fresh {
		cn.fresh = false
		cn.owner = w
		if cn.newKey != k {
			r.violate("C19/handed-out-wrong-key", fmt.Sprintf("Get(k%d) returned conn %d which cfg.New created for k%d", k, cn.id, cn.newKey))
		}
		return
	}
	rk := "-"
	if cn.retKey >= 0 {
		rk = strconv.Itoa(cn.retKey)
	}
	r.hands = append(r.hands, fmt.Sprintf("%d@%d<%dk%dr%s@%d", cn.id, cn.lastUse, r.s.Clock, k, rk, cn.retAt))
	// a connection is only ever handed out for the key it was returned under
	if cn.retKey != k {
		r.violate("C19/handed-out-wrong-key", fmt.Sprintf("Get(k%d) handed out conn %d which was last returned under %s", k, cn.id, rk))
	}
	// idle lifetime by the monitor's own records (not by what the connection object says): since the last
	// Return call, and since the last use by a worker
	if cn.retKey >= 0 && cn.retAt+r.cs.maxLife < r.s.Clock {
		r.violate("C19/handed-out-idle-too-long", fmt.Sprintf("conn %d returned at %d handed out at %d, lifetime %d", cn.id, cn.retAt, r.s.Clock, r.cs.maxLife))
	}
	if cn.usedAt+r.cs.maxLife < r.s.Clock {
		r.violate("C19/handed-out-expired", fmt.Sprintf("conn %d last used at %d handed out at %d, lifetime %d", cn.id, cn.usedAt, r.s.Clock, r.cs.maxLife))
	}
	if cn.closeCount > 0 {
		r.violate("C19/handed-out-closed", fmt.Sprintf("conn %d handed to worker %d after it was closed", cn.id, w))
	}
	if cn.owner >= 0 {
		r.violate("C19/two-owners", fmt.Sprintf("conn %d handed to worker %d while worker %d holds it", cn.id, w, cn.owner))
	}
	if cn.lastUse+r.cs.maxLife < r.s.Clock {
		r.violate("C19/handed-out-expired", fmt.Sprintf("conn %d idle since %d handed out at %d, lifetime %d", cn.id, cn.lastUse, r.s.Clock, r.cs.maxLife))
	}
	if !cn.usable {
		r.violate("C19/handed-out-unusable", fmt.Sprintf("conn %d handed out although Usable() is false", cn.id))
	}
	if cn.takenShut {
		r.violate("C19/handed-out-after-shutdown", fmt.Sprintf("conn %d taken out of a bucket and handed to worker %d after pool.Close() had returned", cn.id, w))
	}
	cn.owner = w
}

// c19Return calls p.Return(key, c) whatever its result type is (a changed tree may report whether the pool kept the
// connection): the harness must build either way.
func c19Return(p *P, key string, c Conn) {
	reflect.ValueOf(p).MethodByName("Return").Call([]reflect.Value{reflect.ValueOf(key), reflect.ValueOf(&c).Elem()})
}

const c19Patience = 30 * time.Second

// c19Stuck counts the steps that did not come back: once the code under test has blocked twice
// the generous patience is pointless (a broken tree blocks in hundreds of cases), 3 s is enough
// to tell the remaining ones.
var c19Stuck int32

func c19CurPatience() time.Duration {
	if atomic.LoadInt32(&c19Stuck) >= 2 {
		return 3 * time.Second
	}
	return c19Patience
}

// stepTask runs one step of task i and returns the schedule entry actually taken and the label reached.
func (r *c19Run) stepTask(i int) (entry, lab string, stuck bool) {
	entry = strconv.Itoa(i)
	if i >= len(r.s.Tasks) {
		return entry, "-", false
	}
	t := r.s.Tasks[i]
	if i == r.tkIdx && t == r.daemon {
		if r.tkFinished {
			return entry, "done", false
		}
		if t.Done || (t.Label == "t.wait" && t.Waiting) {
			// stopped, or blocked in its select: its ticker fires now, if the program says so
			if r.tkLeft == 0 {
				r.tkFinished = true
				return entry, "done", false
			}
			r.tkLeft--
			r.tkMoved = true
			if t.Done {
				return entry, "idle", false // the ticker goroutine has been stopped: nobody takes the tick
			}
			r.tkFired++
			r.s.Fire()
			for _, c := range r.inCall {
				r.tkInClose = r.tkInClose || c == "Close"
			}
		}
	}
	before := r.label(t)
	wasNil := r.p.keys == nil
	var ret *c19Conn
	if i < len(r.returning) {
		ret = r.returning[i]
	}
	patience := c19CurPatience()
	_, err := r.s.Step(i, patience)
	if err != nil {
		atomic.AddInt32(&c19Stuck, 1)
		r.violate("C19/blocked", fmt.Sprintf("task %d parked at %s did not reach another synchronisation point within %v", i, before, patience))
		return entry, "STUCK", true
	}
	r.scanChans()
	lab = r.label(t)
	if t.Panic != nil {
		r.violate("C19/panic", fmt.Sprintf("task %d panicked after %s: %v", i, before, t.Panic))
	}
	// the lock acquisition of Return that decides what becomes of the connection: the last one it passes (a changed tree
	// may look the bucket up under a reader lock first: "r.rlock", and take the writer lock only when it is missing)
	retLock := func(l string) bool { return l == "r.lock" || l == "r.rlock" }
	if retLock(before) && !retLock(lab) && ret != nil {
		if wasNil {
			ret.retDead = true
			r.leakedOrder = append(r.leakedOrder, ret.id)
		} else {
			ret.retLive = true
		}
	}
	if strings.Contains(lab, ".iter:") {
		entry += lab[strings.Index(lab, ":"):]
	}
	return entry, lab, false
}

func c19Run1(cs *c19Case, out *vh.Out) {
	r := &c19Run{cs: cs, viol: map[string]string{}}
	r.s = vcoop.New()
	vcoop.Activate(r.s)
	defer vcoop.Activate(nil)
	r.p = New(Config{
		New: func(ctx context.Context, key string) (Conn, error) {
			if err := ctx.Err(); err != nil {
				return nil, err // a dial under a context that is done fails
			}
			nk := -1
			if len(key) > 1 {
				nk, _ = strconv.Atoi(key[1:])
			}
			c := &c19Conn{run: r, id: len(r.conns), usable: true, lastUse: r.s.Clock, owner: -1, fresh: true,
				newKey: nk, retKey: -1, usedAt: r.s.Clock}
			r.conns = append(r.conns, c)
			return c, nil
		},
		MaxKeys:             cs.maxKeys,
		MaxConnsPerKey:      cs.maxConns,
		MaxConnLifetimeSec:  cs.maxLife,
		StaleKeyLifetimeSec: cs.stale,
	})
	nw := len(cs.progs)
	// the pool's ticker goroutine: run it up to its select and let it find nothing ready (it is then "blocked in the select")
	r.daemon, r.tkIdx = r.s.Daemon, -1
	for n := 0; r.daemon != nil && n < 4 && !(r.daemon.Label == "t.wait" && r.daemon.Waiting); n++ {
		if _, err := r.s.StepTask(r.daemon, c19CurPatience()); err != nil {
			r.violate("C19/blocked", "the pool's ticker goroutine did not reach its select")
			break
		}
	}
	nWorkers := nw
	if nw > 0 && len(cs.progs[nw-1]) > 0 && strings.Trim(strings.Join(cs.progs[nw-1], ""), "k") == "" && r.daemon != nil && !r.daemon.Done {
		nWorkers, r.tkIdx, r.tkLeft = nw-1, nw-1, len(cs.progs[nw-1])
	}
	r.inCall = make([]string, nw)
	r.held = make([][]*c19Conn, nw)
	r.heldKey = make([][]int, nw)
	r.returning = make([]*c19Conn, nw)
	r.inGet = make([]bool, nw)
	for w := 0; w < nw; w++ {
		r.ctxs = append(r.ctxs, &c19Ctx{done: make(chan struct{}), deadline: w%2 == 1})
	}
	cancelAt := map[string]bool{}
	for w := 0; w < nWorkers; w++ {
		t := r.s.Spawn("idle", r.worker(w))
		t.SkipOne = "idle"
	}
	if r.tkIdx >= 0 {
		r.s.Adopt(r.daemon)
	}
	finished := func(i int) bool {
		if i == r.tkIdx {
			return r.tkFinished
		}
		return r.s.Tasks[i].Done
	}

	var entries, labels []string
	stuck := false
	exec := func(e string) {
		switch e[0] {
		case 't':
			d, _ := strconv.Atoi(e[1:])
			r.s.Clock += int64(d)
			entries, labels = append(entries, e), append(labels, "t")
		case 'b':
			c, _ := strconv.Atoi(e[1:])
			if c < len(r.conns) {
				r.conns[c].usable = false
			}
			entries, labels = append(entries, e), append(labels, "b")
		case 'x':
			w, _ := strconv.Atoi(e[1:])
			if w >= 0 && w < nw {
				if r.ctxs[w].err == nil {
					at := "outside Get"
					if r.inGet[w] {
						at = r.label(r.s.Tasks[w])
						if i := strings.Index(at, ":"); i >= 0 {
							at = at[:i]
						}
					}
					cancelAt[at] = true
				}
				r.ctxs[w].fire()
			}
			entries, labels = append(entries, e), append(labels, "x")
		default:
			i, _ := strconv.Atoi(strings.SplitN(e, ":", 2)[0])
			en, lab, st := r.stepTask(i)
			entries, labels = append(entries, en), append(labels, lab)
			stuck = stuck || st
		}
	}
	for _, e := range cs.sched {
		if stuck {
			break
		}
		exec(e)
	}
	// adaptive script (generation only; what was actually executed is recorded as a plain schedule)
	for _, d := range cs.script {
		if stuck {
			break
		}
		if d[0] != 'U' {
			exec(d)
			continue
		}
		parts := strings.SplitN(d[1:], ":", 2)
		i, _ := strconv.Atoi(parts[0])
		for n := 0; n < 80 && !stuck; n++ {
			if i >= len(r.s.Tasks) || finished(i) {
				break
			}
			before := r.label(r.s.Tasks[i])
			exec(strconv.Itoa(i))
			after := r.label(r.s.Tasks[i])
			if strings.HasPrefix(after, parts[1]) || finished(i) {
				break
			}
			if after == before && r.s.Tasks[i].Waiting {
				break
			}
		}
	}
	// tail: run everybody to completion, round robin
	for round := 0; !stuck && round < 4000; round++ {
		progress, alive := false, false
		for i := 0; i < len(r.s.Tasks) && !stuck; i++ {
			t := r.s.Tasks[i]
			if finished(i) {
				continue
			}
			alive = true
			before, wasWaiting := r.label(t), t.Waiting
			r.tkMoved = false
			exec(strconv.Itoa(i))
			if l := r.label(t); l != before || !t.Waiting || (i == r.tkIdx && (r.tkMoved || r.tkFinished || !wasWaiting)) {
				progress = true // only a failed lock attempt (or a waiting select / send with nobody ready) leaves a goroutine where it was
			}
		}
		if !alive {
			break
		}
		if !progress {
			// liveness: every pool call comes back once nothing it waits for is withheld by the schedule — here every
			// goroutine has been offered a step and none can move
			var where, calls []string
			inClose := false
			for i, t := range r.s.Tasks {
				if !finished(i) {
					w := fmt.Sprintf("%d@%s", i, r.label(t))
					if i < len(r.inCall) && r.inCall[i] != "" {
						w += "(in " + r.inCall[i] + ")"
						calls = append(calls, r.inCall[i])
						inClose = inClose || r.inCall[i] == "Close"
					}
					where = append(where, w)
				}
			}
			if inClose {
				r.violate("C19/shutdown-blocked", fmt.Sprintf("pool.Close() never returns (ticker fired %d time(s)); no goroutine can move: %s", r.tkFired, strings.Join(where, " ")))
			} else {
				r.violate("C19/deadlock", "no goroutine can move: "+strings.Join(where, " "))
			}
			_ = calls
			break
		}
	}

	// ---- final state, from the real objects ----
	keysStr := "nil"
	if r.p.keys != nil {
		var ids []int
		for _, v := range r.p.keys {
			ids = append(ids, r.chanID(v.c))
		}
		sort.Ints(ids)
		keysStr = c19Ints(ids)
	}
	inChan := map[int]int{}
	orphanIdle := map[int]int{} // connection -> bucket: idle in a bucket that is not in the map of the live pool
	var chs []string
	if !stuck {
		for i, ch := range r.chans {
			mapped := false
			for _, v := range r.p.keys {
				mapped = mapped || v.c == ch
			}
			var buf []int
			closed := false
		drain:
			for {
				select {
				case c, ok := <-ch:
					if !ok {
						closed = true
						break drain
					}
					buf = append(buf, c.(*c19Conn).id)
					inChan[c.(*c19Conn).id]++
					if !mapped && r.p.keys != nil {
						orphanIdle[c.(*c19Conn).id] = i
					}
				default:
					break drain
				}
			}
			cl := 0
			if closed {
				cl = 1
			}
			chs = append(chs, fmt.Sprintf("%d:%d:%d:%s", i, r.chanKey[i], cl, c19Ints(buf)))
		}
	}
	chStr := "-"
	if len(chs) > 0 {
		chStr = strings.Join(chs, ";")
	}
	var hs []string
	heldCnt := map[int]int{}
	for w := 0; w < nw; w++ {
		if len(r.held[w]) == 0 {
			hs = append(hs, "-")
			continue
		}
		var one []string
		for j, c := range r.held[w] {
			one = append(one, fmt.Sprintf("%d@%d", c.id, r.heldKey[w][j]))
			heldCnt[c.id]++
		}
		hs = append(hs, strings.Join(one, ","))
	}
	hands := "-"
	if len(r.hands) > 0 {
		hands = strings.Join(r.hands, ",")
	}
	obs := strings.Join(labels, " ") + " | " + fmt.Sprintf("H=%s X=%s L=%s CH=%s K=%s F=%d T=%d R=%s G=%s",
		strings.Join(hs, "/"), c19Ints(r.closedOrder), c19Ints(r.leakedOrder), chStr, keysStr, len(r.conns), len(r.s.Tasks), c19Ints(r.recvd), hands)

	var ps []string
	for _, p := range cs.progs {
		if len(p) == 0 {
			ps = append(ps, "-")
		} else {
			ps = append(ps, strings.Join(p, "."))
		}
	}
	sch := "-"
	if len(entries) > 0 {
		sch = strings.Join(entries, ",")
	}
	op := fmt.Sprintf("C19 run %d %d %d %d %s %s", cs.maxKeys, cs.maxConns, cs.maxLife, cs.stale, strings.Join(ps, "|"), sch)

	// ---- end-of-run part of the property: where is every connection? ----
	if !stuck {
		quiet := true
		for i := range r.s.Tasks {
			if !finished(i) {
				quiet = false
			}
		}
		for _, c := range r.conns {
			places := heldCnt[c.id] + inChan[c.id] + c.closeCount
			if c.retDead && c.closeCount == 0 && heldCnt[c.id] == 0 {
				places++ // dropped by Return after shutdown: outside the property ("returned to a live pool")
				out.Stat("conn dropped by Return after shutdown")
			}
			if places > 1 {
				r.violate("C19/two-places", fmt.Sprintf("conn %d: held %d, idle in buckets %d, closed %d", c.id, heldCnt[c.id], inChan[c.id], c.closeCount))
			}
			if quiet && places == 0 {
				r.violate("C19/conn-lost", fmt.Sprintf("conn %d is neither held, idle in a bucket, nor closed at the end", c.id))
			}
			if b, ok := orphanIdle[c.id]; ok && quiet && heldCnt[c.id] == 0 && c.closeCount == 0 {
				// (the model: C19_idle_is_reachable) no pool call is in progress, the pool is live, and the bucket this
				// connection sits in is not in the map: no Get, sweep or shutdown will ever see it
				r.violate("C19/conn-lost", fmt.Sprintf("conn %d is idle in bucket %d (key k%d) which is not in the map of the live pool: it can be neither handed out nor closed", c.id, b, r.chanKey[b]))
			}
			if quiet && r.shutDone && c.retLive && !c.retDead && c.closeCount == 0 && heldCnt[c.id] == 0 {
				r.violate("C19/returned-conn-never-closed", fmt.Sprintf("conn %d was returned to the live pool and is neither handed out nor closed after shutdown (idle in bucket: %d)", c.id, inChan[c.id]))
			}
		}
		if quiet && r.shutDone {
			for id, n := range inChan {
				if n > 0 {
					r.violate("C19/idle-after-shutdown", fmt.Sprintf("conn %d still idle in a bucket after shutdown", id))
				}
			}
		}
	}
	sigs := make([]string, 0, len(r.viol))
	for s := range r.viol {
		sigs = append(sigs, s)
	}
	sort.Strings(sigs)
	for _, s := range sigs {
		out.Violation(s, op, r.viol[s])
	}
	if !stuck {
		out.Corr(op, obs)
	}
	// distribution
	out.Stat("style " + cs.style)
	out.Stat(fmt.Sprintf("workers %d", nw))
	out.Stat(fmt.Sprintf("schedule length %s", c19Bucket(len(entries))))
	seen := map[string]bool{}
	for _, l := range labels {
		k := l
		if i := strings.Index(l, ":"); i >= 0 {
			k = l[:i]
		}
		if !seen[k] {
			seen[k] = true
			out.Stat("case reaches " + k)
		}
	}
	if len(r.hands) > 0 {
		out.Stat("case with pooled hand-out")
	}
	for at := range cancelAt {
		out.Stat("case with context done while its worker is at " + at)
	}
	if r.ctxErrs > 0 {
		out.Stat("case where Get returns the error of its context")
	}
	if len(r.recvd) > len(r.hands) {
		out.Stat("case where Get discards a pooled conn (unusable or expired)")
	}
	if len(r.closedOrder) > 0 {
		out.Stat("case with closed conns")
	}
	if cs.maxConns == 0 {
		out.Stat("case with MaxConnsPerKey 0")
	}
	if len(r.leakedOrder) > 0 {
		out.Stat("case with Return after shutdown")
	}
	if len(r.s.Tasks) > nw {
		out.Stat("case with spawned closers")
	}
	if r.shutCalls > 0 {
		out.Stat("case with shutdown")
	}
	if r.tkIdx >= 0 {
		out.Stat("case with the ticker goroutine scheduled")
		if r.tkFired > 0 {
			out.Stat("case where the clean-up ticker fires")
		}
		tickDuringClose := r.tkInClose
		if tickDuringClose {
			out.Stat("case where the ticker goroutine is inside CleanUp while Close() is in progress")
		}
	}
	if len(r.chans) > 1 {
		out.Stat("case with >1 bucket created")
	}
	blocked := false
	for i := 1; i < len(labels); i++ {
		if strings.HasSuffix(labels[i], ".lock") && entries[i] == entries[i-1] && labels[i] == labels[i-1] {
			blocked = true
		}
	}
	if blocked {
		out.Stat("case with blocked lock attempt")
	}

	// stop the ticker goroutine of pools that were not shut down by the case itself
	vcoop.Activate(nil)
	healthy := !stuck
	for i, t := range r.s.Tasks {
		if !finished(i) || t.Panic != nil {
			healthy = false // the lock may be held for ever: do not touch the pool again
		}
	}
	if r.daemon != nil && r.daemon.Label != "t.wait" && !r.daemon.Done {
		healthy = false
	}
	if r.shutCalls == 0 && healthy {
		r.s.Detach(r.daemon) // the ticker goroutine runs on by itself and takes the stop signal
		func() {
			defer func() { recover() }()
			r.p.Close()
		}()
	}
}

func c19Bucket(n int) string {
	switch {
	case n < 20:
		return "<20"
	case n < 50:
		return "20-49"
	case n < 100:
		return "50-99"
	case n < 200:
		return "100-199"
	default:
		return ">=200"
	}
}

func c19Ints(l []int) string {
	if len(l) == 0 {
		return "-"
	}
	s := make([]string, len(l))
	for i, v := range l {
		s[i] = strconv.Itoa(v)
	}
	return strings.Join(s, ",")
}

// ---------------------------------------------------------------- generators

func c19Session(r *vh.Rng, nkeys int) []string {
	var p []string
	n := 1 + r.Intn(3)
	for i := 0; i < n; i++ {
		p = append(p, "g"+strconv.Itoa(r.Intn(nkeys)))
		if r.Chance(25) {
			p = append(p, "g"+strconv.Itoa(r.Intn(nkeys)))
		}
		if r.Chance(60) {
			p = append(p, "u")
		}
		if r.Chance(85) {
			p = append(p, "r")
		} else {
			p = append(p, "d")
		}
		if r.Chance(30) {
			p = append(p, "r")
		}
	}
	return p
}

// c19GenScenario: a Get is parked in the middle (after it released the lock, or while it tests a connection)
// while the bucket it refers to expires and is dropped by another Get, swept by CleanUp, or collected by a
// Return on a full map; then the pool may be shut down; then the parked Get resumes.
func c19GenScenario(r *vh.Rng) *c19Case {
	cs := &c19Case{style: "scenario"}
	L := 1 + r.Intn(3)
	cs.maxLife = int64(L)
	cs.maxConns = 1 + r.Intn(3)
	cs.maxKeys = 1 + r.Intn(3)
	kind := r.Intn(3)
	switch kind {
	case 0: // another Get finds the bucket expired
		cs.stale = int64(L + 2 + r.Intn(4))
		cs.style = "scenario get-drop"
	case 1: // CleanUp sweeps it
		cs.stale = int64(r.Intn(L + 2))
		cs.style = "scenario cleanup"
	default: // Return on a full map collects it
		cs.stale = int64(r.Intn(L + 2))
		cs.maxKeys = 1
		cs.style = "scenario return-gc"
	}
	n := 1 + r.Intn(cs.maxConns)
	var p0 []string
	for i := 0; i < n; i++ {
		p0 = append(p0, "g0")
	}
	for i := 0; i < n; i++ {
		p0 = append(p0, "r")
	}
	for i := 0; i < n; i++ {
		p0 = append(p0, "g0", "u", "r")
	}
	victim := []string{"g0"}
	if r.Chance(60) {
		victim = append(victim, "u", "r")
	}
	var racer []string
	switch kind {
	case 0:
		racer = []string{"g0"}
		if r.Chance(50) {
			racer = append(racer, "r")
		}
	case 1:
		racer = []string{"c"}
	default:
		racer = []string{"g1", "r"}
	}
	cs.progs = [][]string{p0, victim, racer}
	closer := -1
	if r.Chance(70) {
		closer = len(cs.progs)
		cs.progs = append(cs.progs, []string{"s"})
	}
	if r.Chance(30) {
		cs.progs = append(cs.progs, c19Session(r, 2))
	}
	noise := func() {
		if r.Chance(15) {
			k := 1 + r.Intn(3)
			for i := 0; i < k; i++ {
				cs.script = append(cs.script, strconv.Itoa(r.Intn(len(cs.progs)+2)))
			}
		}
	}
	for i := 0; i < 2*n; i++ {
		cs.script = append(cs.script, "U0:idle")
	}
	cs.script = append(cs.script, "t"+strconv.Itoa(L))
	for i := 0; i < 3*n; i++ {
		cs.script = append(cs.script, "U0:idle")
	}
	if kind == 2 {
		cs.script = append(cs.script, "U2:idle")
	}
	noise()
	cs.script = append(cs.script, "U1:"+r.Pick("g.sel", "g.sel", "g.sel", "us", "g.lock"))
	noise()
	cs.script = append(cs.script, "t"+strconv.Itoa(1+r.Intn(2)))
	noise()
	stops := map[int][]string{
		0: {"idle", "idle", "g.drain", "g.close", "g.drain", "cc"},
		1: {"idle", "idle", "c.drain", "c.close", "c.iter"},
		2: {"idle", "idle", "r.drain", "r.close", "r.sel", "cc"},
	}[kind]
	cs.script = append(cs.script, "U2:"+stops[r.Intn(len(stops))])
	noise()
	if closer >= 0 {
		cs.script = append(cs.script, "U"+strconv.Itoa(closer)+":"+r.Pick("idle", "idle", "idle", "s.lock", "s.drain"))
	}
	noise()
	cs.script = append(cs.script, "U1:idle")
	return cs
}

// c19GenFullMap: the map holds MaxKeys live (non-stale, non-expired) buckets with several idle connections each,
// then connections are returned for further keys (the paths of Return that run on a full map: stale-key
// collection that finds nothing, whatever the code does about the limit) and every key is asked for again,
// all inside the idle lifetime: each Get must come back with a connection of ITS key or a new one.
func c19GenFullMap(r *vh.Rng) *c19Case {
	cs := &c19Case{style: "scenario full-map"}
	cs.maxKeys = 1 + r.Intn(2)
	cs.maxConns = 2 + r.Intn(2)
	cs.maxLife = int64(3 + r.Intn(3))
	cs.stale = int64(4 + r.Intn(5))
	nkeys := cs.maxKeys + 1 + r.Intn(2)
	// phase 1, one worker per key: n overlapping gets, n returns
	for k := 0; k < nkeys; k++ {
		n := 1 + r.Intn(cs.maxConns)
		if k < cs.maxKeys && r.Chance(70) {
			n = 2 + r.Intn(cs.maxConns-1)
		}
		var p []string
		for i := 0; i < n; i++ {
			p = append(p, "g"+strconv.Itoa(k))
		}
		if r.Chance(40) {
			p = append(p, "u")
		}
		for i := 0; i < n; i++ {
			p = append(p, "r")
		}
		cs.progs = append(cs.progs, p)
	}
	// phase 2: every key is asked for again, by other workers
	first2 := len(cs.progs)
	for k := 0; k < nkeys; k++ {
		n := 1 + r.Intn(3)
		var p []string
		for i := 0; i < n; i++ {
			p = append(p, "g"+strconv.Itoa(k))
		}
		if r.Chance(50) {
			p = append(p, "u", "r")
		}
		cs.progs = append(cs.progs, p)
	}
	if r.Chance(30) {
		cs.progs = append(cs.progs, []string{"c"})
	}
	if r.Chance(30) {
		cs.progs = append(cs.progs, []string{"s"})
	}
	order := c19Perm(r, nkeys)
	if r.Chance(60) {
		sort.Ints(order)
	}
	for _, k := range order {
		for i := 0; i < 2*len(cs.progs[k]); i++ {
			cs.script = append(cs.script, "U"+strconv.Itoa(k)+":idle")
		}
		if r.Chance(20) {
			cs.script = append(cs.script, "t1")
		}
	}
	for _, k := range c19Perm(r, nkeys) {
		w := first2 + k
		for i := 0; i < 2*len(cs.progs[w]); i++ {
			cs.script = append(cs.script, "U"+strconv.Itoa(w)+":idle")
			if r.Chance(5) {
				cs.script = append(cs.script, strconv.Itoa(r.Intn(len(cs.progs)+2)))
			}
		}
	}
	return cs
}

func c19Perm(r *vh.Rng, n int) []int {
	p := make([]int, n)
	for i := range p {
		p[i] = i
	}
	for i := n - 1; i > 0; i-- {
		j := r.Intn(i + 1)
		p[i], p[j] = p[j], p[i]
	}
	return p
}

// c19GenCancel: a bucket holds several idle connections (some of them broken or past their idle lifetime, so that
// Get goes through its loop more than once); a Get for that key is stepped a chosen number of times — it is parked
// at the lock, at the select, inside Usable(), or wherever a changed tree parks in between — and then its context is
// cancelled (or times out); the others move on (another Get / a sweep / a shutdown), and the Get resumes.
// Whatever Get returns, the connection it had taken out of the bucket must be held by the caller, idle, or closed.
func c19GenCancel(r *vh.Rng) *c19Case {
	cs := &c19Case{style: "scenario cancel"}
	L := 1 + r.Intn(3)
	cs.maxLife = int64(L)
	cs.maxConns = 1 + r.Intn(3)
	cs.maxKeys = 1 + r.Intn(3)
	cs.stale = int64(L + 3 + r.Intn(4))
	n := 1 + r.Intn(cs.maxConns)
	var p0 []string
	for i := 0; i < n; i++ {
		p0 = append(p0, "g0")
	}
	if r.Chance(50) {
		p0 = append(p0, "u")
	}
	for i := 0; i < n; i++ {
		p0 = append(p0, "r")
	}
	nv := 1 + r.Intn(2)
	cs.progs = [][]string{p0}
	for v := 0; v < nv; v++ {
		victim := []string{"g0"}
		if r.Chance(30) {
			victim = append(victim, "g0")
		}
		if r.Chance(60) {
			victim = append(victim, "u", "r")
		}
		if r.Chance(30) {
			victim = append(victim, "r")
		}
		cs.progs = append(cs.progs, victim)
	}
	other := -1
	if r.Chance(50) {
		other = len(cs.progs)
		cs.progs = append(cs.progs, [][]string{{"g0", "r"}, {"c"}, {"g0"}, {"g1", "r"}}[r.Intn(4)])
	}
	closer := -1
	if r.Chance(50) {
		closer = len(cs.progs)
		cs.progs = append(cs.progs, []string{"s"})
	}
	for i := 0; i < 3*n+2; i++ {
		cs.script = append(cs.script, "U0:idle")
	}
	// some of the idle connections are broken / too old: Get closes them and goes on to the next one
	if r.Chance(35) {
		cs.script = append(cs.script, "b"+strconv.Itoa(r.Intn(n)))
	}
	switch {
	case r.Chance(35):
		cs.script = append(cs.script, "t"+strconv.Itoa(1+r.Intn(L)))
	case r.Chance(25):
		// the whole bucket is past its lifetime: Get drops it under the lock (close, drain) and asks for a new connection
		cs.script = append(cs.script, "t"+strconv.Itoa(L+1))
	}
	for v := 1; v <= nv; v++ {
		steps := []int{0, 1, 2, 2, 3, 3, 3, 4, 4, 5, 6, 7}[r.Intn(12)] // 0: the context is done before Get starts
		for i := 0; i < steps; i++ {
			cs.script = append(cs.script, strconv.Itoa(v))
			if r.Chance(10) {
				// the goroutines the Get has started meanwhile (a closer; a probe on a changed tree)
				cs.script = append(cs.script, strconv.Itoa(len(cs.progs)+r.Intn(3)))
			}
		}
		if v == 1 || r.Chance(70) {
			cs.script = append(cs.script, "x"+strconv.Itoa(v))
		}
	}
	if other >= 0 && r.Chance(70) {
		cs.script = append(cs.script, "U"+strconv.Itoa(other)+":"+r.Pick("idle", "idle", "g.sel", "us", "c.drain", "r.sel"))
	}
	if r.Chance(25) {
		cs.script = append(cs.script, "t"+strconv.Itoa(1+r.Intn(L+1)))
	}
	if closer >= 0 && r.Chance(60) {
		cs.script = append(cs.script, "U"+strconv.Itoa(closer)+":"+r.Pick("idle", "idle", "s.lock", "s.drain"))
	}
	for v := 1; v <= nv; v++ {
		cs.script = append(cs.script, "U"+strconv.Itoa(v)+":idle")
	}
	return cs
}

// c19GenTickShutdown: the pool's own ticker goroutine is a task of the schedule (last program, k = its ticker fires).
// One or two buckets hold idle connections; a worker calls pool.Close() and is stepped a chosen number of times —
// before the stop signal, at the lock, between two buckets, while a connection's Close() is in progress — then the
// clean-up ticker fires and the ticker goroutine runs into CleanUp (as far as it gets), others Get / Return
// meanwhile; then everybody runs to the end.  Liveness: Close, Get, Return and the sweep all come back.
func c19GenTickShutdown(r *vh.Rng) *c19Case {
	cs := &c19Case{style: "scenario tick-shutdown"}
	cs.maxKeys = 1 + r.Intn(3)
	cs.maxConns = 1 + r.Intn(3)
	cs.maxLife = int64(1 + r.Intn(4))
	cs.stale = int64(r.Intn(6))
	nk := 1 + r.Intn(2)
	var p0 []string
	n := 1 + r.Intn(cs.maxConns+1)
	for k := 0; k < nk; k++ {
		for i := 0; i < n; i++ {
			p0 = append(p0, "g"+strconv.Itoa(k))
		}
	}
	for i := 0; i < n*nk; i++ {
		p0 = append(p0, "r")
	}
	closer := []string{"s"}
	if r.Chance(30) {
		closer = []string{"g0", "r", "s"}
	}
	if r.Chance(25) {
		closer = append(closer, "g0", "r")
	}
	cs.progs = [][]string{p0, closer}
	nOther := r.Intn(3)
	for i := 0; i < nOther; i++ {
		cs.progs = append(cs.progs, c19Session(r, nk))
	}
	tk := len(cs.progs)
	nt := 1 + r.Intn(2)
	var ks []string
	for i := 0; i < nt; i++ {
		ks = append(ks, "k")
	}
	cs.progs = append(cs.progs, ks)
	for i := 0; i < 2*len(p0); i++ {
		cs.script = append(cs.script, "U0:idle")
	}
	if r.Chance(50) {
		cs.script = append(cs.script, "t"+strconv.Itoa(1+r.Intn(5)))
	}
	if r.Chance(20) {
		// an early sweep: the ticker goroutine is already inside CleanUp when Close starts
		for i, m := 0, 1+r.Intn(3); i < m; i++ {
			cs.script = append(cs.script, strconv.Itoa(tk))
		}
	}
	other := func() {
		if nOther > 0 && r.Chance(40) {
			for i, m := 0, 1+r.Intn(5); i < m; i++ {
				cs.script = append(cs.script, strconv.Itoa(2+r.Intn(nOther)))
			}
		}
	}
	// Close() goes some way …
	for i, m := 0, r.Intn(3+4*n*nk); i < m; i++ {
		cs.script = append(cs.script, "1")
		if r.Chance(8) {
			other()
		}
	}
	other()
	// … the ticker fires and the ticker goroutine goes as far as it gets
	for i, m := 0, 1+r.Intn(4); i < m; i++ {
		cs.script = append(cs.script, strconv.Itoa(tk))
	}
	other()
	if r.Chance(50) {
		for i, m := 0, 1+r.Intn(6); i < m; i++ {
			cs.script = append(cs.script, "1")
		}
		cs.script = append(cs.script, strconv.Itoa(tk))
		other()
	}
	cs.script = append(cs.script, "U1:idle")
	return cs
}

// c19GenFreshKey: several workers hold connections for a key that has no bucket (first use of the key, or the bucket
// was dropped by a sweep / an expiry meanwhile) and return them at the same time: the Returns are interleaved one
// synchronisation point at a time (every lock acquisition — reader or writer side —, select, helper yield), so that
// each of them may have looked the bucket up before any of them has created it.  Then the key is asked for again
// and the pool may be shut down: every returned connection is handed out again or closed once.
func c19GenFreshKey(r *vh.Rng) *c19Case {
	cs := &c19Case{style: "scenario fresh-key"}
	cs.maxKeys = 1 + r.Intn(3)
	cs.maxConns = 2 + r.Intn(2)
	cs.maxLife = int64(2 + r.Intn(3))
	cs.stale = int64(r.Intn(6))
	nr := 2 + r.Intn(2)
	warm := r.Chance(35) // the key had a bucket before: it is swept / expires while the connections are out
	for w := 0; w < nr; w++ {
		p := []string{"g0"}
		if r.Chance(20) {
			p = append(p, "g0")
		}
		if warm && w == 0 {
			p = []string{"g0", "r", "g0"}
		}
		if r.Chance(40) {
			p = append(p, "u")
		}
		p = append(p, "r")
		if len(p) > 3 && r.Chance(50) {
			p = append(p, "r")
		}
		cs.progs = append(cs.progs, p)
	}
	sweeper := -1
	if warm {
		sweeper = len(cs.progs)
		cs.progs = append(cs.progs, []string{"c"})
	}
	again := len(cs.progs)
	cs.progs = append(cs.progs, []string{"g0", "g0", "g0", "u", "r", "r", "r"}[:3+r.Intn(5)])
	if r.Chance(60) {
		cs.progs = append(cs.progs, []string{"s"})
	}
	// everybody takes his connection(s) out (the ops up to the last Get of his program)
	for w := 0; w < nr; w++ {
		last := 0
		for i, o := range cs.progs[w] {
			if o[0] == 'g' {
				last = i
			}
		}
		for i := 0; i <= last; i++ {
			cs.script = append(cs.script, "U"+strconv.Itoa(w)+":idle")
		}
	}
	if warm {
		cs.script = append(cs.script, "t"+strconv.Itoa(int(cs.stale)+1), "U"+strconv.Itoa(sweeper)+":idle", "U"+strconv.Itoa(sweeper)+":idle")
	}
	// the Returns, in lock step (with a few random pre-emptions)
	for round, m := 0, 6+r.Intn(6); round < m; round++ {
		for _, w := range c19Perm(r, nr) {
			if r.Chance(85) {
				cs.script = append(cs.script, strconv.Itoa(w))
			}
		}
		if r.Chance(10) {
			cs.script = append(cs.script, strconv.Itoa(len(cs.progs)+r.Intn(3))) // a closer the pool started
		}
	}
	for w := 0; w < nr; w++ {
		cs.script = append(cs.script, "U"+strconv.Itoa(w)+":done")
	}
	cs.script = append(cs.script, "U"+strconv.Itoa(again)+":done")
	return cs
}

func c19Gen(r *vh.Rng) *c19Case {
	if r.Chance(30) {
		if r.Chance(12) {
			return c19GenFreshKey(r)
		}
		if r.Chance(25) {
			return c19GenFullMap(r)
		}
		if r.Chance(25) {
			return c19GenTickShutdown(r)
		}
		if r.Chance(25) {
			return c19GenCancel(r)
		}
		return c19GenScenario(r)
	}
	cs := &c19Case{}
	cs.maxKeys = 1 + r.Intn(3)
	cs.maxConns = []int{0, 1, 1, 2, 2, 3}[r.Intn(6)]
	cs.maxLife = int64(r.Intn(5))
	cs.stale = int64(r.Intn(7))
	nkeys := 1 + r.Intn(3)
	nw := 1 + r.Intn(4)
	if r.Chance(25) {
		nw = 1 + r.Intn(8)
	}
	shut := r.Chance(45)
	shutAt := r.Intn(nw)
	for w := 0; w < nw; w++ {
		var p []string
		switch {
		case r.Chance(20):
			n := 1 + r.Intn(3)
			for i := 0; i < n; i++ {
				p = append(p, "c")
			}
		default:
			p = c19Session(r, nkeys)
			if r.Chance(20) {
				p = append(p, "c")
			}
		}
		if shut && w == shutAt {
			at := r.Intn(len(p) + 1)
			if r.Chance(50) {
				at = len(p)
			}
			p = append(p[:at:at], append([]string{"s"}, p[at:]...)...)
		}
		cs.progs = append(cs.progs, p)
	}
	// in one case out of three the pool's own ticker goroutine is a task of the schedule (its ticker fires up to 3 times)
	if r.Chance(33) {
		cs.progs = append(cs.progs, []string{"k", "k", "k"}[:1+r.Intn(3)])
	}
	// schedule
	total := 0
	for _, p := range cs.progs {
		total += len(p)
	}
	length := 10 + r.Intn(total*8+10)
	// in one case out of six the contexts of some workers are cancelled / time out somewhere along the schedule
	allowX := r.Chance(16)
	envStep := func() (string, bool) {
		switch {
		case r.Chance(8):
			return "t" + strconv.Itoa(1+r.Intn(3)), true
		case r.Chance(3):
			return "b" + strconv.Itoa(r.Intn(6)), true
		case allowX && r.Chance(2):
			return "x" + strconv.Itoa(r.Intn(nw)), true
		}
		return "", false
	}
	ntasks := len(cs.progs) + 2 // spawned closers get the next ids
	switch r.Intn(4) {
	case 0:
		cs.style = "uniform"
		for i := 0; i < length; i++ {
			if e, ok := envStep(); ok {
				cs.sched = append(cs.sched, e)
				continue
			}
			cs.sched = append(cs.sched, strconv.Itoa(r.Intn(ntasks+i/10)))
		}
	case 1:
		cs.style = "sticky"
		cur := r.Intn(nw)
		sw := 5 + r.Intn(30)
		for i := 0; i < length; i++ {
			if e, ok := envStep(); ok {
				cs.sched = append(cs.sched, e)
				continue
			}
			if r.Chance(sw) {
				cur = r.Intn(ntasks + i/10)
			}
			cs.sched = append(cs.sched, strconv.Itoa(cur))
		}
	case 2:
		// delay-bounded: round-robin base order, at most 2 places where the running task is delayed
		cs.style = "delay-bounded"
		delays := map[int]bool{r.Intn(length): true, r.Intn(length): true}
		cur := 0
		run := 0
		for i := 0; i < length; i++ {
			if r.Chance(5) {
				cs.sched = append(cs.sched, "t"+strconv.Itoa(1+r.Intn(3)))
				continue
			}
			if allowX && r.Chance(2) {
				cs.sched = append(cs.sched, "x"+strconv.Itoa(r.Intn(nw)))
				continue
			}
			if delays[i] {
				cur = (cur + 1) % ntasks
				run = 0
			}
			cs.sched = append(cs.sched, strconv.Itoa(cur))
			run++
			if run > 12+r.Intn(20) {
				cur = (cur + 1) % ntasks
				run = 0
			}
		}
	default:
		// targeted: some tasks are parked for a long stretch in the middle of an operation while the others
		// (and the clock) move on: Get after unlock vs. expiry / sweep / shutdown
		cs.style = "targeted"
		victim := r.Intn(nw)
		victim2 := r.Intn(nw)
		for i := 0; i < length; i++ {
			phase := i * 4 / length
			if r.Chance(10) {
				cs.sched = append(cs.sched, "t"+strconv.Itoa(1+r.Intn(4)))
				continue
			}
			if allowX && phase >= 1 && r.Chance(3) {
				// the context of a parked Get is cancelled while the others move on
				cs.sched = append(cs.sched, "x"+strconv.Itoa([]int{victim, victim2, r.Intn(nw)}[r.Intn(3)]))
				continue
			}
			var t int
			switch phase {
			case 0:
				t = r.Intn(nw)
			case 1:
				if r.Chance(15) {
					t = victim
				} else {
					t = r.Intn(ntasks + 2)
					if t == victim {
						continue
					}
				}
			case 2:
				t = r.Intn(ntasks + 2)
				if t == victim || (t == victim2 && r.Chance(80)) {
					continue
				}
			default:
				t = r.Intn(ntasks + 4)
			}
			cs.sched = append(cs.sched, strconv.Itoa(t))
		}
	}
	return cs
}

func c19Parse(line string) (*c19Case, error) {
	f := strings.Fields(line)
	if len(f) != 8 || f[0] != "C19" || f[1] != "run" {
		return nil, fmt.Errorf("bad op line")
	}
	cs := &c19Case{style: "replay"}
	var err error
	n := func(s string) int {
		v, e := strconv.Atoi(s)
		if e != nil {
			err = e
		}
		return v
	}
	cs.maxKeys, cs.maxConns, cs.maxLife, cs.stale = n(f[2]), n(f[3]), int64(n(f[4])), int64(n(f[5]))
	for _, p := range strings.Split(f[6], "|") {
		if p == "-" {
			cs.progs = append(cs.progs, nil)
		} else {
			cs.progs = append(cs.progs, strings.Split(p, "."))
		}
	}
	if f[7] != "-" {
		cs.sched = strings.Split(f[7], ",")
	}
	return cs, err
}

func TestVerifC19Pool(t *testing.T) {
	out := vh.Open("c19")
	defer out.Close()
	if rp := vh.Replay(); rp != nil {
		for _, line := range rp {
			if !strings.HasPrefix(line, "C19 run ") {
				continue // "C19 mx …": the harness of the real connection type (internal/target/remote)
			}
			cs, err := c19Parse(line)
			if err != nil {
				t.Fatalf("replay: %v: %s", err, line)
			}
			c19Run1(cs, out)
		}
		return
	}
	n := vh.N(3000)
	for i := 0; i < n; i++ {
		if atomic.LoadInt32(&c19Stuck) >= 25 {
			// the tree under test blocks: 25 replayable violations are on record, further cases only cost time
			out.Note(fmt.Sprintf("stopped after %d of %d cases: %d steps blocked inside the code under test", i, n, atomic.LoadInt32(&c19Stuck)))
			out.Stat("stopped-early.blocked")
			break
		}
		r := vh.NewRng(vh.Seed()*1000003 + uint64(i))
		c19Run1(c19Gen(r), out)
	}
}
