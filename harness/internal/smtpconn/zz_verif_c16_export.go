package smtpconn

// VerifC16WrapClientErr exposes the conversion of SMTP client errors to the C16 harness
// (overlay-only file, see /verif/DESIGN.md).
func (c *C) VerifC16WrapClientErr(err error, serverName string) error {
	return c.wrapClientErr(err, serverName)
}
