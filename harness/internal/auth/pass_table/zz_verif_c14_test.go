package pass_table

// C14 — password authentication: histories of create / set-password / delete / PLAIN / LOGIN against the
// real auth.pass_table (on an in-memory mutable table) behind a real auth.SASLAuth with real
// auth_map_normalize functions and real table.identity / table.static / table.regexp user-name maps.
//
// For every history the harness writes (a) one correspondence line (the history + the tables of the
// library primitives, answered by the Lean model) and (b) evaluates the property itself against a
// reference credential map kept by the harness (monitor).

import (
	"context"
	"crypto/sha256"
	"encoding/base64"
	"errors"
	"fmt"
	"net"
	"reflect"
	"runtime"
	"sort"
	"strconv"
	"strings"
	"sync"
	"sync/atomic"
	"testing"
	"time"
	"unicode"

	"github.com/emersion/go-sasl"
	"github.com/foxcpp/maddy/framework/address"
	"github.com/foxcpp/maddy/framework/config"
	"github.com/foxcpp/maddy/framework/dns"
	"github.com/foxcpp/maddy/framework/log"
	"github.com/foxcpp/maddy/framework/module"
	"github.com/foxcpp/maddy/internal/auth"
	"github.com/foxcpp/maddy/internal/authz"
	"github.com/foxcpp/maddy/internal/table"
	"github.com/foxcpp/maddy/internal/verifshim/vauth"
	"github.com/foxcpp/maddy/internal/verifshim/vh"
	"golang.org/x/crypto/argon2"
	"golang.org/x/crypto/bcrypt"
	"golang.org/x/net/idna"
	"golang.org/x/text/secure/precis"
	"golang.org/x/text/unicode/norm"
)

// ---------------------------------------------------------------- scenario

type c14Op struct {
	kind    byte   // c s d p l t h (a row computed by the reference implementation of the format is written for the account) | B G (login <id> starts: inner = p l t; B is held at its hash verification, G when it has read its row) E (login <id> finishes) R (login <id>: let it run)
	authzid string // p
	u       string
	p       string // bytes
	scheme  string // c h: b a s x
	spec    string // c h: the HashOpts of the call: "" (= scheme: b = cost 4, a = 1,8,1) | b,<cost> | a,<time>,<memory KiB>,<threads>
	id      int    // B E R
	inner   byte   // B
}

type c14Scn struct {
	login   bool
	procs   int    // > 0: the hash verifications of this history run with runtime.GOMAXPROCS(procs)
	anorm   string // "nil" or a key of authz.NormalizeFuncs
	mapSpec string // nil | identity | localpart | localpart_opt | static,<k>=<v>,… | regexp,<flags>,<re>,<repl>
	ops     []c14Op

	genStats []string
}

func (o c14Op) token() string {
	switch o.kind {
	case 'c', 'h':
		return string(o.kind) + ":" + vh.HexRunes(o.u) + ":" + vh.HexBytes([]byte(o.p)) + ":" + o.fullSpec()
	case 's':
		return "s:" + vh.HexRunes(o.u) + ":" + vh.HexBytes([]byte(o.p))
	case 'd':
		return "d:" + vh.HexRunes(o.u)
	case 'p':
		return "p:" + vh.HexRunes(o.authzid) + ":" + vh.HexRunes(o.u) + ":" + vh.HexBytes([]byte(o.p))
	case 'l':
		return "l:" + vh.HexRunes(o.u) + ":" + vh.HexBytes([]byte(o.p))
	case 't':
		return "t:" + vh.HexRunes(o.u) + ":" + vh.HexBytes([]byte(o.p))
	case 'B', 'G':
		in := o
		in.kind = o.inner
		return string(o.kind) + strconv.Itoa(o.id) + ":" + in.token()
	case 'E', 'R':
		return string(o.kind) + strconv.Itoa(o.id)
	}
	panic("bad op kind")
}

func (o c14Op) fullSpec() string {
	if o.spec == "" {
		return o.scheme
	}
	return o.spec
}

// the HashOpts a spec stands for; ok=false: not a spec
func c14SpecOpts(spec string) (scheme string, opts HashOpts, ok bool) {
	f := strings.Split(spec, ",")
	num := func(s string, bits int) uint64 {
		v, err := strconv.ParseUint(s, 10, bits)
		if err != nil || (len(s) > 1 && s[0] == '0') {
			ok = false
		}
		return v
	}
	ok = true
	opts = HashOpts{BcryptCost: 4, Argon2Time: 1, Argon2Memory: 8, Argon2Threads: 1}
	switch {
	case len(f) == 1 && (f[0] == "b" || f[0] == "a" || f[0] == "s" || f[0] == "x"):
	case len(f) == 2 && f[0] == "b":
		opts.BcryptCost = int(num(f[1], 31))
	case len(f) == 4 && f[0] == "a":
		opts.Argon2Time, opts.Argon2Memory, opts.Argon2Threads = uint32(num(f[1], 32)), uint32(num(f[2], 32)), uint8(num(f[3], 8))
	default:
		ok = false
	}
	return f[0], opts, ok
}

func c14ParseOp(tok string) (c14Op, error) {
	f := strings.Split(tok, ":")
	bad := fmt.Errorf("bad op token %q", tok)
	if len(tok) > 1 && (tok[0] == 'B' || tok[0] == 'G' || tok[0] == 'E' || tok[0] == 'R') {
		id, err := strconv.Atoi(f[0][1:])
		if err != nil || id < 0 {
			return c14Op{}, bad
		}
		if tok[0] == 'E' || tok[0] == 'R' {
			if len(f) != 1 {
				return c14Op{}, bad
			}
			return c14Op{kind: tok[0], id: id}, nil
		}
		in, err := c14ParseOp(strings.Join(f[1:], ":"))
		if err != nil || (in.kind != 'p' && in.kind != 'l' && in.kind != 't') {
			return c14Op{}, bad
		}
		in.inner, in.kind, in.id = in.kind, tok[0], id
		return in, nil
	}
	if len(f) < 2 || len(f[0]) != 1 {
		return c14Op{}, bad
	}
	o := c14Op{kind: f[0][0]}
	switch {
	case (o.kind == 'c' || o.kind == 'h') && len(f) == 4:
		o.u, o.p, o.spec = vh.UnhexRunes(f[1]), string(vh.UnhexBytes(f[2])), f[3]
		sch, _, ok := c14SpecOpts(o.spec)
		if !ok || (o.kind == 'h' && sch == "x") {
			return c14Op{}, bad
		}
		o.scheme = sch
	case (o.kind == 's' || o.kind == 'l' || o.kind == 't') && len(f) == 3:
		o.u, o.p = vh.UnhexRunes(f[1]), string(vh.UnhexBytes(f[2]))
	case o.kind == 'd' && len(f) == 2:
		o.u = vh.UnhexRunes(f[1])
	case o.kind == 'p' && len(f) == 4:
		o.authzid, o.u, o.p = vh.UnhexRunes(f[1]), vh.UnhexRunes(f[2]), string(vh.UnhexBytes(f[3]))
	default:
		return c14Op{}, bad
	}
	return o, nil
}

func c14ParseLine(line string) (*c14Scn, error) {
	toks := strings.Fields(line)
	if len(toks) < 5 || toks[0] != "C14" || toks[1] != "hist" {
		return nil, fmt.Errorf("not a C14 hist line")
	}
	s := &c14Scn{login: toks[2] == "L1"}
	if !strings.HasPrefix(toks[3], "A:") || !strings.HasPrefix(toks[4], "M:") {
		return nil, fmt.Errorf("bad config tokens")
	}
	s.anorm, s.mapSpec = toks[3][2:], toks[4][2:]
	rest := toks[5:]
	if len(rest) > 0 && strings.HasPrefix(rest[0], "P:") {
		n, err := strconv.Atoi(rest[0][2:])
		if err != nil || n < 0 || n > 1024 {
			return nil, fmt.Errorf("bad P: token")
		}
		s.procs, rest = n, rest[1:]
	}
	for _, t := range rest {
		if t == "|" {
			break
		}
		o, err := c14ParseOp(t)
		if err != nil {
			return nil, err
		}
		s.ops = append(s.ops, o)
	}
	return s, nil
}

// ---------------------------------------------------------------- real objects

func c14BuildMap(spec string) (module.Table, error) {
	f := strings.Split(spec, ",")
	switch f[0] {
	case "nil":
		return nil, nil
	case "identity":
		m, err := table.NewIdentity("table.identity", "", nil, nil)
		if err != nil {
			return nil, err
		}
		return m.(module.Table), nil
	case "localpart", "localpart_opt":
		name := "table.email_localpart"
		if f[0] == "localpart_opt" {
			name = "table.email_localpart_optional"
		}
		m, err := table.NewEmailLocalpart(name, "", nil, nil)
		if err != nil {
			return nil, err
		}
		return m.(module.Table), nil
	case "static":
		m, err := table.NewStatic("table.static", "", nil, nil)
		if err != nil {
			return nil, err
		}
		var nodes []config.Node
		for _, kv := range f[1:] {
			p := strings.SplitN(kv, "=", 2)
			if len(p) != 2 {
				return nil, fmt.Errorf("bad static entry %q", kv)
			}
			nodes = append(nodes, config.Node{Name: "entry", Args: []string{vh.UnhexRunes(p[0]), vh.UnhexRunes(p[1])}})
		}
		if err := m.Init(config.NewMap(nil, config.Node{Children: nodes})); err != nil {
			return nil, err
		}
		return m.(module.Table), nil
	case "regexp":
		if len(f) != 4 {
			return nil, fmt.Errorf("bad regexp spec")
		}
		m, err := table.NewRegexp("table.regexp", "", nil, []string{vh.UnhexRunes(f[2]), vh.UnhexRunes(f[3])})
		if err != nil {
			return nil, err
		}
		yn := func(b bool) []string {
			if b {
				return []string{"yes"}
			}
			return []string{"no"}
		}
		nodes := []config.Node{
			{Name: "full_match", Args: yn(strings.Contains(f[1], "f"))},
			{Name: "case_insensitive", Args: yn(strings.Contains(f[1], "i"))},
			{Name: "expand_replaceholders", Args: yn(strings.Contains(f[1], "e"))},
		}
		if err := m.Init(config.NewMap(nil, config.Node{Children: nodes})); err != nil {
			return nil, err
		}
		return m.(module.Table), nil
	}
	return nil, fmt.Errorf("bad map spec %q", spec)
}

type c14Sys struct {
	tbl   *vauth.MemTable
	a     *Auth
	s     *auth.SASLAuth
	anorm authz.NormalizeFunc
	amap  module.Table
}

func c14NewSys(scn *c14Scn) (*c14Sys, error) {
	sys := &c14Sys{tbl: vauth.NewMemTable()}
	sys.tbl.AfterLookup = c14LookupGate
	sys.a = &Auth{modName: "auth.pass_table", table: sys.tbl}
	if scn.anorm != "nil" {
		fn, ok := authz.NormalizeFuncs[scn.anorm]
		if !ok {
			return nil, fmt.Errorf("unknown normalize func %q", scn.anorm)
		}
		sys.anorm = fn
	}
	m, err := c14BuildMap(scn.mapSpec)
	if err != nil {
		return nil, err
	}
	sys.amap = m
	sys.s = &auth.SASLAuth{
		Log:           log.Logger{Out: log.NopOutput{}, Name: "c14"},
		EnableLogin:   scn.login,
		AuthNormalize: sys.anorm,
		Plain:         []module.PlainAuth{sys.a},
	}
	if m != nil {
		sys.s.AuthMap = m
	}
	return sys, nil
}

// the account a name given to a management call stands for
func c14Account(name string) (string, bool) {
	k, err := precis.UsernameCaseMapped.CompareKey(name)
	return k, err == nil
}

// ---- the monitor's own reading of "the account the supplied user name normalizes to"
//
// Written from the documentation of auth_map_normalize (docs/reference/global-config.md: `auto` =
// `precis_casefold_email` for valid e-mail addresses, `precis_casefold` otherwise; `precis_casefold` = PRECIS
// UsernameCaseMapped for the entire string; `precis_casefold_email` = UsernameCaseMapped for the local part + U-label
// form of the domain; `precis`, `precis_email` the same with UsernameCasePreserved; `casefold` = lower case; `noop`)
// on top of the PRECIS library — NOT through authz.NormalizeFuncs / address.PRECISFold, which are code under test.

func c14RefEmail(u string, prof *precis.Profile) (string, bool) {
	mbox, domain, err := address.Split(u)
	if err != nil {
		return "", false
	}
	mbox, err = prof.CompareKey(mbox)
	if err != nil {
		return "", false
	}
	domain, err = dns.ForLookup(domain)
	if err != nil {
		return "", false
	}
	return mbox + "@" + domain, true
}

func c14RefNorm(kind, u string) (string, bool) {
	whole := func(prof *precis.Profile) (string, bool) {
		v, err := prof.CompareKey(u)
		return v, err == nil
	}
	switch kind {
	case "nil", "noop":
		return u, true
	case "auto":
		if address.Valid(u) {
			return c14RefEmail(u, precis.UsernameCaseMapped)
		}
		return whole(precis.UsernameCaseMapped)
	case "precis_casefold_email":
		return c14RefEmail(u, precis.UsernameCaseMapped)
	case "precis_casefold":
		return whole(precis.UsernameCaseMapped)
	case "precis_email":
		return c14RefEmail(u, precis.UsernameCasePreserved)
	case "precis":
		return whole(precis.UsernameCasePreserved)
	case "casefold":
		return strings.ToLower(u), true
	}
	panic("unknown normalisation " + kind)
}

// the user-name map as configured: identity, static (exact match on the configured key), email_localpart(_optional);
// a regexp map is evaluated by the table module itself (its semantics is that of Go's regexp package).
func (sys *c14Sys) refMap(spec, n string) (string, bool) {
	f := strings.Split(spec, ",")
	switch f[0] {
	case "nil", "identity":
		return n, true
	case "localpart", "localpart_opt":
		mbox, _, err := address.Split(n)
		if err != nil {
			return n, f[0] == "localpart_opt"
		}
		return mbox, true
	case "static":
		v, ok := "", false
		for _, kv := range f[1:] {
			p := strings.SplitN(kv, "=", 2)
			if len(p) == 2 && vh.UnhexRunes(p[0]) == n {
				v, ok = vh.UnhexRunes(p[1]), true
			}
		}
		return v, ok
	}
	v, ok, err := sys.amap.Lookup(context.Background(), n)
	return v, ok && err == nil
}

// the account a user name supplied over SASL normalises to: auth_map_normalize, then auth_map ONCE,
// then the table's key form
func (sys *c14Sys) resolve(scn *c14Scn, u string) (string, bool) {
	n, ok := c14RefNorm(scn.anorm, u)
	if !ok {
		return "", false
	}
	n, ok = sys.refMap(scn.mapSpec, n)
	if !ok {
		return "", false
	}
	return c14Account(n)
}

// ---------------------------------------------------------------- primitive tables for the model

func c14Tables(sys *c14Sys, scn *c14Scn) string {
	set := map[string]bool{}
	for _, o := range scn.ops {
		if o.kind == 'E' || o.kind == 'R' {
			continue
		}
		set[o.u] = true
		if o.kind == 'p' || o.kind == 'B' || o.kind == 'G' {
			set[o.authzid] = true
		}
	}
	type row struct{ tag, in, out string }
	var rows []row
	done := map[string]bool{}
	for round := 0; round < 3; round++ {
		keys := make([]string, 0, len(set))
		for k := range set {
			if !done[k] {
				keys = append(keys, k)
			}
		}
		sort.Strings(keys)
		for _, k := range keys {
			done[k] = true
			enc := func(s string, ok bool) string {
				if !ok {
					return "!"
				}
				return vh.HexRunes(s)
			}
			n, err := precis.UsernameCaseMapped.CompareKey(k)
			rows = append(rows, row{"n", k, enc(n, err == nil)})
			if err == nil {
				set[n] = true
			}
			// the library primitives the configured auth_map_normalize function is documented to be built from
			// (the model composes them: Model/Auth.lean normalizeFunc); computed by the primitives themselves
			prim := func(tag string, f func(string) (string, error)) {
				v, err := f(k)
				rows = append(rows, row{tag, k, enc(v, err == nil)})
				if err == nil {
					set[v] = true
				}
			}
			switch scn.anorm {
			case "auto":
				if address.Valid(k) {
					rows = append(rows, row{"v", k, "1"})
					prim("f", address.PRECISFold)
				} else {
					rows = append(rows, row{"v", k, "0"})
				}
			case "precis_casefold_email":
				prim("f", address.PRECISFold)
			case "precis_email":
				prim("g", address.PRECIS)
			case "precis":
				prim("q", precis.UsernameCasePreserved.CompareKey)
			case "casefold":
				prim("w", func(s string) (string, error) { return strings.ToLower(s), nil })
			}
			if sys.amap != nil {
				v, ok, err := sys.amap.Lookup(context.Background(), k)
				rows = append(rows, row{"m", k, enc(v, ok && err == nil)})
				if ok && err == nil {
					set[v] = true
				}
			}
		}
	}
	var b strings.Builder
	for _, r := range rows {
		b.WriteString(" " + r.tag + ":" + vh.HexRunes(r.in) + ":" + r.out)
	}
	return b.String()
}

func c14Line(sys *c14Sys, scn *c14Scn) string {
	var b strings.Builder
	b.WriteString("C14 hist ")
	if scn.login {
		b.WriteString("L1")
	} else {
		b.WriteString("L0")
	}
	b.WriteString(" A:" + scn.anorm + " M:" + scn.mapSpec + " P:" + strconv.Itoa(scn.procs))
	for _, o := range scn.ops {
		b.WriteString(" " + o.token())
	}
	b.WriteString(" |")
	b.WriteString(c14Tables(sys, scn))
	return b.String()
}

// ---------------------------------------------------------------- running one SASL exchange

type c14Auth struct {
	res      string // ok | fail | unsup | fail-other
	identity string
	cbCount  int
	data     auth.ContextData
}

func (r c14Auth) obs() string {
	if r.res == "ok" {
		return "ok=" + vh.HexRunes(r.identity)
	}
	return r.res
}

func c14Exchange(s *auth.SASLAuth, mech, authzid, u, p string, initialResponse bool) c14Auth {
	var r c14Auth
	srv := s.CreateSASL(mech, &net.TCPAddr{IP: net.IPv4(127, 0, 0, 1), Port: 1}, func(identity string, d auth.ContextData) error {
		r.cbCount++
		r.identity = identity
		r.data = d
		return nil
	})
	var steps [][]byte
	switch mech {
	case sasl.Plain:
		steps = [][]byte{[]byte(authzid + "\x00" + u + "\x00" + p)}
	case sasl.Login:
		steps = [][]byte{[]byte(u), []byte(p)}
	}
	if !initialResponse {
		steps = append([][]byte{nil}, steps...)
	}
	var err error
	done := false
	for _, st := range steps {
		_, done, err = srv.Next(st)
		if err != nil || done {
			break
		}
	}
	switch {
	case err == nil && done:
		r.res = "ok"
	case err == nil:
		r.res = "fail-other" // exchange not finished
	case errors.Is(err, auth.ErrUnsupportedMech):
		r.res = "unsup"
	case errors.Is(err, auth.ErrInvalidAuthCred):
		r.res = "fail"
	default:
		r.res = "fail-other"
	}
	return r
}

func c14Mgmt(err error) string {
	switch {
	case err == nil:
		return "ok"
	case strings.Contains(err.Error(), "unknown hash function"):
		return "e-algo"
	case strings.Contains(err.Error(), "(raw)"):
		return "e-name"
	case strings.Contains(err.Error(), "already exist"):
		return "e-exists"
	case strings.Contains(err.Error(), "hash generation"):
		return "e-hash"
	}
	return "e-other"
}

// coarse class of a parameter choice, for the input statistics
func c14SpecClass(spec string) string {
	sch, o, _ := c14SpecOpts(spec)
	switch sch {
	case "b":
		switch c := o.BcryptCost; {
		case c < bcrypt.MinCost:
			return "bcrypt.cost-below-min(default-is-used)"
		case c > bcrypt.MaxCost:
			return "bcrypt.cost-over-max(refused)"
		default:
			return fmt.Sprintf("bcrypt.cost-%02d", c)
		}
	case "a":
		if o.Argon2Time < 1 || o.Argon2Threads < 1 {
			return "argon2.no-pass-or-no-lane(panic)"
		}
		procs := c14MachineProcs
		lanes := "lanes-over-cpus"
		switch l := int(o.Argon2Threads); {
		case l == 1:
			lanes = "lanes-1"
		case l <= procs:
			lanes = "lanes-2-to-cpus"
		case l == 255:
			lanes = "lanes-255"
		}
		time := strconv.Itoa(int(o.Argon2Time))
		if o.Argon2Time > 3 {
			time = "4-to-16"
		}
		if o.Argon2Memory >= 4096 {
			lanes += ".mem-4MiB-or-more"
		}
		return fmt.Sprintf("argon2.time-%s.%s", time, lanes)
	}
	return sch
}

var c14MachineProcs = runtime.GOMAXPROCS(0)

var c14Schemes = map[string]string{"b": HashBcrypt, "a": HashArgon2, "s": HashSHA256, "x": "md5"}

// ---------------------------------------------------------------- reference (the property's own reading)

type c14Ref struct {
	scheme string
	pw     string
	spec   string // the parameters the row was asked to be made with
}

// ---- the documented row format, written down independently of hash.go (docs/reference/auth/pass_table.md, hash.go's
// header comment: "parameters should be stored together with the hashed password so it can be verified independently
// of the used HashOpts"):
//   bcrypt:<crypt(3) string of golang.org/x/crypto/bcrypt: $2a$<cost>$<salt><key>>
//   argon2:<time>:<memory KiB>:<lanes>:<base64 salt>:<base64 argon2id key, 64 bytes>
//   sha256:<base64 salt>:<base64 SHA-256(salt ‖ password)>
// c14RefRow makes such a row by calling the primitives directly with the parameters that it writes into the string;
// c14RefCheck reads a row: the parameters written in it, and whether the password reproduces its key under them.

func c14EffCost(cost int) int {
	if cost < bcrypt.MinCost {
		return bcrypt.DefaultCost
	}
	return cost
}

func c14RefSalt(seed string, n int) []byte {
	var out []byte
	for i := 0; len(out) < n; i++ {
		h := sha256.Sum256([]byte(fmt.Sprintf("c14-salt-%d-%s", i, seed)))
		out = append(out, h[:]...)
	}
	return out[:n]
}

// ok=false: the primitives refuse these inputs (bcrypt: more than 72 bytes, cost over 31; argon2: no pass / no lane)
func c14RefRow(spec, pw string) (row string, ok bool) {
	sch, o, _ := c14SpecOpts(spec)
	b64 := base64.StdEncoding.EncodeToString
	switch sch {
	case "b":
		h, err := bcrypt.GenerateFromPassword([]byte(pw), o.BcryptCost)
		if err != nil {
			return "", false
		}
		return "bcrypt:" + string(h), true
	case "a":
		if o.Argon2Time < 1 || o.Argon2Threads < 1 {
			return "", false
		}
		salt := c14RefSalt(spec+"/"+pw, []int{16, 16, 16, 8, 32}[(len(pw)+int(o.Argon2Memory))%5]) // other tools draw other salt lengths
		key := argon2.IDKey([]byte(pw), salt, o.Argon2Time, o.Argon2Memory, o.Argon2Threads, 64)
		return fmt.Sprintf("argon2:%d:%d:%d:%s:%s", o.Argon2Time, o.Argon2Memory, o.Argon2Threads, b64(salt), b64(key)), true
	case "s":
		salt := c14RefSalt(spec+"/"+pw, 32)
		sum := sha256.Sum256(append(append([]byte{}, salt...), pw...))
		return "sha256:" + b64(salt) + ":" + b64(sum[:]), true
	}
	return "", false
}

// the parameters written in a row in spec form ("b,<cost>", "a,<t>,<m>,<lanes>", "s"); cheap: nothing is derived
func c14RowSpec(row string) (string, bool) {
	f := strings.Split(row, ":")
	switch {
	case f[0] == "bcrypt" && len(f) == 2:
		cost, err := bcrypt.Cost([]byte(f[1]))
		return "b," + strconv.Itoa(cost), err == nil
	case f[0] == "argon2" && len(f) == 6:
		return "a," + f[1] + "," + f[2] + "," + f[3], true
	case f[0] == "sha256" && len(f) == 3:
		return "s", true
	}
	return "", false
}

// does the password reproduce the key of the row under the parameters written in the row?
func c14RefCheck(row, pw string) (match, wellFormed bool) {
	f := strings.Split(row, ":")
	dec := base64.StdEncoding.DecodeString
	switch {
	case f[0] == "bcrypt" && len(f) == 2:
		err := bcrypt.CompareHashAndPassword([]byte(f[1]), []byte(pw))
		return err == nil, err == nil || errors.Is(err, bcrypt.ErrMismatchedHashAndPassword)
	case f[0] == "argon2" && len(f) == 6:
		t, e1 := strconv.ParseUint(f[1], 10, 32)
		m, e2 := strconv.ParseUint(f[2], 10, 32)
		l, e3 := strconv.ParseUint(f[3], 10, 8)
		salt, e4 := dec(f[4])
		key, e5 := dec(f[5])
		if e1 != nil || e2 != nil || e3 != nil || e4 != nil || e5 != nil || t < 1 || l < 1 || len(key) == 0 {
			return false, false
		}
		return string(argon2.IDKey([]byte(pw), salt, uint32(t), uint32(m), uint8(l), uint32(len(key)))) == string(key), true
	case f[0] == "sha256" && len(f) == 3:
		salt, e1 := dec(f[1])
		key, e2 := dec(f[2])
		if e1 != nil || e2 != nil {
			return false, false
		}
		sum := sha256.Sum256(append(append([]byte{}, salt...), pw...))
		return string(sum[:]) == string(key), true
	}
	return false, false
}

// do the primitives accept these inputs (c14RefRow's ok, without deriving anything)
func c14Hashable(spec, pw string) bool {
	sch, o, _ := c14SpecOpts(spec)
	switch sch {
	case "b":
		return len(pw) <= 72 && c14EffCost(o.BcryptCost) <= bcrypt.MaxCost
	case "a":
		return o.Argon2Time >= 1 && o.Argon2Threads >= 1
	}
	return sch == "s"
}

// the spec with the defaults written out and bcrypt's cost rule applied: what a row made with it must say
func c14CanonSpec(spec string) string {
	sch, o, _ := c14SpecOpts(spec)
	switch sch {
	case "b":
		return "b," + strconv.Itoa(c14EffCost(o.BcryptCost))
	case "a":
		return fmt.Sprintf("a,%d,%d,%d", o.Argon2Time, o.Argon2Memory, o.Argon2Threads)
	}
	return sch
}

// rows whose verification is cheap enough to be repeated by the monitor / to be run alone under a lowered GOMAXPROCS
func c14CheapRow(row string) bool {
	if strings.HasPrefix(row, "bcrypt:") {
		row = row[len("bcrypt:"):]
	}
	if strings.HasPrefix(row, "$2") {
		cost, err := bcrypt.Cost([]byte(row))
		return err == nil && cost <= 7
	}
	return true
}

func c14BcryptKey(p string) [72]byte {
	k := append([]byte(p), 0)
	var out [72]byte
	for i := range out {
		out[i] = k[i%len(k)]
	}
	return out
}

// "the supplied password is the one set": byte equality; for bcrypt modulo its documented key rule
// (NUL-terminated password, cyclically expanded, only the first 72 bytes are significant).
func c14SamePw(scheme, supplied, set string) bool {
	if scheme == "b" {
		return c14BcryptKey(supplied) == c14BcryptKey(set)
	}
	return supplied == set
}

// ---------------------------------------------------------------- overlapping logins
//
// A login that is to overlap others runs in its own goroutine.  Every entry of the package's HashVerify table is
// wrapped: a verification called from a goroutine that registered a gate reports "entered" and waits until the
// history's controller releases it — so the controller decides, without looking at a clock, which logins are inside
// their hash verification at the same time, and what happens to the account meanwhile.  Verifications called from
// any other goroutine pass straight through.

type c14Gate struct {
	entered, release chan struct{} // the login is held / may go on
	inVerify         chan struct{} // the login has reached its own hash verification
	eOnce, rOnce     sync.Once
	vOnce            sync.Once
	atLookup         bool // hold the login as soon as it has read its row (else: when it enters the hash verification)
}

func (g *c14Gate) hold() {
	g.eOnce.Do(func() { close(g.entered) })
	<-g.release
}

// hook of the credentials table (vauth.MemTable.AfterLookup)
func c14LookupGate() {
	if g, ok := c14Gates.Load(c14Goid()); ok && g.(*c14Gate).atLookup {
		g.(*c14Gate).hold()
	}
}

func c14NewGate() *c14Gate {
	return &c14Gate{entered: make(chan struct{}), release: make(chan struct{}), inVerify: make(chan struct{})}
}
func (g *c14Gate) open() { g.rOnce.Do(func() { close(g.release) }) }

var (
	c14Envs        sync.Map     // goroutine id -> int: GOMAXPROCS for the hash verifications called from this goroutine
	c14ProcsMu     sync.RWMutex // write side: a verification that runs with a changed GOMAXPROCS (alone); read side: all others
	c14Gates       sync.Map     // goroutine id -> *c14Gate
	c14GatesOnce   sync.Once
	c14StallsSeen  int64
	c14HardTimeout = 90 * time.Second
)

func c14Goid() uint64 {
	var buf [64]byte
	b := buf[:runtime.Stack(buf[:], false)]
	b = b[len("goroutine "):]
	var id uint64
	for _, ch := range b {
		if ch < '0' || ch > '9' {
			break
		}
		id = id*10 + uint64(ch-'0')
	}
	return id
}

func c14InstallGates() {
	c14GatesOnce.Do(func() {
		for algo, f := range HashVerify {
			f, algo := f, algo
			HashVerify[algo] = func(pass, hashSalt string) error {
				id := c14Goid()
				if g, ok := c14Gates.Load(id); ok {
					gate := g.(*c14Gate)
					gate.vOnce.Do(func() { close(gate.inVerify) })
					gate.hold()
				}
				// the environment of the verifying process: a history may ask for its verifications to run on fewer CPUs than
				// the stored hashes were made for (runtime.GOMAXPROCS(n) around the call, restored afterwards; such calls run
				// alone so that no other history's argon2 verification sees the changed value)
				if algo != HashArgon2 {
					return f(pass, hashSalt) // no parallelism parameter; seconds of bcrypt in total: neither waits for, nor holds up, the others
				}
				if e, ok := c14Envs.Load(id); ok && e.(int) > 0 {
					c14ProcsMu.Lock()
					old := runtime.GOMAXPROCS(e.(int))
					defer func() {
						runtime.GOMAXPROCS(old)
						c14ProcsMu.Unlock()
					}()
					return f(pass, hashSalt)
				}
				c14ProcsMu.RLock()
				defer c14ProcsMu.RUnlock()
				return f(pass, hashSalt)
			}
		}
	})
}

// how long the controller waits for a started login to show up (at its verification, or finished) before it goes
// on with the schedule.  The unchanged code always shows up; the bound only matters for code that makes a login
// wait for another one, and it shrinks once that has been seen a few times.
func c14StallBound() time.Duration {
	if atomic.LoadInt64(&c14StallsSeen) >= 3 {
		return 150 * time.Millisecond
	}
	return 2 * time.Second
}

type c14Pending struct {
	id, opIdx, obsIdx int
	op                c14Op
	gate              *c14Gate
	done              chan struct{}
	res               c14Auth // p l
	derr              error   // t
	start             int     // number of management operations completed when the login was started
}

type c14Viol struct{ sig, detail string }

type c14Result struct {
	line  string
	obs   string
	viols []c14Viol
	stats []string
}

func c14RunScn(scn *c14Scn) (res c14Result) {
	sys, err := c14NewSys(scn)
	if err != nil {
		panic(err)
	}
	res.line = c14Line(sys, scn)
	if scn.procs > 0 {
		me := c14Goid()
		c14Envs.Store(me, scn.procs)
		defer c14Envs.Delete(me)
	}
	viol := func(sig, format string, a ...interface{}) {
		res.viols = append(res.viols, c14Viol{sig, fmt.Sprintf(format, a...)})
	}
	stat := func(k string) { res.stats = append(res.stats, k) }

	ref := map[string]c14Ref{} // account -> last password set
	account := c14Account
	resolve := func(u string) (string, bool) { return sys.resolve(scn, u) }
	// states[j] = the reference map after j management operations (what an overlapping login may have seen)
	states := []map[string]c14Ref{{}}
	pushState := func() {
		cp := make(map[string]c14Ref, len(ref))
		for k, v := range ref {
			cp[k] = v
		}
		states = append(states, cp)
	}
	var obs []string
	nAuthOK := 0
	var pending []*c14Pending
	releaseAll := func() {
		for _, pl := range pending {
			pl.gate.open()
		}
	}
	// management while logins are in flight: never let the controller itself get stuck behind a login
	mgmt := func(f func() error) error {
		if len(pending) == 0 {
			return f()
		}
		ch := make(chan error, 1)
		go func() { ch <- f() }()
		select {
		case err := <-ch:
			return err
		case <-time.After(c14StallBound()):
			atomic.AddInt64(&c14StallsSeen, 1)
			stat("conc.management-waits-for-login")
			releaseAll()
			return <-ch
		}
	}
	begin := func(i int, o c14Op, id int) *c14Pending {
		pl := &c14Pending{id: id, opIdx: i, obsIdx: -1, op: o, gate: c14NewGate(), done: make(chan struct{}), start: len(states) - 1}
		pl.gate.atLookup = o.kind == 'G'
		lk0 := sys.tbl.Lookups()
		go func() {
			gid := c14Goid()
			c14Gates.Store(gid, pl.gate)
			defer close(pl.done)
			defer c14Gates.Delete(gid)
			if scn.procs > 0 {
				c14Envs.Store(gid, scn.procs)
				defer c14Envs.Delete(gid)
			}
			if o.inner == 't' {
				pl.derr = sys.a.AuthPlain(o.u, o.p)
				return
			}
			mech := sasl.Plain
			if o.inner == 'l' {
				mech = sasl.Login
			}
			pl.res = c14Exchange(sys.s, mech, o.authzid, o.u, o.p, i%2 == 0)
		}()
		// wait until the login is inside its verification (or over); a login that has read its row and then neither
		// verifies nor returns is waiting for something else — go on, the schedule will show for what
		t0 := time.Now()
		var seen time.Time
		for parked := false; !parked; {
			select {
			case <-pl.gate.entered:
				stat("conc.started.held." + string(o.kind))
				parked = true
			case <-pl.done:
				stat("conc.started.returned-at-once")
				parked = true
			case <-time.After(200 * time.Microsecond):
				if seen.IsZero() && sys.tbl.Lookups() != lk0 {
					seen = time.Now()
				}
				if !seen.IsZero() && time.Since(seen) > 25*time.Millisecond {
					stat("conc.started.row-read-then-waiting")
					parked = true
				} else if time.Since(t0) > c14StallBound() {
					atomic.AddInt64(&c14StallsSeen, 1)
					stat("conc.started.waiting")
					parked = true
				}
			}
		}
		pending = append(pending, pl)
		return pl
	}
	// the property for a login whose interval covered the table states start..end: it may succeed only if the supplied
	// password was the current one of the account at SOME of these states, and may fail only if at some state it was not
	settle := func(pl *c14Pending) string {
		for j, q := range pending {
			if q == pl {
				pending = append(pending[:j:j], pending[j+1:]...)
				break
			}
		}
		o, i, end := pl.op, pl.opIdx, len(states)-1
		var k string
		var okName bool
		if o.inner == 't' {
			k, okName = account(o.u)
		} else {
			k, okName = resolve(o.u)
		}
		anyRight, anyWrong := false, false
		for j := pl.start; j <= end; j++ {
			rf, exists := states[j][k]
			if okName && exists && c14SamePw(rf.scheme, o.p, rf.pw) {
				anyRight = true
			} else {
				anyWrong = true
			}
		}
		stat(fmt.Sprintf("conc.window.states.%d", end-pl.start+1))
		switch {
		case anyRight && anyWrong:
			stat("conc.password.current-during-part-of-the-login")
		case anyRight:
			stat("conc.password.current")
		default:
			stat("conc.password.not-current")
		}
		what := fmt.Sprintf("op %d (login %d, overlapping %d other logins and %d management operations)", i, pl.id, len(pending), end-pl.start)
		if o.inner == 't' {
			ok := pl.derr == nil
			stat(fmt.Sprintf("conc.direct.%v", ok))
			if ok && !anyRight {
				viol("C14/auth-accepts-wrong-password", "%s: pass_table.AuthPlain(%q, %x) succeeded; the password was not the current one of account %q at any point of the login", what, o.u, o.p, k)
			}
			if !ok && !anyWrong {
				viol("C14/auth-refuses-current-password", "%s: pass_table.AuthPlain(%q, %x) failed (%v) although the password was the current one of account %q throughout the login", what, o.u, o.p, pl.derr, k)
			}
			if ok {
				nAuthOK++
				return "ok"
			}
			return "fail"
		}
		r := pl.res
		mech := sasl.Plain
		if o.inner == 'l' {
			mech = sasl.Login
		}
		stat("conc." + mech + "." + r.res)
		authzOK := o.inner == 'l' || o.authzid == "" || o.authzid == o.u
		mechOK := o.inner == 'p' || scn.login
		if r.res == "ok" {
			nAuthOK++
			if !authzOK {
				viol("C14/authzid-mismatch-accepted", "%s: PLAIN authzid %q with authcid %q succeeded", what, o.authzid, o.u)
			} else if !anyRight || !mechOK {
				viol("C14/auth-accepts-wrong-password", "%s: %s %q/%x succeeded; the password was not the current one of account %q (resolved=%v) at any point of the login", what, mech, o.u, o.p, k, okName)
			}
			if r.cbCount != 1 || r.data.Password != o.p || r.identity != o.u {
				viol("C14/success-callback", "%s: callback ran %d times, identity %q, password passed on equal=%v", what, r.cbCount, r.identity, r.data.Password == o.p)
			}
		} else {
			if authzOK && mechOK && !anyWrong {
				viol("C14/auth-refuses-current-password", "%s: %s %q/%x gave %s although the password was the current one of account %q throughout the login", what, mech, o.u, o.p, r.res, k)
			}
			if r.cbCount != 0 {
				viol("C14/success-callback", "%s: callback ran on a failed exchange", what)
			}
			if o.inner == 'l' && !scn.login && r.res != "unsup" {
				viol("C14/login-disabled", "%s: LOGIN is disabled but the exchange gave %s", what, r.res)
			}
		}
		return r.obs()
	}
	// let login pl finish and report its verdict; false: it did not return (it waits for another login)
	finish := func(pl *c14Pending, bound time.Duration) bool {
		pl.gate.open()
		select {
		case <-pl.done:
			return true
		case <-time.After(bound):
			return false
		}
	}
	findPending := func(id int) *c14Pending {
		for _, pl := range pending {
			if pl.id == id {
				return pl
			}
		}
		return nil
	}
	checkKeys := func(i int) {
		keys, _ := sys.tbl.Keys()
		var want []string
		for k := range ref {
			want = append(want, k)
		}
		sort.Strings(want)
		if !reflect.DeepEqual(append([]string{}, keys...), append([]string{}, want...)) && !(len(keys) == 0 && len(want) == 0) {
			viol("C14/table-keys", "after op %d the table holds accounts %q, the history implies %q", i, keys, want)
		}
		for k, v := range sys.tbl.Snapshot() {
			if r, ok := ref[k]; ok && !strings.HasPrefix(v, c14Schemes[r.scheme]+":") {
				viol("C14/table-row", "after op %d row %q does not carry scheme %s", i, k, r.scheme)
			}
		}
	}

	// the row the code has just written for account k, read with the reference reading of the format: it says the parameters
	// the call asked for, and the password just set reproduces its key under THESE parameters
	checkRow := func(i int, k string) {
		row, has := sys.tbl.Snapshot()[k]
		if !has {
			return // reported by checkKeys
		}
		rf := ref[k]
		if got, ok := c14RowSpec(row); !ok || got != c14CanonSpec(rf.spec) {
			viol("C14/table-row", "after op %d row %q says parameters %q (well-formed=%v), the operation asked for %q", i, k, got, ok, c14CanonSpec(rf.spec))
		}
		if c14CheapRow(row) {
			stat("row.checked-with-the-reference")
			if match, wf := c14RefCheck(row, rf.pw); !match {
				viol("C14/table-row", "after op %d the password just set for %q does not reproduce the key of its row under the parameters written in the row (well-formed=%v)", i, k, wf)
			}
		}
	}

	for i, o := range scn.ops {
		if len(pending) > 0 && (o.kind == 'p' || o.kind == 'l' || o.kind == 't') {
			// an ordinary login while others are in flight is a login that starts and finishes without anything in between
			o.inner, o.kind, o.id = o.kind, 'X', -1-i
		}
		switch o.kind {
		case 'B', 'G', 'X':
			if o.kind != 'X' && findPending(o.id) != nil {
				obs = append(obs, "bad-schedule")
				continue
			}
			begin(i, o, o.id)
			stat("conc.login." + string(o.inner))
			stat(fmt.Sprintf("conc.in-flight.%d", len(pending)))
			if o.kind != 'X' {
				obs = append(obs, "-")
				continue
			}
			fallthrough
		case 'E':
			pl := findPending(o.id)
			if pl == nil {
				obs = append(obs, "no-login")
				continue
			}
			// a login inside its OWN verification returns once it is released; one that is anywhere else (it read its row
			// and has not started to verify, or it never showed up) may be waiting for a login that is released later:
			// give it a moment, then go on with the schedule — its verdict is collected when it comes
			pl.gate.open()
			bound := 50 * time.Millisecond
			select {
			case <-pl.done:
			case <-pl.gate.inVerify:
				bound = c14HardTimeout
			case <-time.After(bound):
			}
			if finish(pl, bound) {
				obs = append(obs, settle(pl))
			} else {
				stat("conc.finish.waits-for-another-login")
				pl.obsIdx = len(obs)
				obs = append(obs, "?")
			}
		case 'R':
			if pl := findPending(o.id); pl != nil {
				pl.gate.open()
			}
			obs = append(obs, "-")
		case 'c':
			_, opts, _ := c14SpecOpts(o.fullSpec())
			panicked := false
			err := mgmt(func() (err error) {
				defer func() {
					if r := recover(); r != nil {
						panicked, err = true, fmt.Errorf("panic: %v", r)
					}
				}()
				return sys.a.CreateUserHash(o.u, o.p, c14Schemes[o.scheme], opts)
			})
			r := c14Mgmt(err)
			if panicked {
				r = "panic"
			}
			obs = append(obs, r)
			stat("create." + r)
			stat("create.scheme." + o.scheme)
			stat("create.params." + c14SpecClass(o.fullSpec()))
			k, ok := account(o.u)
			_, exists := ref[k]
			want := o.scheme != "x" && ok && !exists && c14Hashable(o.fullSpec(), o.p)
			if want {
				ref[k] = c14Ref{o.scheme, o.p, o.fullSpec()}
			}
			if want != (err == nil) {
				viol("C14/mgmt-result", "op %d create %q (%s): succeeded=%v, the history implies %v (err: %v)", i, o.u, o.fullSpec(), err == nil, want, err)
			}
			pushState()
			checkKeys(i)
			if want {
				checkRow(i, k)
			}
		case 'h':
			// a row made by the reference implementation of the documented format (another tool, another host) is written
			// for the account, whatever was there
			row, hashable := c14RefRow(o.fullSpec(), o.p)
			k, ok := account(o.u)
			r := "ok"
			switch {
			case !hashable:
				r = "e-hash"
			case !ok:
				r = "e-name"
			default:
				if err := mgmt(func() error { return sys.tbl.SetKey(k, row) }); err != nil {
					panic(err)
				}
				if _, exists := ref[k]; exists {
					stat("put.over-existing-account")
					if ref[k].pw == o.p {
						stat("put.re-hash-of-the-current-password")
					}
				}
				ref[k] = c14Ref{o.scheme, o.p, o.fullSpec()}
			}
			obs = append(obs, r)
			stat("put." + r)
			stat("put.scheme." + o.scheme)
			stat("put.params." + c14SpecClass(o.fullSpec()))
			pushState()
			checkKeys(i)
		case 's':
			err := mgmt(func() error { return sys.a.SetUserPassword(o.u, o.p) })
			r := c14Mgmt(err)
			obs = append(obs, r)
			stat("set." + r)
			k, ok := account(o.u)
			want := ok && len(o.p) <= 72
			if want {
				if _, exists := ref[k]; !exists {
					stat("set.on-missing-account")
				}
				ref[k] = c14Ref{"b", o.p, "b," + strconv.Itoa(bcrypt.DefaultCost)}
			}
			if want != (err == nil) {
				viol("C14/mgmt-result", "op %d set-password %q: succeeded=%v, the history implies %v (err: %v)", i, o.u, err == nil, want, err)
			}
			pushState()
			checkKeys(i)
			if want {
				checkRow(i, k)
			}
		case 'd':
			err := mgmt(func() error { return sys.a.DeleteUser(o.u) })
			r := c14Mgmt(err)
			obs = append(obs, r)
			stat("delete." + r)
			k, ok := account(o.u)
			if ok {
				if _, exists := ref[k]; exists {
					stat("delete.existing")
				}
				delete(ref, k)
			}
			if ok != (err == nil) {
				viol("C14/mgmt-result", "op %d delete %q: succeeded=%v, the history implies %v (err: %v)", i, o.u, err == nil, ok, err)
			}
			pushState()
			checkKeys(i)
		case 't':
			before := sys.tbl.Snapshot()
			err := sys.a.AuthPlain(o.u, o.p)
			if err == nil {
				obs = append(obs, "ok")
			} else {
				obs = append(obs, "fail")
			}
			k, ok := account(o.u)
			r, exists := ref[k]
			want := ok && exists && c14SamePw(r.scheme, o.p, r.pw)
			stat(fmt.Sprintf("direct.%v", err == nil))
			if err == nil && !want {
				viol("C14/auth-accepts-wrong-password", "op %d: pass_table.AuthPlain(%q, %x) succeeded; account %q exists=%v", i, o.u, o.p, k, exists)
			}
			if err != nil && want {
				viol("C14/auth-refuses-current-password", "op %d: pass_table.AuthPlain(%q, %x) failed: %v", i, o.u, o.p, err)
			}
			if !reflect.DeepEqual(before, sys.tbl.Snapshot()) {
				viol("C14/auth-mutates-table", "op %d", i)
			}
		case 'p', 'l':
			before := sys.tbl.Snapshot()
			mech, other := sasl.Plain, sasl.Login
			if o.kind == 'l' {
				mech, other = sasl.Login, sasl.Plain
			}
			r := c14Exchange(sys.s, mech, o.authzid, o.u, o.p, i%2 == 0)
			obs = append(obs, r.obs())
			stat(mech + "." + r.res)
			// decision against the reference map
			k, okName := resolve(o.u)
			rf, exists := ref[k]
			right := okName && exists && c14SamePw(rf.scheme, o.p, rf.pw)
			authzOK := o.kind == 'l' || o.authzid == "" || o.authzid == o.u
			want := right && authzOK && (o.kind == 'p' || scn.login)
			if o.u != strings.TrimSpace(o.u) || strings.ContainsAny(o.u, "\x00\u200b\ufeff\u200e\u2060") {
				stat(fmt.Sprintf("auth.name-in-white-space-or-controls.%s.resolved-%v.%s", mech, okName && exists, r.res))
			}
			if o.p != strings.TrimSpace(o.p) {
				stat(fmt.Sprintf("auth.password-in-white-space.%s.current-%v.%s", mech, right, r.res))
			}
			switch {
			case !okName:
				stat("auth.name-unresolved")
			case !exists:
				stat("auth.no-account")
			case !right:
				stat("auth.wrong-password")
			default:
				stat("auth.current-password." + rf.scheme)
			}
			if r.res == "ok" {
				nAuthOK++
				if !authzOK {
					viol("C14/authzid-mismatch-accepted", "op %d: PLAIN authzid %q with authcid %q succeeded", i, o.authzid, o.u)
				} else if !want {
					viol("C14/auth-accepts-wrong-password", "op %d: %s %q/%x succeeded; resolved account %q (resolved=%v exists=%v)", i, mech, o.u, o.p, k, okName, exists)
				}
				if r.cbCount != 1 || r.data.Password != o.p || (authzOK && (r.identity != o.u || r.data.Username != o.u)) {
					viol("C14/success-callback", "op %d: callback ran %d times, password passed on equal=%v, identity %q and user name %q reported for the supplied name %q", i, r.cbCount, r.data.Password == o.p, r.identity, r.data.Username, o.u)
				}
			} else {
				if want {
					viol("C14/auth-refuses-current-password", "op %d: %s %q/%x gave %s although the password is the current one of account %q", i, mech, o.u, o.p, r.res, k)
				}
				if r.cbCount != 0 {
					viol("C14/success-callback", "op %d: callback ran on a failed exchange", i)
				}
				if o.kind == 'l' && !scn.login && r.res != "unsup" {
					viol("C14/login-disabled", "op %d: LOGIN is disabled but the exchange gave %s", i, r.res)
				}
			}
			if !authzOK {
				stat("auth.authzid-mismatch")
			}
			// same credentials through the other mechanism: same decision, same identity
			if strings.Contains(o.u, "\x00") || strings.Contains(o.p, "\x00") {
				stat("mech-not-compared.nul-cannot-be-carried-by-plain")
			} else if authzOK && scn.login {
				sh := c14Exchange(sys.s, other, "", o.u, o.p, i%2 == 1)
				if (sh.res == "ok") != (r.res == "ok") || (r.res == "ok" && sh.identity != r.identity) {
					viol("C14/plain-login-disagree", "op %d: %s gives %s (identity %q), %s gives %s (identity %q) for user %q", i, mech, r.res, r.identity, other, sh.res, sh.identity, o.u)
				}
				stat("mech-compared")
			}
			if !reflect.DeepEqual(before, sys.tbl.Snapshot()) {
				viol("C14/auth-mutates-table", "op %d", i)
			}
		}
	}
	// logins still in flight at the end of the history (finished out of order behind another login, or never finished by the schedule)
	releaseAll()
	for len(pending) > 0 {
		pl := pending[0]
		if !finish(pl, c14HardTimeout) {
			viol("C14/login-never-returns", "op %d (login %d) did not return within %v after every verification was released", pl.opIdx, pl.id, c14HardTimeout)
			pending = pending[1:]
			if pl.obsIdx >= 0 {
				obs[pl.obsIdx] = "hang"
			}
			continue
		}
		v := settle(pl)
		if pl.obsIdx >= 0 {
			obs[pl.obsIdx] = v
		}
	}
	res.obs = strings.Join(obs, " ")
	stat(fmt.Sprintf("hist.len.%02d", len(scn.ops)))
	stat(fmt.Sprintf("cfg.gomaxprocs-for-verification.%d", scn.procs))
	stat("cfg.anorm." + scn.anorm)
	stat("cfg.map." + strings.SplitN(scn.mapSpec, ",", 2)[0])
	stat(fmt.Sprintf("cfg.login.%v", scn.login))
	if nAuthOK > 0 {
		stat("hist.with-successful-auth")
	}
	return res
}

// ---------------------------------------------------------------- generators

var c14Bases = []string{"alice", "bob", "rené", "ünï", "user@example.org", "дима", "straße", "ǆo", "ali.ce", "o'neil",
	"strasse", "οδος", "σίσυφος", "maß", "ırmak", "ǰan", "ΐota", "postmaster", "straße@example.org",
	"user@", "a@b@example.org", "bob@exämple.org", "maß@straße.example"} // with '@' but not (or not obviously) an e-mail address: the `auto` branch

// pairs of DIFFERENT accounts (RFC 8265 UsernameCaseMapped lower-cases, it does not case-fold, and it keeps the
// final sigma, the dotless i, ...) that full case folding, a compatibility mapping or a locale-specific lower-casing
// would merge; some members are spellings PRECIS refuses (ŉ, ligatures) — the other member is still an account
var c14FoldPairs = [][2]string{
	{"straße", "strasse"}, {"maß", "mass"}, {"ẞtein", "sstein"}, {"οδος", "οδοσ"}, {"σίσυφος", "σίσυφοσ"},
	{"ŉet", "ʼnet"}, {"ǰan", "ǰan"}, {"ırmak", "irmak"}, {"kapı", "kapi"}, {"ﬂuß", "fluß"}, {"ﬁsh", "fish"},
	{"ΐota", "ΐota"}, {"ǆo", "džo"}, {"straße@example.org", "strasse@example.org"}, {"ſam", "sam"}, {"eﬃe", "effie"},
}

func c14Foldable(s string) bool {
	return strings.ContainsAny(s, "ßẞςŉǰıİΐΰﬁﬂﬃﬀſǆǅǄ")
}

var c14BadNames = []string{"", "a b", "Ⅳ", "ﬁsh", "\u0001x", "x­y", "ſam", "a‍b"}
var c14Targets = []string{"acct1", "acct2", "shared", "alice", "bob"}

// the name of an account inside white space, control characters and other wrapping a sloppy client (or a "helpful" server)
// might add or strip: each of these is ANOTHER user name. PRECIS refuses most of them (no account), a few are ordinary
// names of other accounts ("alice."); the reference resolution decides, never the spelling.
var c14Decorations = []struct{ pre, suf, cls string }{
	{"", " ", "space"}, {" ", "", "space"}, {" ", " ", "space"}, {"", "  ", "space"},
	{"", "\t", "tab"}, {"\t", "", "tab"},
	{"", "\r\n", "crlf"}, {"", "\n", "lf"}, {"", "\r", "cr"}, {"\n", "", "lf"}, {"\r\n", "\r\n", "crlf"}, {" ", "\r\n", "crlf"},
	{"", "\u00a0", "nbsp"}, {"\u00a0", "", "nbsp"},
	{"", "\u3000", "ideographic-space"}, {"\u3000", "", "ideographic-space"},
	{"", "\u0085", "other-unicode-space"}, {"", "\u2028", "other-unicode-space"}, {"\u2003", "", "other-unicode-space"}, {"", "\u202f", "other-unicode-space"}, {"", "\u1680", "other-unicode-space"},
	{"", "\u200b", "zero-width"}, {"\ufeff", "", "zero-width"}, {"", "\u200e", "zero-width"}, {"\u2060", "", "zero-width"},
	{"", "\x0b", "control"}, {"", "\x0c", "control"}, {"", "\x7f", "control"}, {"\x1b", "", "control"}, {"", "\x08", "control"},
	{"\"", "\"", "wrapped"}, {"<", ">", "wrapped"}, {"'", "'", "wrapped"}, {"", ".", "wrapped"}, {"", ",", "wrapped"}, {"", ";", "wrapped"}, {"", "=", "wrapped"},
	{"", "\x00", "nul"}, {"\x00", "", "nul"}, {"", "\x00\x00", "nul"},
}

func c14Decorate(r *vh.Rng, name string, nulOK bool) (string, string) {
	for {
		d := c14Decorations[r.Intn(len(c14Decorations))]
		if d.cls == "nul" && !nulOK {
			continue
		}
		return d.pre + name + d.suf, d.cls
	}
}

// a password inside white space is another password
func c14DecoratePw(r *vh.Rng, p string) string {
	switch r.Intn(8) {
	case 0:
		return p + " "
	case 1:
		return " " + p
	case 2:
		return p + "\r\n"
	case 3:
		return p + "\n"
	case 4:
		return "\t" + p
	case 5:
		return p + "\u00a0"
	default:
		if t := strings.TrimSpace(p); t != p {
			return t
		}
		return " " + p + " "
	}
}

func c14Fullwidth(s string) string {
	var b strings.Builder
	for _, r := range s {
		if r > 0x20 && r < 0x7f {
			b.WriteRune(r + 0xFEE0)
		} else {
			b.WriteRune(r)
		}
	}
	return b.String()
}

func c14Variant(r *vh.Rng, s string) (string, string) {
	if s == "" {
		return s, "exact"
	}
	// an internationalized domain written in A-labels: the same e-mail address (only the e-mail branch of the
	// normalisation functions brings it back to the U-label form the account was created under)
	if i := strings.LastIndex(s, "@"); i >= 0 && r.Chance(40) {
		if a, err := idna.ToASCII(s[i+1:]); err == nil && a != s[i+1:] {
			return s[:i+1] + a, "a-label-domain"
		}
	}
	switch r.Intn(9) {
	case 8:
		if strings.Contains(s, "ß") && r.Bool() {
			return strings.ReplaceAll(s, "ß", "ẞ"), "capital-sharp-s"
		}
		return strings.ToUpper(norm.NFC.String(s)), "upper-nfc"
	case 0, 1:
		return s, "exact"
	case 2:
		return strings.ToUpper(s), "upper"
	case 3:
		var b strings.Builder
		for _, ch := range s {
			if r.Bool() {
				b.WriteRune(unicode.ToUpper(ch))
			} else {
				b.WriteRune(ch)
			}
		}
		return b.String(), "mixed-case"
	case 4:
		return norm.NFD.String(s), "nfd"
	case 5:
		return c14Fullwidth(s), "fullwidth"
	case 6:
		return norm.NFD.String(strings.ToUpper(s)), "upper-nfd"
	default:
		rs := []rune(s)
		rs[0] = unicode.ToTitle(rs[0])
		return string(rs), "title"
	}
}

var c14PwClasses = []struct {
	w   int
	pws []string
}{
	{25, []string{"p", "password", "Password", "password ", "pass:word", "hunter2"}},
	{5, []string{" padded ", "line\r\n", "\ttab", "nbsp\u00a0", " password", "password\n"}},
	{8, []string{""}},
	{17, []string{"pässwörd", "пароль", "密码", "páss", "ｐａｓｓ"}},
	{5, []string{"\xff\xfe\x80", "caf\xe9"}},
	{15, []string{strings.Repeat("x", 71), strings.Repeat("x", 72), strings.Repeat("é", 36), strings.Repeat("x", 70) + "é"}},
	{17, []string{strings.Repeat("x", 73), strings.Repeat("x", 72) + "tail", strings.Repeat("x", 72) + "other", strings.Repeat("é", 36) + "z", strings.Repeat("x", 71) + "é"}},
	{8, []string{strings.Repeat("long-", 60), strings.Repeat("долго", 100)}},
}

func c14Password(r *vh.Rng) string {
	x := r.Intn(100)
	for _, c := range c14PwClasses {
		if x < c.w {
			return c.pws[r.Intn(len(c.pws))]
		}
		x -= c.w
	}
	return "p"
}

// passwords with NUL bytes cannot be carried by PLAIN; they only occur in management and direct-table ops
var c14NulPasswords = []string{"ab\x00ab", "ab", "\x00", "p\x00", "ab\x00"}

func c14PwClass(p string) string {
	switch {
	case p == "":
		return "empty"
	case strings.Contains(p, "\x00"):
		return "nul"
	case len(p) > 150:
		return "very-long"
	case len(p) > 72:
		return "over72"
	case len(p) == 72:
		return "exactly72"
	case len(p) == 71:
		return "71"
	}
	for i := 0; i < len(p); i++ {
		if p[i] >= 0x80 {
			return "non-ascii"
		}
	}
	return "ascii"
}

func c14GenMap(r *vh.Rng, bases []string) string {
	switch x := r.Intn(100); {
	case x < 22:
		return "nil"
	case x < 30:
		return "identity"
	case x < 40:
		return "localpart"
	case x < 48:
		return "localpart_opt"
	case x < 76:
		// static: keys are mostly normalised spellings (that is what the lookup sees); values are accounts
		n := 1 + r.Intn(4)
		seen := map[string]bool{}
		var ents []string
		for i := 0; i < n; i++ {
			var k string
			switch r.Intn(6) {
			case 0:
				k = c14Targets[r.Intn(len(c14Targets))]
			case 1:
				k, _ = c14Variant(r, bases[r.Intn(len(bases))])
			default:
				k = bases[r.Intn(len(bases))]
			}
			if seen[k] {
				continue
			}
			seen[k] = true
			var v string
			switch r.Intn(5) {
			case 0:
				v = k // idempotent entry
			case 1:
				v = bases[r.Intn(len(bases))]
			default:
				v = c14Targets[r.Intn(len(c14Targets))]
			}
			ents = append(ents, vh.HexRunes(k)+"="+vh.HexRunes(v))
		}
		return "static," + strings.Join(ents, ",")
	default:
		type re struct{ flags, re, repl string }
		opts := []re{
			{"fe", `(.+)@example\.org`, "$1"},            // strip the domain: not idempotent (second application misses)
			{"fe", `(.+)`, "$1@example.org"},             // add a domain: not idempotent
			{"f", `alice|bob|rené`, "shared"},            // constant
			{"fe", `(.*)`, "$1"},                         // identity
			{"fie", `a(.*)`, "b$1"},                      // rewrites a… to b…
			{"e", `^(.+?)(\+[^@]*)?(@.*)?$`, "${1}${3}"}, // drop +tag
			{"f", `.+`, "acct1"},
		}
		o := opts[r.Intn(len(opts))]
		return "regexp," + o.flags + "," + vh.HexRunes(o.re) + "," + vh.HexRunes(o.repl)
	}
}

// the HashOpts of a create / the parameters of an imported row: the grid the code accepts — bcrypt cost min..default+1 (and
// below min = default, over max = refused), argon2 time 1..3 x small memory values x lanes 1, 2, 3, 4, the CPUs of this
// machine, one more than that, 255 (and, rarely, no pass / no lane: argon2 panics)
func c14GenSpec(r *vh.Rng, scheme string, forPut bool, lowProcs bool) string {
	switch scheme {
	case "b":
		switch x := r.Intn(100); {
		case x < 45:
			return "b"
		case x < 88:
			return "b," + strconv.Itoa(4+r.Intn(4))
		case x < 92:
			return "b," + strconv.Itoa(8+r.Intn(2))
		case x < 95:
			return "b," + strconv.Itoa(bcrypt.DefaultCost+r.Intn(2))
		case x < 97:
			return "b," + strconv.Itoa(r.Intn(bcrypt.MinCost)) // below MinCost: DefaultCost is used
		default:
			return "b," + strconv.Itoa(bcrypt.MaxCost+1+r.Intn(3)) // refused
		}
	case "a":
		x := r.Intn(100)
		if x < 25 {
			return "a"
		}
		lanes := []int{1, 2, 2, 3, 4, c14MachineProcs, c14MachineProcs + 1, c14MachineProcs + 1, 255}[r.Intn(9)]
		if lanes > 255 {
			lanes = 255
		}
		if lowProcs {
			// with GOMAXPROCS lowered, 2 lanes are already more than there are CPUs; hundreds of lane goroutines would share the one
			// CPU with the bcrypt work of the other histories (the Go scheduler serves the global queue every 61st switch)
			lanes = []int{1, 2, 2, 2, 3, 4, 4, 8, 2}[r.Intn(9)]
		}
		time := 1 + r.Intn(3)
		mem := []int{0, 8, 9, 16, 32, 64, 100, 1024}[r.Intn(8)]
		if r.Chance(14) { // now and then more passes / more memory than any default
			time = []int{4, 5, 6, 8, 12, 16}[r.Intn(6)]
		} else if r.Chance(3) {
			mem = []int{4096, 16384}[r.Intn(2)]
		}
		if !forPut && x >= 97 {
			if r.Bool() {
				time = 0
			} else {
				lanes = 0
			}
		}
		return fmt.Sprintf("a,%d,%d,%d", time, mem, lanes)
	}
	return scheme
}

func c14Gen(r *vh.Rng, maxOps int) *c14Scn {
	scn := &c14Scn{login: r.Chance(90)}
	switch x := r.Intn(100); {
	case x < 22:
		scn.procs = 1 // "more lanes than CPUs" on every machine
	case x < 27:
		scn.procs = 2
	}
	switch x := r.Intn(100); {
	case x < 25:
		scn.anorm = "nil"
	case x < 55:
		scn.anorm = "auto"
	case x < 65:
		scn.anorm = "precis_casefold"
	case x < 72:
		scn.anorm = "precis_casefold_email"
	case x < 79:
		scn.anorm = "precis"
	case x < 85:
		scn.anorm = "precis_email"
	case x < 93:
		scn.anorm = "casefold"
	default:
		scn.anorm = "noop"
	}
	nb := 1 + r.Intn(3)
	var bases []string
	var pair []string
	if r.Chance(30) { // both members of a pair that a wider folding would merge
		pr := c14FoldPairs[r.Intn(len(c14FoldPairs))]
		bases = append(bases, pr[0], pr[1])
		pair = pr[:]
		nb = r.Intn(2)
		scn.genStats = append(scn.genStats, "names.fold-pair")
	}
	for i := 0; i < nb; i++ {
		bases = append(bases, c14Bases[r.Intn(len(c14Bases))])
	}
	scn.mapSpec = c14GenMap(r, bases)
	sys, err := c14NewSys(scn)
	if err != nil {
		panic(err)
	}
	// spellings a client may supply, and the accounts they lead to under this configuration
	pool := append([]string{}, bases...)
	if scn.mapSpec != "nil" && scn.mapSpec != "identity" {
		pool = append(pool, c14Targets[r.Intn(len(c14Targets))])
		b := bases[r.Intn(len(bases))]
		if !strings.Contains(b, "@") {
			pool = append(pool, b+"@example.org")
		}
		pool = append(pool, b+"+tag")
	}
	var spellings []string
	for _, b := range pool {
		spellings = append(spellings, b)
		for i := 0; i < 2; i++ {
			v, cls := c14Variant(r, b)
			spellings = append(spellings, v)
			scn.genStats = append(scn.genStats, "name."+cls)
			if c14Foldable(v) {
				scn.genStats = append(scn.genStats, "name.with-letter-changed-by-case-folding")
			}
		}
	}
	reach := map[string][]string{}
	var accts []string
	for _, sp := range spellings {
		if k, ok := sys.resolve(scn, sp); ok {
			if _, seen := reach[k]; !seen {
				accts = append(accts, k)
			}
			reach[k] = append(reach[k], sp)
		}
	}
	np := 2 + r.Intn(3)
	var pws []string
	for i := 0; i < np; i++ {
		pws = append(pws, c14Password(r))
	}
	if r.Chance(25) { // the 72-byte family together
		pws = append(pws, strings.Repeat("x", 72), strings.Repeat("x", 72)+"tail")
	}
	anyName := func() string {
		if r.Chance(7) {
			return c14BadNames[r.Intn(len(c14BadNames))]
		}
		return spellings[r.Intn(len(spellings))]
	}
	mgmtName := func() string {
		if len(accts) > 0 && r.Chance(65) {
			v, _ := c14Variant(r, accts[r.Intn(len(accts))])
			if r.Chance(5) { // management is refused for such a name: it is no account name
				var cls string
				v, cls = c14Decorate(r, v, true)
				scn.genStats = append(scn.genStats, "mgmt.gen.decorated-name."+cls)
			}
			return v
		}
		return anyName()
	}
	pw := func(nulOK bool) string {
		if nulOK && r.Chance(7) {
			return c14NulPasswords[r.Intn(len(c14NulPasswords))]
		}
		if r.Chance(6) {
			return c14Password(r)
		}
		return pws[r.Intn(len(pws))]
	}
	// the generator's own bookkeeping, only used to aim authentications at existing accounts
	cur := map[string]string{}
	prev := map[string]string{} // the password an account had before its last change / deletion
	setCur := func(k, p string) {
		if q, ok := cur[k]; ok && q != p {
			prev[k] = q
		}
		cur[k] = p
	}
	delCur := func(k string) {
		if q, ok := cur[k]; ok {
			prev[k] = q
		}
		delete(cur, k)
	}
	curKeys := func() []string {
		var ks []string
		for k := range cur {
			if len(reach[k]) > 0 {
				ks = append(ks, k)
			}
		}
		sort.Strings(ks)
		return ks
	}
	var authCredsPlain func() (string, string)
	// user name and password of a login; nulOK: the mechanism can carry a NUL inside the user name (LOGIN can, PLAIN cannot)
	authCreds := func(nulOK bool) (string, string) {
		ks := curKeys()
		if len(ks) > 0 && r.Chance(17) {
			// the name of an existing account (a spelling that reaches it) inside white space / control characters / wrapping,
			// mostly with the account's CURRENT password
			k := ks[r.Intn(len(ks))]
			u, cls := c14Decorate(r, reach[k][r.Intn(len(reach[k]))], nulOK)
			scn.genStats = append(scn.genStats, "auth.gen.decorated-name."+cls)
			p := cur[k]
			if strings.Contains(p, "\x00") || r.Chance(25) {
				p = pw(false)
			}
			return u, p
		}
		u, p := authCredsPlain()
		switch y := r.Intn(100); {
		case y < 3:
			var cls string
			u, cls = c14Decorate(r, u, nulOK)
			scn.genStats = append(scn.genStats, "auth.gen.decorated-name."+cls)
		case y < 9:
			p = c14DecoratePw(r, p)
			scn.genStats = append(scn.genStats, "auth.gen.decorated-password")
		}
		return u, p
	}
	authCredsPlain = func() (string, string) {
		ks := curKeys()
		x := r.Intn(100)
		if pair != nil && r.Chance(22) { // one member of the pair with the password of the other
			a, okA := c14Account(pair[0])
			b, okB := c14Account(pair[1])
			if r.Bool() {
				a, b = b, a
			}
			if q, has := cur[b]; okA && okB && has && len(reach[a]) > 0 && !strings.Contains(q, "\x00") {
				scn.genStats = append(scn.genStats, "auth.pair-member-with-the-other-password")
				return reach[a][r.Intn(len(reach[a]))], q
			}
		}
		if len(ks) > 0 && x < 75 {
			k := ks[r.Intn(len(ks))]
			u := reach[k][r.Intn(len(reach[k]))]
			p := cur[k]
			switch {
			case x < 46 || strings.Contains(p, "\x00"):
				if strings.Contains(p, "\x00") {
					p = pw(false)
				}
			case x < 53 && len(p) >= 71:
				p += "tail" // bcrypt: only 72 bytes count
			case x < 57:
				p += "x"
			case x < 68 && prev[k] != "" && !strings.Contains(prev[k], "\x00"): // the password the account had before
				p = prev[k]
			case x < 73 && len(ks) > 1: // the current password of ANOTHER account
				if q := cur[ks[r.Intn(len(ks))]]; !strings.Contains(q, "\x00") {
					p = q
				}
			default:
				p = pw(false)
			}
			return u, p
		}
		if len(accts) > 0 && x < 93 { // a spelling that resolves, whether or not the account exists right now
			k := accts[r.Intn(len(accts))]
			return reach[k][r.Intn(len(reach[k]))], pw(false)
		}
		return anyName(), pw(false)
	}
	// a row made by the reference implementation is written for account k (spelled `name`): mostly a re-hash of the current
	// password with other parameters / another scheme, else another password
	putOp := func(k, name string) c14Op {
		o := c14Op{kind: 'h', u: name, scheme: []string{"b", "a", "a", "a", "s"}[r.Intn(5)]}
		o.spec = c14GenSpec(r, o.scheme, true, scn.procs > 0)
		if q, has := cur[k]; has && r.Chance(55) {
			o.p = q
			scn.genStats = append(scn.genStats, "put.gen.re-hash")
		} else {
			o.p = pw(true)
		}
		if kk, ok := c14Account(o.u); ok && c14Hashable(o.fullSpec(), o.p) {
			setCur(kk, o.p)
		}
		return o
	}
	sets := 0
	// overlapping logins: 2-4 logins, mostly for one account, with the current / the previous / another account's / a wrong
	// password, started so that at least two are in flight together, possibly with a password change, a deletion or a
	// re-creation of the account in between, finished in any order
	episode := func() {
		ks := curKeys()
		k := ks[r.Intn(len(ks))]
		old, hasOld := "", false
		nl := 2 + r.Intn(3)
		started, nextID := 0, 1+r.Intn(3)
		var inFlight []int
		midDone := !r.Chance(50)
		yielded := !r.Chance(25)
		mk := func(id int) c14Op {
			kk := k
			if len(ks) > 1 && r.Chance(20) {
				kk = ks[r.Intn(len(ks))]
			}
			o := c14Op{kind: 'B', id: id, inner: 'p'}
			if r.Chance(30) {
				o.kind = 'G'
			}
			switch y := r.Intn(100); {
			case y < 40 && scn.login, y < 8:
				o.inner = 'l'
			case y < 55:
				o.inner = 't'
			}
			if o.inner == 't' {
				o.u, _ = c14Variant(r, kk)
			} else {
				o.u = reach[kk][r.Intn(len(reach[kk]))]
				if r.Chance(12) && o.inner == 'p' {
					o.authzid = o.u
				}
			}
			if r.Chance(8) {
				var cls string
				o.u, cls = c14Decorate(r, o.u, o.inner != 'p')
				scn.genStats = append(scn.genStats, "auth.gen.decorated-name."+cls)
				if o.authzid != "" {
					o.authzid = o.u
				}
			}
			right, exists := cur[kk]
			switch y := r.Intn(100); {
			case y < 40 && exists:
				o.p = right
			case y < 58 && hasOld && kk == k:
				o.p = old
			case y < 70 && exists:
				o.p = right + "x"
			case y < 82 && len(ks) > 1:
				o.p = cur[ks[r.Intn(len(ks))]]
			default:
				o.p = pw(false)
			}
			if strings.Contains(o.p, "\x00") && o.inner != 't' {
				o.p = pw(false)
			}
			return o
		}
		for started < nl || len(inFlight) > 0 {
			switch {
			case started < nl && (started < 2 || len(inFlight) == 0 || r.Chance(40)):
				scn.ops = append(scn.ops, mk(nextID))
				inFlight = append(inFlight, nextID)
				nextID++
				started++
			case !midDone && r.Chance(40):
				midDone = true
				if p, ok := cur[k]; ok {
					old, hasOld = p, true
				}
				name, _ := c14Variant(r, k)
				switch y := r.Intn(100); {
				case y < 50 && sets < 4:
					sets++
					o := c14Op{kind: 's', u: name, p: pw(false)}
					scn.ops = append(scn.ops, o)
					if kk, ok := c14Account(o.u); ok && len(o.p) <= 72 {
						setCur(kk, o.p)
					}
				case y < 80:
					scn.ops = append(scn.ops, c14Op{kind: 'd', u: name})
					if kk, ok := c14Account(name); ok {
						delCur(kk)
					}
					if r.Chance(50) { // and created again with another password
						o := c14Op{kind: 'c', u: name, p: pw(false), scheme: []string{"b", "a", "a", "s"}[r.Intn(4)]}
						o.spec = c14GenSpec(r, o.scheme, false, scn.procs > 0)
						scn.ops = append(scn.ops, o)
						if kk, ok := c14Account(o.u); ok && c14Hashable(o.fullSpec(), o.p) {
							setCur(kk, o.p)
						}
					}
				case y < 90: // the account's row is replaced by one made elsewhere: other parameters, the same or another password
					scn.ops = append(scn.ops, putOp(k, name))
				default: // management of another account
					o := c14Op{kind: 'd', u: mgmtName()}
					scn.ops = append(scn.ops, o)
					if kk, ok := c14Account(o.u); ok {
						delCur(kk)
					}
				}
			default:
				if !yielded && len(inFlight) > 1 {
					yielded = true
					for _, id := range inFlight {
						scn.ops = append(scn.ops, c14Op{kind: 'R', id: id})
					}
				}
				j := r.Intn(len(inFlight))
				scn.ops = append(scn.ops, c14Op{kind: 'E', id: inFlight[j]})
				inFlight = append(inFlight[:j], inFlight[j+1:]...)
			}
		}
		scn.genStats = append(scn.genStats, "hist.overlapping-logins")
	}
	n := 1 + r.Intn(maxOps)
	episodes := 0
	if pair != nil && r.Chance(75) { // both accounts of the pair exist, with different passwords
		for j, name := range pair {
			o := c14Op{kind: 'c', u: name, p: pws[j%len(pws)], scheme: []string{"b", "a", "s"}[r.Intn(3)]}
			if j == 1 && o.p == scn.ops[0].p {
				o.p += "2"
			}
			if r.Chance(50) {
				o.spec = c14GenSpec(r, o.scheme, true, scn.procs > 0)
			}
			scn.ops = append(scn.ops, o)
			if k, ok := c14Account(o.u); ok && c14Hashable(o.fullSpec(), o.p) {
				if _, exists := cur[k]; !exists {
					setCur(k, o.p)
				}
			}
		}
	}
	for i := 0; i < n; i++ {
		if i > 0 && episodes < 2 && r.Chance(9) && len(curKeys()) > 0 {
			episodes++
			episode()
			continue
		}
		x := r.Intn(100)
		if i == 0 && x >= 40 {
			x = r.Intn(40) // histories mostly start by creating something
		}
		switch {
		case x < 24:
			sch := "b"
			switch y := r.Intn(100); {
			case y < 32:
				sch = "b"
			case y < 62:
				sch = "a"
			case y < 92:
				sch = "s"
			default:
				sch = "x"
			}
			if scn.procs > 0 && sch != "x" && r.Chance(50) {
				sch = "a" // the scheme with a parallelism parameter
			}
			o := c14Op{kind: 'c', u: mgmtName(), p: pw(true), scheme: sch, spec: c14GenSpec(r, sch, false, scn.procs > 0)}
			scn.ops = append(scn.ops, o)
			if k, ok := c14Account(o.u); ok && sch != "x" && c14Hashable(o.fullSpec(), o.p) {
				if _, exists := cur[k]; !exists {
					setCur(k, o.p)
				}
			}
		case x < 36 && sets < 4: // SetUserPassword hashes with bcrypt.DefaultCost: bounded per history
			sets++
			o := c14Op{kind: 's', u: mgmtName(), p: pw(true)}
			scn.ops = append(scn.ops, o)
			if k, ok := c14Account(o.u); ok && len(o.p) <= 72 {
				setCur(k, o.p)
			}
		case x < 44:
			o := c14Op{kind: 'd', u: mgmtName()}
			scn.ops = append(scn.ops, o)
			if k, ok := c14Account(o.u); ok {
				_, existed := cur[k]
				delCur(k)
				if existed && r.Chance(45) { // the account is created again, with another password
					c := c14Op{kind: 'c', p: pw(false), scheme: []string{"b", "a", "a", "s"}[r.Intn(4)]}
					c.spec = c14GenSpec(r, c.scheme, false, scn.procs > 0)
					c.u, _ = c14Variant(r, k)
					scn.ops = append(scn.ops, c)
					if kk, ok := c14Account(c.u); ok && c14Hashable(c.fullSpec(), c.p) {
						setCur(kk, c.p)
					}
					scn.genStats = append(scn.genStats, "hist.account-recreated")
				}
			}
		case x < 69:
			u, p := authCreds(false)
			o := c14Op{kind: 'p', u: u, p: p}
			switch y := r.Intn(100); {
			case y < 60:
			case y < 78:
				o.authzid = o.u
			case y < 92:
				o.authzid, _ = c14Variant(r, o.u) // same account, other spelling (or the same one)
				if o.authzid == "" {
					o.authzid = "x"
				}
			default:
				o.authzid = pool[r.Intn(len(pool))]
			}
			scn.ops = append(scn.ops, o)
		case x < 90:
			u, p := authCreds(true)
			scn.ops = append(scn.ops, c14Op{kind: 'l', u: u, p: p})
		case x < 95:
			ks := curKeys()
			if len(ks) > 0 && r.Chance(75) {
				k := ks[r.Intn(len(ks))]
				name, _ := c14Variant(r, k)
				scn.ops = append(scn.ops, putOp(k, name))
			} else {
				name := mgmtName()
				k, _ := c14Account(name)
				scn.ops = append(scn.ops, putOp(k, name))
			}
		default:
			o := c14Op{kind: 't', p: pw(true)}
			ks := curKeys()
			if len(ks) > 0 && r.Chance(60) {
				k := ks[r.Intn(len(ks))]
				o.u, _ = c14Variant(r, k)
				if r.Chance(12) {
					var cls string
					o.u, cls = c14Decorate(r, o.u, true)
					scn.genStats = append(scn.genStats, "auth.gen.decorated-name."+cls)
				}
				if r.Chance(70) {
					o.p = cur[k]
					if r.Chance(25) {
						o.p += "\x00" + o.p // bcrypt: NUL-terminated and cyclically expanded key
					}
				} else if prev[k] != "" && r.Chance(50) {
					o.p = prev[k]
				}
			} else {
				o.u = mgmtName()
			}
			scn.ops = append(scn.ops, o)
		}
	}
	return scn
}

// ---------------------------------------------------------------- test entry

func c14Emit(out *vh.Out, scn *c14Scn, res c14Result) {
	out.Corr(res.line, res.obs)
	for _, v := range res.viols {
		out.Violation(v.sig, res.line, v.detail)
	}
	for _, s := range res.stats {
		out.Stat(s)
	}
	for _, s := range scn.genStats {
		out.Stat(s)
	}
	for _, o := range scn.ops {
		out.Stat("op." + string(o.kind))
		if o.kind == 'B' || o.kind == 'G' {
			out.Stat("op." + string(o.kind) + "." + string(o.inner))
		}
		if o.kind != 'd' && o.kind != 'E' && o.kind != 'R' {
			out.Stat("pw." + c14PwClass(o.p))
		}
	}
}

func TestVerifC14Hist(t *testing.T) {
	out := vh.Open("c14_hist")
	defer out.Close()
	addSHA256() // the third scheme of hash.go is only registered by tests
	c14InstallGates()

	if rep := vh.Replay(); rep != nil {
		for _, l := range rep {
			if !strings.HasPrefix(l, "C14 hist ") {
				continue
			}
			scn, err := c14ParseLine(l)
			if err != nil {
				t.Fatal(err)
			}
			c14Emit(out, scn, c14RunScn(scn))
		}
		return
	}

	n := vh.N(300)
	maxOps := 12
	if vh.Thorough() {
		maxOps = 16
	}
	rng := vh.NewRng(vh.Seed() + 1400)
	scns := make([]*c14Scn, n)
	for i := range scns {
		scns[i] = c14Gen(rng.Fork(), maxOps)
	}
	// the fixed regression histories of DESIGN §6 (j) are always part of the run
	scns = append(scns, c14Fixed()...)
	results := make([]c14Result, len(scns))
	workers := runtime.GOMAXPROCS(0)
	if workers > 8 {
		workers = 8
	}
	var wg sync.WaitGroup
	idx := make(chan int)
	for w := 0; w < workers; w++ {
		wg.Add(1)
		go func() {
			defer wg.Done()
			for i := range idx {
				results[i] = c14RunScn(scns[i])
			}
		}()
	}
	for i := range scns {
		idx <- i
	}
	close(idx)
	wg.Wait()
	for i, scn := range scns {
		c14Emit(out, scn, results[i])
	}

}

// DESIGN §6 (j): static map alice→acct1 (not idempotent), same credentials through PLAIN and LOGIN.
func c14Fixed() []*c14Scn {
	static := "static," + vh.HexRunes("alice") + "=" + vh.HexRunes("acct1")
	return []*c14Scn{
		{login: true, anorm: "auto", mapSpec: static, ops: []c14Op{
			{kind: 'c', u: "acct1", p: "pw", scheme: "s"},
			{kind: 'p', u: "alice", p: "pw"},
			{kind: 'l', u: "alice", p: "pw"},
		}},
		// the documented configuration `auth_map email_localpart`: bob@example.org uses the credentials of bob
		{login: true, anorm: "auto", mapSpec: "localpart", ops: []c14Op{
			{kind: 'c', u: "bob", p: "pw", scheme: "s"},
			{kind: 'p', u: "bob@example.org", p: "pw"},
			{kind: 'l', u: "bob@example.org", p: "pw"},
		}},
		// no map at all: the identity of a non-normalised (NFD) spelling
		{login: true, anorm: "auto", mapSpec: "nil", ops: []c14Op{
			{kind: 'c', u: "ünï", p: "Password", scheme: "b"},
			{kind: 'l', u: "u\u0308ni\u0308", p: "Password"},
			{kind: 'p', u: "u\u0308ni\u0308", p: "Password"},
		}},
		{login: true, anorm: "nil", mapSpec: "static," + vh.HexRunes("alice") + "=" + vh.HexRunes("bob") + "," + vh.HexRunes("bob") + "=" + vh.HexRunes("alice"), ops: []c14Op{
			{kind: 'c', u: "alice", p: "pa", scheme: "s"},
			{kind: 'c', u: "bob", p: "pb", scheme: "a"},
			{kind: 'l', u: "alice", p: "pb"},
			{kind: 'l', u: "alice", p: "pa"},
			{kind: 'p', u: "alice", p: "pb"},
		}},
	}
}

// ---------------------------------------------------------------- source-shape facts (T1)

// TestVerifC14Skel re-derives, from the source files of the current tree, the call skeletons the Lean model
// was written from (how often and where the user name is mapped, which identity is reported, which key
// function every table entry point uses). The driver answers with the expectation (Expect/AuthSkel.lean).
func TestVerifC14Skel(t *testing.T) {
	out := vh.Open("c14_skel")
	defer out.Close()
	if rep := vh.Replay(); rep != nil {
		found := false
		for _, l := range rep {
			found = found || strings.HasPrefix(l, "C14 skel ")
		}
		if !found {
			return
		}
	}
	fact := func(name string, parts []string, err error) {
		if err != nil {
			out.Corr("C14 skel "+name, "cannot derive: "+err.Error())
			return
		}
		out.Corr("C14 skel "+name, strings.Join(parts, " "))
		out.Stat("skel.fact")
	}
	missing := fmt.Errorf("function or closure not found")

	src, err := vauth.ParseSrc("../sasl.go")
	if err != nil {
		t.Fatal(err)
	}
	interesting := func(c string) bool {
		return strings.HasSuffix(c, ".usernameForAuth") || strings.HasSuffix(c, ".AuthPlain") || c == "successCb"
	}
	isCb := func(c string) bool { return c == "successCb" }
	if fd := src.Func("SASLAuth", "CreateSASL"); fd != nil {
		for name, callee := range map[string]string{"plain-closure": "sasl.NewPlainServer", "login-closure": "sasllogin.NewLoginServer"} {
			if lit := src.FuncLitArg(fd.Body, callee); lit != nil {
				fact(name, src.Calls(lit.Body, interesting, isCb), nil)
			} else {
				fact(name, nil, missing)
			}
		}
	} else {
		fact("plain-closure", nil, missing)
		fact("login-closure", nil, missing)
	}
	if fd := src.Func("SASLAuth", "AuthPlain"); fd != nil {
		fact("sasl-authplain", src.Calls(fd.Body, interesting, nil), nil)
	} else {
		fact("sasl-authplain", nil, missing)
	}
	if fd := src.Func("SASLAuth", "usernameForAuth"); fd != nil {
		fact("username-for-auth", src.Calls(fd.Body, func(c string) bool {
			return strings.HasSuffix(c, ".AuthNormalize") || strings.HasSuffix(c, ".Lookup")
		}, nil), nil)
	} else {
		fact("username-for-auth", nil, missing)
	}

	tsrc, err := vauth.ParseSrc("table.go")
	if err != nil {
		t.Fatal(err)
	}
	var keys []string
	for _, fn := range []string{"AuthPlain", "CreateUserHash", "SetUserPassword", "DeleteUser"} {
		fd := tsrc.Func("Auth", fn)
		if fd == nil {
			keys = append(keys, fn+":missing")
			continue
		}
		for _, c := range tsrc.Calls(fd.Body, func(c string) bool {
			return strings.HasSuffix(c, ".CompareKey") || strings.HasSuffix(c, ".Enforce") || strings.HasSuffix(c, ".String") && strings.HasPrefix(c, "precis.")
		}, nil) {
			keys = append(keys, fn+":"+c)
		}
	}
	fact("table-keys", keys, nil)
}
