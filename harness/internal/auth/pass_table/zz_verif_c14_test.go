package pass_table

// C14 — password authentication: histories of create / set-password / delete / PLAIN / LOGIN against the
// real auth.pass_table (on an in-memory mutable table) behind a real auth.SASLAuth with real
// auth_map_normalize functions and real table.identity / table.static / table.regexp user-name maps.
//
// For every history the harness writes (a) one correspondence line (the history + the tables of the
// library primitives, answered by the Lean model) and (b) evaluates the property itself against a
// reference credential map kept by the harness (monitor).

import (
	"context"
	"errors"
	"fmt"
	"net"
	"reflect"
	"runtime"
	"sort"
	"strings"
	"sync"
	"testing"
	"unicode"

	"github.com/emersion/go-sasl"
	"github.com/foxcpp/maddy/framework/config"
	"github.com/foxcpp/maddy/framework/log"
	"github.com/foxcpp/maddy/framework/module"
	"github.com/foxcpp/maddy/internal/auth"
	"github.com/foxcpp/maddy/internal/authz"
	"github.com/foxcpp/maddy/internal/table"
	"github.com/foxcpp/maddy/internal/verifshim/vauth"
	"github.com/foxcpp/maddy/internal/verifshim/vh"
	"golang.org/x/text/secure/precis"
	"golang.org/x/text/unicode/norm"
)

// ---------------------------------------------------------------- scenario

type c14Op struct {
	kind    byte   // c s d p l t
	authzid string // p
	u       string
	p       string // bytes
	scheme  string // c: b a s x
}

type c14Scn struct {
	login   bool
	anorm   string // "nil" or a key of authz.NormalizeFuncs
	mapSpec string // nil | identity | localpart | localpart_opt | static,<k>=<v>,… | regexp,<flags>,<re>,<repl>
	ops     []c14Op

	genStats []string
}

func (o c14Op) token() string {
	switch o.kind {
	case 'c':
		return "c:" + vh.HexRunes(o.u) + ":" + vh.HexBytes([]byte(o.p)) + ":" + o.scheme
	case 's':
		return "s:" + vh.HexRunes(o.u) + ":" + vh.HexBytes([]byte(o.p))
	case 'd':
		return "d:" + vh.HexRunes(o.u)
	case 'p':
		return "p:" + vh.HexRunes(o.authzid) + ":" + vh.HexRunes(o.u) + ":" + vh.HexBytes([]byte(o.p))
	case 'l':
		return "l:" + vh.HexRunes(o.u) + ":" + vh.HexBytes([]byte(o.p))
	case 't':
		return "t:" + vh.HexRunes(o.u) + ":" + vh.HexBytes([]byte(o.p))
	}
	panic("bad op kind")
}

func c14ParseOp(tok string) (c14Op, error) {
	f := strings.Split(tok, ":")
	bad := fmt.Errorf("bad op token %q", tok)
	if len(f) < 2 || len(f[0]) != 1 {
		return c14Op{}, bad
	}
	o := c14Op{kind: f[0][0]}
	switch {
	case o.kind == 'c' && len(f) == 4:
		o.u, o.p, o.scheme = vh.UnhexRunes(f[1]), string(vh.UnhexBytes(f[2])), f[3]
	case (o.kind == 's' || o.kind == 'l' || o.kind == 't') && len(f) == 3:
		o.u, o.p = vh.UnhexRunes(f[1]), string(vh.UnhexBytes(f[2]))
	case o.kind == 'd' && len(f) == 2:
		o.u = vh.UnhexRunes(f[1])
	case o.kind == 'p' && len(f) == 4:
		o.authzid, o.u, o.p = vh.UnhexRunes(f[1]), vh.UnhexRunes(f[2]), string(vh.UnhexBytes(f[3]))
	default:
		return c14Op{}, bad
	}
	return o, nil
}

func c14ParseLine(line string) (*c14Scn, error) {
	toks := strings.Fields(line)
	if len(toks) < 5 || toks[0] != "C14" || toks[1] != "hist" {
		return nil, fmt.Errorf("not a C14 hist line")
	}
	s := &c14Scn{login: toks[2] == "L1"}
	if !strings.HasPrefix(toks[3], "A:") || !strings.HasPrefix(toks[4], "M:") {
		return nil, fmt.Errorf("bad config tokens")
	}
	s.anorm, s.mapSpec = toks[3][2:], toks[4][2:]
	for _, t := range toks[5:] {
		if t == "|" {
			break
		}
		o, err := c14ParseOp(t)
		if err != nil {
			return nil, err
		}
		s.ops = append(s.ops, o)
	}
	return s, nil
}

// ---------------------------------------------------------------- real objects

func c14BuildMap(spec string) (module.Table, error) {
	f := strings.Split(spec, ",")
	switch f[0] {
	case "nil":
		return nil, nil
	case "identity":
		m, err := table.NewIdentity("table.identity", "", nil, nil)
		if err != nil {
			return nil, err
		}
		return m.(module.Table), nil
	case "localpart", "localpart_opt":
		name := "table.email_localpart"
		if f[0] == "localpart_opt" {
			name = "table.email_localpart_optional"
		}
		m, err := table.NewEmailLocalpart(name, "", nil, nil)
		if err != nil {
			return nil, err
		}
		return m.(module.Table), nil
	case "static":
		m, err := table.NewStatic("table.static", "", nil, nil)
		if err != nil {
			return nil, err
		}
		var nodes []config.Node
		for _, kv := range f[1:] {
			p := strings.SplitN(kv, "=", 2)
			if len(p) != 2 {
				return nil, fmt.Errorf("bad static entry %q", kv)
			}
			nodes = append(nodes, config.Node{Name: "entry", Args: []string{vh.UnhexRunes(p[0]), vh.UnhexRunes(p[1])}})
		}
		if err := m.Init(config.NewMap(nil, config.Node{Children: nodes})); err != nil {
			return nil, err
		}
		return m.(module.Table), nil
	case "regexp":
		if len(f) != 4 {
			return nil, fmt.Errorf("bad regexp spec")
		}
		m, err := table.NewRegexp("table.regexp", "", nil, []string{vh.UnhexRunes(f[2]), vh.UnhexRunes(f[3])})
		if err != nil {
			return nil, err
		}
		yn := func(b bool) []string {
			if b {
				return []string{"yes"}
			}
			return []string{"no"}
		}
		nodes := []config.Node{
			{Name: "full_match", Args: yn(strings.Contains(f[1], "f"))},
			{Name: "case_insensitive", Args: yn(strings.Contains(f[1], "i"))},
			{Name: "expand_replaceholders", Args: yn(strings.Contains(f[1], "e"))},
		}
		if err := m.Init(config.NewMap(nil, config.Node{Children: nodes})); err != nil {
			return nil, err
		}
		return m.(module.Table), nil
	}
	return nil, fmt.Errorf("bad map spec %q", spec)
}

type c14Sys struct {
	tbl   *vauth.MemTable
	a     *Auth
	s     *auth.SASLAuth
	anorm authz.NormalizeFunc
	amap  module.Table
}

func c14NewSys(scn *c14Scn) (*c14Sys, error) {
	sys := &c14Sys{tbl: vauth.NewMemTable()}
	sys.a = &Auth{modName: "auth.pass_table", table: sys.tbl}
	if scn.anorm != "nil" {
		fn, ok := authz.NormalizeFuncs[scn.anorm]
		if !ok {
			return nil, fmt.Errorf("unknown normalize func %q", scn.anorm)
		}
		sys.anorm = fn
	}
	m, err := c14BuildMap(scn.mapSpec)
	if err != nil {
		return nil, err
	}
	sys.amap = m
	sys.s = &auth.SASLAuth{
		Log:           log.Logger{Out: log.NopOutput{}, Name: "c14"},
		EnableLogin:   scn.login,
		AuthNormalize: sys.anorm,
		Plain:         []module.PlainAuth{sys.a},
	}
	if m != nil {
		sys.s.AuthMap = m
	}
	return sys, nil
}

// the account a name given to a management call stands for
func c14Account(name string) (string, bool) {
	k, err := precis.UsernameCaseMapped.CompareKey(name)
	return k, err == nil
}

// the account a user name supplied over SASL normalises to: auth_map_normalize, then auth_map ONCE,
// then the table's key form
func (sys *c14Sys) resolve(u string) (string, bool) {
	n := u
	if sys.anorm != nil {
		v, err := sys.anorm(u)
		if err != nil {
			return "", false
		}
		n = v
	}
	if sys.amap != nil {
		v, ok, err := sys.amap.Lookup(context.Background(), n)
		if err != nil || !ok {
			return "", false
		}
		n = v
	}
	return c14Account(n)
}

// ---------------------------------------------------------------- primitive tables for the model

func c14Tables(sys *c14Sys, scn *c14Scn) string {
	set := map[string]bool{}
	for _, o := range scn.ops {
		set[o.u] = true
		if o.kind == 'p' {
			set[o.authzid] = true
		}
	}
	type row struct{ tag, in, out string }
	var rows []row
	done := map[string]bool{}
	for round := 0; round < 3; round++ {
		keys := make([]string, 0, len(set))
		for k := range set {
			if !done[k] {
				keys = append(keys, k)
			}
		}
		sort.Strings(keys)
		for _, k := range keys {
			done[k] = true
			enc := func(s string, ok bool) string {
				if !ok {
					return "!"
				}
				return vh.HexRunes(s)
			}
			n, err := precis.UsernameCaseMapped.CompareKey(k)
			rows = append(rows, row{"n", k, enc(n, err == nil)})
			if err == nil {
				set[n] = true
			}
			if sys.anorm != nil {
				v, err := sys.anorm(k)
				rows = append(rows, row{"a", k, enc(v, err == nil)})
				if err == nil {
					set[v] = true
				}
			}
			if sys.amap != nil {
				v, ok, err := sys.amap.Lookup(context.Background(), k)
				rows = append(rows, row{"m", k, enc(v, ok && err == nil)})
				if ok && err == nil {
					set[v] = true
				}
			}
		}
	}
	var b strings.Builder
	for _, r := range rows {
		b.WriteString(" " + r.tag + ":" + vh.HexRunes(r.in) + ":" + r.out)
	}
	return b.String()
}

func c14Line(sys *c14Sys, scn *c14Scn) string {
	var b strings.Builder
	b.WriteString("C14 hist ")
	if scn.login {
		b.WriteString("L1")
	} else {
		b.WriteString("L0")
	}
	b.WriteString(" A:" + scn.anorm + " M:" + scn.mapSpec)
	for _, o := range scn.ops {
		b.WriteString(" " + o.token())
	}
	b.WriteString(" |")
	b.WriteString(c14Tables(sys, scn))
	return b.String()
}

// ---------------------------------------------------------------- running one SASL exchange

type c14Auth struct {
	res      string // ok | fail | unsup | fail-other
	identity string
	cbCount  int
	data     auth.ContextData
}

func (r c14Auth) obs() string {
	if r.res == "ok" {
		return "ok=" + vh.HexRunes(r.identity)
	}
	return r.res
}

func c14Exchange(s *auth.SASLAuth, mech, authzid, u, p string, initialResponse bool) c14Auth {
	var r c14Auth
	srv := s.CreateSASL(mech, &net.TCPAddr{IP: net.IPv4(127, 0, 0, 1), Port: 1}, func(identity string, d auth.ContextData) error {
		r.cbCount++
		r.identity = identity
		r.data = d
		return nil
	})
	var steps [][]byte
	switch mech {
	case sasl.Plain:
		steps = [][]byte{[]byte(authzid + "\x00" + u + "\x00" + p)}
	case sasl.Login:
		steps = [][]byte{[]byte(u), []byte(p)}
	}
	if !initialResponse {
		steps = append([][]byte{nil}, steps...)
	}
	var err error
	done := false
	for _, st := range steps {
		_, done, err = srv.Next(st)
		if err != nil || done {
			break
		}
	}
	switch {
	case err == nil && done:
		r.res = "ok"
	case err == nil:
		r.res = "fail-other" // exchange not finished
	case errors.Is(err, auth.ErrUnsupportedMech):
		r.res = "unsup"
	case errors.Is(err, auth.ErrInvalidAuthCred):
		r.res = "fail"
	default:
		r.res = "fail-other"
	}
	return r
}

func c14Mgmt(err error) string {
	switch {
	case err == nil:
		return "ok"
	case strings.Contains(err.Error(), "unknown hash function"):
		return "e-algo"
	case strings.Contains(err.Error(), "(raw)"):
		return "e-name"
	case strings.Contains(err.Error(), "already exist"):
		return "e-exists"
	case strings.Contains(err.Error(), "hash generation"):
		return "e-hash"
	}
	return "e-other"
}

var c14Schemes = map[string]string{"b": HashBcrypt, "a": HashArgon2, "s": HashSHA256, "x": "md5"}

// ---------------------------------------------------------------- reference (the property's own reading)

type c14Ref struct {
	scheme string
	pw     string
}

func c14BcryptKey(p string) [72]byte {
	k := append([]byte(p), 0)
	var out [72]byte
	for i := range out {
		out[i] = k[i%len(k)]
	}
	return out
}

// "the supplied password is the one set": byte equality; for bcrypt modulo its documented key rule
// (NUL-terminated password, cyclically expanded, only the first 72 bytes are significant).
func c14SamePw(scheme, supplied, set string) bool {
	if scheme == "b" {
		return c14BcryptKey(supplied) == c14BcryptKey(set)
	}
	return supplied == set
}

type c14Viol struct{ sig, detail string }

type c14Result struct {
	line  string
	obs   string
	viols []c14Viol
	stats []string
}

func c14RunScn(scn *c14Scn) (res c14Result) {
	sys, err := c14NewSys(scn)
	if err != nil {
		panic(err)
	}
	res.line = c14Line(sys, scn)
	viol := func(sig, format string, a ...interface{}) {
		res.viols = append(res.viols, c14Viol{sig, fmt.Sprintf(format, a...)})
	}
	stat := func(k string) { res.stats = append(res.stats, k) }

	ref := map[string]c14Ref{} // account -> last password set
	account := c14Account
	resolve := sys.resolve
	checkKeys := func(i int) {
		keys, _ := sys.tbl.Keys()
		var want []string
		for k := range ref {
			want = append(want, k)
		}
		sort.Strings(want)
		if !reflect.DeepEqual(append([]string{}, keys...), append([]string{}, want...)) && !(len(keys) == 0 && len(want) == 0) {
			viol("C14/table-keys", "after op %d the table holds accounts %q, the history implies %q", i, keys, want)
		}
		for k, v := range sys.tbl.Snapshot() {
			if r, ok := ref[k]; ok && !strings.HasPrefix(v, c14Schemes[r.scheme]+":") {
				viol("C14/table-row", "after op %d row %q does not carry scheme %s", i, k, r.scheme)
			}
		}
	}

	var obs []string
	nAuthOK := 0
	for i, o := range scn.ops {
		switch o.kind {
		case 'c':
			err := sys.a.CreateUserHash(o.u, o.p, c14Schemes[o.scheme], HashOpts{BcryptCost: 4, Argon2Time: 1, Argon2Memory: 8, Argon2Threads: 1})
			r := c14Mgmt(err)
			obs = append(obs, r)
			stat("create." + r)
			stat("create.scheme." + o.scheme)
			k, ok := account(o.u)
			_, exists := ref[k]
			want := o.scheme != "x" && ok && !exists && !(o.scheme == "b" && len(o.p) > 72)
			if want {
				ref[k] = c14Ref{o.scheme, o.p}
			}
			if want != (err == nil) {
				viol("C14/mgmt-result", "op %d create %q: succeeded=%v, the history implies %v (err: %v)", i, o.u, err == nil, want, err)
			}
			checkKeys(i)
		case 's':
			err := sys.a.SetUserPassword(o.u, o.p)
			r := c14Mgmt(err)
			obs = append(obs, r)
			stat("set." + r)
			k, ok := account(o.u)
			want := ok && len(o.p) <= 72
			if want {
				if _, exists := ref[k]; !exists {
					stat("set.on-missing-account")
				}
				ref[k] = c14Ref{"b", o.p}
			}
			if want != (err == nil) {
				viol("C14/mgmt-result", "op %d set-password %q: succeeded=%v, the history implies %v (err: %v)", i, o.u, err == nil, want, err)
			}
			checkKeys(i)
		case 'd':
			err := sys.a.DeleteUser(o.u)
			r := c14Mgmt(err)
			obs = append(obs, r)
			stat("delete." + r)
			k, ok := account(o.u)
			if ok {
				if _, exists := ref[k]; exists {
					stat("delete.existing")
				}
				delete(ref, k)
			}
			if ok != (err == nil) {
				viol("C14/mgmt-result", "op %d delete %q: succeeded=%v, the history implies %v (err: %v)", i, o.u, err == nil, ok, err)
			}
			checkKeys(i)
		case 't':
			before := sys.tbl.Snapshot()
			err := sys.a.AuthPlain(o.u, o.p)
			if err == nil {
				obs = append(obs, "ok")
			} else {
				obs = append(obs, "fail")
			}
			k, ok := account(o.u)
			r, exists := ref[k]
			want := ok && exists && c14SamePw(r.scheme, o.p, r.pw)
			stat(fmt.Sprintf("direct.%v", err == nil))
			if err == nil && !want {
				viol("C14/auth-accepts-wrong-password", "op %d: pass_table.AuthPlain(%q, %x) succeeded; account %q exists=%v", i, o.u, o.p, k, exists)
			}
			if err != nil && want {
				viol("C14/auth-refuses-current-password", "op %d: pass_table.AuthPlain(%q, %x) failed: %v", i, o.u, o.p, err)
			}
			if !reflect.DeepEqual(before, sys.tbl.Snapshot()) {
				viol("C14/auth-mutates-table", "op %d", i)
			}
		case 'p', 'l':
			before := sys.tbl.Snapshot()
			mech, other := sasl.Plain, sasl.Login
			if o.kind == 'l' {
				mech, other = sasl.Login, sasl.Plain
			}
			r := c14Exchange(sys.s, mech, o.authzid, o.u, o.p, i%2 == 0)
			obs = append(obs, r.obs())
			stat(mech + "." + r.res)
			// decision against the reference map
			k, okName := resolve(o.u)
			rf, exists := ref[k]
			right := okName && exists && c14SamePw(rf.scheme, o.p, rf.pw)
			authzOK := o.kind == 'l' || o.authzid == "" || o.authzid == o.u
			want := right && authzOK && (o.kind == 'p' || scn.login)
			switch {
			case !okName:
				stat("auth.name-unresolved")
			case !exists:
				stat("auth.no-account")
			case !right:
				stat("auth.wrong-password")
			default:
				stat("auth.current-password." + rf.scheme)
			}
			if r.res == "ok" {
				nAuthOK++
				if !authzOK {
					viol("C14/authzid-mismatch-accepted", "op %d: PLAIN authzid %q with authcid %q succeeded", i, o.authzid, o.u)
				} else if !want {
					viol("C14/auth-accepts-wrong-password", "op %d: %s %q/%x succeeded; resolved account %q (resolved=%v exists=%v)", i, mech, o.u, o.p, k, okName, exists)
				}
				if r.cbCount != 1 || r.data.Password != o.p {
					viol("C14/success-callback", "op %d: callback ran %d times, password passed on equal=%v", i, r.cbCount, r.data.Password == o.p)
				}
			} else {
				if want {
					viol("C14/auth-refuses-current-password", "op %d: %s %q/%x gave %s although the password is the current one of account %q", i, mech, o.u, o.p, r.res, k)
				}
				if r.cbCount != 0 {
					viol("C14/success-callback", "op %d: callback ran on a failed exchange", i)
				}
				if o.kind == 'l' && !scn.login && r.res != "unsup" {
					viol("C14/login-disabled", "op %d: LOGIN is disabled but the exchange gave %s", i, r.res)
				}
			}
			if !authzOK {
				stat("auth.authzid-mismatch")
			}
			// same credentials through the other mechanism: same decision, same identity
			if authzOK && scn.login {
				sh := c14Exchange(sys.s, other, "", o.u, o.p, i%2 == 1)
				if (sh.res == "ok") != (r.res == "ok") || (r.res == "ok" && sh.identity != r.identity) {
					viol("C14/plain-login-disagree", "op %d: %s gives %s (identity %q), %s gives %s (identity %q) for user %q", i, mech, r.res, r.identity, other, sh.res, sh.identity, o.u)
				}
				stat("mech-compared")
			}
			if !reflect.DeepEqual(before, sys.tbl.Snapshot()) {
				viol("C14/auth-mutates-table", "op %d", i)
			}
		}
	}
	res.obs = strings.Join(obs, " ")
	stat(fmt.Sprintf("hist.len.%02d", len(scn.ops)))
	stat("cfg.anorm." + scn.anorm)
	stat("cfg.map." + strings.SplitN(scn.mapSpec, ",", 2)[0])
	stat(fmt.Sprintf("cfg.login.%v", scn.login))
	if nAuthOK > 0 {
		stat("hist.with-successful-auth")
	}
	return res
}

// ---------------------------------------------------------------- generators

var c14Bases = []string{"alice", "bob", "rené", "ünï", "user@example.org", "дима", "straße", "ǆo", "ali.ce", "o'neil"}
var c14BadNames = []string{"", "a b", "Ⅳ", "ﬁsh", "\u0001x", "x­y", "ſam", "a‍b"}
var c14Targets = []string{"acct1", "acct2", "shared", "alice", "bob"}

func c14Fullwidth(s string) string {
	var b strings.Builder
	for _, r := range s {
		if r > 0x20 && r < 0x7f {
			b.WriteRune(r + 0xFEE0)
		} else {
			b.WriteRune(r)
		}
	}
	return b.String()
}

func c14Variant(r *vh.Rng, s string) (string, string) {
	if s == "" {
		return s, "exact"
	}
	switch r.Intn(8) {
	case 0, 1:
		return s, "exact"
	case 2:
		return strings.ToUpper(s), "upper"
	case 3:
		var b strings.Builder
		for _, ch := range s {
			if r.Bool() {
				b.WriteRune(unicode.ToUpper(ch))
			} else {
				b.WriteRune(ch)
			}
		}
		return b.String(), "mixed-case"
	case 4:
		return norm.NFD.String(s), "nfd"
	case 5:
		return c14Fullwidth(s), "fullwidth"
	case 6:
		return norm.NFD.String(strings.ToUpper(s)), "upper-nfd"
	default:
		rs := []rune(s)
		rs[0] = unicode.ToTitle(rs[0])
		return string(rs), "title"
	}
}

var c14PwClasses = []struct {
	w   int
	pws []string
}{
	{30, []string{"p", "password", "Password", "password ", "pass:word", "hunter2"}},
	{8, []string{""}},
	{17, []string{"pässwörd", "пароль", "密码", "páss", "ｐａｓｓ"}},
	{5, []string{"\xff\xfe\x80", "caf\xe9"}},
	{15, []string{strings.Repeat("x", 71), strings.Repeat("x", 72), strings.Repeat("é", 36), strings.Repeat("x", 70) + "é"}},
	{17, []string{strings.Repeat("x", 73), strings.Repeat("x", 72) + "tail", strings.Repeat("x", 72) + "other", strings.Repeat("é", 36) + "z", strings.Repeat("x", 71) + "é"}},
	{8, []string{strings.Repeat("long-", 60), strings.Repeat("долго", 100)}},
}

func c14Password(r *vh.Rng) string {
	x := r.Intn(100)
	for _, c := range c14PwClasses {
		if x < c.w {
			return c.pws[r.Intn(len(c.pws))]
		}
		x -= c.w
	}
	return "p"
}

// passwords with NUL bytes cannot be carried by PLAIN; they only occur in management and direct-table ops
var c14NulPasswords = []string{"ab\x00ab", "ab", "\x00", "p\x00", "ab\x00"}

func c14PwClass(p string) string {
	switch {
	case p == "":
		return "empty"
	case strings.Contains(p, "\x00"):
		return "nul"
	case len(p) > 150:
		return "very-long"
	case len(p) > 72:
		return "over72"
	case len(p) == 72:
		return "exactly72"
	case len(p) == 71:
		return "71"
	}
	for i := 0; i < len(p); i++ {
		if p[i] >= 0x80 {
			return "non-ascii"
		}
	}
	return "ascii"
}

func c14GenMap(r *vh.Rng, bases []string) string {
	switch x := r.Intn(100); {
	case x < 22:
		return "nil"
	case x < 30:
		return "identity"
	case x < 40:
		return "localpart"
	case x < 48:
		return "localpart_opt"
	case x < 76:
		// static: keys are mostly normalised spellings (that is what the lookup sees); values are accounts
		n := 1 + r.Intn(4)
		seen := map[string]bool{}
		var ents []string
		for i := 0; i < n; i++ {
			var k string
			switch r.Intn(6) {
			case 0:
				k = c14Targets[r.Intn(len(c14Targets))]
			case 1:
				k, _ = c14Variant(r, bases[r.Intn(len(bases))])
			default:
				k = bases[r.Intn(len(bases))]
			}
			if seen[k] {
				continue
			}
			seen[k] = true
			var v string
			switch r.Intn(5) {
			case 0:
				v = k // idempotent entry
			case 1:
				v = bases[r.Intn(len(bases))]
			default:
				v = c14Targets[r.Intn(len(c14Targets))]
			}
			ents = append(ents, vh.HexRunes(k)+"="+vh.HexRunes(v))
		}
		return "static," + strings.Join(ents, ",")
	default:
		type re struct{ flags, re, repl string }
		opts := []re{
			{"fe", `(.+)@example\.org`, "$1"},            // strip the domain: not idempotent (second application misses)
			{"fe", `(.+)`, "$1@example.org"},             // add a domain: not idempotent
			{"f", `alice|bob|rené`, "shared"},            // constant
			{"fe", `(.*)`, "$1"},                         // identity
			{"fie", `a(.*)`, "b$1"},                      // rewrites a… to b…
			{"e", `^(.+?)(\+[^@]*)?(@.*)?$`, "${1}${3}"}, // drop +tag
			{"f", `.+`, "acct1"},
		}
		o := opts[r.Intn(len(opts))]
		return "regexp," + o.flags + "," + vh.HexRunes(o.re) + "," + vh.HexRunes(o.repl)
	}
}

func c14Gen(r *vh.Rng, maxOps int) *c14Scn {
	scn := &c14Scn{login: r.Chance(90)}
	switch x := r.Intn(100); {
	case x < 25:
		scn.anorm = "nil"
	case x < 55:
		scn.anorm = "auto"
	case x < 65:
		scn.anorm = "precis_casefold"
	case x < 72:
		scn.anorm = "precis_casefold_email"
	case x < 79:
		scn.anorm = "precis"
	case x < 85:
		scn.anorm = "precis_email"
	case x < 93:
		scn.anorm = "casefold"
	default:
		scn.anorm = "noop"
	}
	nb := 1 + r.Intn(3)
	var bases []string
	for i := 0; i < nb; i++ {
		bases = append(bases, c14Bases[r.Intn(len(c14Bases))])
	}
	scn.mapSpec = c14GenMap(r, bases)
	sys, err := c14NewSys(scn)
	if err != nil {
		panic(err)
	}
	// spellings a client may supply, and the accounts they lead to under this configuration
	pool := append([]string{}, bases...)
	if scn.mapSpec != "nil" && scn.mapSpec != "identity" {
		pool = append(pool, c14Targets[r.Intn(len(c14Targets))])
		b := bases[r.Intn(len(bases))]
		if !strings.Contains(b, "@") {
			pool = append(pool, b+"@example.org")
		}
		pool = append(pool, b+"+tag")
	}
	var spellings []string
	for _, b := range pool {
		spellings = append(spellings, b)
		for i := 0; i < 2; i++ {
			v, cls := c14Variant(r, b)
			spellings = append(spellings, v)
			scn.genStats = append(scn.genStats, "name."+cls)
		}
	}
	reach := map[string][]string{}
	var accts []string
	for _, sp := range spellings {
		if k, ok := sys.resolve(sp); ok {
			if _, seen := reach[k]; !seen {
				accts = append(accts, k)
			}
			reach[k] = append(reach[k], sp)
		}
	}
	np := 2 + r.Intn(3)
	var pws []string
	for i := 0; i < np; i++ {
		pws = append(pws, c14Password(r))
	}
	if r.Chance(25) { // the 72-byte family together
		pws = append(pws, strings.Repeat("x", 72), strings.Repeat("x", 72)+"tail")
	}
	anyName := func() string {
		if r.Chance(7) {
			return c14BadNames[r.Intn(len(c14BadNames))]
		}
		return spellings[r.Intn(len(spellings))]
	}
	mgmtName := func() string {
		if len(accts) > 0 && r.Chance(65) {
			v, _ := c14Variant(r, accts[r.Intn(len(accts))])
			return v
		}
		return anyName()
	}
	pw := func(nulOK bool) string {
		if nulOK && r.Chance(7) {
			return c14NulPasswords[r.Intn(len(c14NulPasswords))]
		}
		if r.Chance(6) {
			return c14Password(r)
		}
		return pws[r.Intn(len(pws))]
	}
	// the generator's own bookkeeping, only used to aim authentications at existing accounts
	cur := map[string]string{}
	curKeys := func() []string {
		var ks []string
		for k := range cur {
			if len(reach[k]) > 0 {
				ks = append(ks, k)
			}
		}
		sort.Strings(ks)
		return ks
	}
	authCreds := func() (string, string) {
		ks := curKeys()
		x := r.Intn(100)
		if len(ks) > 0 && x < 75 {
			k := ks[r.Intn(len(ks))]
			u := reach[k][r.Intn(len(reach[k]))]
			p := cur[k]
			switch {
			case x < 50 || strings.Contains(p, "\x00"):
				if strings.Contains(p, "\x00") {
					p = pw(false)
				}
			case x < 58 && len(p) >= 71:
				p += "tail" // bcrypt: only 72 bytes count
			case x < 62:
				p += "x"
			default:
				p = pw(false)
			}
			return u, p
		}
		if len(accts) > 0 && x < 93 { // a spelling that resolves, whether or not the account exists right now
			k := accts[r.Intn(len(accts))]
			return reach[k][r.Intn(len(reach[k]))], pw(false)
		}
		return anyName(), pw(false)
	}
	n := 1 + r.Intn(maxOps)
	sets := 0
	for i := 0; i < n; i++ {
		x := r.Intn(100)
		if i == 0 && x >= 40 {
			x = r.Intn(40) // histories mostly start by creating something
		}
		switch {
		case x < 24:
			sch := "b"
			switch y := r.Intn(100); {
			case y < 32:
				sch = "b"
			case y < 62:
				sch = "a"
			case y < 92:
				sch = "s"
			default:
				sch = "x"
			}
			o := c14Op{kind: 'c', u: mgmtName(), p: pw(true), scheme: sch}
			scn.ops = append(scn.ops, o)
			if k, ok := c14Account(o.u); ok && sch != "x" && !(sch == "b" && len(o.p) > 72) {
				if _, exists := cur[k]; !exists {
					cur[k] = o.p
				}
			}
		case x < 36 && sets < 4: // SetUserPassword hashes with bcrypt.DefaultCost: bounded per history
			sets++
			o := c14Op{kind: 's', u: mgmtName(), p: pw(true)}
			scn.ops = append(scn.ops, o)
			if k, ok := c14Account(o.u); ok && len(o.p) <= 72 {
				cur[k] = o.p
			}
		case x < 44:
			o := c14Op{kind: 'd', u: mgmtName()}
			scn.ops = append(scn.ops, o)
			if k, ok := c14Account(o.u); ok {
				delete(cur, k)
			}
		case x < 69:
			u, p := authCreds()
			o := c14Op{kind: 'p', u: u, p: p}
			switch y := r.Intn(100); {
			case y < 60:
			case y < 78:
				o.authzid = o.u
			case y < 92:
				o.authzid, _ = c14Variant(r, o.u) // same account, other spelling (or the same one)
				if o.authzid == "" {
					o.authzid = "x"
				}
			default:
				o.authzid = pool[r.Intn(len(pool))]
			}
			scn.ops = append(scn.ops, o)
		case x < 92:
			u, p := authCreds()
			scn.ops = append(scn.ops, c14Op{kind: 'l', u: u, p: p})
		default:
			o := c14Op{kind: 't', p: pw(true)}
			ks := curKeys()
			if len(ks) > 0 && r.Chance(60) {
				k := ks[r.Intn(len(ks))]
				o.u, _ = c14Variant(r, k)
				if r.Chance(70) {
					o.p = cur[k]
					if r.Chance(25) {
						o.p += "\x00" + o.p // bcrypt: NUL-terminated and cyclically expanded key
					}
				}
			} else {
				o.u = mgmtName()
			}
			scn.ops = append(scn.ops, o)
		}
	}
	return scn
}

// ---------------------------------------------------------------- test entry

func c14Emit(out *vh.Out, scn *c14Scn, res c14Result) {
	out.Corr(res.line, res.obs)
	for _, v := range res.viols {
		out.Violation(v.sig, res.line, v.detail)
	}
	for _, s := range res.stats {
		out.Stat(s)
	}
	for _, s := range scn.genStats {
		out.Stat(s)
	}
	for _, o := range scn.ops {
		out.Stat("op." + string(o.kind))
		if o.kind != 'd' {
			out.Stat("pw." + c14PwClass(o.p))
		}
	}
}

func TestVerifC14Hist(t *testing.T) {
	out := vh.Open("c14_hist")
	defer out.Close()
	addSHA256() // the third scheme of hash.go is only registered by tests

	if rep := vh.Replay(); rep != nil {
		for _, l := range rep {
			if !strings.HasPrefix(l, "C14 hist ") {
				continue
			}
			scn, err := c14ParseLine(l)
			if err != nil {
				t.Fatal(err)
			}
			c14Emit(out, scn, c14RunScn(scn))
		}
		return
	}

	n := vh.N(300)
	maxOps := 12
	if vh.Thorough() {
		maxOps = 16
	}
	rng := vh.NewRng(vh.Seed() + 1400)
	scns := make([]*c14Scn, n)
	for i := range scns {
		scns[i] = c14Gen(rng.Fork(), maxOps)
	}
	// the fixed regression histories of DESIGN §6 (j) are always part of the run
	scns = append(scns, c14Fixed()...)
	results := make([]c14Result, len(scns))
	workers := runtime.GOMAXPROCS(0)
	if workers > 8 {
		workers = 8
	}
	var wg sync.WaitGroup
	idx := make(chan int)
	for w := 0; w < workers; w++ {
		wg.Add(1)
		go func() {
			defer wg.Done()
			for i := range idx {
				results[i] = c14RunScn(scns[i])
			}
		}()
	}
	for i := range scns {
		idx <- i
	}
	close(idx)
	wg.Wait()
	for i, scn := range scns {
		c14Emit(out, scn, results[i])
	}
}

// DESIGN §6 (j): static map alice→acct1 (not idempotent), same credentials through PLAIN and LOGIN.
func c14Fixed() []*c14Scn {
	static := "static," + vh.HexRunes("alice") + "=" + vh.HexRunes("acct1")
	return []*c14Scn{
		{login: true, anorm: "auto", mapSpec: static, ops: []c14Op{
			{kind: 'c', u: "acct1", p: "pw", scheme: "s"},
			{kind: 'p', u: "alice", p: "pw"},
			{kind: 'l', u: "alice", p: "pw"},
		}},
		// the documented configuration `auth_map email_localpart`: bob@example.org uses the credentials of bob
		{login: true, anorm: "auto", mapSpec: "localpart", ops: []c14Op{
			{kind: 'c', u: "bob", p: "pw", scheme: "s"},
			{kind: 'p', u: "bob@example.org", p: "pw"},
			{kind: 'l', u: "bob@example.org", p: "pw"},
		}},
		// no map at all: the identity of a non-normalised (NFD) spelling
		{login: true, anorm: "auto", mapSpec: "nil", ops: []c14Op{
			{kind: 'c', u: "ünï", p: "Password", scheme: "b"},
			{kind: 'l', u: "u\u0308ni\u0308", p: "Password"},
			{kind: 'p', u: "u\u0308ni\u0308", p: "Password"},
		}},
		{login: true, anorm: "nil", mapSpec: "static," + vh.HexRunes("alice") + "=" + vh.HexRunes("bob") + "," + vh.HexRunes("bob") + "=" + vh.HexRunes("alice"), ops: []c14Op{
			{kind: 'c', u: "alice", p: "pa", scheme: "s"},
			{kind: 'c', u: "bob", p: "pb", scheme: "a"},
			{kind: 'l', u: "alice", p: "pb"},
			{kind: 'l', u: "alice", p: "pa"},
			{kind: 'p', u: "alice", p: "pb"},
		}},
	}
}

// ---------------------------------------------------------------- source-shape facts (T1)

// TestVerifC14Skel re-derives, from the source files of the current tree, the call skeletons the Lean model
// was written from (how often and where the user name is mapped, which identity is reported, which key
// function every table entry point uses). The driver answers with the expectation (Expect/AuthSkel.lean).
func TestVerifC14Skel(t *testing.T) {
	out := vh.Open("c14_skel")
	defer out.Close()
	if rep := vh.Replay(); rep != nil {
		found := false
		for _, l := range rep {
			found = found || strings.HasPrefix(l, "C14 skel ")
		}
		if !found {
			return
		}
	}
	fact := func(name string, parts []string, err error) {
		if err != nil {
			out.Corr("C14 skel "+name, "cannot derive: "+err.Error())
			return
		}
		out.Corr("C14 skel "+name, strings.Join(parts, " "))
		out.Stat("skel.fact")
	}
	missing := fmt.Errorf("function or closure not found")

	src, err := vauth.ParseSrc("../sasl.go")
	if err != nil {
		t.Fatal(err)
	}
	interesting := func(c string) bool {
		return strings.HasSuffix(c, ".usernameForAuth") || strings.HasSuffix(c, ".AuthPlain") || c == "successCb"
	}
	isCb := func(c string) bool { return c == "successCb" }
	if fd := src.Func("SASLAuth", "CreateSASL"); fd != nil {
		for name, callee := range map[string]string{"plain-closure": "sasl.NewPlainServer", "login-closure": "sasllogin.NewLoginServer"} {
			if lit := src.FuncLitArg(fd.Body, callee); lit != nil {
				fact(name, src.Calls(lit.Body, interesting, isCb), nil)
			} else {
				fact(name, nil, missing)
			}
		}
	} else {
		fact("plain-closure", nil, missing)
		fact("login-closure", nil, missing)
	}
	if fd := src.Func("SASLAuth", "AuthPlain"); fd != nil {
		fact("sasl-authplain", src.Calls(fd.Body, interesting, nil), nil)
	} else {
		fact("sasl-authplain", nil, missing)
	}
	if fd := src.Func("SASLAuth", "usernameForAuth"); fd != nil {
		fact("username-for-auth", src.Calls(fd.Body, func(c string) bool {
			return strings.HasSuffix(c, ".AuthNormalize") || strings.HasSuffix(c, ".Lookup")
		}, nil), nil)
	} else {
		fact("username-for-auth", nil, missing)
	}

	tsrc, err := vauth.ParseSrc("table.go")
	if err != nil {
		t.Fatal(err)
	}
	var keys []string
	for _, fn := range []string{"AuthPlain", "CreateUserHash", "SetUserPassword", "DeleteUser"} {
		fd := tsrc.Func("Auth", fn)
		if fd == nil {
			keys = append(keys, fn+":missing")
			continue
		}
		for _, c := range tsrc.Calls(fd.Body, func(c string) bool { return strings.HasSuffix(c, ".CompareKey") || strings.HasSuffix(c, ".Enforce") || strings.HasSuffix(c, ".String") && strings.HasPrefix(c, "precis.") }, nil) {
			keys = append(keys, fn+":"+c)
		}
	}
	fact("table-keys", keys, nil)
}
