package smtp

import (
	"fmt"
	"strings"
	"testing"

	"github.com/emersion/go-smtp"
	"github.com/foxcpp/maddy/framework/exterrors"
	"github.com/foxcpp/maddy/framework/log"
	"github.com/foxcpp/maddy/internal/verifshim/verr"
	"github.com/foxcpp/maddy/internal/verifshim/vh"
)

func c16Endpoint(out *vh.Out, endp *Endpoint, op string) {
	toks := strings.Fields(op)
	// C16 wrap <mangle> <err...> | C16 helper <t> <p> <s> <d> <err...>
	switch toks[1] {
	case "wrap":
		n, _ := verr.Parse(toks[3:])
		mang := toks[2] == "1"
		res := endp.wrapErr("", mang, "DATA", n.Build())
		r, ok := res.(*smtp.SMTPError)
		if !ok {
			out.Corr(op, fmt.Sprintf("not-smtp-error %T", res))
			return
		}
		out.Corr(op, verr.CanonReply(r))
		verr.CheckReply(out, "endpoint", op, n, r, mang, false)
		if verr.WellFormed(n) {
			out.Stat("wrap.wellformed")
		} else {
			out.Stat("wrap.malformed")
		}
		out.Stat(fmt.Sprintf("wrap.class%d", r.Code/100))
	case "helper":
		var t, p, s, d int
		fmt.Sscan(strings.Join(toks[2:6], " "), &t, &p, &s, &d)
		n, _ := verr.Parse(toks[6:])
		e := n.Build()
		code := exterrors.SMTPCode(e, t, p)
		ench := exterrors.SMTPEnchCode(e, exterrors.EnhancedCode{0, s, d})
		out.Corr(op, fmt.Sprintf("%d %d.%d.%d", code, ench[0], ench[1], ench[2]))
		if t/100 == 4 && p/100 == 5 && ench[0] != code/100 {
			out.Violation("C16/helper-class-mismatch", op, fmt.Sprintf("SMTPCode=%d SMTPEnchCode=%d.%d.%d", code, ench[0], ench[1], ench[2]))
		}
		out.Stat(fmt.Sprintf("helper.class%d", code/100))
	}
}

func TestVerifC16Endpoint(t *testing.T) {
	out := vh.Open("c16_endpoint")
	defer out.Close()
	endp := &Endpoint{name: "verif", Log: log.Logger{Out: log.NopOutput{}}}
	if ops := vh.Replay(); ops != nil {
		for _, op := range ops {
			if strings.HasPrefix(op, "C16 wrap") || strings.HasPrefix(op, "C16 helper") {
				c16Endpoint(out, endp, op)
			}
		}
		return
	}
	r := vh.NewRng(vh.Seed())
	n := vh.N(4000)
	for i := 0; i < n; i++ {
		depth := r.Intn(5)
		if r.Chance(5) {
			depth = 5 + r.Intn(8)
		}
		node := verr.Gen(r, depth, r.Chance(75))
		mang := "0"
		if r.Bool() {
			mang = "1"
		}
		c16Endpoint(out, endp, "C16 wrap "+mang+" "+node.String())
		if i%4 == 0 {
			pairs := [][2]int{{451, 550}, {450, 550}, {451, 554}, {421, 500}}
			pr := pairs[r.Intn(len(pairs))]
			c16Endpoint(out, endp, fmt.Sprintf("C16 helper %d %d %d %d %s", pr[0], pr[1], r.Intn(8), r.Intn(30), node.String()))
		}
	}
}
