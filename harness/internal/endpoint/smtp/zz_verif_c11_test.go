package smtp

import (
	"context"
	"errors"
	"fmt"
	"net"
	"strconv"
	"strings"
	"sync"
	"testing"
	"time"

	"github.com/emersion/go-message/textproto"
	"github.com/emersion/go-smtp"
	"github.com/foxcpp/go-mockdns"
	"github.com/foxcpp/maddy/framework/address"
	"github.com/foxcpp/maddy/framework/buffer"
	"github.com/foxcpp/maddy/framework/config"
	"github.com/foxcpp/maddy/framework/exterrors"
	"github.com/foxcpp/maddy/framework/module"
	"github.com/foxcpp/maddy/internal/auth"
	"github.com/foxcpp/maddy/internal/limits"
	"github.com/foxcpp/maddy/internal/msgpipeline"
	"github.com/foxcpp/maddy/internal/testutils"
	"github.com/foxcpp/maddy/internal/verifshim/vh"
	"github.com/foxcpp/maddy/internal/verifshim/vlim"
)

// Key spelling: source addresses are ids of the table in vlim (IPv4 id x = 127.0.0.x; IPv6, several hosts of one
// /64, IPv4-mapped, odd ones); the bucket key the code derives from each is observed on the real Group
// (c11sKeys). Domain id d = d<d>.example ("" = 0, D<d>.EXAMPLE = 1000+d).
func c11sV4(id int) net.IP { return net.IPv4(127, 0, byte(id/256), byte(id%256)) }

var c11sKeys = vlim.NewIPKeys(c11sV4)

// c11sListener makes the accepted connections look as if they came from the table address whose id the
// client encoded in its (loopback) source address 127.0.hi.lo: IPv6 peers without IPv6 networking.
type c11sListener struct {
	net.Listener
	once    sync.Once
	serving chan struct{} // closed when Serve calls Accept for the first time (= the listener is registered)
}

type c11sConn struct {
	net.Conn
	remote net.Addr
}

func (c *c11sConn) RemoteAddr() net.Addr { return c.remote }

func (l *c11sListener) Accept() (net.Conn, error) {
	l.once.Do(func() { close(l.serving) })
	c, err := l.Listener.Accept()
	if err != nil {
		return nil, err
	}
	tcp, ok := c.RemoteAddr().(*net.TCPAddr)
	if !ok || tcp.IP.To4() == nil {
		return c, nil
	}
	v := tcp.IP.To4()
	id := int(v[2])*256 + int(v[3])
	return &c11sConn{Conn: c, remote: &net.TCPAddr{IP: vlim.Addr(id, c11sV4), Port: tcp.Port}}, nil
}

// c11sServe adds a listener of that kind to the endpoint; returns its port.
func c11sServe(endp *Endpoint) (string, error) {
	l, err := net.Listen("tcp", "127.0.0.1:0")
	for try := 0; err != nil && try < 50; try++ { // ephemeral ports exhausted by the other cases' sockets
		time.Sleep(20 * time.Millisecond)
		l, err = net.Listen("tcp", "127.0.0.1:0")
	}
	if err != nil {
		return "", err
	}
	wl := &c11sListener{Listener: l, serving: make(chan struct{})}
	endp.listenersWg.Add(1)
	go func() {
		endp.serv.Serve(wl) //nolint:errcheck
		endp.listenersWg.Done()
	}()
	// go-smtp's Close only closes the listeners Serve has registered: an endpoint closed before this
	// goroutine ran would wait for it for ever
	<-wl.serving
	return strconv.Itoa(l.Addr().(*net.TCPAddr).Port), nil
}

// c11sLine builds an op line: cfg, the observed key tokens of the addresses the o. ops mention, the ops.
func c11sLine(kind string, cfg vlim.Cfg, ops []string) string {
	var addrs []int
	for _, o := range ops {
		if f := strings.Split(o, "."); f[0] == "o" && len(f) > 2 {
			a, _ := strconv.Atoi(f[2])
			addrs = append(addrs, a)
		}
	}
	return "C11 " + kind + " " + cfg.String() + " " + strings.Join(append(c11sKeys.Tokens(addrs), ops...), " ")
}

func c11sKeyID(scope int, k string) int {
	if scope == 1 {
		return c11sKeys.KeyID(k)
	}
	if k == "" {
		return 0
	}
	if strings.HasPrefix(k, "d") && strings.HasSuffix(k, ".example") {
		n, _ := strconv.Atoi(k[1 : len(k)-len(".example")])
		return n
	}
	if strings.HasPrefix(k, "D") && strings.HasSuffix(k, ".EXAMPLE") {
		n, _ := strconv.Atoi(k[1 : len(k)-len(".EXAMPLE")])
		return 1000 + n
	}
	return -2
}

// c11Check is the monitor's eye inside the pipeline: a message is "in flight" from the moment the
// pipeline accepted its sender until its check state is closed (Commit/Abort). It also scripts
// pipeline.Start failures.
type c11Check struct {
	mu       sync.Mutex
	reject   bool
	inflight [3]map[int]int // all, ip, source
	cfg      vlim.Cfg
	viol     string
}

type c11CheckState struct {
	c       *c11Check
	meta    *module.MsgMetadata
	counted bool
	ip, dom int
}

func (c *c11Check) Init(*config.Map) error { return nil }
func (c *c11Check) Name() string           { return "c11_check" }
func (c *c11Check) InstanceName() string   { return "c11_check" }
func (c *c11Check) CheckStateForMsg(ctx context.Context, m *module.MsgMetadata) (module.CheckState, error) {
	return &c11CheckState{c: c, meta: m}, nil
}
func (s *c11CheckState) CheckConnection(ctx context.Context) module.CheckResult {
	return module.CheckResult{}
}
func (s *c11CheckState) CheckSender(ctx context.Context, from string) module.CheckResult {
	s.c.mu.Lock()
	defer s.c.mu.Unlock()
	if s.c.reject {
		return module.CheckResult{Reject: true, Reason: &exterrors.SMTPError{Code: 550, EnhancedCode: exterrors.EnhancedCode{5, 7, 1}, Message: "c11 scripted rejection"}}
	}
	dom := ""
	if from != "" {
		_, dom, _ = address.Split(from)
	}
	ip := 1
	if a, ok := s.meta.Conn.RemoteAddr.(*net.TCPAddr); ok {
		ip = vlim.MonID(c11sKeys.AddrID(a.IP)) // identity of the peer IP, not the key the code derives
	}
	s.ip, s.dom, s.counted = ip, c11sKeyID(2, dom), true
	for sc, k := range []int{0, s.ip, s.dom} {
		if s.c.inflight[sc] == nil {
			s.c.inflight[sc] = map[int]int{}
		}
		s.c.inflight[sc][k]++
		if b := s.c.cfg.Bound(sc); b > 0 && s.c.inflight[sc][k] > b && (sc == 0 || len(s.c.cfg.Scopes[sc]) > 0) {
			s.c.viol = fmt.Sprintf("scope %s key %d: %d messages in flight, concurrency %d configured", vlim.ScopeNames[sc], k, s.c.inflight[sc][k], b)
		}
	}
	return module.CheckResult{}
}
func (s *c11CheckState) CheckRcpt(ctx context.Context, to string) module.CheckResult {
	return module.CheckResult{}
}
func (s *c11CheckState) CheckBody(ctx context.Context, h textproto.Header, b buffer.Buffer) module.CheckResult {
	return module.CheckResult{}
}
func (s *c11CheckState) Close() error {
	s.c.mu.Lock()
	defer s.c.mu.Unlock()
	if s.counted {
		s.counted = false
		for sc, k := range []int{0, s.ip, s.dom} {
			s.c.inflight[sc][k]--
		}
	}
	return nil
}

// c11Endpoint builds an endpoint like the package's testEndpoint, but without a listener of its own (no
// address: the cases talk to it through c11sServe, which picks a free port itself) and without t.Fatal.
func c11Endpoint(t *testing.T, tgt module.DeliveryTarget, chk module.Check, nodes []config.Node) (*Endpoint, string, error) {
	mod, err := New("smtp", nil)
	if err != nil {
		return nil, "", err
	}
	endp := mod.(*Endpoint)
	endp.resolver = &mockdns.Resolver{Zones: map[string]mockdns.Zone{
		"mx.example.org.":         {A: []string{"127.0.0.1"}},
		"1.0.0.127.in-addr.arpa.": {PTR: []string{"mx.example.org"}},
	}}
	endp.Log = testutils.Logger(t, "smtp")
	cfg := append(append([]config.Node{}, nodes...),
		config.Node{Name: "hostname", Args: []string{"mx.example.com"}},
		config.Node{Name: "tls", Args: []string{"off"}},
		config.Node{Name: "deliver_to", Args: []string{"dummy"}},
	)
	if err := endp.Init(config.NewMap(nil, config.Node{Children: cfg})); err != nil {
		return nil, "", err
	}
	endp.saslAuth = auth.SASLAuth{Log: testutils.Logger(t, "smtp/saslauth"), Plain: []module.PlainAuth{nil}}
	endp.pipeline = msgpipeline.Mock(tgt, []module.Check{chk})
	endp.pipeline.Hostname = "mx.example.com"
	endp.pipeline.Resolver = endp.resolver
	endp.pipeline.FirstPipeline = true
	endp.pipeline.Log = testutils.Logger(t, "smtp/pipeline")
	return endp, "", nil
}

type c11Client struct {
	cl      *smtp.Client
	conn    net.Conn
	ip      int
	inTxn   bool // MAIL accepted
	rcptOK  int
	started bool
}

type c11SessCase struct {
	out     *vh.Out
	cfg     vlim.Cfg
	def     bool
	g       *limits.Group
	endp    *Endpoint
	chk     *c11Check
	tgt     *testutils.Target
	port    string
	cls     map[int]*c11Client
	ops     []string
	obs     []string
	slow    int
	maxSlow int
	broke   bool
}

func (c *c11SessCase) opLine() string { return c11sLine("sess", c.cfg, c.ops) }

func (c *c11SessCase) waitSessions(n int32) {
	dl := time.Now().Add(20 * time.Second)
	for c.endp.sessionCnt.Load() != n && time.Now().Before(dl) {
		time.Sleep(200 * time.Microsecond)
	}
}

func (c *c11SessCase) record(op string) {
	c.ops = append(c.ops, op)
	c.obs = append(c.obs, "-@"+vlim.Snapshot(c.g, c11sKeyID))
	if v := c.chk.viol; v != "" {
		c.chk.viol = ""
		c.out.Violation("C11/bound", c.opLine(), v)
	}
}

func c11From(dom int, variant int) (addr string, raw int, clean string) {
	switch variant {
	case 0:
		return fmt.Sprintf("u@d%d.example", dom), dom, strconv.Itoa(dom)
	case 1:
		return fmt.Sprintf("User@D%d.EXAMPLE", dom), 1000 + dom, strconv.Itoa(dom)
	case 2:
		return "", 0, "0"
	default:
		return fmt.Sprintf("tést@d%d.example", dom), dom, "x" // non-ASCII without SMTPUTF8
	}
}

// exec performs one op token; returns false when the case cannot go on.
func (c *c11SessCase) exec(op string) bool {
	f := strings.Split(op, ".")
	sid, _ := strconv.Atoi(f[1])
	switch f[0] {
	case "o":
		ip, _ := strconv.Atoi(f[2])
		d := net.Dialer{LocalAddr: &net.TCPAddr{IP: c11sV4(ip)}, Timeout: 10 * time.Second}
		conn, err := d.Dial("tcp", "127.0.0.1:"+c.port)
		if err != nil {
			c.out.Note("dial: " + err.Error())
			return false
		}
		cl := smtp.NewClient(conn)
		cl.CommandTimeout = 60 * time.Second
		cl.SubmissionTimeout = 60 * time.Second
		before := c.endp.sessionCnt.Load()
		if err := cl.Hello("client.example"); err != nil {
			c.out.Note("hello: " + err.Error())
			return false
		}
		c.waitSessions(before + 1)
		c.cls[sid] = &c11Client{cl: cl, conn: conn, ip: ip}
		c.record(op)
		return true
	}
	k := c.cls[sid]
	if k == nil {
		return false
	}
	switch f[0] {
	case "m":
		raw, _ := strconv.Atoi(f[2])
		startOK := f[4] == "1"
		var addr string
		switch {
		case f[3] == "x":
			addr = fmt.Sprintf("tést@d%d.example", raw)
		case raw == 0 && f[3] == "0":
			addr = ""
		case raw >= 1000:
			addr = fmt.Sprintf("User@D%d.EXAMPLE", raw-1000)
		default:
			addr = fmt.Sprintf("u@d%d.example", raw)
		}
		c.chk.mu.Lock()
		c.chk.reject = !startOK
		c.chk.mu.Unlock()
		t0 := time.Now()
		err := k.cl.Mail(addr, &smtp.MailOptions{})
		if time.Since(t0) > 3*time.Second {
			c.slow++
		}
		c.out.Stat("sess:mail:" + c11Reply(err))
		if err == nil && !k.inTxn {
			k.inTxn = true
			k.rcptOK = 0
		}
		if k.cl.Noop() != nil {
			return false
		}
		c.record(op)
	case "c":
		startOK := f[2] == "1"
		c.chk.mu.Lock()
		c.chk.reject = !startOK
		c.chk.mu.Unlock()
		t0 := time.Now()
		err := k.cl.Rcpt("rcpt@target.example", nil)
		if time.Since(t0) > 3*time.Second {
			c.slow++
		}
		c.out.Stat("sess:rcpt:" + c11Reply(err))
		if err == nil {
			k.rcptOK++
		}
		if k.cl.Noop() != nil {
			return false
		}
		c.record(op)
	case "d":
		w, err := k.cl.Data()
		if err != nil {
			c.out.Note("DATA refused: " + err.Error())
			return false
		}
		if f[2] == "1" {
			fmt.Fprintf(w, "From: <u@d1.example>\r\nSubject: c11\r\n\r\nbody\r\n")
		} else {
			fmt.Fprintf(w, "From: <u@d1.example>\r\nX-Long: %s\r\n\r\nbody\r\n", strings.Repeat("x", 900))
		}
		err = w.Close()
		c.out.Stat("sess:data:" + c11Reply(err))
		k.inTxn = false
		k.rcptOK = 0
		if k.cl.Noop() != nil { // go-smtp resets the session after DATA; NOOP orders us after it
			return false
		}
		c.record(op)
	case "z":
		if err := k.cl.Reset(); err != nil {
			return false
		}
		k.inTxn = false
		k.rcptOK = 0
		c.record(op)
	case "q":
		before := c.endp.sessionCnt.Load()
		if len(f) > 2 && f[2] == "drop" {
			k.conn.Close()
			c.out.Stat("sess:drop")
		} else {
			k.cl.Quit()
			c.out.Stat("sess:quit")
		}
		c.waitSessions(before - 1)
		delete(c.cls, sid)
		c.record(op)
	default:
		return false
	}
	return true
}

func c11Reply(err error) string {
	if err == nil {
		return "250"
	}
	var se *smtp.SMTPError
	if errors.As(err, &se) {
		if se.Code == 451 && strings.Contains(se.Message, "High load") {
			return "451-limit-timeout"
		}
		if strings.Contains(se.Message, "c11 scripted") {
			return "550-pipeline-reject"
		}
		return strconv.Itoa(se.Code)
	}
	return "io-error"
}

func c11SessRun(out *vh.Out, t *testing.T, cfg vlim.Cfg, def bool, r *vh.Rng, fixed []string) {
	g, p, err := vlim.NewGroup(cfg)
	if p != nil || err != nil {
		if p != nil {
			out.Violation("C11/panic-init", "C11 sess "+cfg.String(), fmt.Sprint(p))
		}
		return
	}
	defer vlim.CloseGroup(g)
	chk := &c11Check{cfg: cfg}
	tgt := &testutils.Target{DiscardMessages: true}
	nodes := []config.Node{{Name: "max_header_size", Args: []string{"512b"}}}
	if !def {
		nodes = append(nodes, config.Node{Name: "defer_sender_reject", Args: []string{"no"}})
	}
	endp, port, err := c11Endpoint(t, tgt, chk, nodes)
	if err == nil {
		if port, err = c11sServe(endp); err != nil {
			endp.Close()
		}
	}
	if err != nil {
		out.Stat("sess:endpoint-error")
		out.Note("cannot start endpoint: " + err.Error())
		return
	}
	defer endp.Close()
	endp.limits = g
	c := &c11SessCase{out: out, cfg: cfg, def: def, g: g, endp: endp, chk: chk, tgt: tgt, port: port, cls: map[int]*c11Client{}, maxSlow: 1}
	if r.Chance(20) {
		c.maxSlow = 2
	}
	defB := "0"
	if def {
		defB = "1"
	}
	if fixed != nil {
		fixed = vlim.StripKeyTokens(fixed)
		for _, op := range fixed {
			if !c.exec(op) {
				c.broke = true
				break
			}
		}
	} else {
		nOps := 8 + r.Intn(22)
		nextSid := 1
		nDom := 1 + r.Intn(3)
		pool := vlim.AddrPool(r.Intn, 2+r.Intn(3))
		for _, a := range pool {
			out.Stat("sess:addr:" + vlim.AddrClass(a))
		}
		for i := 0; i < nOps && !c.broke; i++ {
			var sids []int
			for s := 1; s < nextSid; s++ {
				if c.cls[s] != nil {
					sids = append(sids, s)
				}
			}
			if len(sids) == 0 || (len(sids) < 4 && r.Chance(18)) {
				op := fmt.Sprintf("o.%d.%d.%s", nextSid, pool[r.Intn(len(pool))], defB)
				nextSid++
				if !c.exec(op) {
					c.broke = true
				}
				continue
			}
			sid := sids[r.Intn(len(sids))]
			k := c.cls[sid]
			x := r.Intn(100)
			var op string
			switch {
			case !k.inTxn || x < 12: // MAIL (12%: nested MAIL inside a transaction)
				if c.slow >= c.maxSlow && !k.inTxn {
					op = fmt.Sprintf("q.%d", sid)
					break
				}
				variant := []int{0, 0, 1, 1, 2, 3}[r.Intn(6)]
				_, raw, clean := c11From(1+r.Intn(nDom), variant)
				so := "1"
				if r.Chance(15) {
					so = "0"
				}
				op = fmt.Sprintf("m.%d.%d.%s.%s", sid, raw, clean, so)
			case x < 48:
				so := "1"
				if r.Chance(15) {
					so = "0"
				}
				if c.slow >= c.maxSlow && k.rcptOK == 0 && def {
					op = fmt.Sprintf("z.%d", sid)
					break
				}
				op = fmt.Sprintf("c.%d.%s", sid, so)
			case x < 75 && k.rcptOK > 0:
				po := "1"
				if r.Chance(25) {
					po = "0"
				}
				op = fmt.Sprintf("d.%d.%s", sid, po)
			case x < 84:
				op = fmt.Sprintf("z.%d", sid)
			case x < 92:
				op = fmt.Sprintf("q.%d", sid)
			default:
				op = fmt.Sprintf("q.%d.drop", sid)
			}
			if !c.exec(op) {
				c.broke = true
			}
		}
		// every connection ends
		for s := 1; s < nextSid && !c.broke; s++ {
			if c.cls[s] != nil {
				op := fmt.Sprintf("q.%d", s)
				if r.Bool() {
					op += ".drop"
				}
				if !c.exec(op) {
					c.broke = true
				}
			}
		}
	}
	for _, k := range c.cls {
		k.conn.Close()
	}
	if c.broke {
		out.Stat("sess:case-broke")
		out.Note("session case broke off: " + c.opLine())
		return
	}
	out.Corr(c.opLine(), strings.Join(c.obs, " "))
	out.Stat(fmt.Sprintf("sess:deferred=%v", def))
	out.Stat(fmt.Sprintf("sess:limit-timeouts:%d", c.slow))
	if len(c.cls) != 0 {
		return
	}
	// quiescence
	snap := vlim.Snapshot(g, c11sKeyID)
	if !vlim.Idle(cfg, snap) {
		out.Violation("C11/leak", c.opLine(), "every session ended but permits are still in use: "+snap)
		return
	}
	if cfg.HasRate(0) || cfg.HasRate(1) || cfg.HasRate(2) {
		return
	}
	vlim.Tune(g, -1, cfg.MaxB)
	n := 0
	for sc := 0; sc < 3; sc++ {
		if b := cfg.Bound(sc); b > 0 && (n == 0 || b < n) {
			n = b
		}
	}
	if n == 0 {
		n = 2
	}
	capIP := net.IPv4(127, 0, 0, 1) // the address of the first session of the op line
	for _, o := range c.ops {
		if f := strings.Split(o, "."); f[0] == "o" && len(f) > 2 {
			a, _ := strconv.Atoi(f[2])
			capIP = vlim.Addr(a, c11sV4)
			break
		}
	}
	got := 0
	for i := 0; i < n; i++ {
		err, _, p := vlim.RunCtx(context.Background(), func(ctx context.Context) error {
			return g.TakeMsg(ctx, capIP, "d1.example")
		})
		if err != nil || p != nil {
			out.Violation("C11/quiescent-capacity", c.opLine(), fmt.Sprintf("after every session ended TakeMsg #%d of %d: err=%v panic=%v", i+1, n, err, p))
			break
		}
		got++
	}
	for i := 0; i < got; i++ {
		g.ReleaseMsg(capIP, "d1.example")
	}
	out.Stat("sess:quiescent-checked")
}

func TestVerifC11Session(t *testing.T) {
	out := vh.Open("c11_session")
	defer out.Close()
	if rp := vh.Replay(); rp != nil {
		for _, l := range rp {
			f := strings.Fields(l)
			if len(f) < 4 || f[0] != "C11" || f[1] != "sess" {
				continue
			}
			cfg, err := vlim.ParseCfg(f[2])
			if err != nil {
				t.Fatal(err)
			}
			ops := vlim.StripKeyTokens(f[3:])
			def := len(ops) > 0 && strings.HasSuffix(ops[0], ".1")
			c11SessRun(out, t, cfg, def, vh.NewRng(1), ops)
		}
		return
	}
	n := vh.N(400) / 3
	if n < 8 {
		n = 8
	}
	if n > 2400 {
		n = 2400
	}
	sem := make(chan struct{}, 48)
	var wg sync.WaitGroup
	for i := 0; i < n; i++ {
		wg.Add(1)
		sem <- struct{}{}
		go func(i int) {
			defer wg.Done()
			defer func() { <-sem }()
			r := vh.NewRng(vh.Seed()*1000003 + uint64(i) + 900000)
			var cfg vlim.Cfg
			// scopes of TakeMsg only; small N so that limits are reached
			for sc := 0; sc < 3; sc++ {
				if r.Chance(60) {
					cfg.Scopes[sc] = append(cfg.Scopes[sc], vlim.Lim{Sem: true, N: 1 + r.Intn(2)})
				}
				if r.Chance(10) {
					cfg.Scopes[sc] = append(cfg.Scopes[sc], vlim.Lim{Sem: false, N: 3 + r.Intn(5)})
				}
			}
			cfg.Reap = []int{-1, 3600}[r.Intn(2)]
			cfg.MaxB = []int{1, 2, 20010}[r.Intn(3)]
			c11SessRun(out, t, cfg, r.Bool(), r, nil)
		}(i)
	}
	wg.Wait()
}

// concurrent sessions through the real endpoint: 1-64 clients at once, every one ending at a random stage
func c11SessConcCase(out *vh.Out, t *testing.T, cfg vlim.Cfg, seed uint64, workers int, def bool) {
	opl := fmt.Sprintf("C11 sessconc %s seed=%d workers=%d deferred=%v", cfg.String(), seed, workers, def)
	g, p, err := vlim.NewGroup(cfg)
	if p != nil || err != nil {
		return
	}
	defer vlim.CloseGroup(g)
	chk := &c11Check{cfg: cfg}
	tgt := &testutils.Target{DiscardMessages: true}
	nodes := []config.Node{{Name: "max_header_size", Args: []string{"512b"}}}
	if !def {
		nodes = append(nodes, config.Node{Name: "defer_sender_reject", Args: []string{"no"}})
	}
	endp, port, err := c11Endpoint(t, tgt, chk, nodes)
	if err == nil {
		if port, err = c11sServe(endp); err != nil {
			endp.Close()
		}
	}
	if err != nil {
		out.Stat("sessconc:endpoint-error")
		out.Note("cannot start endpoint: " + err.Error())
		return
	}
	endp.limits = g
	pool := vlim.AddrPool(vh.NewRng(seed*31+5).Intn, 3)
	for _, a := range pool {
		out.Stat("sessconc:addr:" + vlim.AddrClass(a))
	}
	var wg sync.WaitGroup
	var mailOK, mailLimit, ended [1]int64
	var cmu sync.Mutex
	for w := 0; w < workers; w++ {
		wg.Add(1)
		go func(w int) {
			defer wg.Done()
			r := vh.NewRng(seed*131 + uint64(w))
			d := net.Dialer{LocalAddr: &net.TCPAddr{IP: c11sV4(pool[r.Intn(3)])}, Timeout: 20 * time.Second}
			conn, err := d.Dial("tcp", "127.0.0.1:"+port)
			if err != nil {
				out.Stat("sessconc:dial-error")
				return
			}
			defer conn.Close()
			cl := smtp.NewClient(conn)
			cl.CommandTimeout = 90 * time.Second
			cl.SubmissionTimeout = 90 * time.Second
			if cl.Hello("client.example") != nil {
				out.Stat("sessconc:hello-error")
				return
			}
			for tx := 0; tx < 1+r.Intn(2); tx++ {
				addr, _, _ := c11From(1+r.Intn(2), []int{0, 1, 2}[r.Intn(3)])
				chk.mu.Lock()
				chk.reject = r.Chance(10)
				chk.mu.Unlock()
				err := cl.Mail(addr, &smtp.MailOptions{})
				cmu.Lock()
				switch c11Reply(err) {
				case "250":
					mailOK[0]++
				case "451-limit-timeout":
					mailLimit[0]++
				}
				cmu.Unlock()
				out.Stat("sessconc:mail:" + c11Reply(err))

				if err != nil {
					continue
				}
				stage := r.Intn(5)
				if stage == 0 {
					cl.Reset()
					continue
				}
				if stage == 1 {
					return // drop the connection right after MAIL
				}
				if cl.Rcpt("rcpt@target.example", nil) != nil {
					cl.Reset()
					continue
				}
				if stage == 2 {
					cl.Mail("u@d1.example", &smtp.MailOptions{}) // nested MAIL
					cl.Reset()
					continue
				}
				if stage == 3 {
					return
				}
				w, err := cl.Data()
				if err != nil {
					cl.Reset()
					continue
				}
				if r.Chance(25) {
					fmt.Fprintf(w, "From: <u@d1.example>\r\nX-Long: %s\r\n\r\nbody\r\n", strings.Repeat("x", 900))
				} else {
					fmt.Fprintf(w, "From: <u@d1.example>\r\nSubject: c11\r\n\r\nbody\r\n")
				}
				w.Close()
			}
			cl.Quit()
			cmu.Lock()
			ended[0]++
			cmu.Unlock()
		}(w)
	}
	wg.Wait()
	dl := time.Now().Add(30 * time.Second)
	for endp.sessionCnt.Load() != 0 && time.Now().Before(dl) {
		time.Sleep(time.Millisecond)
	}
	out.StatN("sessconc:mail-ok", int(mailOK[0]))
	out.StatN("sessconc:mail-limit-timeout", int(mailLimit[0]))
	out.Stat(fmt.Sprintf("sessconc:workers:%d", workers))
	chk.mu.Lock()
	v := chk.viol
	chk.mu.Unlock()
	if v != "" {
		out.Violation("C11/bound", opl, v)
	} else if endp.sessionCnt.Load() != 0 {
		out.Note("sessions did not end: " + opl)
	} else if snap := vlim.Snapshot(g, c11sKeyID); !vlim.Idle(cfg, snap) {
		out.Violation("C11/leak", opl, "every session ended but permits are still in use: "+snap)
	}
	endp.Close()
}

func TestVerifC11SessionConc(t *testing.T) {
	out := vh.Open("c11_session_conc")
	defer out.Close()
	if rp := vh.Replay(); rp != nil {
		for _, l := range rp {
			f := strings.Fields(l)
			if len(f) < 6 || f[0] != "C11" || f[1] != "sessconc" {
				continue
			}
			cfg, err := vlim.ParseCfg(f[2])
			if err != nil {
				t.Fatal(err)
			}
			seed, _ := strconv.ParseUint(strings.TrimPrefix(f[3], "seed="), 10, 64)
			workers, _ := strconv.Atoi(strings.TrimPrefix(f[4], "workers="))
			for rep := 0; rep < 3; rep++ {
				c11SessConcCase(out, t, cfg, seed, workers, f[5] == "deferred=true")
			}
		}
		return
	}
	n := vh.N(400) / 200
	if n < 1 {
		n = 1
	}
	if n > 12 {
		n = 12
	}
	var wgCases sync.WaitGroup
	for i := 0; i < n; i++ {
		wgCases.Add(1)
		go func(i int) {
			defer wgCases.Done()
			seed := vh.Seed()*1000003 + uint64(i) + 2100000
			r := vh.NewRng(seed)
			var cfg vlim.Cfg
			for sc := 0; sc < 3; sc++ {
				if r.Chance(70) {
					cfg.Scopes[sc] = append(cfg.Scopes[sc], vlim.Lim{Sem: true, N: 1 + r.Intn(3)})
				}
			}
			cfg.Reap, cfg.MaxB = 3600, 20010
			if r.Chance(30) {
				cfg.Reap, cfg.MaxB = -1, 1+r.Intn(2)
			}
			def := r.Bool()
			workers := []int{4, 16, 64}[(i+int(vh.Seed()))%3]
			c11SessConcCase(out, t, cfg, seed, workers, def)
		}(i)
	}
	wgCases.Wait()
}
