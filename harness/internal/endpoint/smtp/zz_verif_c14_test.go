package smtp

// C14 — submission gate: generated SMTP command sequences against a real endpoint ("submission": authentication
// always required; "smtp": not required) over TCP; reply codes are compared with the Lean model of
// go-smtp's Conn + Session.Mail, and the property itself (no MAIL/RCPT/DATA accepted before a 235 on a
// submission endpoint, nothing reaches the target without one) is evaluated on the replies.

import (
	"context"
	"encoding/base64"
	"errors"
	"fmt"
	"go/ast"
	"net"
	"net/textproto"
	"strconv"
	"strings"
	"sync"
	"testing"
	"time"

	"github.com/foxcpp/maddy/framework/config"
	"github.com/foxcpp/maddy/framework/exterrors"
	"github.com/foxcpp/maddy/framework/module"
	"github.com/foxcpp/maddy/internal/testutils"
	"github.com/foxcpp/maddy/internal/verifshim/vauth"
	"github.com/foxcpp/maddy/internal/verifshim/vh"
)

const (
	c14User = "user@example.org"
	c14Pass = "correct horse"
)

type c14GateScn struct {
	required bool
	login    bool
	// E N S M R D  Ap:<authzid>:<u>:<p>  Al:<u>:<p>  Ax ; every command may carry a suffix /r /t /x: what the
	// endpoint's early (connection-level) check answers IF it is run while this command is processed
	// (r: rejection 550, t: temporary failure 451, x: error without SMTP annotations; no suffix: it passes)
	cmds []string

	genStats []string
}

// c14EarlyCheck is the scripted connection-level check of the gate endpoints: a module.Check (it lets every message
// through) that is also a module.EarlyCheck whose verdict is whatever the harness has set for the command in progress.
type c14EarlyCheck struct {
	*testutils.Check
	mu      sync.Mutex
	verdict byte
	calls   int
}

func (c *c14EarlyCheck) set(v byte) {
	c.mu.Lock()
	c.verdict = v
	c.mu.Unlock()
}

func (c *c14EarlyCheck) takeCalls() int {
	c.mu.Lock()
	defer c.mu.Unlock()
	n := c.calls
	c.calls = 0
	return n
}

func (c *c14EarlyCheck) CheckConnection(ctx context.Context, state *module.ConnState) error {
	c.mu.Lock()
	v := c.verdict
	c.calls++
	c.mu.Unlock()
	switch v {
	case 'r':
		return &exterrors.SMTPError{Code: 550, EnhancedCode: exterrors.EnhancedCode{5, 7, 1}, Message: "scripted early check: rejected", CheckName: "c14_early"}
	case 't':
		return &exterrors.SMTPError{Code: 451, EnhancedCode: exterrors.EnhancedCode{4, 7, 1}, Message: "scripted early check: try again later", CheckName: "c14_early"}
	case 'x':
		return errors.New("scripted early check: plain error")
	}
	return nil
}

// a command token without its early-check suffix, and the suffix (0: the check passes)
func c14SplitCmd(tok string) (string, byte) {
	if n := len(tok); n > 2 && tok[n-2] == '/' {
		return tok[:n-2], tok[n-1]
	}
	return tok, 0
}

func (s *c14GateScn) line() string {
	b := "C14 gate "
	if s.required {
		b += "1"
	} else {
		b += "0"
	}
	if s.login {
		b += " L1 "
	} else {
		b += " L0 "
	}
	b += vh.HexRunes(c14User) + ":" + vh.HexBytes([]byte(c14Pass))
	return b + " " + strings.Join(s.cmds, " ")
}

func c14ParseGate(line string) (*c14GateScn, error) {
	f := strings.Fields(line)
	if len(f) < 5 || f[0] != "C14" || f[1] != "gate" {
		return nil, fmt.Errorf("not a C14 gate line")
	}
	return &c14GateScn{required: f[2] == "1", login: f[3] == "L1", cmds: f[5:]}, nil
}

func c14GenAuth(r *vh.Rng, goodPct int) string {
	users := []string{c14User, c14User, "User@example.org", "other", "",
		// the account's name inside white space / control characters / other wrapping: these are OTHER user names
		c14User + " ", " " + c14User, c14User + "\r\n", "\t" + c14User, c14User + "\u00a0", "\u3000" + c14User, c14User + "\n",
		"<" + c14User + ">", c14User + ".", "\ufeff" + c14User}
	pws := []string{c14Pass, c14Pass, c14Pass, "wrong", "", c14Pass + " ", " " + c14Pass, c14Pass + "\r\n"}
	var u, p string
	if r.Chance(goodPct) {
		u, p = c14User, c14Pass
	} else {
		u, p = users[r.Intn(len(users))], pws[r.Intn(len(pws))]
	}
	if r.Chance(4) {
		return "Ax"
	}
	if r.Bool() && !strings.Contains(u, "\x00") {
		az := ""
		switch y := r.Intn(10); {
		case y < 2:
			az = u
		case y < 3:
			az = "admin"
		}
		return "Ap:" + vh.HexRunes(az) + ":" + vh.HexRunes(u) + ":" + vh.HexBytes([]byte(p))
	}
	return "Al:" + vh.HexRunes(u) + ":" + vh.HexBytes([]byte(p))
}

// a second EHLO inside a transaction replaces the Session under go-smtp's feet while the Conn keeps its
// transaction state (not C14's subject): the generators turn such an EHLO into RSET
func c14NoEhloInTx(cmds []string) []string {
	inTx := false
	for i, c := range cmds {
		base, _ := c14SplitCmd(c)
		switch base {
		case "M":
			inTx = true
		case "S":
			inTx = false
		case "E":
			if inTx {
				cmds[i] = "S"
				inTx = false
			}
		}
	}
	return cmds
}

// the world changes under the connection: what the early check would answer differs from command to command.
// On this tree the check is consulted when a connection gets its session (the first accepted EHLO) and never again, so
// a verdict that turns bad afterwards must not change any reply — in particular a failed AUTH stays a failed AUTH and
// an AUTH that is answered negatively for ANY reason leaves the connection unauthenticated.
func c14EarlyVerdicts(r *vh.Rng, cmds []string, st func(string)) []string {
	bad := func() string { return "/" + r.Pick("r", "r", "t", "t", "x") }
	switch x := r.Intn(100); {
	case x < 45: // the check always passes
		st("gate.early.always-passes")
	case x < 75: // passes for the greeting, turns bad later: from the first AUTH on / at one AUTH only / from a random point on
		st("gate.early.passes-at-ehlo-then-turns-bad")
		from, only := -1, r.Chance(35)
		for i, c := range cmds {
			if c[0] == 'A' && (from < 0 || r.Chance(30)) {
				from = i
			}
		}
		if from < 0 || r.Chance(20) {
			from = 1 + r.Intn(len(cmds))
		}
		v := bad()
		for i := range cmds {
			if i == from || (i > from && !only) {
				cmds[i] += v
			}
		}
	case x < 87: // bad for the first greeting(s); the client carries on regardless, or greets again
		st("gate.early.bad-at-first-ehlo")
		v := bad()
		n := 1 + r.Intn(2)
		for i := range cmds {
			if i < n || r.Chance(10) {
				cmds[i] += v
			}
		}
		if r.Chance(60) && len(cmds) < 14 {
			at := n + r.Intn(len(cmds)-n+1)
			if at > len(cmds) {
				at = len(cmds)
			}
			cmds = append(cmds[:at:at], append([]string{"E"}, cmds[at:]...)...)
		}
	default: // anything anywhere
		st("gate.early.random")
		for i := range cmds {
			if r.Chance(40) {
				cmds[i] += bad()
			}
		}
	}
	return cmds
}

func c14GenGate(r *vh.Rng, required, login bool) *c14GateScn {
	s := &c14GateScn{required: required, login: login}
	if r.Chance(60) {
		// a plausible client session, then damaged: commands dropped, duplicated, moved
		cmds := []string{"E"}
		for i := r.Intn(3); i > 0; i-- {
			cmds = append(cmds, c14GenAuth(r, 60))
		}
		for tx := 1 + r.Intn(2); tx > 0; tx-- {
			cmds = append(cmds, "M")
			for i := 1 + r.Intn(2); i > 0; i-- {
				cmds = append(cmds, "R")
			}
			cmds = append(cmds, "D")
			if r.Chance(20) {
				cmds = append(cmds, "S")
			}
		}
		for k := r.Intn(3); k > 0 && len(cmds) > 1; k-- {
			i := r.Intn(len(cmds))
			switch r.Intn(3) {
			case 0:
				cmds = append(cmds[:i], cmds[i+1:]...)
			case 1:
				j := r.Intn(len(cmds))
				cmds[i], cmds[j] = cmds[j], cmds[i]
			default:
				cmds = append(cmds[:i+1], cmds[i:]...)
			}
		}
		if len(cmds) > 14 {
			cmds = cmds[:14]
		}
		cmds = c14EarlyVerdicts(r, cmds, func(k string) { s.genStats = append(s.genStats, k) })
		s.cmds = c14NoEhloInTx(cmds)
		return s
	}
	n := 1 + r.Intn(12)
	for i := 0; i < n; i++ {
		x := r.Intn(100)
		if i == 0 && x >= 25 {
			x = 0
		}
		switch {
		case x < 10:
			s.cmds = append(s.cmds, "E")
		case x < 34:
			s.cmds = append(s.cmds, "M")
		case x < 46:
			s.cmds = append(s.cmds, "R")
		case x < 54:
			s.cmds = append(s.cmds, "D")
		case x < 60:
			s.cmds = append(s.cmds, "S")
		case x < 64:
			s.cmds = append(s.cmds, "N")
		default:
			s.cmds = append(s.cmds, c14GenAuth(r, 55))
		}
	}
	s.cmds = c14EarlyVerdicts(r, s.cmds, func(k string) { s.genStats = append(s.genStats, k) })
	s.cmds = c14NoEhloInTx(s.cmds)
	return s
}

type c14Wire struct {
	c  net.Conn
	tp *textproto.Conn
}

func (w *c14Wire) cmd(format string, a ...interface{}) (int, error) {
	w.c.SetDeadline(time.Now().Add(60 * time.Second))
	if err := w.tp.PrintfLine(format, a...); err != nil {
		return 0, err
	}
	code, _, err := w.tp.ReadResponse(0)
	return code, err
}

func b64(s string) string {
	if s == "" {
		return "="
	}
	return base64.StdEncoding.EncodeToString([]byte(s))
}

// run one scenario on a fresh connection; returns the reply codes
func c14RunGate(t *testing.T, out *vh.Out, tgt *testutils.Target, early *c14EarlyCheck, s *c14GateScn) {
	line := s.line()
	tgt.Messages = nil
	early.set(0)
	early.takeCalls()
	for _, k := range s.genStats {
		out.Stat(k)
	}
	c, err := net.Dial("tcp", "127.0.0.1:"+testPort)
	if err != nil {
		t.Fatal(err)
	}
	defer c.Close()
	w := &c14Wire{c: c, tp: textproto.NewConn(c)}
	c.SetDeadline(time.Now().Add(60 * time.Second))
	if code, _, err := w.tp.ReadResponse(0); err != nil || code != 220 {
		t.Fatal("greeting:", code, err)
	}
	var codes []string
	authed := false
	failedGoodAuth := false // an AUTH with the account's own credentials was answered negatively
	for i, tok := range s.cmds {
		var code int
		var err error
		cmd, verdict := c14SplitCmd(tok)
		if verdict != 0 && !strings.ContainsRune("rtx", rune(verdict)) {
			t.Fatal("bad cmd", tok)
		}
		early.set(verdict)
		goodCreds := false
		switch {
		case cmd == "E":
			code, err = w.cmd("EHLO client.example.org")
		case cmd == "N":
			code, err = w.cmd("NOOP")
		case cmd == "S":
			code, err = w.cmd("RSET")
		case cmd == "M":
			// the gate must not depend on the reverse-path: every third MAIL uses the null sender
			if i%3 == 1 {
				code, err = w.cmd("MAIL FROM:<>")
				out.Stat("gate.null-sender")
			} else {
				code, err = w.cmd("MAIL FROM:<sender@example.org>")
			}
		case cmd == "R":
			code, err = w.cmd("RCPT TO:<rcpt%d@example.org>", i)
		case cmd == "D":
			code, err = w.cmd("DATA")
			if err == nil && code == 354 {
				code, err = w.cmd("From: <sender@example.org>\r\nSubject: x\r\n\r\nbody\r\n.")
			}
		case cmd == "Ax":
			code, err = w.cmd("AUTH CRAM-MD5")
		case strings.HasPrefix(cmd, "Ap:"):
			f := strings.Split(cmd, ":")
			if len(f) != 4 {
				t.Fatal("bad cmd", cmd)
			}
			resp := vh.UnhexRunes(f[1]) + "\x00" + vh.UnhexRunes(f[2]) + "\x00" + string(vh.UnhexBytes(f[3]))
			goodCreds = vh.UnhexRunes(f[2]) == c14User && string(vh.UnhexBytes(f[3])) == c14Pass && (f[1] == "-" || vh.UnhexRunes(f[1]) == c14User)
			if i%2 == 0 {
				code, err = w.cmd("AUTH PLAIN %s", b64(resp))
			} else {
				code, err = w.cmd("AUTH PLAIN")
				if err == nil && code == 334 {
					code, err = w.cmd("%s", b64(resp))
				}
			}
		case strings.HasPrefix(cmd, "Al:"):
			f := strings.Split(cmd, ":")
			if len(f) != 3 {
				t.Fatal("bad cmd", cmd)
			}
			goodCreds = s.login && vh.UnhexRunes(f[1]) == c14User && string(vh.UnhexBytes(f[2])) == c14Pass
			code, err = w.cmd("AUTH LOGIN")
			if err == nil && code == 334 {
				code, err = w.cmd("%s", b64(vh.UnhexRunes(f[1])))
			}
			if err == nil && code == 334 {
				code, err = w.cmd("%s", b64(string(vh.UnhexBytes(f[2]))))
			}
		default:
			t.Fatal("bad cmd", cmd)
		}
		if err != nil {
			codes = append(codes, "io-error")
			out.Note(fmt.Sprintf("gate: I/O error at command %d of %s: %v", i, line, err))
			break
		}
		codes = append(codes, fmt.Sprint(code))
		out.Stat(fmt.Sprintf("gate.%s.%d", cmd[:1], code))
		if n := early.takeCalls(); n > 0 {
			out.Stat(fmt.Sprintf("gate.early-check-run-during.%s", cmd[:1]))
			if verdict != 0 {
				out.Stat(fmt.Sprintf("gate.early-check-run-during.%s.verdict-%c.reply-%d", cmd[:1], verdict, code))
			}
		}
		// ---- the property on the real replies
		if cmd[0] == 'A' && code == 235 {
			authed = true
			// the endpoint knows ONE account: a 235 for anything but its exact name and password (over an enabled mechanism,
			// without a foreign authorization identity) is an authentication that succeeded without the current password
			if !goodCreds {
				out.Violation("C14/auth-accepts-wrong-password", line, fmt.Sprintf("command %d (%s) was answered 235; the only account is %q with password %q", i, cmd, c14User, c14Pass))
			}
		}
		if cmd[0] == 'A' && code != 235 && goodCreds {
			failedGoodAuth = true
			out.Stat(fmt.Sprintf("gate.good-credentials-answered-%d", code))
		}
		if s.required && !authed && (cmd == "M" || cmd == "R" || cmd == "D") && code < 400 {
			out.Violation("C14/mail-before-auth", line, fmt.Sprintf("command %d (%s) was answered %d on a submission endpoint before any successful AUTH", i, cmd, code))
		}
		if s.required && !authed && failedGoodAuth && cmd == "M" {
			out.Stat(fmt.Sprintf("gate.mail-after-failed-auth-with-good-credentials.%d", code))
		}
		if cmd[0] == 'A' && code == 235 {
			out.Stat("gate.auth-ok")
		}
	}
	w.cmd("QUIT")
	if s.required && !authed && len(tgt.Messages) != 0 {
		out.Violation("C14/mail-before-auth", line, fmt.Sprintf("%d message(s) reached the target of a submission endpoint without authentication", len(tgt.Messages)))
	}
	for _, m := range tgt.Messages {
		out.Stat("gate.delivered")
		if s.required && m.MsgMeta.Conn.AuthUser == "" {
			// only reachable by a second EHLO inside a transaction AFTER a successful AUTH (see notes/C14.md):
			// the property speaks about transactions before an authentication, so this is recorded, not flagged
			out.Stat("gate.delivered-with-empty-authuser")
		}
	}
	out.Corr(line, strings.Join(codes, " "))
	out.Stat(fmt.Sprintf("gate.len.%02d", len(s.cmds)))
}

func TestVerifC14Gate(t *testing.T) {
	out := vh.Open("c14_gate")
	defer out.Close()

	var scns []*c14GateScn
	if rep := vh.Replay(); rep != nil {
		for _, l := range rep {
			if strings.HasPrefix(l, "C14 gate ") {
				s, err := c14ParseGate(l)
				if err != nil {
					t.Fatal(err)
				}
				scns = append(scns, s)
			}
		}
	} else {
		n := vh.N(300)
		rng := vh.NewRng(vh.Seed() + 1401)
		for i := 0; i < n; i++ {
			scns = append(scns, c14GenGate(rng.Fork(), rng.Chance(70), rng.Chance(70)))
		}
	}
	defer func(old string) { testPort = old }(testPort)
	for _, required := range []bool{true, false} {
		for _, login := range []bool{true, false} {
			var mine []*c14GateScn
			for _, s := range scns {
				if s.required == required && s.login == login {
					mine = append(mine, s)
				}
			}
			if len(mine) == 0 {
				continue
			}
			mod := "smtp"
			if required {
				mod = "submission"
			}
			tgt := &testutils.Target{}
			// the package's TestMain picks one random port for all tests; on a busy machine it may be taken (by another
			// process' listener or outgoing connection): ask the kernel for a port that is free right now
			if l, err := net.Listen("tcp", "127.0.0.1:0"); err == nil {
				testPort = strconv.Itoa(l.Addr().(*net.TCPAddr).Port)
				l.Close()
			}
			early := &c14EarlyCheck{Check: &testutils.Check{InstName: "c14_early"}}
			endp := testEndpoint(t, mod, vauth.FixedAuth{User: c14User, Pass: c14Pass}, tgt, []module.Check{early}, []config.Node{})
			endp.saslAuth.EnableLogin = login
			for _, s := range mine {
				c14RunGate(t, out, tgt, early, s)
			}
			endp.Close()
			out.Stat(fmt.Sprintf("gate.cfg.required=%v.login=%v", required, login))
		}
	}
}

// TestVerifC14GateSkel re-derives the shape of the gate from session.go of the current tree.
func TestVerifC14GateSkel(t *testing.T) {
	out := vh.Open("c14_gateskel")
	defer out.Close()
	if rep := vh.Replay(); rep != nil {
		found := false
		for _, l := range rep {
			found = found || strings.HasPrefix(l, "C14 skel ")
		}
		if !found {
			return
		}
	}
	src, err := vauth.ParseSrc("session.go")
	if err != nil {
		t.Fatal(err)
	}
	gate := "cannot derive: Session.Mail does not start with an if statement"
	if fd := src.Func("Session", "Mail"); fd != nil && len(fd.Body.List) > 0 {
		if ifs, ok := fd.Body.List[0].(*ast.IfStmt); ok && ifs.Init == nil && ifs.Else == nil {
			gate = "if " + src.Render(ifs.Cond)
			for _, st := range ifs.Body.List {
				if rs, ok := st.(*ast.ReturnStmt); ok && len(rs.Results) == 1 {
					gate += " return " + src.Render(rs.Results[0])
				} else {
					gate += " " + src.Render(st)
				}
			}
		}
	}
	out.Corr("C14 skel mail-gate", gate)
	sa := "cannot derive: Session.Auth has no CreateSASL callback"
	if fd := src.Func("Session", "Auth"); fd != nil {
		if lit := src.FuncLitArg(fd.Body, "s.endp.saslAuth.CreateSASL"); lit != nil {
			var as []string
			for _, st := range lit.Body.List {
				if a, ok := st.(*ast.AssignStmt); ok && strings.Contains(src.Render(a), "AuthUser") {
					as = append(as, src.Render(a))
				}
			}
			sa = strings.Join(as, " ")
		}
	}
	out.Corr("C14 skel session-auth", sa)
	out.Stat("skel.fact")
}
