package smtp

// C03, bucket tables: session histories over an endpoint whose limits group has SMALL bucket tables (the keyed
// scopes ip / source) and a reap interval that passes in virtual time.  A permit taken for a transaction has to
// be returned to the limiter it was taken from: a bucket that is held by an open transaction must survive every
// reap pass, a second transaction of the same key must share it, and every release must find its permit.
//
//	op line:  C03 b <S|L> <D|I> <limits> <maxBuckets> <step>...
//	steps:    o<i>:<ip>:<dom>  session i connects from address #ip and opens a transaction for sender domain #dom;
//	                           dom / 1000 selects the parameters of the MAIL command (c03BMailParams: REQUIRETLS on a
//	                           connection without TLS, BODY=, SMTPUTF8, SIZE=, AUTH=, and parameters go-smtp refuses) -
//	                           whatever the reply is, a refused transaction holds nothing
//	          c<i>:<d|r|q|x>   session i ends its transaction with DATA / RSET (then QUIT), or QUIT, or an abrupt close
//	          f<n>             n sessions in a row with fresh keys: MAIL (+RCPT), RSET, QUIT
//	          a / h            more / less than the reap interval passes
//	observed: per step <step>=<reply>:<all>,<ip>,<source>;<ip buckets>,<source buckets> ... | panics=<n>
//
// The monitor compares the REAL limiter state after every step with the transactions the client knows to be open
// (per scope and key: users and every semaphore = number of open transactions of that key).

import (
	"fmt"
	"net"
	"net/textproto"
	"runtime"
	"runtime/debug"
	"strconv"
	"strings"
	"sync"
	"testing"
	"time"

	"github.com/emersion/go-smtp"
	"github.com/foxcpp/maddy/internal/verifshim/vc03"
	"github.com/foxcpp/maddy/internal/verifshim/vh"
)

const c03ReapInterval = 2 * time.Hour // never passes in real time

type c03BScn struct {
	lmtp, deferred bool
	lim, maxB      int
	steps          []string
}

func (s *c03BScn) line() string {
	p, m := "S", "I"
	if s.lmtp {
		p = "L"
	}
	if s.deferred {
		m = "D"
	}
	return fmt.Sprintf("C03 b %s %s %d %d %s", p, m, s.lim, s.maxB, strings.Join(s.steps, " "))
}

func c03BParse(line string) (*c03BScn, error) {
	f := strings.Fields(line)
	if len(f) < 7 || f[0] != "C03" || f[1] != "b" {
		return nil, fmt.Errorf("not a C03 b line: %q", line)
	}
	lim, e1 := strconv.Atoi(f[4])
	maxB, e2 := strconv.Atoi(f[5])
	if e1 != nil || e2 != nil || lim < 0 || lim >= len(c03LimCfgs) || maxB < 1 {
		return nil, fmt.Errorf("not a C03 b line: %q", line)
	}
	return &c03BScn{lmtp: f[2] == "L", deferred: f[3] == "D", lim: lim, maxB: maxB, steps: f[6:]}, nil
}

// the backend of the endpoint, wrapped: a panic inside Session.Logout (go-smtp calls it outside of its own
// recover) is counted instead of ending the process, and the end of every session is visible
type c03BBackend struct {
	endp   *Endpoint
	mu     sync.Mutex
	live   int
	panics int
	lines  []string
}

type c03BSess struct {
	*Session
	b *c03BBackend
}

func (b *c03BBackend) NewSession(c *smtp.Conn) (smtp.Session, error) {
	if c != nil {
		if w, ok := c.Session().(*c03BSess); ok && w != nil {
			return w, nil
		}
	}
	s, err := b.endp.NewSession(c)
	if err != nil {
		return nil, err
	}
	b.mu.Lock()
	b.live++
	b.mu.Unlock()
	return &c03BSess{Session: s.(*Session), b: b}, nil
}

func (s *c03BSess) Logout() (err error) {
	defer func() {
		r := recover()
		s.b.mu.Lock()
		if r != nil {
			s.b.panics++
			if len(s.b.lines) < 4 {
				st := string(debug.Stack())
				if len(st) > 900 {
					st = st[:900]
				}
				s.b.lines = append(s.b.lines, fmt.Sprintf("panic in Session.Logout: %v %s", r, st))
			}
		}
		s.b.live--
		s.b.mu.Unlock()
	}()
	return s.Session.Logout()
}

func (b *c03BBackend) waitLive(want int) bool {
	for i := 0; ; i++ {
		b.mu.Lock()
		n := b.live
		b.mu.Unlock()
		if n == want {
			return true
		}
		if i < 2000 {
			runtime.Gosched()
			continue
		}
		if i > 2000+150000 { // > 30 s
			return false
		}
		time.Sleep(200 * time.Microsecond)
	}
}

func c03BPeer(ip int) net.Addr {
	return &net.TCPAddr{IP: net.IPv4(10, 1, byte(ip>>8), byte(ip)).To4(), Port: 41000 + ip%1000}
}

// parameters of the MAIL command, selected by dom / 1000 (the sender domain, the key of the source scope, is
// k<dom>.example with the whole number: for the model a variant is just another key)
var c03BMailParams = []string{
	"",
	" REQUIRETLS", // not advertised without TLS, accepted by go-smtp all the same
	" BODY=8BITMIME",
	" SMTPUTF8",
	" SIZE=100",
	" AUTH=<>",
	" REQUIRETLS SMTPUTF8 BODY=7BIT SIZE=1",
	" BODY=8bitmime AUTH=someone+40example.org",
}

func c03BIPKey(ip int) string { return fmt.Sprintf("10.1.%d.%d", ip>>8&255, ip&255) }
func c03BSrcKey(d int) string { return fmt.Sprintf("k%d.example", d) }

type c03BConn struct {
	w       *c03Client
	ip, dom int
	open    bool // the client was told that its transaction is open
}

type c03BRun struct {
	t     *testing.T
	s     *c03BScn
	endp  *Endpoint
	be    *c03BBackend
	elog  *c03ErrLog
	conns map[int]*c03BConn
	live  int
	fresh int
	obs   []string
	viol  []string
	err   error
}

func (r *c03BRun) connect(ip int) (*c03Client, error) {
	addr, err := c03Listen(r.t, r.endp, c03BPeer(ip))
	if err != nil {
		return nil, err
	}
	conn, err := net.Dial("tcp", addr)
	if err != nil {
		return nil, err
	}
	w := &c03Client{c: conn, tp: textproto.NewConn(conn)}
	if code, _ := w.reply(); code != 220 {
		return nil, fmt.Errorf("greeting %d", code)
	}
	hello := "EHLO client.example.org\r\n"
	if r.s.lmtp {
		hello = "LHLO client.example.org\r\n"
	}
	w.send(hello)
	if code, _ := w.reply(); code != 250 {
		return nil, fmt.Errorf("hello %d", code)
	}
	r.live++
	return w, nil
}

func (r *c03BRun) cmd(w *c03Client, line string) int {
	w.send(line + "\r\n")
	code, _ := w.reply()
	return code
}

// MAIL (+ RCPT in deferred mode): the reply of the command that takes the permits
func (r *c03BRun) begin(w *c03Client, dom int) int {
	code := r.cmd(w, fmt.Sprintf("MAIL FROM:<h@%s>%s", c03BSrcKey(dom), c03BMailParams[dom/1000%len(c03BMailParams)]))
	if r.s.deferred && code == 250 {
		code = r.cmd(w, "RCPT TO:<rcpt@d0.example>")
	}
	return code
}

func (r *c03BRun) quit(w *c03Client, abrupt bool) {
	if !abrupt {
		r.cmd(w, "QUIT")
	}
	w.c.Close()
	r.live--
	if !r.be.waitLive(r.live) {
		r.err = fmt.Errorf("a session did not end within 30 s")
	}
}

// the rule: per scope and key, what the real limiter state holds = the transactions that are open
func (r *c03BRun) judge(step string) {
	snap := vc03.LimSnapshot(r.endp.limits)
	total := 0
	want := map[string]int{}
	for _, c := range r.conns {
		if c.open {
			total++
			want["ip\x00"+c03BIPKey(c.ip)]++
			want["source\x00"+c03BSrcKey(c.dom)]++
		}
	}
	seen := map[string]bool{}
	for _, b := range snap {
		w := total
		if b.Scope != "all" {
			w = want[b.Scope+"\x00"+b.Key]
			seen[b.Scope+"\x00"+b.Key] = true
		}
		bad := b.Scope != "all" && b.Users != w
		for _, n := range b.Sems {
			if n != w {
				bad = true
			}
		}
		if bad {
			r.viol = append(r.viol, fmt.Sprintf("after step %q: %d transaction(s) are open for the %q scope, key %q, but its limiter set has users=%d, semaphores in use=%v", step, w, b.Scope, b.Key, b.Users, b.Sems))
		}
	}
	scopes := map[string]bool{}
	for _, d := range c03LimCfgs[r.s.lim] {
		scopes[strings.Fields(d)[0]] = true
	}
	for k, w := range want {
		if sc := k[:strings.IndexByte(k, 0)]; w > 0 && scopes[sc] && !seen[k] {
			r.viol = append(r.viol, fmt.Sprintf("after step %q: %d transaction(s) are open for the %q scope, key %q, but the bucket they took their permit from is gone", step, w, sc, k[len(sc)+1:]))
		}
	}
	ha, hi, hs := vc03.LimHeld(snap)
	ni, ns := vc03.LimBuckets(snap)
	r.obs[len(r.obs)-1] += fmt.Sprintf(":%d,%d,%d;%d,%d", ha, hi, hs, ni, ns)
}

func (r *c03BRun) run() {
	for _, st := range r.s.steps {
		if r.err != nil {
			return
		}
		f := strings.Split(st[1:], ":")
		code := "-"
		switch {
		case st[0] == 'o' && len(f) == 3:
			i, _ := strconv.Atoi(f[0])
			ip, _ := strconv.Atoi(f[1])
			dom, _ := strconv.Atoi(f[2])
			if r.conns[i] != nil {
				r.err = fmt.Errorf("session %d opened twice", i)
				return
			}
			w, err := r.connect(ip)
			if err != nil {
				r.err = err
				return
			}
			c := r.begin(w, dom)
			r.conns[i] = &c03BConn{w: w, ip: ip, dom: dom, open: c == 250}
			code = strconv.Itoa(c)
		case st[0] == 'c' && len(f) == 2:
			i, _ := strconv.Atoi(f[0])
			c := r.conns[i]
			if c == nil {
				break // no such session: nothing happens
			}
			if c.open {
				switch f[1] {
				case "d":
					if !r.s.deferred {
						r.cmd(c.w, "RCPT TO:<rcpt@d0.example>")
					}
					if r.cmd(c.w, "DATA") == 354 {
						c.w.send("From: <h@k.example>\r\nSubject: c03\r\n\r\nbody\r\n.\r\n")
						rc, _ := c.w.reply()
						code = strconv.Itoa(rc)
					}
				case "r":
					code = strconv.Itoa(r.cmd(c.w, "RSET"))
				}
			}
			c.open = false
			r.quit(c.w, f[1] == "x")
			delete(r.conns, i)
		case st[0] == 'f' && len(f) == 1:
			n, _ := strconv.Atoi(f[0])
			var codes []string
			for k := 0; k < n && r.err == nil; k++ {
				r.fresh++
				w, err := r.connect(100 + r.fresh)
				if err != nil {
					r.err = err
					return
				}
				c := r.begin(w, 100+r.fresh)
				codes = append(codes, strconv.Itoa(c))
				r.cmd(w, "RSET")
				r.quit(w, false)
			}
			code = strings.Join(codes, "/")
		case st == "a":
			vc03.LimAdvance(r.endp.limits, c03ReapInterval/10*15) // model: 15 units, the interval is 10
		case st == "h":
			vc03.LimAdvance(r.endp.limits, c03ReapInterval/10*3) // model: 3 units (no sum of 3s and 15s is 10)
		default:
			r.err = fmt.Errorf("bad step %q", st)
			return
		}
		r.obs = append(r.obs, st+"="+code)
		r.judge(st)
	}
}

func c03BOne(t *testing.T, out *vh.Out, s *c03BScn) {
	elog := &c03ErrLog{}
	endp := c03EndpointBase(t, s.lmtp, s.deferred, "default_destination {\n deliver_to dummy\n}\n", c03LimCfgs[s.lim], elog, false)
	vc03.LimTune(endp.limits, c03ReapInterval, s.maxB)
	be := &c03BBackend{endp: endp}
	endp.serv.Backend = be
	r := &c03BRun{t: t, s: s, endp: endp, be: be, elog: elog, conns: map[int]*c03BConn{}}
	r.run()
	// whatever is still connected goes away now
	for _, c := range r.conns {
		c.w.c.Close()
	}
	if err := c03Shutdown(endp); err != nil && r.err == nil {
		r.err = err
	}
	line := s.line()
	if r.err != nil {
		t.Errorf("%s: %v", line, r.err)
		vc03.LimClose(endp.limits)
		return
	}
	end := vc03.LimSnapshot(endp.limits)
	vc03.LimClose(endp.limits)
	for _, v := range r.viol {
		out.Violation("C03/permit-not-returned", line, v)
	}
	for _, b := range vc03.LimBusy(end) {
		out.Violation("C03/permit-not-returned", line, fmt.Sprintf("after all sessions ended %d permit(s) of the %q scope, key %q, are still held (users=%d, semaphores in use=%v)", b.InUse(), b.Scope, b.Key, b.Users, b.Sems))
	}
	elog.mu.Lock()
	be.mu.Lock()
	panics := elog.panics + be.panics
	plines := append(append([]string(nil), be.lines...), elog.lines...)
	be.mu.Unlock()
	elog.mu.Unlock()
	if panics != 0 {
		out.Violation("C03/panic", line, fmt.Sprintf("%d panic(s) in the session clean-up (Reset / Logout -> cleanSession -> releaseLimits): %s", panics, strings.Join(plines, " // ")))
	}
	obs := strings.Join(r.obs, " ") + fmt.Sprintf(" | panics=%d", panics)
	out.Corr(line, obs)
	if vh.Replay() != nil {
		out.Note("replay: " + line + " => " + obs)
	}
	out.Stat(fmt.Sprintf("reap.cfg.lmtp=%v.deferred=%v", s.lmtp, s.deferred))
	out.Stat(fmt.Sprintf("reap.limits.%d.maxB=%d", s.lim, s.maxB))
	for _, st := range s.steps {
		if f := strings.Split(st, ":"); st[0] == 'o' && len(f) == 3 {
			d, _ := strconv.Atoi(f[2])
			out.Stat("reap.mailparams." + strings.TrimSpace(c03BMailParams[d/1000%len(c03BMailParams)]))
		}
	}
	for _, o := range r.obs {
		eq, col := strings.IndexByte(o, '='), strings.LastIndexByte(o, ':')
		for _, c := range strings.Split(o[eq+1:col], "/") {
			out.Stat("reap.step." + o[:1] + "." + c)
		}
		out.Stat("reap.buckets" + o[strings.IndexByte(o, ';'):])
	}
}

func c03BGen(r *vh.Rng) *c03BScn {
	s := &c03BScn{lmtp: r.Chance(40), deferred: r.Chance(50), lim: r.Intn(len(c03LimCfgs)), maxB: 1 + r.Intn(3)}
	how := func() string { return r.Pick("d", "r", "q", "x") }
	variant := 0
	if r.Chance(55) {
		variant = 1 + r.Intn(len(c03BMailParams)-1)
	}
	mixed := false
	add := func(f string, a ...interface{}) {
		if strings.HasPrefix(f, "o") && len(a) == 3 {
			v := variant
			if mixed { // the same domain number with other parameters is another key
				v = r.Intn(len(c03BMailParams))
			}
			a[2] = a[2].(int) + 1000*v
		}
		s.steps = append(s.steps, fmt.Sprintf(f, a...))
	}
	if r.Chance(60) {
		// one long-lived transaction per key, a flood of other keys, time, more keys (a reap pass runs), then a
		// second transaction of the first key while the first is still open
		add("o%d:%d:%d", 0, 1, 1)
		if r.Chance(40) {
			add("o%d:%d:%d", 1, 2, 2)
		}
		if r.Chance(70) {
			add("f%d", s.maxB+r.Intn(3))
		}
		add(r.Pick("a", "a", "a", "h"))
		add("f%d", 1+r.Intn(3))
		if r.Chance(30) {
			add("a")
			add("f1")
		}
		switch r.Intn(4) {
		case 0:
			add("o%d:%d:%d", 2, 1, 1)
		case 1:
			add("o%d:%d:%d", 2, 1, 3) // the same address, another sender domain
		case 2:
			add("o%d:%d:%d", 2, 3, 1) // the same sender domain from another address
		default:
			add("o%d:%d:%d", 2, 1, 1)
			add("o%d:%d:%d", 3, 1, 1)
		}
		order := []int{0, 1, 2, 3}
		for i := range order {
			j := i + r.Intn(len(order)-i)
			order[i], order[j] = order[j], order[i]
		}
		for _, i := range order {
			add("c%d:%s", i, how())
			if r.Chance(20) {
				add(r.Pick("a", "f1", "f2"))
			}
		}
		add("a")
		add("f1")
		return s
	}
	n := 5 + r.Intn(8)
	next := 0
	mixed = r.Chance(30)
	for k := 0; k < n; k++ {
		switch x := r.Intn(100); {
		case x < 35 && next < 6:
			add("o%d:%d:%d", next, 1+r.Intn(3), 1+r.Intn(3))
			next++
		case x < 55 && next > 0:
			add("c%d:%s", r.Intn(next), how())
		case x < 75:
			add("f%d", 1+r.Intn(s.maxB+2))
		case x < 92:
			add("a")
		default:
			add("h")
		}
	}
	for i := 0; i < next; i++ {
		add("c%d:%s", i, how())
	}
	add("a")
	add("f1")
	return s
}

func TestVerifC03BucketReap(t *testing.T) {
	t.Parallel()
	out := vh.Open("c03_reap")
	defer out.Close()
	var scns []*c03BScn
	if rep := vh.Replay(); rep != nil {
		for _, l := range rep {
			if strings.HasPrefix(l, "C03 b ") {
				s, err := c03BParse(l)
				if err != nil {
					t.Fatal(err)
				}
				scns = append(scns, s)
			}
		}
	} else {
		n := 60
		if vh.Thorough() {
			n = 800
		}
		rng := vh.NewRng(vh.Seed()*829367861 + 555)
		for i := 0; i < n; i++ {
			scns = append(scns, c03BGen(rng.Fork()))
		}
	}
	for _, s := range scns {
		c03BOne(t, out, s)
	}
}
