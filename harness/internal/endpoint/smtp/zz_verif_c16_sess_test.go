package smtp

// C16 harness (round 10): sessions of SEVERAL transactions on the real endpoint (in-memory
// connection, go-smtp in front of Session): MAIL (with / without SMTPUTF8; the start of the delivery
// planned to succeed or to fail with any error value), RCPT, RSET in any order, with
// defer_sender_reject on and off.  Every reply is read from the wire.  The monitor decides from the
// property text: a reply answers the transaction it is sent in — it is built from THAT transaction's
// own failure, and is ASCII unless THAT transaction asked for SMTPUTF8.

import (
	"context"
	"fmt"
	"strconv"
	"strings"
	"sync"
	"testing"

	"github.com/emersion/go-message/textproto"
	"github.com/emersion/go-smtp"
	"github.com/foxcpp/maddy/framework/buffer"
	"github.com/foxcpp/maddy/framework/config"
	"github.com/foxcpp/maddy/framework/log"
	"github.com/foxcpp/maddy/framework/module"
	"github.com/foxcpp/maddy/internal/msgpipeline"
	"github.com/foxcpp/maddy/internal/testutils"
	"github.com/foxcpp/maddy/internal/verifshim/verr"
	"github.com/foxcpp/maddy/internal/verifshim/vh"
)

type c16sCmd struct {
	kind byte // M R Z
	utf8 bool
	node *verr.Node // M: the start of the delivery for this MAIL fails with it (nil: it succeeds)
}

type c16sCase struct {
	deferred bool
	cmds     []c16sCmd
}

func (c *c16sCase) Op() string {
	var segs []string
	for _, m := range c.cmds {
		switch m.kind {
		case 'M':
			s := "M " + c16b(m.utf8) + " "
			if m.node == nil {
				s += "ok"
			} else {
				s += m.node.String()
			}
			segs = append(segs, s)
		default:
			segs = append(segs, string([]byte{m.kind}))
		}
	}
	return "C16 sess " + c16b(c.deferred) + " ; " + strings.Join(segs, " ; ")
}

func c16sParse(op string) *c16sCase {
	t := strings.Fields(op)
	c := &c16sCase{deferred: t[2] == "1"}
	var cur []string
	flush := func() {
		if len(cur) == 0 {
			return
		}
		m := c16sCmd{kind: cur[0][0]}
		if m.kind == 'M' {
			m.utf8 = cur[1] == "1"
			if cur[2] != "ok" {
				m.node, _ = verr.Parse(cur[2:])
			}
		}
		c.cmds = append(c.cmds, m)
		cur = nil
	}
	for _, tok := range t[4:] {
		if tok == ";" {
			flush()
		} else {
			cur = append(cur, tok)
		}
	}
	flush()
	return c
}

// the scripted sender check: the verdict on MAIL FROM:<s<k>@example.org> is the plan of command k
type c16sCheck struct {
	mu sync.Mutex
	cs *c16sCase
}

type c16sState struct{ c *c16sCheck }

func (c *c16sCheck) Init(*config.Map) error { return nil }
func (c *c16sCheck) Name() string           { return "verif_c16_sess" }
func (c *c16sCheck) InstanceName() string   { return "verif_c16_sess" }
func (c *c16sCheck) CheckStateForMsg(context.Context, *module.MsgMetadata) (module.CheckState, error) {
	return &c16sState{c}, nil
}
func (s *c16sState) CheckConnection(context.Context) module.CheckResult { return module.CheckResult{} }
func (s *c16sState) CheckSender(_ context.Context, from string) module.CheckResult {
	s.c.mu.Lock()
	defer s.c.mu.Unlock()
	k, err := strconv.Atoi(strings.TrimPrefix(strings.SplitN(from, "@", 2)[0], "s"))
	if err != nil || k >= len(s.c.cs.cmds) || s.c.cs.cmds[k].node == nil {
		return module.CheckResult{}
	}
	return module.CheckResult{Reject: true, Reason: s.c.cs.cmds[k].node.Build()}
}
func (s *c16sState) CheckRcpt(context.Context, string) module.CheckResult { return module.CheckResult{} }
func (s *c16sState) CheckBody(context.Context, textproto.Header, buffer.Buffer) module.CheckResult {
	return module.CheckResult{}
}
func (s *c16sState) Close() error { return nil }

func c16sCanon(rp c16WireReply) string {
	if rp.code < 400 {
		return strconv.Itoa(rp.code)
	}
	e := &smtp.SMTPError{Code: rp.code, Message: c16MsgID.ReplaceAllString(rp.text(), "")}
	if p := strings.Split(rp.ench, "."); len(p) == 3 {
		for i := range p {
			e.EnhancedCode[i], _ = strconv.Atoi(p[i])
		}
	}
	return verr.CanonReply(e)
}

func c16sRun(out *vh.Out, endp *Endpoint, l *c16Listener, chk *c16sCheck, op string) {
	cs := c16sParse(op)
	// what cannot be said on the wire (a malformed annotation with a basic code outside 4yz / 5yz) is not played
	for _, m := range cs.cmds {
		if m.node == nil {
			continue
		}
		if r, ok := endp.wrapErr("", true, "RCPT", m.node.Build()).(*smtp.SMTPError); !ok || r.Code < 400 || r.Code > 599 {
			out.Corr(op, "wire-unspeakable")
			return
		}
	}
	chk.mu.Lock()
	chk.cs = cs
	chk.mu.Unlock()
	oldDefer := endp.deferServerReject
	endp.deferServerReject = cs.deferred
	defer func() { endp.deferServerReject = oldDefer }()
	w, err := c16Open(l)
	if err != nil {
		out.Note("sess: " + err.Error())
		return
	}
	defer w.quit()

	var obs []string
	cur := -1 // the MAIL command the open transaction belongs to (last MAIL answered 2xx, none after RSET)
	ntx, nfailed := 0, 0
	for k, m := range cs.cmds {
		var rp c16WireReply
		switch m.kind {
		case 'M':
			line := fmt.Sprintf("MAIL FROM:<s%d@example.org>", k)
			if m.utf8 {
				line += " SMTPUTF8"
			}
			rp = w.cmd(line)
		case 'R':
			rp = w.cmd(fmt.Sprintf("RCPT TO:<r%d@example.com>", k))
		default:
			rp = w.cmd("RSET")
		}
		if rp.err != nil {
			out.Note("sess: " + rp.err.Error())
			return
		}
		obs = append(obs, fmt.Sprintf("%d:%s", k, c16sCanon(rp)))

		// ---- monitor: which transaction does this reply belong to, and what is its own failure
		tx := cur
		switch m.kind {
		case 'M':
			tx = k
			if rp.code < 400 {
				cur = k
				ntx++
			}
		case 'Z':
			if rp.code < 400 {
				cur = -1
			}
			continue
		}
		if rp.code < 400 || rp.code == 502 || rp.code == 503 {
			continue // accepted, or a command-sequence error (no transaction / nested MAIL)
		}
		nfailed++
		where := fmt.Sprintf("command %d (%c)", k+1, m.kind)
		text := c16MsgID.ReplaceAllString(rp.text(), "")
		if tx < 0 {
			out.Violation("C16/reply-of-another-transaction", op, where+": refused with "+c16sCanon(rp)+" outside of any transaction")
			continue
		}
		own := cs.cmds[tx]
		if !own.utf8 {
			for _, ch := range text {
				if ch >= 0x80 {
					out.Violation("C16/non-ascii-reply", op, fmt.Sprintf("%s: U+%04X in a reply to a transaction that did not ask for SMTPUTF8 (MAIL was command %d)", where, ch, tx+1))
					break
				}
			}
		}
		if own.node == nil {
			out.Violation("C16/reply-of-another-transaction", op, fmt.Sprintf("%s: refused with %s, nothing fails in its transaction (MAIL was command %d)", where, c16sCanon(rp), tx+1))
			continue
		}
		// non-interference: the reply is what the tree answers for this transaction's own failure alone
		if want, ok := endp.wrapErr("", !own.utf8, "RCPT", own.node.Build()).(*smtp.SMTPError); ok {
			if got := c16sCanon(rp); got != verr.CanonReply(want) {
				out.Violation("C16/reply-of-another-transaction", op, fmt.Sprintf("%s: answered %s, the failure of its own transaction (MAIL was command %d, %s) is answered %s", where, got, tx+1, own.node.String(), verr.CanonReply(want)))
			}
		}
		if verr.WellFormed(own.node) {
			cls := rp.code / 100
			if rp.ench == "" || int(rp.ench[0]-'0') != cls || (cls != 4 && cls != 5) {
				out.Violation("C16/endpoint-class-mismatch", op, fmt.Sprintf("%s: reply %d %s", where, rp.code, rp.ench))
			}
			if t, known := verr.TempOf(own.node); known && !verr.HasDeadline(own.node) {
				if t && cls != 4 {
					out.Violation("C16/endpoint-temporary-not-4yz", op, fmt.Sprintf("%s: reply %d", where, rp.code))
				}
				if !t && cls != 5 {
					out.Violation("C16/endpoint-permanent-not-5yz", op, fmt.Sprintf("%s: reply %d", where, rp.code))
				}
			}
		}
	}
	out.Corr(op, strings.Join(obs, " | "))
	out.Stat(fmt.Sprintf("sess.deferred.%v", cs.deferred))
	out.Stat(fmt.Sprintf("sess.commands.%d", len(cs.cmds)))
	out.Stat(fmt.Sprintf("sess.transactions.%d", ntx))
	out.Stat(fmt.Sprintf("sess.refusals.%d", nfailed))
}

var c16sTexts = []string{"Пользователь не найден", "café closed", "Mailbox does not exist", "xÿy", "Try again later"}

func c16sFail(r *vh.Rng) *verr.Node {
	cd := [][4]int{{550, 5, 1, 1}, {450, 4, 2, 0}, {554, 5, 7, 0}, {451, 4, 0, 0}, {550, 0, 0, 0}, {421, 4, 4, 2}}[r.Intn(6)]
	txt := c16sTexts[r.Intn(len(c16sTexts))]
	switch r.Intn(6) {
	case 0:
		return &verr.Node{Kind: "W", Code: cd[0], Ench: [3]int{cd[1], cd[2], cd[3]}, Msg: txt, Inner: &verr.Node{Kind: "P"}}
	case 1:
		return []*verr.Node{{Kind: "P"}, {Kind: "N", Temp: true}, {Kind: "N"}, {Kind: "D"}, {Kind: "Q", Inner: &verr.Node{Kind: "C"}}}[r.Intn(5)]
	case 2:
		n := verr.Gen(r, r.Intn(3), true)
		return n
	default:
		return &verr.Node{Kind: "S", Code: cd[0], Ench: [3]int{cd[1], cd[2], cd[3]}, Msg: txt}
	}
}

func c16sGen(r *vh.Rng) *c16sCase {
	c := &c16sCase{deferred: r.Chance(75)}
	n := 2 + r.Intn(7)
	for i := 0; i < n; i++ {
		switch p := r.Intn(100); {
		case p < 40 || i == 0:
			m := c16sCmd{kind: 'M', utf8: r.Bool()}
			if r.Chance(55) {
				m.node = c16sFail(r)
			}
			c.cmds = append(c.cmds, m)
		case p < 80:
			c.cmds = append(c.cmds, c16sCmd{kind: 'R'})
		default:
			c.cmds = append(c.cmds, c16sCmd{kind: 'Z'})
		}
	}
	return c
}

// the reviewers' shape and its neighbours: a failed (deferred) MAIL under SMTPUTF8 with a non-ASCII
// text, then RSET / nothing, then a MAIL without SMTPUTF8 that succeeds / fails differently, then RCPT
func c16sSystematic() []string {
	var ops []string
	f1 := "S 550 5 1 1 " + vh.HexRunes("Пользователь не найден")
	f2 := "S 450 4 2 0 " + vh.HexRunes("café closed")
	for _, d := range []string{"1", "0"} {
		for _, u1 := range []string{"1", "0"} {
			for _, u2 := range []string{"0", "1"} {
				for _, mid := range []string{" ; Z", "", " ; R ; Z", " ; Z ; Z"} {
					for _, second := range []string{"ok", f2, "P"} {
						ops = append(ops, fmt.Sprintf("C16 sess %s ; M %s %s ; R%s ; M %s %s ; R ; R", d, u1, f1, mid, u2, second))
					}
				}
			}
		}
		ops = append(ops,
			"C16 sess "+d+" ; R ; M 1 ok ; R ; M 0 "+f1+" ; R ; Z ; R ; M 0 "+f1+" ; R",
			"C16 sess "+d+" ; M 1 "+f1+" ; M 0 ok ; R",
			"C16 sess "+d+" ; M 1 "+f1+" ; R ; R ; Z ; M 0 "+f2+" ; R ; Z ; M 1 ok ; R",
		)
	}
	return ops
}

func TestVerifC16Sessions(t *testing.T) {
	out := vh.Open("c16_sess")
	defer out.Close()
	worker := func(ops <-chan string, wg *sync.WaitGroup) {
		defer wg.Done()
		endp, l := c16AuthEndpoint(t)
		defer endp.Close()
		chk := &c16sCheck{}
		nop := log.Logger{Out: log.NopOutput{}}
		endp.pipeline = msgpipeline.Mock(&testutils.Target{}, []module.Check{chk})
		endp.pipeline.Hostname = "mx.example.com"
		endp.pipeline.Resolver = endp.resolver
		endp.pipeline.FirstPipeline = true
		endp.pipeline.Log = nop
		for op := range ops {
			if strings.HasPrefix(op, "C16 sess ") {
				c16sRun(out, endp, l, chk, op)
			}
		}
	}
	ops := vh.Replay()
	workers := 1
	if ops == nil {
		workers = 4
		ops = c16sSystematic()
		r := vh.NewRng(vh.Seed() + 1622)
		for i, n := 0, vh.N(4000)/8; i < n; i++ {
			ops = append(ops, c16sGen(r).Op())
		}
	}
	ch := make(chan string)
	var wg sync.WaitGroup
	for i := 0; i < workers; i++ {
		wg.Add(1)
		go worker(ch, &wg)
	}
	for _, op := range ops {
		ch <- op
	}
	close(ch)
	wg.Wait()
}
