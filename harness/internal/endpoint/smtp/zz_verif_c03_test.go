package smtp

// C03 — every SMTP/LMTP mail transaction is finalised exactly once and matches its reply.
//
// A real endpoint (go-smtp server + maddy Session + a msgpipeline built from configuration text) listens on
// a loopback port chosen by the kernel; a scripted client writes raw command lines (valid and invalid
// arguments, pipelining, BDAT, abrupt close).  Behind the pipeline sit 1-3 scripted targets wrapped in a
// typestate monitor, a scripted check and a scripted modifier (package vc03); failures are injected at every
// stage through the addresses / a header field of the message itself.
//
//	op line:  C03 s <S|L> <D|I> <T><partialmask>:<r0><r1><r2> [P<peer kind><host>.<limits>] <token>... [O:<fan-out order oracle>]
//	observed: <replies per token> | <per-target delivery logs> | leak=<a>,<b> | panics=<n> | held=<all>,<ip>,<source>
//
// Recipient tokens: R:<id>:<j>:<variant>:<cls>:<flags>:<mask>[:<form>] (RCPT TO an address of domain d<j>), R= (the
// address of the token right before, again), R+<form> (another member of the alias family of the address token
// right before).  Forms: 0 the mailbox, 1 and b two aliases of it, 2 an alias of alias 1; the scripted modifier
// rewrites 2 -> 1 -> 0 and b -> 0, every step into the next routed domain (vc03.Rewrite), so the targets of a
// recipient are those of the destination block of its EFFECTIVE address and a recipient list can hold a -> b
// together with b.  Replies belong to RCPT commands; the monitor reads the ground truth on the target's side
// under the effective address.
//
// Recipient variants (4th field of R tokens): a plain, U upper-case domain, u non-ASCII, x syntax error, and the
// spellings of c03Rcpt that are not the normalized form of the address: c C e I (mixed-case local part), d e I
// (absolute domain), q (local part that is quoted on the wire), i I j J (A- / U-label of the routed domain's
// second name dé<j>.example), n k J (NFD / upper-case non-ASCII local part: SMTPUTF8).  c03Spell crosses them
// with per-recipient failures of the body stage.
//
// The P token is the peer address the server sees (the accepted net.Conn is wrapped: IPv4, IPv4-mapped IPv6,
// IPv6 with and without host bits, link-local with a zone, a unix socket address) and the limits block of the
// endpoint (concurrency and rate limiters in the all / ip / source scopes); held= is read from the real limiter
// state after the session (every bucket that exists, whatever key it was created under).
//
//	op line:  C03 t <S|L> <D|I> <a|i|s><order><rate> <k> <peer kind><host>     (TestVerifC03LimitTimeouts)
//	observed: <reply of each of the k refused sessions> | held=<all>,<ip>,<source> | end=<all>,<ip>,<source>
//
// One session keeps a transaction open and with it the only permit of one scope; k other sessions start a
// transaction, wait for the permit and are refused when TakeMsg times out.
//
// The monitor (c03Monitor) evaluates the property itself on the replies, the target logs and the permit
// counters; it does not use the Lean model.

import (
	"context"
	"encoding/base64"
	"fmt"
	"net"
	"net/textproto"
	"strconv"
	"strings"
	"sync"
	"testing"
	"time"

	"github.com/foxcpp/go-mockdns"
	parser "github.com/foxcpp/maddy/framework/cfgparser"
	"github.com/foxcpp/maddy/framework/config"
	"github.com/foxcpp/maddy/framework/log"
	"github.com/foxcpp/maddy/framework/module"
	"github.com/foxcpp/maddy/internal/auth"
	"github.com/foxcpp/maddy/internal/limits"
	"github.com/foxcpp/maddy/internal/msgpipeline"
	"github.com/foxcpp/maddy/internal/verifshim/vc03"
	"github.com/foxcpp/maddy/internal/verifshim/vh"
)

const (
	c03Cap          = 16
	c03MaxRecv      = 3
	c03MaxHeader    = 2048
	c03User         = "user"
	c03Pass         = "pass"
	c03SrcDomain    = "src.example"
	c03NoopText     = "I have successfully done nothing"
	c03IOTimeout    = 60 * time.Second
	c03ProbeBlock   = 25 * time.Millisecond
	c03ProbeConfirm = 10 * time.Second
)

var (
	c03Log     = &vc03.Log{}
	c03Targets [3]*vc03.Target
	c03Once    sync.Once
)

func c03Register() {
	c03Once.Do(func() {
		for i := range c03Targets {
			c03Targets[i] = &vc03.Target{Idx: i, L: c03Log}
			module.RegisterInstance(c03Targets[i], nil)
		}
		chk, mod := &vc03.Check{L: c03Log}, &vc03.Modifier{L: c03Log}
		module.Register("check.vc03", func(_, _ string, _, _ []string) (module.Module, error) { return chk, nil })
		module.Register("modify.vc03", func(_, _ string, _, _ []string) (module.Module, error) { return mod, nil })
	})
}

// ---------------------------------------------------------------- scenario

type c03Scn struct {
	lmtp     bool
	deferred bool
	nT       int
	partial  int
	routes   [3]int
	peer     string // <kind><host>: l0 = the real loopback peer, no wrapping
	lim      int    // index into c03LimCfgs
	toks     []string
}

func (s *c03Scn) line() string {
	p, m := "S", "I"
	if s.lmtp {
		p = "L"
	}
	if s.deferred {
		m = "D"
	}
	peer := s.peer
	if peer == "" {
		peer = "l0"
	}
	return fmt.Sprintf("C03 s %s %s %d%d:%d%d%d P%s.%d %s", p, m, s.nT, s.partial, s.routes[0], s.routes[1], s.routes[2], peer, s.lim, strings.Join(s.toks, " "))
}

func c03Parse(line string) (*c03Scn, error) {
	f := strings.Fields(line)
	if len(f) < 5 || f[0] != "C03" || f[1] != "s" || len(f[4]) != 6 {
		return nil, fmt.Errorf("not a C03 s line")
	}
	s := &c03Scn{lmtp: f[2] == "L", deferred: f[3] == "D"}
	d := func(i int) int { return int(f[4][i] - '0') }
	s.nT, s.partial = d(0), d(1)
	s.routes = [3]int{d(3), d(4), d(5)}
	if s.nT < 1 || s.nT > 3 {
		return nil, fmt.Errorf("bad target count")
	}
	s.peer = "l0"
	for i, t := range f[5:] {
		if strings.HasPrefix(t, "O:") {
			continue
		}
		if i == 0 && strings.HasPrefix(t, "P") {
			// P<kind><host>.<limits>
			if len(t) != 5 || t[3] != '.' || c03PeerAddr(t[1:3]) == nil && t[1:3] != "l0" || int(t[4]-'0') >= len(c03LimCfgs) {
				return nil, fmt.Errorf("bad peer token %q", t)
			}
			s.peer, s.lim = t[1:3], int(t[4]-'0')
			continue
		}
		s.toks = append(s.toks, t)
	}
	return s, nil
}

// ---------------------------------------------------------------- peer addresses and limits

// c03PeerAddr is the remote address the server is shown for a peer token (nil: the real one).
func c03PeerAddr(peer string) net.Addr {
	if len(peer) != 2 || peer[1] < '0' || peer[1] > '3' {
		return nil
	}
	h := int(peer[1] - '0')
	switch peer[0] {
	case '4': // IPv4, 4-byte form
		return &net.TCPAddr{IP: net.IP{192, 0, 2, byte(40 + h)}, Port: 40000 + h}
	case 'm': // IPv4-mapped IPv6 (16-byte form)
		return &net.TCPAddr{IP: net.IPv4(198, 51, 100, byte(7+h)), Port: 40010 + h}
	case '6': // one /64: the prefix itself, two hosts of it, and a host of the next /64
		return &net.TCPAddr{IP: net.ParseIP([]string{"2001:db8:17:4::", "2001:db8:17:4::25", "2001:db8:17:4:a1b2:c3d4:e5f6:708", "2001:db8:17:5::25"}[h]), Port: 40020 + h}
	case 'z': // link-local with a zone
		return &net.TCPAddr{IP: net.ParseIP(fmt.Sprintf("fe80::1:%d", h+1)), Zone: "eth0", Port: 40030 + h}
	case 'u': // not a TCP address at all
		return &net.UnixAddr{Name: fmt.Sprintf("/run/c03-%d.sock", h), Net: "unix"}
	}
	return nil
}

type c03PeerConn struct {
	net.Conn
	remote net.Addr
}

func (c *c03PeerConn) RemoteAddr() net.Addr { return c.remote }

// c03PeerListener makes accepted connections look as if they came from the given address.
type c03PeerListener struct {
	net.Listener
	remote net.Addr
}

func (l *c03PeerListener) Accept() (net.Conn, error) {
	c, err := l.Listener.Accept()
	if err != nil {
		return nil, err
	}
	return &c03PeerConn{Conn: c, remote: l.remote}, nil
}

// c03Listen opens one more listener of the endpoint's server whose connections have the given peer address.
func c03Listen(t *testing.T, endp *Endpoint, remote net.Addr) (string, error) {
	var l net.Listener
	for try := 0; ; try++ {
		var err error
		l, err = net.Listen("tcp", "127.0.0.1:0")
		if err == nil {
			break
		}
		// see c03Endpoint: out of ephemeral ports says nothing about the code under test
		if try < 60 && strings.Contains(err.Error(), "address already in use") {
			time.Sleep(time.Second)
			continue
		}
		return "", err
	}
	endp.listeners = append(endp.listeners, l)
	endp.listenersWg.Add(1)
	go func() {
		endp.serv.Serve(&c03PeerListener{Listener: l, remote: remote}) //nolint:errcheck
		endp.listenersWg.Done()
	}()
	return l.Addr().String(), nil
}

const (
	c03RateBurst = 400 // never reached: a session takes at most 18 permits, the probes 2*c03Cap
	c03Cap2      = 20
)

// limits blocks: directives "<scope> <c|d|r>" (c = concurrency c03Cap, d = concurrency c03Cap2, r = rate c03RateBurst 1h),
// in configuration order (the order inside a scope is the order the limiters are taken in)
var c03LimCfgs = [][]string{
	{"all c", "ip c", "source c"},
	{"all c", "all r", "ip c", "ip r", "source c", "source r"},
	{"all r", "all c", "ip r", "ip c", "source r", "source c"},
	{"ip c", "ip r"},
	{"all c", "source c"},
	{"all c", "ip c", "ip d", "source r", "source c"},
}

func c03LimNodes(dirs []string) []config.Node {
	var out []config.Node
	for _, d := range dirs {
		f := strings.Fields(d)
		switch f[1] {
		case "c":
			out = append(out, config.Node{Name: f[0], Args: []string{"concurrency", strconv.Itoa(c03Cap)}})
		case "d":
			out = append(out, config.Node{Name: f[0], Args: []string{"concurrency", strconv.Itoa(c03Cap2)}})
		case "1":
			out = append(out, config.Node{Name: f[0], Args: []string{"concurrency", "1"}})
		case "r":
			out = append(out, config.Node{Name: f[0], Args: []string{"rate", strconv.Itoa(c03RateBurst), "1h"}})
		}
	}
	return out
}

func c03Limits(t *testing.T, dirs []string) *limits.Group {
	lm, _ := limits.New("limits", "vc03limits", nil, nil)
	if err := lm.(*limits.Group).Init(config.NewMap(nil, config.Node{Children: c03LimNodes(dirs)})); err != nil {
		t.Fatal(err)
	}
	return lm.(*limits.Group)
}

type c03ErrLog struct {
	mu     sync.Mutex
	panics int
	lines  []string
}

func (l *c03ErrLog) Printf(format string, v ...interface{}) {
	s := fmt.Sprintf(format, v...)
	l.mu.Lock()
	if strings.Contains(s, "panic") {
		l.panics++
	}
	if len(l.lines) < 8 {
		if len(s) > 600 {
			s = s[:600]
		}
		l.lines = append(l.lines, s)
	}
	l.mu.Unlock()
}
func (l *c03ErrLog) Println(v ...interface{}) { l.Printf("%s", fmt.Sprintln(v...)) }

func c03Endpoint(t *testing.T, s *c03Scn, elog *c03ErrLog) (*Endpoint, string) {
	// the pipeline, as configuration text
	var b strings.Builder
	b.WriteString("check {\n vc03\n}\nmodify {\n vc03\n}\n")
	for j, mask := range s.routes {
		fmt.Fprintf(&b, "destination d%d.example d\u00e9%d.example {\n", j, j)
		mask &= 1<<s.nT - 1
		if mask == 0 {
			b.WriteString(" reject 556 5.1.1 \"refused by route\"\n")
		}
		for k := 0; k < s.nT; k++ {
			if mask&(1<<k) != 0 {
				fmt.Fprintf(&b, " deliver_to &vc03t%d\n", k)
			}
		}
		b.WriteString("}\n")
	}
	b.WriteString("default_destination {\n reject 557 5.1.1 \"unknown domain\"\n}\n")
	// the endpoint listens itself (tcp://127.0.0.1:0) when the peer address is the real one; otherwise its only
	// listener is the one that shows the server the peer address of the scenario
	remote := c03PeerAddr(s.peer)
	endp := c03EndpointBase(t, s.lmtp, s.deferred, b.String(), c03LimCfgs[s.lim], elog, remote == nil)
	for k := range c03Targets {
		c03Targets[k].Partial = s.partial&(1<<k) != 0
	}
	if remote == nil {
		return endp, endp.listeners[0].Addr().String()
	}
	addr, err := c03Listen(t, endp, remote)
	if err != nil {
		t.Fatal(err)
	}
	return endp, addr
}

// c03EndpointBase: a real endpoint on a loopback port with the given pipeline and limits block.
func c03EndpointBase(t *testing.T, lmtp, deferred bool, pipeline string, limDirs []string, elog *c03ErrLog, listen bool) *Endpoint {
	c03Register()
	name := "smtp"
	if lmtp {
		name = "lmtp"
	}
	// Listening on port 0 fails with EADDRINUSE when the machine has run out of ephemeral ports
	// (tens of thousands of sessions in TIME_WAIT, other jobs on the host): that says nothing about
	// the code under test - wait for ports to drain instead of failing the run.
	var endp *Endpoint
	var addrs []string
	if listen {
		addrs = []string{"tcp://127.0.0.1:0"}
	}
	for try := 0; ; try++ {
		mod, err := New(name, addrs)
		if err != nil {
			t.Fatal(err)
		}
		endp = mod.(*Endpoint)
		endp.resolver = &mockdns.Resolver{Zones: map[string]mockdns.Zone{
			"1.0.0.127.in-addr.arpa.": {PTR: []string{"client.example.org"}},
		}}
		endp.Log = log.Logger{Name: "c03", Out: log.NopOutput{}}
		drd := "no"
		if deferred {
			drd = "yes"
		}
		cfg := []config.Node{
			{Name: "hostname", Args: []string{"mx.example.com"}},
			{Name: "tls", Args: []string{"off"}},
			{Name: "defer_sender_reject", Args: []string{drd}},
			{Name: "max_received", Args: []string{strconv.Itoa(c03MaxRecv)}},
			{Name: "max_header_size", Args: []string{strconv.Itoa(c03MaxHeader) + "b"}},
			{Name: "buffer", Args: []string{"ram"}},
			{Name: "deliver_to", Args: []string{"dummy"}},
		}
		err = endp.Init(config.NewMap(nil, config.Node{Children: cfg}))
		if err == nil {
			break
		}
		if try < 60 && strings.Contains(err.Error(), "address already in use") {
			time.Sleep(time.Second)
			continue
		}
		t.Fatal(err)
	}
	endp.serv.ErrorLog = elog
	endp.saslAuth = auth.SASLAuth{Log: endp.Log, Plain: []module.PlainAuth{vc03.Auth{User: c03User, Pass: c03Pass}}}

	nodes, err := parser.Read(strings.NewReader(pipeline), "c03")
	if err != nil {
		t.Fatal(err)
	}
	endp.pipeline, err = msgpipeline.New(nil, nodes)
	if err != nil {
		t.Fatal(err)
	}
	endp.pipeline.Hostname = "mx.example.com"
	endp.pipeline.Resolver = endp.resolver
	endp.pipeline.FirstPipeline = true
	endp.pipeline.Log = log.Logger{Name: "c03/pipeline", Out: log.NopOutput{}}
	endp.limits = c03Limits(t, limDirs)
	return endp
}

// ---------------------------------------------------------------- wire rendering of tokens

func c03Sender(kind, cls, flags, sca string, n int) (addr, params string) {
	lp := fmt.Sprintf("s-%s-%s-%s-%d", cls, flags, sca, n)
	switch kind {
	case "a":
		return lp + "@" + c03SrcDomain, ""
	case "A":
		return lp + "@" + strings.ToUpper(c03SrcDomain), ""
	case "n":
		return "", ""
	case "u":
		return lp + "é@" + c03SrcDomain, ""
	case "8":
		return lp + "é@" + c03SrcDomain, " SMTPUTF8"
	case "p":
		return lp + "@" + c03SrcDomain, " FOO=BAR"
	case "i": // an A-label domain: the key of the source scope is its normalized (U-label) form
		return lp + "@xn--bcher-kva.example", ""
	case "I": // a U-label domain
		return lp + "é@BÜCHER.example", " SMTPUTF8"
	case "z":
		return lp + "@" + c03SrcDomain, " SIZE=40000000"
	}
	return lp + "@" + c03SrcDomain, ""
}

func c03Rcpt(id, j, variant, cls, flags, mask string, n int, form byte) string {
	lp := fmt.Sprintf("r%s-%s-%s-%s-%d", id, cls, flags, mask, n)
	dom := "d" + j + ".example"
	// spellings (c03Spellings): the local part is not lower case / not NFC / quoted (the suffix sits in the <n>
	// field, which no fault decoder reads), the domain is upper case / absolute / the A- or U-label of the
	// second name of the routed domain
	switch variant {
	case "U":
		dom = strings.ToUpper(dom)
	case "u":
		lp += "é"
	case "c":
		lp += "Qz"
	case "q": // a local part that has to be quoted on the wire (c03Wire); the server sees it unquoted
		lp += " Qz"
	case "C":
		lp, dom = lp+"Qz", strings.ToUpper(dom)
	case "d":
		dom += "."
	case "e":
		lp, dom = lp+"Qz", strings.ToUpper(dom)+"."
	case "n": // NFD
		lp += "Ee\u0301"
	case "k": // upper case, non-ASCII
		lp += "\u00c9"
	case "i":
		dom = "xn--d" + j + "-bja.example"
	case "I":
		lp, dom = lp+"Qz", "XN--D"+j+"-BJA.EXAMPLE."
	case "j":
		dom = "d\u00e9" + j + ".example"
	case "J":
		lp, dom = lp+"Q\u00c9", "D\u00c9"+j+".EXAMPLE"
	}
	switch form {
	case '1':
		lp += "-a1"
	case '2':
		lp += "-a2"
	case 'b':
		lp += "-b1"
	}
	return lp + "@" + dom
}

// c03Wire is the RCPT TO argument as it is written on the wire: a local part with a space is a quoted-string
// (go-smtp hands the session the unquoted mailbox, which is also the key of its LMTP statuses)
func c03Wire(addr string) string {
	at := strings.LastIndexByte(addr, '@')
	if at < 0 || !strings.Contains(addr[:at], " ") {
		return addr
	}
	return `"` + addr[:at] + `"` + addr[at:]
}

// spellings of a recipient address that are not its normalized form, ASCII ones and ones that need SMTPUTF8
const (
	c03SpellASCII = "cCdeqiI"
	c03SpellUTF8  = "nkjJ"
)

// Alias forms of a recipient family (tokens "R:…:<form>" and "R+<form>"): 0 the mailbox itself, 1 and b two
// aliases of it, 2 an alias of alias 1.  The scripted modifier (vc03.Rewrite) rewrites 2 -> 1 -> 0 and b -> 0,
// every step into the next of the three routed domains, so the members of a family are routed by different
// destination blocks: level = number of rewriting steps between the form and the mailbox.
func c03FormLevel(form byte) int {
	switch form {
	case '1', 'b':
		return 1
	case '2':
		return 2
	}
	return 0
}

func c03FormOK(form string) bool {
	return form == "0" || form == "1" || form == "2" || form == "b"
}

// c03Fam is the family of the address token right before the current one.
type c03Fam struct {
	f     []string // fields of the R: token that opened the family
	n     int      // its token index (part of every address of the family)
	baseJ int      // domain of the mailbox (form 0)
}

// address, effective address (what the targets are given) and the target mask of the effective domain
func (fam *c03Fam) member(s *c03Scn, form byte) (addr, eff string, route int) {
	j := ((fam.baseJ-c03FormLevel(form))%3 + 3) % 3
	addr = c03Rcpt(fam.f[1], strconv.Itoa(j), fam.f[3], fam.f[4], fam.f[5], fam.f[6], fam.n, form)
	eff = vc03.Rewrite(c03Canon(addr))
	ej := j
	if form != '0' {
		ej = (j + 1) % 3
	}
	return addr, eff, s.routes[ej]
}

// message text for D / B tokens: kind o (plain), r (too many Received fields), h (header larger than the limit)
func c03Message(kind, cls, flags, bmask, plist string) string {
	var b strings.Builder
	if kind == "h" {
		// the header limit is reached inside these fixed lines, whatever the fault fields are
		for i := 0; i < 60; i++ {
			fmt.Fprintf(&b, "X-Filler-%02d: %s\r\n", i, strings.Repeat("f", 50))
		}
	}
	fmt.Fprintf(&b, "X-Vc03: %s-%s-%s-P%s\r\n", cls, flags, bmask, plist)
	switch kind {
	case "r":
		for i := 0; i <= c03MaxRecv; i++ {
			fmt.Fprintf(&b, "Received: from hop%d.example by hop%d.example; Mon, 2 Jan 2006 15:04:05 +0000\r\n", i, i+1)
		}
	}
	b.WriteString("From: <sender@src.example>\r\nSubject: c03\r\n\r\nbody line one\r\nbody line two\r\n")
	return b.String()
}

const c03Tail = "X-Tail: 1\r\n\r\ntail\r\n"

// ---------------------------------------------------------------- client

type c03Client struct {
	c    net.Conn
	tp   *textproto.Conn
	dead bool
}

func (w *c03Client) send(line string) {
	if w.dead {
		return
	}
	w.c.SetDeadline(time.Now().Add(c03IOTimeout))
	if _, err := w.c.Write([]byte(line)); err != nil {
		w.dead = true
	}
}

// one reply (all lines of a multi-line reply); 0 = connection gone
func (w *c03Client) reply() (int, string) {
	if w.dead {
		return 0, ""
	}
	w.c.SetDeadline(time.Now().Add(c03IOTimeout))
	code, msg, err := w.tp.ReadResponse(0)
	if err != nil {
		if _, ok := err.(*textproto.Error); ok {
			return code, msg
		}
		w.dead = true
		return 0, ""
	}
	return code, msg
}

// replies up to (not including) the reply of a NOOP sentinel
func (w *c03Client) untilSentinel() []int {
	w.send("NOOP\r\n")
	var out []int
	for {
		code, msg := w.reply()
		if code == 0 {
			return out
		}
		if code == 250 && strings.Contains(msg, c03NoopText) {
			return out
		}
		out = append(out, code)
	}
}

type c03TokRes struct {
	tok   string
	skip  bool   // BDAT not sent: the server holds no accepted recipient
	codes []int  // replies attributed to the token (0 entries never stored)
	gone  bool   // the connection was gone before any reply
	addr  string // R tokens: the address sent
	eff   string // R tokens: the address the targets are given (the modifier's rewriting of addr)
	route int    // R tokens: target mask of the destination block that routes the recipient (-1 = none)
}

func c03Codes(r c03TokRes) string {
	if r.skip {
		return "-"
	}
	if len(r.codes) == 0 {
		return "x"
	}
	var p []string
	for _, c := range r.codes {
		p = append(p, strconv.Itoa(c))
	}
	return strings.Join(p, "/")
}

// c03Run drives one session and returns the per-token replies.
func c03Run(t *testing.T, s *c03Scn, addr string) []c03TokRes {
	conn, err := net.Dial("tcp", addr)
	if err != nil {
		t.Fatal(err)
	}
	defer conn.Close()
	w := &c03Client{c: conn, tp: textproto.NewConn(conn)}
	if code, _ := w.reply(); code != 220 {
		t.Fatal("greeting", code)
	}
	res := make([]c03TokRes, len(s.toks))
	var pending []int // indexes of pipelined tokens whose single reply is still to be read
	var account func(i int)
	flush := func() {
		for _, i := range pending {
			code, _ := w.reply()
			if code != 0 {
				res[i].codes = append(res[i].codes, code)
			}
			account(i)
		}
		pending = nil
	}
	lastRcpt, lastEff := "", ""
	lastRoute := -1
	var fam *c03Fam
	// what a client knows about the server's transaction: recipients answered 250 since the last reset.
	// BDAT is only sent while there is one (a BDAT refused with 502 leaves its chunk on the wire to be
	// parsed as commands)
	cliRcpts := 0
	account = func(i int) {
		tok := strings.TrimSuffix(s.toks[i], "~")
		first := 0
		if len(res[i].codes) > 0 {
			first = res[i].codes[0]
		}
		switch {
		case res[i].addr != "" && first == 250:
			cliRcpts++
		case tok == "S" && first == 250:
			cliRcpts = 0
		}
	}
	for i, tokFull := range s.toks {
		res[i].tok = tokFull
		res[i].route = -1
		tok := strings.TrimSuffix(tokFull, "~")
		piped := tok != tokFull
		f := strings.Split(tok, ":")
		simple := "" // a command with exactly one reply
		// "R=" repeats the address of the token right before it (only)
		if !(i > 0 && res[i-1].addr != "") {
			lastRcpt, lastEff, lastRoute = "", "", -1
			fam = nil
		}
		switch {
		case tok == "E":
			if s.lmtp {
				simple = "LHLO client.example.org"
			} else {
				simple = "EHLO client.example.org"
			}
		case tok == "Eh":
			simple = "HELO client.example.org"
		case tok == "Ex":
			if s.lmtp {
				simple = "EHLO client.example.org"
			} else {
				simple = "LHLO client.example.org"
			}
		case tok == "Eb":
			if s.lmtp {
				simple = "LHLO"
			} else {
				simple = "EHLO"
			}
		case tok == "N":
			simple = "NOOP"
		case tok == "S":
			simple = "RSET"
		case tok == "V":
			simple = "VRFY someone"
		case tok == "Q":
			simple = "QUIT"
		case tok == "Bx":
			simple = "BDAT"
		case tok == "A:g":
			simple = "AUTH PLAIN " + base64.StdEncoding.EncodeToString([]byte("\x00"+c03User+"\x00"+c03Pass))
		case tok == "A:b":
			simple = "AUTH PLAIN " + base64.StdEncoding.EncodeToString([]byte("\x00"+c03User+"\x00wrong"))
		case f[0] == "M" && len(f) == 5:
			if f[1] == "x" {
				simple = "MAIL FROM:missing-brackets"
			} else {
				a, p := c03Sender(f[1], f[2], f[3], f[4], i)
				simple = "MAIL FROM:<" + a + ">" + p
			}
		case f[0] == "R" && (len(f) == 7 || len(f) == 8 && c03FormOK(f[7])):
			if f[3] == "x" {
				simple = "RCPT TO:missing-brackets"
			} else {
				form := byte('0')
				if len(f) == 8 {
					form = f[7][0]
				}
				j, _ := strconv.Atoi(f[2])
				if j >= 0 && j < 3 {
					fam = &c03Fam{f: f, n: i, baseJ: (j + c03FormLevel(form)) % 3}
					lastRcpt, lastEff, lastRoute = fam.member(s, form)
				} else {
					// a domain without a destination block: no rewriting, no route
					fam = nil
					lastRcpt = c03Rcpt(f[1], f[2], f[3], f[4], f[5], f[6], i, form)
					lastEff, lastRoute = c03Canon(lastRcpt), -1
				}
				res[i].addr, res[i].eff, res[i].route = lastRcpt, lastEff, lastRoute
				simple = "RCPT TO:<" + c03Wire(lastRcpt) + ">"
			}
		case tok == "R=":
			if lastRcpt == "" {
				simple = "NOOP"
			} else {
				res[i].addr, res[i].eff, res[i].route = lastRcpt, lastEff, lastRoute
				simple = "RCPT TO:<" + c03Wire(lastRcpt) + ">"
			}
		case strings.HasPrefix(tok, "R+") && c03FormOK(tok[2:]):
			// another member of the family of the address token right before this one
			if fam == nil {
				simple = "NOOP"
			} else {
				lastRcpt, lastEff, lastRoute = fam.member(s, tok[2])
				res[i].addr, res[i].eff, res[i].route = lastRcpt, lastEff, lastRoute
				simple = "RCPT TO:<" + c03Wire(lastRcpt) + ">"
			}
		}
		if simple != "" {
			w.send(simple + "\r\n")
			pending = append(pending, i)
			if !piped {
				flush()
			}
			if w.dead {
				break
			}
			continue
		}
		flush()
		switch {
		case tok == "X":
			conn.Close()
			w.dead = true
		case tok == "Z":
			// an unknown command: one reply, or two and the end of the connection after too many errors
			w.send("FROB nicate\r\n")
			res[i].codes = append(res[i].codes, w.untilSentinel()...)
		case f[0] == "D" && len(f) == 6:
			if f[1] == "a" {
				w.send("DATA now\r\n")
				if code, _ := w.reply(); code != 0 {
					res[i].codes = append(res[i].codes, code)
				}
				break
			}
			w.send("DATA\r\n")
			code, _ := w.reply()
			if code != 0 {
				res[i].codes = append(res[i].codes, code)
			}
			if code != 354 {
				break
			}
			cliRcpts = 0
			msg := c03Message(f[1], f[2], f[3], f[4], f[5])
			if f[1] == "t" {
				w.send(msg[:len(msg)/2])
				conn.Close()
				w.dead = true
				break
			}
			w.send(msg + ".\r\n")
			res[i].codes = append(res[i].codes, w.untilSentinel()...)
		case (f[0] == "Bf" || f[0] == "Bp" || tok == "Bl") && cliRcpts == 0:
			res[i].skip = true
		case (f[0] == "Bf" || f[0] == "Bp") && len(f) == 6:
			msg := c03Message(f[1], f[2], f[3], f[4], f[5])
			if f[0] == "Bf" {
				w.send(fmt.Sprintf("BDAT %d LAST\r\n%s", len(msg), msg))
			} else {
				w.send(fmt.Sprintf("BDAT %d\r\n%s", len(msg), msg))
			}
			res[i].codes = append(res[i].codes, w.untilSentinel()...)
			if f[0] == "Bf" || len(res[i].codes) != 1 || res[i].codes[0] != 250 {
				cliRcpts = 0
			}
		case tok == "Bl":
			w.send(fmt.Sprintf("BDAT %d LAST\r\n%s", len(c03Tail), c03Tail))
			res[i].codes = append(res[i].codes, w.untilSentinel()...)
			cliRcpts = 0
		default:
			t.Fatalf("bad token %q in %s", tokFull, s.line())
		}
		if w.dead {
			break
		}
	}
	flush()
	for i := range res {
		if res[i].tok == "" {
			res[i].tok = s.toks[i]
			res[i].route = -1
		}
	}
	return res
}

// c03Shutdown waits until every connection handler has returned (Session.Logout included) and every Serve loop
// has ended.  A Serve goroutine that has not registered its listener yet when Shutdown runs (a listener nobody
// connected to) would wait in Accept for ever: close the listeners here as well.
func c03Shutdown(endp *Endpoint) error {
	ctx, cancel := context.WithTimeout(context.Background(), 60*time.Second)
	err := endp.serv.Shutdown(ctx)
	cancel()
	for _, l := range endp.listeners {
		l.Close()
	}
	endp.listenersWg.Wait()
	return err
}

// ---------------------------------------------------------------- permits

func c03PeerString(peer string) string {
	if a := c03PeerAddr(peer); a != nil {
		return a.Network() + " " + a.String()
	}
	return "tcp 127.0.0.1"
}

// free permits for a source domain key = how many TakeMsg succeed at once (at most c03Cap are tried)
func c03Free(g *limits.Group, domain string, block time.Duration) int {
	ip := net.IPv4(127, 0, 0, 1)
	n := 0
	for n < c03Cap {
		ctx, cancel := context.WithTimeout(context.Background(), block)
		err := g.TakeMsg(ctx, ip, domain)
		cancel()
		if err != nil {
			break
		}
		n++
	}
	for i := 0; i < n; i++ {
		g.ReleaseMsg(ip, domain)
	}
	return n
}

// ---------------------------------------------------------------- observation

func c03DelStr(d *vc03.Del) string {
	var p []string
	for _, e := range d.Evs {
		ok := "-"
		if e.OK {
			ok = "+"
		}
		switch e.Op {
		case 'R':
			p = append(p, fmt.Sprintf("R%d%s", vc03.ParseRcpt(e.Addr).ID, ok))
		case 'N':
			p = append(p, "N("+e.Addr+")")
		default:
			p = append(p, string(e.Op)+ok)
		}
	}
	return "[" + strings.Join(p, ";") + "]"
}

func c03Observe(s *c03Scn, res []c03TokRes, leakA, leakB, panics int, snap []vc03.LimBucket) string {
	var r []string
	for _, x := range res {
		r = append(r, c03Codes(x))
	}
	var tg []string
	for k := 0; k < s.nT; k++ {
		var ds []string
		for _, d := range c03Log.Dels {
			if d.Tgt == k {
				ds = append(ds, c03DelStr(d))
			}
		}
		tg = append(tg, fmt.Sprintf("t%d:%s", k, strings.Join(ds, "")))
	}
	ha, hi, hs := vc03.LimHeld(snap)
	return fmt.Sprintf("%s | %s | leak=%d,%d | panics=%d | held=%d,%d,%d", strings.Join(r, " "), strings.Join(tg, " "), leakA, leakB, panics, ha, hi, hs)
}

// the iteration order Go chose for each fan-out over the deliveries map: one segment per fan-out (body
// phase, closing phase) of a pipeline delivery, in the order the fan-outs happened
func c03Oracle() string {
	var segs []string
	cur := ""
	var curMeta *module.MsgMetadata
	curPhase := byte(0)
	for _, e := range c03Log.Fan {
		phase := byte('c')
		if e.Kind == 'B' || e.Kind == 'N' {
			phase = 'b'
		}
		if cur != "" && (e.Del.Meta != curMeta || phase != curPhase) {
			segs = append(segs, cur)
			cur = ""
		}
		curMeta, curPhase = e.Del.Meta, phase
		cur += strconv.Itoa(e.Tgt)
	}
	if cur != "" {
		segs = append(segs, cur)
	}
	if len(segs) == 0 {
		return "O:-"
	}
	return "O:" + strings.Join(segs, ",")
}

// ---------------------------------------------------------------- the property, evaluated on the real run

// the endpoint hands recipients to the pipeline with the domain case-folded
// (an independent statement of address.CleanDomain for the domains of this harness: the local part is kept as
// the client sent it, the domain becomes the lower-case U-label form, a trailing dot stays)
func c03Canon(a string) string {
	at := strings.LastIndexByte(a, '@')
	if at < 0 {
		return a
	}
	dom := strings.ToLower(a[at+1:])
	for j := 0; j < 3; j++ {
		dom = strings.Replace(dom, fmt.Sprintf("xn--d%d-bja.", j), fmt.Sprintf("d\u00e9%d.", j), 1)
	}
	return a[:at] + "@" + dom
}

func c03Monitor(out *vh.Out, s *c03Scn, line string, res []c03TokRes, leakA, leakB int, snap []vc03.LimBucket) {
	viol := func(sig, detail string) { out.Violation("C03/"+sig, line, detail) }

	// typestate of every delivery opened on a target
	for i, d := range c03Log.Dels {
		switch {
		case d.Closes == 0:
			viol("delivery-never-closed", fmt.Sprintf("delivery #%d on target %d %s was started but neither committed nor aborted by the end of the session", i, d.Tgt, c03DelStr(d)))
		case d.Closes > 1:
			viol("delivery-closed-twice", fmt.Sprintf("delivery #%d on target %d %s was closed %d times", i, d.Tgt, c03DelStr(d), d.Closes))
		}
		if d.UseAfter > 0 && d.Closes <= 1 {
			viol("use-after-close", fmt.Sprintf("delivery #%d on target %d %s was used after it was closed", i, d.Tgt, c03DelStr(d)))
		}
		// a delivery whose body stage failed, or that never saw a body, must be aborted, not committed
		if d.Commit != 0 && !d.Partial && !d.BodyOK {
			viol("commit-without-successful-body", fmt.Sprintf("delivery #%d on target %d %s: Commit was called although Body failed or was never called", i, d.Tgt, c03DelStr(d)))
		}
		if d.Commit != 0 && d.Partial && !d.BodySeen {
			viol("commit-without-successful-body", fmt.Sprintf("delivery #%d on (partial) target %d %s: Commit was called without any body", i, d.Tgt, c03DelStr(d)))
		}
	}

	// permits
	if leakA != 0 || leakB != 0 {
		viol("permit-not-returned", fmt.Sprintf("after the session %d permit(s) for source %q and %d for the null sender are still held", leakA, c03SrcDomain, leakB))
	}
	// the same rule on the real limiter state, per scope and key: every limiter set that exists (whatever key it
	// was created under) is idle once the session is over
	for _, b := range vc03.LimBusy(snap) {
		viol("permit-not-returned", fmt.Sprintf("after the session (peer %s) %d permit(s) of the %q scope, key %q, are still held (users=%d, semaphores in use=%v)",
			c03PeerString(s.peer), b.InUse(), b.Scope, b.Key, b.Users, b.Sems))
	}

	// transactions as go-smtp delimits them: recipients accumulate until RSET, the end of DATA/BDAT, or the end
	// of the connection (a repeated EHLO does not end a transaction in this server)
	// addr is the RCPT TO argument, eff the address its targets were given (the modifier's rewriting of it),
	// route the targets of the destination block of eff: replies belong to RCPT commands, the ground truth is
	// read on the target's side under eff
	type rc struct {
		addr  string
		eff   string
		route int
		tok   int
	}
	var accepted []rc
	attempted := map[string]bool{}
	holds := func(d *vc03.Del, eff string) bool { // ground truth on the target's side
		if d.Commit != 1 {
			return false
		}
		added := false
		for _, e := range d.Evs {
			if e.Op == 'R' && e.OK && e.Addr == eff {
				added = true
			}
		}
		if !added {
			return false
		}
		if d.Partial && len(d.Status) > 0 {
			return d.Status[eff]
		}
		return d.BodyOK
	}
	txDels := func() []*vc03.Del {
		var out []*vc03.Del
		for _, d := range c03Log.Dels {
			for _, e := range d.Evs {
				if e.Op == 'R' && attempted[e.Addr] {
					out = append(out, d)
					break
				}
			}
		}
		return out
	}
	endTx := func() { accepted = nil; attempted = map[string]bool{} }
	finish := func(i int, finals []int) {
		dels := txDels()
		commitFailed := false
		for _, d := range dels {
			if d.Commit == 2 {
				commitFailed = true
			}
		}
		checkHeld := func(r rc) {
			for k := 0; k < s.nT; k++ {
				if r.route&(1<<k) == 0 {
					continue
				}
				ok := false
				for _, d := range dels {
					if d.Tgt == k && holds(d, r.eff) {
						ok = true
					}
				}
				if !ok {
					viol("success-reply-not-committed", fmt.Sprintf("token %d: success reply, but recipient %s (token %d, delivered as %s) is not committed on target %d", i, r.addr, r.tok, r.eff, k))
				}
			}
		}
		if !s.lmtp {
			if len(finals) != 1 {
				return
			}
			if finals[0]/100 == 2 {
				for _, r := range accepted {
					checkHeld(r)
				}
				out.Stat("mon.tx.success")
			} else {
				out.Stat("mon.tx.failure")
				if commitFailed {
					out.Stat("mon.tx.failure-at-commit")
				} else {
					for _, d := range dels {
						if d.Commit == 1 {
							viol("refused-but-committed", fmt.Sprintf("token %d: the transaction was refused (%d) before the commit step, but delivery on target %d %s is committed", i, finals[0], d.Tgt, c03DelStr(d)))
						}
					}
				}
			}
			return
		}
		// LMTP: one reply per accepted recipient, in order (only then can replies be attributed)
		if len(finals) != len(accepted) {
			out.Stat("mon.lmtp.replies-not-attributable")
			return
		}
		for n, r := range accepted {
			if finals[n]/100 == 2 {
				checkHeld(r)
				out.Stat("mon.lmtp.rcpt.success")
				continue
			}
			out.Stat("mon.lmtp.rcpt.failure")
			if commitFailed {
				out.Stat("mon.lmtp.rcpt.failure-at-commit")
				continue
			}
			// refused before the commit step: the recipient may be held only by a target that accepted the
			// body for it while ANOTHER of its targets refused it (each reply is the conjunction of the
			// recipient's own targets); if none of its targets refused it, nothing may be committed for it
			ownTargetFailed := false
			var holders []*vc03.Del
			for _, d := range dels {
				if r.route&(1<<d.Tgt) == 0 {
					continue
				}
				added := false
				for _, e := range d.Evs {
					if e.Op == 'R' && e.OK && e.Addr == r.eff {
						added = true
					}
				}
				if !added {
					continue
				}
				bodyOK := d.BodyOK
				if d.Partial && len(d.Status) > 0 {
					bodyOK = d.Status[r.eff]
				}
				if d.BodySeen && !bodyOK {
					ownTargetFailed = true
				}
				if holds(d, r.eff) {
					holders = append(holders, d)
				}
			}
			if !ownTargetFailed {
				for _, d := range holders {
					viol("refused-but-committed", fmt.Sprintf("token %d: recipient %s (delivered as %s) was refused (%d) before the commit step although none of its targets refused it, but target %d %s holds the message for it", i, r.addr, r.eff, finals[n], d.Tgt, c03DelStr(d)))
				}
			}
		}
	}
	for i, r := range res {
		tok := strings.TrimSuffix(r.tok, "~")
		f := strings.Split(tok, ":")
		first := 0
		if len(r.codes) > 0 {
			first = r.codes[0]
		}
		switch {
		case r.addr != "":
			attempted[r.eff] = true
			if first == 250 {
				accepted = append(accepted, rc{r.addr, r.eff, r.route, i})
			}
		case tok == "S" && first == 250:
			endTx()
		case f[0] == "D" && first == 354:
			finish(i, r.codes[1:])
			endTx()
		case r.skip:
		case f[0] == "Bf" || tok == "Bl":
			if first == 501 || first == 502 || first == 0 {
				break
			}
			finish(i, r.codes)
			endTx()
		case f[0] == "Bp":
			if first != 250 && first != 501 && first != 502 && first != 0 {
				endTx()
			}
		}
	}
	// nothing may be committed outside of a transaction that ended with a success reply or a commit-step failure:
	// covered per transaction above; deliveries of transactions that never reached the end of DATA must not be committed
	_ = accepted
}

// ---------------------------------------------------------------- generator

func c03Fault(r *vh.Rng, pct int, letters string) string {
	out := ""
	for _, c := range letters {
		if r.Chance(pct) {
			out += string(c)
		}
	}
	if out == "" {
		return "0"
	}
	return out
}

func c03Mask(r *vh.Rng, pct, nT int) int {
	m := 0
	for k := 0; k < nT; k++ {
		if r.Chance(pct) {
			m |= 1 << k
		}
	}
	return m
}

func c03Cls(r *vh.Rng) string {
	if r.Chance(35) {
		return "t"
	}
	return "p"
}

type c03Gen struct {
	r   *vh.Rng
	s   *c03Scn
	pct int // fault density
}

func (g *c03Gen) mail() string {
	r := g.r
	kind := "a"
	switch x := r.Intn(100); {
	case x < 8:
		kind = "A"
	case x < 14:
		kind = "n"
	case x < 16:
		kind = "x"
	case x < 19:
		kind = "u"
	case x < 24:
		kind = "8"
	case x < 26:
		kind = "p"
	case x < 28:
		kind = "z"
	}
	if kind == "n" {
		return "M:n:p:0:000"
	}
	return fmt.Sprintf("M:%s:%s:%s:%d%d%d", kind, c03Cls(r), c03Fault(r, g.pct/6, "csiw"),
		c03Mask(r, g.pct/3, g.s.nT), c03Mask(r, g.pct/2, g.s.nT), c03Mask(r, g.pct/2, g.s.nT))
}

func (g *c03Gen) rcpt() string {
	r := g.r
	variant := "a"
	switch x := r.Intn(100); {
	case x < 10:
		variant = "U"
	case x < 13:
		variant = "x"
	case x < 17:
		variant = "u"
	}
	return fmt.Sprintf("R:%d:%d:%s:%s:%s:%d", r.Intn(6), r.Intn(3), variant, c03Cls(r), c03Fault(r, g.pct/5, "cm"), c03Mask(r, g.pct/3, g.s.nT))
}

func (g *c03Gen) dataArgs() string {
	r := g.r
	kind := "o"
	switch x := r.Intn(100); {
	case x < 7:
		kind = "r"
	case x < 12:
		kind = "h"
	}
	pl := ""
	for id := 0; id < 6; id++ {
		if r.Chance(g.pct / 2) {
			pl += strconv.Itoa(id)
		}
	}
	return fmt.Sprintf("%s:%s:%s:%d:%s", kind, c03Cls(r), c03Fault(r, g.pct/3, "cm"), c03Mask(r, g.pct/2, g.s.nT), pl)
}

func (g *c03Gen) data() string {
	r := g.r
	switch x := r.Intn(100); {
	case x < 62:
		return "D:" + g.dataArgs()
	case x < 65:
		return "D:a:p:0:0:"
	case x < 80:
		return "Bf:" + g.dataArgs()
	case x < 92:
		return "Bp:" + g.dataArgs()
	default:
		return "Bl"
	}
}

// c03Alias turns recipients of the finished script into alias families (recipient lists whose members are
// rewritten into one another by the modifier) and crosses them with body-stage failures.
func c03Alias(r *vh.Rng, s *c03Scn) {
	pct := 14
	if s.lmtp {
		pct = 36
	}
	patterns := [][]string{
		{"2", "1"}, {"1", "2"}, // a -> b and b is a recipient too (itself rewritten), both orders
		{"2", "1"}, {"1", "2"},
		{"2", "1", "0"}, {"0", "1", "2"}, {"1", "2", "0"}, // a chain down to the mailbox, all supplied
		{"1", "0"}, {"0", "1"}, // an alias and its own rewriting result
		{"1", "b"}, {"b", "1", "0"}, {"0", "b", "1"}, // two aliases of one mailbox
		{"2", "b"}, {"1"}, {"2"},
	}
	var out []string
	collide := false
	boost := false // the next message of the transaction gets a body-stage failure
	for _, t := range s.toks {
		bare := strings.TrimSuffix(t, "~")
		tilde := t[len(bare):]
		f := strings.Split(bare, ":")
		switch {
		case f[0] == "M":
			boost = false
		case boost && (f[0] == "D" || f[0] == "Bf" || f[0] == "Bp") && len(f) == 6 && f[1] == "o":
			boost = false
			switch r.Intn(5) {
			case 0:
				f[3] = "c"
			case 1:
				f[3] = "m"
			default:
				f[4] = strconv.Itoa(1 + r.Intn(1<<s.nT-1))
			}
			t = strings.Join(f, ":") + tilde
		}
		out = append(out, t)
		if f[0] != "R" || len(f) != 7 || f[3] == "x" || len(out) > 24 || !r.Chance(pct) {
			continue
		}
		pat := patterns[r.Intn(len(patterns))]
		if pat[0] != "0" {
			out[len(out)-1] = bare + ":" + pat[0] + tilde
		}
		same := 0 // members delivered under the mailbox address itself
		for k, fm := range pat {
			if k > 0 {
				out = append(out, "R+"+fm+tilde)
			}
			if fm != "2" {
				same++
			}
		}
		if same > 1 {
			collide = true
		}
		if r.Chance(65) {
			boost = true
		}
	}
	s.toks = out
	// Two different RCPT TO addresses delivered under ONE effective address to a target that reports per-recipient
	// results: the pipeline's reverse translation is a map keyed by the effective address, both results come
	// back under the later address (known finding KF-C09-1, judged by the C09 check).  Such recipient lists are
	// generated with targets that do not report per recipient; chains without a shared effective address
	// (a -> b, b -> c) keep the reporting targets and go through the translation.
	if collide && s.lmtp {
		s.partial = 0
	}
}

// c03Spell respells recipients of the finished script: the RCPT TO argument is not the normalized form of the
// address (local part not lower case / not NFC / quoted, domain upper case / absolute / A- or U-label of the
// second name of the routed domain), crossed with per-recipient failures of the body stage for exactly these
// recipients.  Every status of a recipient has to find its way back to the RCPT command it belongs to.
func c03Spell(r *vh.Rng, s *c03Scn) {
	pct := 18
	if s.lmtp {
		pct = 45
	}
	utf8 := false
	boost := "" // ids of respelled recipients: the next message of the transaction fails for them
	for i, t := range s.toks {
		bare := strings.TrimSuffix(t, "~")
		tilde := t[len(bare):]
		f := strings.Split(bare, ":")
		switch {
		case f[0] == "M" && len(f) == 5:
			if f[1] == "a" && s.lmtp && r.Chance(12) {
				f[1] = "8"
				s.toks[i] = strings.Join(f, ":") + tilde
			}
			utf8 = f[1] == "8" || f[1] == "I"
			boost = ""
		case f[0] == "R" && (len(f) == 7 || len(f) == 8) && f[3] == "a" && r.Chance(pct):
			set := c03SpellASCII
			if utf8 && r.Chance(60) {
				set = c03SpellUTF8
			}
			f[3] = string(set[r.Intn(len(set))])
			s.toks[i] = strings.Join(f, ":") + tilde
			if r.Chance(70) && !strings.Contains(boost, f[1]) {
				boost += f[1]
			}
		case boost != "" && (f[0] == "D" || f[0] == "Bf" || f[0] == "Bp") && len(f) == 6 && f[1] == "o":
			if r.Chance(25) {
				f[4] = strconv.Itoa(1 + r.Intn(1<<s.nT-1))
			} else {
				for _, id := range boost {
					if !strings.ContainsRune(f[5], id) {
						f[5] += string(id)
					}
				}
			}
			s.toks[i] = strings.Join(f, ":") + tilde
			boost = ""
		}
	}
}

func c03GenScn(r *vh.Rng) *c03Scn {
	s := &c03Scn{lmtp: r.Chance(45), deferred: r.Chance(60)}
	s.nT = 1 + r.Intn(3)
	if s.lmtp || r.Chance(30) {
		s.partial = c03Mask(r, 45, s.nT)
	}
	for j := range s.routes {
		if r.Chance(8) {
			s.routes[j] = 0
		} else {
			s.routes[j] = 1 + r.Intn(1<<s.nT-1)
		}
	}
	g := &c03Gen{r: r, s: s, pct: []int{0, 0, 0, 8, 8, 8, 20, 20, 40, 70}[r.Intn(10)]}
	var toks []string
	defer func(r *vh.Rng) {
		// the peer address and the limits block: drawn from a stream of their own, so that the scripts of a
		// seed are the ones they were before these existed
		s.peer, s.lim = "l0", 0
		if r.Chance(55) {
			s.peer = r.Pick("4", "m", "6", "6", "6", "z", "u") + strconv.Itoa(r.Intn(4))
		}
		if r.Chance(60) {
			s.lim = 1 + r.Intn(len(c03LimCfgs)-1)
		}
		// other sender domains (other keys of the source scope): the model treats them as their ASCII / SMTPUTF8 kinds
		for i, t := range s.toks {
			switch {
			case strings.HasPrefix(t, "M:a:") && r.Chance(12):
				s.toks[i] = "M:i:" + t[4:]
			case strings.HasPrefix(t, "M:8:") && r.Chance(40):
				s.toks[i] = "M:I:" + t[4:]
			}
		}
		c03Alias(r, s)
		c03Spell(r, s)
	}(r.Fork())
	if r.Chance(80) {
		// a plausible client, then damaged
		toks = append(toks, "E")
		if r.Chance(15) {
			toks = append(toks, r.Pick("A:g", "A:b"))
		}
		for tx := 1 + r.Intn(3); tx > 0; tx-- {
			toks = append(toks, g.mail())
			for n := 1 + r.Intn(3); n > 0; n-- {
				toks = append(toks, g.rcpt())
				if r.Chance(6) {
					toks = append(toks, "R=")
				}
			}
			toks = append(toks, g.data())
			if strings.HasPrefix(toks[len(toks)-1], "Bp") && r.Chance(70) {
				toks = append(toks, r.Pick("Bl", "Bl", "S", "Bp:"+g.dataArgs(), "N"))
			}
			if r.Chance(15) {
				toks = append(toks, "S")
			}
		}
		for k := r.Intn(3) * r.Intn(2); k > 0 && len(toks) > 1; k-- {
			i := r.Intn(len(toks))
			switch r.Intn(4) {
			case 0:
				toks = append(toks[:i], toks[i+1:]...)
			case 1:
				j := r.Intn(len(toks))
				toks[i], toks[j] = toks[j], toks[i]
			case 2:
				toks = append(toks[:i+1], toks[i:]...)
			default:
				extra := r.Pick("E", "S", "N", "Z", "Q", "Eh", "Ex", "Eb", "V", "Bx", "A:g", "Bl", g.mail(), g.rcpt())
				toks = append(toks[:i+1], append([]string{extra}, toks[i+1:]...)...)
			}
		}
	} else {
		n := 1 + r.Intn(14)
		for i := 0; i < n; i++ {
			x := r.Intn(100)
			if i == 0 && x >= 20 {
				x = 0
			}
			switch {
			case x < 8:
				toks = append(toks, "E")
			case x < 28:
				toks = append(toks, g.mail())
			case x < 55:
				toks = append(toks, g.rcpt())
			case x < 75:
				toks = append(toks, g.data())
			case x < 82:
				toks = append(toks, "S")
			case x < 85:
				toks = append(toks, "N")
			case x < 89:
				toks = append(toks, "Z")
			case x < 91:
				toks = append(toks, r.Pick("Eh", "Ex", "Eb", "V", "Bx"))
			case x < 94:
				toks = append(toks, r.Pick("A:g", "A:b"))
			case x < 96:
				toks = append(toks, "R=")
			default:
				toks = append(toks, "Bl")
			}
		}
	}
	if r.Chance(4) {
		// a client that sends junk: go-smtp hangs up after the fourth protocol error
		for k := 3 + r.Intn(3); k > 0; k-- {
			i := r.Intn(len(toks) + 1)
			toks = append(toks[:i], append([]string{"Z"}, toks[i:]...)...)
		}
	}
	if len(toks) > 18 {
		toks = toks[:18]
	}
	// the end of the session: QUIT, abrupt close, or a DATA cut in the middle
	switch x := r.Intn(100); {
	case x < 45:
		toks = append(toks, "Q")
	case x < 85:
		toks = append(toks, "X")
	case x < 92:
		toks = append(toks, "D:t:p:0:0:")
	}
	// nothing may follow a token that ends the connection; "R=" needs an R right before it
	var outT []string
	for i, t := range toks {
		if t == "R=" && (i == 0 || !strings.HasPrefix(toks[i-1], "R:")) {
			continue
		}
		outT = append(outT, t)
		if t == "Q" || t == "X" || strings.HasPrefix(t, "D:t") {
			break
		}
	}
	// pipelining: simple commands may be sent without waiting for the previous reply
	if r.Chance(40) {
		for i := 0; i+1 < len(outT); i++ {
			t := outT[i]
			simple := t == "E" || t == "S" || t == "N" || t == "R=" || strings.HasPrefix(t, "M:") || strings.HasPrefix(t, "R:")
			if simple && r.Chance(60) {
				outT[i] = t + "~"
			}
		}
	}
	s.toks = outT
	return s
}

// ---------------------------------------------------------------- driver

func c03One(t *testing.T, out *vh.Out, s *c03Scn) {
	c03Log.Reset()
	elog := &c03ErrLog{}
	endp, addr := c03Endpoint(t, s, elog)
	res := c03Run(t, s, addr)
	// quiescence: every connection handler has returned (Session.Logout included)
	if err := c03Shutdown(endp); err != nil {
		out.Note("shutdown: " + err.Error() + " in " + s.line())
	}
	// the real limiter state, before the probes below create buckets of their own
	snap := vc03.LimSnapshot(endp.limits)
	free0 := c03Free(endp.limits, c03SrcDomain, c03ProbeBlock)
	free1 := c03Free(endp.limits, "", c03ProbeBlock)
	if (free0 < c03Cap || free1 < c03Cap) && len(vc03.LimBusy(snap)) == 0 {
		// The limiter state shows nothing out, yet a probe was refused: on a stalled machine the probe's own
		// deadline can pass before the limiter is even asked (select picks among ready cases at random).  Ask
		// again with a deadline that only a permit that is really held can exhaust.
		free0 = c03Free(endp.limits, c03SrcDomain, c03ProbeConfirm)
		free1 = c03Free(endp.limits, "", c03ProbeConfirm)
		out.Stat("probe.reconfirmed")
	}
	leakA, leakB := c03Cap-free0, c03Cap-free1
	vc03.LimClose(endp.limits)
	elog.mu.Lock()
	panics := elog.panics
	elines := append([]string(nil), elog.lines...)
	elog.mu.Unlock()

	line := s.line()
	c03Log.Lock()
	c03Monitor(out, s, line, res, leakA, leakB, snap)
	if panics != 0 {
		out.Violation("C03/panic", line, fmt.Sprintf("%d panic(s) inside the server's session handling were recovered by go-smtp; first log lines: %s", panics, strings.Join(elines, " // ")))
	}
	obs := c03Observe(s, res, leakA, leakB, panics, snap)
	oracle := c03Oracle()
	nd := len(c03Log.Dels)
	c03Log.Unlock()
	out.Corr(line+" "+oracle, obs)
	if vh.Replay() != nil {
		out.Note("replay: " + line + " " + oracle + " => " + obs)
		for _, l := range elines {
			out.Note("server log: " + l)
		}
	}

	// distribution
	for _, r := range res {
		tok := strings.TrimSuffix(r.tok, "~")
		kind := strings.Split(tok, ":")[0]
		out.Stat("tok." + kind + "." + c03Codes(r))
		if f := strings.Split(tok, ":"); f[0] == "R" && len(f) >= 7 {
			out.Stat("rcpt.spelling." + f[3] + "." + c03Codes(r))
		}
	}
	seenMail := false
	for _, r := range res {
		tok := strings.TrimSuffix(r.tok, "~")
		if strings.HasPrefix(tok, "M:") && len(r.codes) > 0 && r.codes[0] == 250 {
			seenMail = true
		}
		if (tok == "E" || tok == "Eh") && seenMail && len(r.codes) > 0 && r.codes[0] == 250 {
			out.Stat("ehlo.repeated-after-mail")
		}
		if strings.HasSuffix(r.tok, "~") {
			out.Stat("pipelined-tokens")
		}
	}
	c03Log.Lock()
	for _, d := range c03Log.Dels {
		shape := ""
		for _, e := range d.Evs {
			switch e.Op {
			case 'B', 'C', 'A':
				if e.OK {
					shape += string(e.Op) + "+"
				} else {
					shape += string(e.Op) + "-"
				}
			case 'N':
				if e.OK {
					shape += "N+"
				} else {
					shape += "N-"
				}
			}
		}
		out.Stat("delivery.calls." + shape)
	}
	segs := strings.Split(strings.TrimPrefix(oracle, "O:"), ",")
	for _, sg := range segs {
		if sg == "-" || sg == "" {
			continue
		}
		out.Stat(fmt.Sprintf("fanout.size.%d", len(sg)))
		for i := 1; i < len(sg); i++ {
			if sg[i] < sg[i-1] {
				out.Stat("fanout.order-not-ascending")
				break
			}
		}
	}
	c03Log.Unlock()
	out.Stat(fmt.Sprintf("cfg.lmtp=%v.deferred=%v.targets=%d", s.lmtp, s.deferred, s.nT))
	out.Stat("peer." + s.peer[:1])
	out.Stat(fmt.Sprintf("limits.%d", s.lim))
	for _, b := range snap {
		if b.Scope == "ip" {
			out.Stat("peer." + s.peer[:1] + ".ip-bucket." + b.Key)
		}
		if b.Scope == "source" {
			out.Stat(fmt.Sprintf("source-bucket.%+q", b.Key))
		}
	}
	if len(snap) > 1 {
		out.Stat("limits.buckets-after-session")
	}
	out.Stat(fmt.Sprintf("deliveries.%d", nd))
	out.Stat(fmt.Sprintf("panics.%d", panics))
	out.Stat(fmt.Sprintf("len.%02d", len(s.toks)))
	if sc := endp.ConnectionCount(); sc != 0 {
		out.Stat(fmt.Sprintf("session-count-after.%d", sc))
	}
}

// ---------------------------------------------------------------- limit time-outs

// One session (the holder) keeps a transaction open and with it the only permit of one scope; k other
// sessions start a transaction and are refused when TakeMsg gives up (5 s, fixed in the code).  What a
// refused TakeMsg took in the scopes before the exhausted one has to be given back.
type c03TScn struct {
	lmtp, deferred bool
	scope          byte // a, i, s: the scope with the single permit
	order          int  // 0: the single-permit limiter is the first limiter of its scope, 1: the last
	rate           bool // every scope has a rate limiter as well
	k              int
	peer           string // peer address of the holder
}

func (s *c03TScn) line() string {
	p, m, r := "S", "I", 0
	if s.lmtp {
		p = "L"
	}
	if s.deferred {
		m = "D"
	}
	if s.rate {
		r = 1
	}
	return fmt.Sprintf("C03 t %s %s %c%d%d %d %s", p, m, s.scope, s.order, r, s.k, s.peer)
}

func c03TParse(line string) (*c03TScn, error) {
	f := strings.Fields(line)
	if len(f) != 7 || f[0] != "C03" || f[1] != "t" || len(f[4]) != 3 || c03PeerAddr(f[6]) == nil {
		return nil, fmt.Errorf("not a C03 t line: %q", line)
	}
	k, err := strconv.Atoi(f[5])
	if err != nil || k < 1 || k > 4 || !strings.ContainsRune("ais", rune(f[4][0])) {
		return nil, fmt.Errorf("not a C03 t line: %q", line)
	}
	return &c03TScn{lmtp: f[2] == "L", deferred: f[3] == "D", scope: f[4][0], order: int(f[4][1] - '0'), rate: f[4][2] == '1', k: k, peer: f[6]}, nil
}

func (s *c03TScn) limDirs() []string {
	var out []string
	for _, sc := range []string{"all", "ip", "source"} {
		ds := []string{"c"}
		if s.rate {
			ds = append(ds, "r")
		}
		if sc[0] == s.scope {
			if s.order == 0 {
				ds = append([]string{"1"}, ds...)
			} else {
				ds = append(ds, "1")
			}
		}
		for _, d := range ds {
			out = append(out, sc+" "+d)
		}
	}
	return out
}

// peer address and sender domain of the j-th contending session: the key of the exhausted scope is the
// holder's, the other keys differ where they can
func (s *c03TScn) contender(j int) (peer, domain string) {
	peer, domain = s.peer, fmt.Sprintf("other%d.example", j)
	if s.scope != 'i' {
		peer = s.peer[:1] + strconv.Itoa((int(s.peer[1]-'0')+1+j)%4)
	}
	if s.scope == 's' {
		domain = c03SrcDomain
	}
	return
}

type c03TRun struct {
	s                   *c03TScn
	endp                *Endpoint
	elog                *c03ErrLog
	hAddr               string
	bAddrs              []string
	codes               []int
	snap0, snap1, snap2 []vc03.LimBucket
	err                 error
}

func (r *c03TRun) run() {
	s := r.s
	hello := "EHLO client.example.org\r\n"
	if s.lmtp {
		hello = "LHLO client.example.org\r\n"
	}
	open := func(addr string) (*c03Client, error) {
		conn, err := net.Dial("tcp", addr)
		if err != nil {
			return nil, err
		}
		w := &c03Client{c: conn, tp: textproto.NewConn(conn)}
		if code, _ := w.reply(); code != 220 {
			return nil, fmt.Errorf("greeting %d", code)
		}
		w.send(hello)
		if code, _ := w.reply(); code != 250 {
			return nil, fmt.Errorf("hello %d", code)
		}
		return w, nil
	}
	cmd := func(w *c03Client, line string) int {
		w.send(line + "\r\n")
		code, _ := w.reply()
		return code
	}
	h, err := open(r.hAddr)
	if err != nil {
		r.err = err
		return
	}
	defer h.c.Close()
	if c1, c2 := cmd(h, "MAIL FROM:<holder@"+c03SrcDomain+">"), cmd(h, "RCPT TO:<rcpt@d0.example>"); c1 != 250 || c2 != 250 {
		r.err = fmt.Errorf("the holder could not open its transaction: %d %d", c1, c2)
		return
	}
	r.snap0 = vc03.LimSnapshot(r.endp.limits)

	// the contenders, at once: each waits for the permit until TakeMsg gives up
	r.codes = make([]int, s.k)
	cl := make([]*c03Client, s.k)
	errs := make([]error, s.k)
	var wg sync.WaitGroup
	for j := 0; j < s.k; j++ {
		wg.Add(1)
		go func(j int) {
			defer wg.Done()
			w, err := open(r.bAddrs[j])
			if err != nil {
				errs[j] = err
				return
			}
			cl[j] = w
			_, dom := s.contender(j)
			code := cmd(w, fmt.Sprintf("MAIL FROM:<contender%d@%s>", j, dom))
			if s.deferred && code == 250 {
				code = cmd(w, "RCPT TO:<rcpt@d1.example>")
			}
			r.codes[j] = code
		}(j)
	}
	wg.Wait()
	for _, e := range errs {
		if e != nil {
			r.err = e
		}
	}
	r.snap1 = vc03.LimSnapshot(r.endp.limits)

	// the end: contenders leave, the holder ends its transaction one way or another
	for j, w := range cl {
		if w == nil {
			continue
		}
		if j%2 == 0 {
			cmd(w, "QUIT")
		}
		w.c.Close()
	}
	switch (s.k + s.order) % 3 {
	case 0:
		if cmd(h, "DATA") == 354 {
			h.send("From: <holder@src.example>\r\nSubject: c03\r\n\r\nbody\r\n.\r\n")
			h.reply()
		}
		cmd(h, "QUIT")
	case 1:
		cmd(h, "RSET")
		cmd(h, "QUIT")
	}
	h.c.Close()
	if err := c03Shutdown(r.endp); err != nil && r.err == nil {
		r.err = err
	}
	r.snap2 = vc03.LimSnapshot(r.endp.limits)
	vc03.LimClose(r.endp.limits)
}

func (r *c03TRun) judge(out *vh.Out) {
	s, line := r.s, r.s.line()
	granted := 0
	var cs []string
	for _, c := range r.codes {
		if c == 250 {
			granted++
		}
		cs = append(cs, strconv.Itoa(c))
		out.Stat(fmt.Sprintf("timeout.reply.%d", c))
	}
	// a transaction that was refused holds nothing: per limiter set, not more is out than before the contenders
	// came (plus one for each of them that was let in)
	before := map[string]int{}
	for _, b := range r.snap0 {
		before[b.Scope+"\x00"+b.Key] = b.InUse()
	}
	for _, b := range r.snap1 {
		if was := before[b.Scope+"\x00"+b.Key]; b.InUse() > was+granted {
			out.Violation("C03/permit-not-returned", line, fmt.Sprintf("%d transaction(s) were refused (%s) when the %q limit timed out, %d were started; %d permit(s) of the %q scope, key %q, are held (users=%d, semaphores in use=%v), %d before",
				len(r.codes)-granted, strings.Join(cs, " "), string(s.scope), granted, b.InUse(), b.Scope, b.Key, b.Users, b.Sems, was))
		}
	}
	for _, b := range vc03.LimBusy(r.snap2) {
		out.Violation("C03/permit-not-returned", line, fmt.Sprintf("after all sessions ended %d permit(s) of the %q scope, key %q, are still held (users=%d, semaphores in use=%v)", b.InUse(), b.Scope, b.Key, b.Users, b.Sems))
	}
	r.elog.mu.Lock()
	panics := r.elog.panics
	r.elog.mu.Unlock()
	a1, i1, s1 := vc03.LimHeld(r.snap1)
	a2, i2, s2 := vc03.LimHeld(r.snap2)
	obs := fmt.Sprintf("%s | held=%d,%d,%d | end=%d,%d,%d", strings.Join(cs, " "), a1, i1, s1, a2, i2, s2)
	if panics != 0 {
		obs += fmt.Sprintf(" | panics=%d", panics)
	}
	out.Corr(line, obs)
	if vh.Replay() != nil {
		out.Note("replay: " + line + " => " + obs + " ; before the contenders: " + vc03.LimString(r.snap0) + " ; after their time-outs: " + vc03.LimString(r.snap1) + " ; at the end: " + vc03.LimString(r.snap2))
	}
	out.Stat(fmt.Sprintf("timeout.scope.%c.order=%d.rate=%v", s.scope, s.order, s.rate))
	out.Stat(fmt.Sprintf("timeout.cfg.lmtp=%v.deferred=%v", s.lmtp, s.deferred))
	out.Stat("timeout.peer." + s.peer[:1])
}

func TestVerifC03LimitTimeouts(t *testing.T) {
	t.Parallel() // the waits of this test overlap with TestVerifC03Sessions
	out := vh.Open("c03_timeouts")
	defer out.Close()
	var scns []*c03TScn
	if rep := vh.Replay(); rep != nil {
		for _, l := range rep {
			if strings.HasPrefix(l, "C03 t ") {
				s, err := c03TParse(l)
				if err != nil {
					t.Fatal(err)
				}
				scns = append(scns, s)
			}
		}
	} else {
		n := 6
		if vh.Thorough() {
			n = 48
		}
		rng := vh.NewRng(vh.Seed()*829367861 + 977)
		for i := 0; i < n; i++ {
			// every scope in both modes first, the rest at random
			scns = append(scns, &c03TScn{lmtp: rng.Chance(40), deferred: i%2 == 0, scope: "ais"[(i/2)%3], order: rng.Intn(2), rate: rng.Chance(50),
				k: 1 + rng.Intn(3), peer: rng.Pick("4", "m", "6", "6", "z", "u") + strconv.Itoa(rng.Intn(4))})
		}
	}
	const pipeline = "default_destination {\n deliver_to dummy\n}\n"
	for len(scns) > 0 {
		wave := scns
		if len(wave) > 12 {
			wave = wave[:12]
		}
		scns = scns[len(wave):]
		var runs []*c03TRun
		for _, s := range wave {
			r := &c03TRun{s: s, elog: &c03ErrLog{}}
			r.endp = c03EndpointBase(t, s.lmtp, s.deferred, pipeline, s.limDirs(), r.elog, false)
			var err error
			if r.hAddr, err = c03Listen(t, r.endp, c03PeerAddr(s.peer)); err != nil {
				t.Fatal(err)
			}
			for j := 0; j < s.k; j++ {
				peer, _ := s.contender(j)
				a, err := c03Listen(t, r.endp, c03PeerAddr(peer))
				if err != nil {
					t.Fatal(err)
				}
				r.bAddrs = append(r.bAddrs, a)
			}
			runs = append(runs, r)
		}
		var wg sync.WaitGroup
		for _, r := range runs {
			wg.Add(1)
			go func(r *c03TRun) { defer wg.Done(); r.run() }(r)
		}
		wg.Wait()
		for _, r := range runs {
			if r.err != nil {
				t.Errorf("%s: %v", r.s.line(), r.err)
				continue
			}
			r.judge(out)
		}
	}
}

func TestVerifC03Sessions(t *testing.T) {
	t.Parallel()
	out := vh.Open("c03_sessions")
	defer out.Close()
	var scns []*c03Scn
	if rep := vh.Replay(); rep != nil {
		for _, l := range rep {
			if strings.HasPrefix(l, "C03 s ") {
				s, err := c03Parse(l)
				if err != nil {
					t.Fatal(err)
				}
				scns = append(scns, s)
			}
		}
	} else {
		n := vh.N(400)
		rng := vh.NewRng(vh.Seed()*829367861 + 301) // consecutive vh seeds are consecutive splitmix states: spread them
		for i := 0; i < n; i++ {
			scns = append(scns, c03GenScn(rng.Fork()))
		}
	}
	for _, s := range scns {
		c03One(t, out, s)
	}
}
