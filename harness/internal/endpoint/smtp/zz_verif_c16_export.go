package smtp

import "github.com/foxcpp/maddy/framework/log"

var verifC16Endpoint = &Endpoint{name: "verif", Log: log.Logger{Out: log.NopOutput{}}}

// VerifC16WrapErr exposes the conversion of an error into the reply to a client
// (overlay-only file, see /verif/DESIGN.md).
func VerifC16WrapErr(mangleUTF8 bool, err error) error {
	return verifC16Endpoint.wrapErr("", mangleUTF8, "DATA", err)
}
