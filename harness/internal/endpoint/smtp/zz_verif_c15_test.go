package smtp

// C15 — sender authorisation, end to end: a real submission endpoint (SMTP dialogue, SASL
// PLAIN, submissionPrepare, message pipeline) with the real check.authorize_sender configured
// through its real configuration directives.  Monitor only (the Lean model is tied to the check
// by the in-package harness in internal/check/authorize_sender): a message that reaches the
// delivery target must come from an authenticated client entitled to the envelope sender and to
// the header author, judged by the reference entitlement function of internal/verifshim/vc15 on
// the structure the header bytes were rendered from.

import (
	"bufio"
	"bytes"
	"context"
	"fmt"
	"go/ast"
	"go/parser"
	"go/token"
	"net"
	"reflect"
	"runtime"
	"strconv"
	"strings"
	"sync"
	"sync/atomic"
	"testing"
	"time"

	"github.com/emersion/go-message/textproto"
	"github.com/emersion/go-sasl"
	"github.com/emersion/go-smtp"
	"github.com/foxcpp/maddy/framework/buffer"
	"github.com/foxcpp/maddy/framework/config"
	"github.com/foxcpp/maddy/framework/exterrors"
	"github.com/foxcpp/maddy/framework/module"
	"github.com/foxcpp/maddy/internal/authz"
	"github.com/foxcpp/maddy/internal/check/authorize_sender"
	"github.com/foxcpp/maddy/internal/msgpipeline"
	"github.com/foxcpp/maddy/internal/testutils"
	"github.com/foxcpp/maddy/internal/verifshim/vc15"
	"github.com/foxcpp/maddy/internal/verifshim/vh"
)

// c15Switch lets one endpoint serve many cases: it hands each message to the check of the
// current case.
type c15Switch struct {
	cur module.Check
	// the identity the endpoint gave the last message's connection (what authorize_sender sees)
	sawMsg   bool
	authUser string
	// the neighbour family: the ordering gate of the current session (nil: no neighbour verdict)
	gate *c15Gate
	// the place family: record what authorize_sender answers at the sender stage (q r i -; "": not asked)
	rec     bool
	senderV string
}

// c15RecState records the verdict of the real state on the sender.
type c15RecState struct {
	module.CheckState
	sw *c15Switch
}

func (r *c15RecState) CheckSender(ctx context.Context, from string) module.CheckResult {
	res := r.CheckState.CheckSender(ctx, from)
	r.sw.senderV = c15VerdictLetter(res)
	return res
}

func (s *c15Switch) CheckStateForMsg(ctx context.Context, m *module.MsgMetadata) (module.CheckState, error) {
	s.sawMsg = true
	s.authUser = ""
	if m.Conn != nil {
		s.authUser = m.Conn.AuthUser
	}
	st, err := s.cur.CheckStateForMsg(ctx, m)
	if err == nil && s.rec {
		return &c15RecState{CheckState: st, sw: s}, nil
	}
	if err != nil || s.gate == nil {
		return st, err
	}
	return &c15GatedState{inner: st, gate: s.gate}, nil
}

// c15Gate puts the two checks of a check group (authorize_sender and its neighbour) in an order at
// ONE stage: the check that is to finish second starts its work only after the method of the other one
// has returned and the goroutine that ran it had time to hand its result to the runner.  Nothing is
// asserted about time: on a correct runner the verdict is the same for every order; the waits only
// steer which interleaving is observed (all of them bounded, a time-out is counted, not judged).
type c15Gate struct {
	stage, verdict, first string // stage "all": the neighbour gives its verdict at every stage
	nOut, aOut            map[string]chan struct{}
	nOnce, aOnce          map[string]*sync.Once
	timeouts              int32
	// what authorize_sender answered at the gated stage (q r i -), "" when it was not asked
	aMu      sync.Mutex
	aVerdict map[string]string
}

func c15VerdictLetter(res module.CheckResult) string {
	switch {
	case res.Quarantine:
		return "q"
	case res.Reject:
		return "r"
	case res.Reason != nil:
		return "i"
	}
	return "-"
}

var c15Stages = []string{"conn", "sender", "rcpt", "body"}

func (g *c15Gate) on(stage string) bool { return g.stage == stage || g.stage == "all" }

func c15NewGate(cs *vc15.Case) *c15Gate {
	if !cs.HasK {
		return nil
	}
	g := &c15Gate{stage: cs.KStage, verdict: cs.KVerdict, first: cs.KFirst, nOut: map[string]chan struct{}{}, aOut: map[string]chan struct{}{},
		nOnce: map[string]*sync.Once{}, aOnce: map[string]*sync.Once{}, aVerdict: map[string]string{}}
	for _, st := range c15Stages {
		g.nOut[st], g.aOut[st], g.nOnce[st], g.aOnce[st] = make(chan struct{}), make(chan struct{}), &sync.Once{}, &sync.Once{}
	}
	return g
}

func (g *c15Gate) await(ch chan struct{}) {
	select {
	case <-ch:
	case <-time.After(2 * time.Second):
		atomic.AddInt32(&g.timeouts, 1)
		return
	}
	// the other check's method has returned; let its goroutine get through the runner's bookkeeping
	for i := 0; i < 200; i++ {
		runtime.Gosched()
	}
	time.Sleep(time.Millisecond)
	for i := 0; i < 200; i++ {
		runtime.Gosched()
	}
}

type c15GatedState struct {
	inner module.CheckState
	gate  *c15Gate
}

func (g *c15GatedState) at(stage string, run func() module.CheckResult) module.CheckResult {
	if !g.gate.on(stage) {
		return run()
	}
	defer g.gate.aOnce[stage].Do(func() { close(g.gate.aOut[stage]) })
	if g.gate.first == "n" {
		g.gate.await(g.gate.nOut[stage])
	}
	res := run()
	g.gate.aMu.Lock()
	g.gate.aVerdict[stage] = c15VerdictLetter(res)
	g.gate.aMu.Unlock()
	return res
}

func (g *c15GatedState) CheckConnection(ctx context.Context) module.CheckResult {
	return g.at("conn", func() module.CheckResult { return g.inner.CheckConnection(ctx) })
}
func (g *c15GatedState) CheckSender(ctx context.Context, from string) module.CheckResult {
	return g.at("sender", func() module.CheckResult { return g.inner.CheckSender(ctx, from) })
}
func (g *c15GatedState) CheckRcpt(ctx context.Context, to string) module.CheckResult {
	return g.at("rcpt", func() module.CheckResult { return g.inner.CheckRcpt(ctx, to) })
}
func (g *c15GatedState) CheckBody(ctx context.Context, h textproto.Header, b buffer.Buffer) module.CheckResult {
	return g.at("body", func() module.CheckResult { return g.inner.CheckBody(ctx, h, b) })
}
func (g *c15GatedState) Close() error { return g.inner.Close() }

// c15Neighbour is the second check of the group: a filter that knows nothing about entitlement and gives
// the scripted verdict at the scripted stage (a reputation / content filter quarantining a message).
type c15Neighbour struct {
	gate *c15Gate
}

func (n *c15Neighbour) CheckStateForMsg(context.Context, *module.MsgMetadata) (module.CheckState, error) {
	return &c15NeighbourState{gate: n.gate}, nil
}

type c15NeighbourState struct{ gate *c15Gate }

func (n *c15NeighbourState) at(stage string) module.CheckResult {
	g := n.gate
	if g == nil || !g.on(stage) {
		return module.CheckResult{}
	}
	defer g.nOnce[stage].Do(func() { close(g.nOut[stage]) })
	if g.first == "a" {
		g.await(g.aOut[stage])
	}
	reason := &exterrors.SMTPError{Code: 550, EnhancedCode: exterrors.EnhancedCode{5, 7, 0}, Message: "c15: the neighbour does not like it", CheckName: "c15_neighbour"}
	switch g.verdict {
	case "q":
		return module.CheckResult{Reason: reason, Quarantine: true}
	case "r":
		return module.CheckResult{Reason: reason, Reject: true}
	case "i":
		return module.CheckResult{Reason: reason}
	}
	return module.CheckResult{}
}

func (n *c15NeighbourState) CheckConnection(context.Context) module.CheckResult     { return n.at("conn") }
func (n *c15NeighbourState) CheckSender(context.Context, string) module.CheckResult { return n.at("sender") }
func (n *c15NeighbourState) CheckRcpt(context.Context, string) module.CheckResult   { return n.at("rcpt") }
func (n *c15NeighbourState) CheckBody(context.Context, textproto.Header, buffer.Buffer) module.CheckResult {
	return n.at("body")
}
func (n *c15NeighbourState) Close() error { return nil }

// c15Auth is the credential store of the endpoint: every account name has its own password
// (vc15.Password); the catch-all "password" serves the sessions that are not about identities.  It
// records for which account a password was verified last.
type c15Auth struct {
	verified     bool
	verifiedName string
}

func (a *c15Auth) AuthPlain(username, password string) error {
	if password == "password" || password == vc15.Password(username) {
		a.verified, a.verifiedName = true, username
		return nil
	}
	return fmt.Errorf("c15: invalid credentials")
}

func c15BuildCheck(cs *vc15.Case) (module.Check, error) {
	mod, err := authorize_sender.New("check.authorize_sender", "c15", nil, nil)
	if err != nil {
		return nil, err
	}
	// the configuration block as text, read by the configuration parser (directives that have
	// their default are left out in every combination)
	block, _, _ := cs.ConfigBlock()
	defer cs.ReleaseMem()
	if err := mod.Init(config.NewMap(map[string]interface{}{}, block)); err != nil {
		return nil, err
	}
	return mod.(module.Check), nil
}

func c15FreePort(t *testing.T) string {
	l, err := net.Listen("tcp", "127.0.0.1:0")
	if err != nil {
		t.Fatal(err)
	}
	defer l.Close()
	return strconv.Itoa(l.Addr().(*net.TCPAddr).Port)
}

func c15Session(t *testing.T, out *vh.Out, endp *Endpoint, store *c15Auth, tgt *testutils.Target, sw *c15Switch, nb *c15Neighbour, cs *vc15.Case) {
	op := vc15.SessionOpLine(cs)
	// the identity family: the endpoint normalises login names with the setting of the case
	// (auth_map_normalize), like the check does (auth_normalize); the client knows ONE password: that
	// of the account it logs in as
	endp.saslAuth.AuthNormalize = nil
	authzid, password := "", "password"
	loginNorm, loginNormOK := "", false
	if cs.HasZ {
		endp.saslAuth.AuthNormalize = authz.NormalizeFuncs[cs.AuthNorm]
		loginNorm, loginNormOK = vc15.NormBoth(cs.AuthNorm, cs.User)
		authzid, password = cs.Authzid, vc15.Password(loginNorm)
	}
	store.verified, store.verifiedName = false, ""
	sw.sawMsg, sw.authUser = false, ""
	chk, err := c15BuildCheck(cs)
	if err != nil {
		out.Violation("C15/session-config-rejected", op, err.Error())
		return
	}
	sw.cur = chk
	gate := c15NewGate(cs)
	sw.gate, nb.gate = gate, gate
	before := len(tgt.Messages)

	stage := "dial"
	func() {
		cl, err := smtp.Dial("127.0.0.1:" + testPort)
		if err != nil {
			t.Fatal(err)
		}
		defer cl.Close()
		_ = cl.Hello("mx.example.org")
		if cs.User != "" {
			stage = "auth"
			if err := cl.Auth(sasl.NewPlainClient(authzid, cs.User, password)); err != nil {
				return
			}
		}
		stage = "mail"
		if err := cl.Mail(cs.MailFrom, &smtp.MailOptions{UTF8: true}); err != nil {
			return
		}
		stage = "rcpt"
		if err := cl.Rcpt("rcpt@example.org", nil); err != nil {
			return
		}
		stage = "data"
		w, err := cl.Data()
		if err != nil {
			return
		}
		w.Write(cs.Raw)
		w.Write([]byte("\r\nbody\r\n"))
		if err := w.Close(); err != nil {
			return
		}
		stage = "done"
		cl.Quit()
	}()
	delivered := len(tgt.Messages) > before
	if gate != nil {
		out.Stat(fmt.Sprintf("session.neighbour.%s.%s.first-%s.delivered-%s", gate.stage, gate.verdict, gate.first, vc15.B01(delivered)))
		if atomic.LoadInt32(&gate.timeouts) > 0 {
			out.Stat("session.neighbour.order-not-steered(time-out)")
		}
		// (T2) the runner's merge against the model: the verdicts of the two checks at the gated stage in the order
		// they finished -> does the command of that stage fail?  (sender: MAIL, body: the end of DATA)
		gate.aMu.Lock()
		av := gate.aVerdict[gate.stage]
		gate.aMu.Unlock()
		// (the endpoint reports a refusal of the sender stage at the first RCPT: defer_sender_reject is the default)
		cmd := map[string]string{"sender": "rcpt", "body": "data"}[gate.stage]
		if stage == "mail" && gate.stage == "sender" {
			cmd = "mail"
		}
		if cmd != "" && av != "" && gate.first != "-" && atomic.LoadInt32(&gate.timeouts) == 0 {
			order := gate.verdict + " " + av
			if gate.first == "a" {
				order = av + " " + gate.verdict
			}
			obs := "passed"
			if stage == cmd {
				obs = "refused"
			}
			out.Corr("C15 merge "+order, obs)
			out.Stat("session.neighbour.merge." + strings.ReplaceAll(order, " ", "") + "." + obs)
		}
		if delivered {
			// (frame) the neighbour's quarantine verdict must be on the delivered message; its rejection refuses
			msg := tgt.Messages[len(tgt.Messages)-1]
			if gate.verdict == "r" {
				out.Violation("C15/session-delivered-though-a-check-rejected", op, "the neighbour check rejected at stage "+gate.stage)
			} else if gate.verdict == "q" && !msg.MsgMeta.Quarantine {
				out.Violation("C15/session-quarantine-verdict-lost", op, "the neighbour check quarantined at stage "+gate.stage+", the delivered message is not flagged")
			}
		}
	}
	if cs.HasZ {
		// (T2) the AUTH PLAIN exchange against the model: refused, or accepted with which identity
		obs := "auth-failed"
		if stage != "auth" && stage != "dial" {
			obs = "auth-ok " + vh.HexRunes(sw.authUser)
		}
		out.Corr(fmt.Sprintf("C15 sasl %s %s %s %s %s", vc15.B01(loginNormOK), vh.HexRunes(loginNorm), vh.HexRunes(cs.Authzid),
			vh.HexRunes(cs.User), vh.HexRunes(loginNorm)), obs)
		out.Stat("session.authzid." + cs.ZForm + "." + strings.Fields(obs)[0])
		out.Stat("session.authzid.setting." + cs.AuthNorm)
		// (T3) the identity authorize_sender is shown must be the account whose password was verified
		if sw.sawMsg {
			if !store.verified {
				out.Violation("C15/session-identity-not-the-authenticated-one", op, fmt.Sprintf("the check saw the user %q, no password was verified", sw.authUser))
			} else if n, ok := vc15.NormBoth(cs.AuthNorm, sw.authUser); !ok || n != store.verifiedName {
				out.Violation("C15/session-identity-not-the-authenticated-one", op, fmt.Sprintf(
					"password verified for the account %q (login %q, authorization identity %q), the check saw the user %q = account %q under %s",
					store.verifiedName, cs.User, cs.Authzid, sw.authUser, n, cs.AuthNorm))
			}
			out.Stat("session.authzid.identity-judged")
		}
	}
	if (stage == "done") != delivered {
		out.Violation("C15/session-reply-disagrees-with-delivery", op, fmt.Sprintf("client stage %s, delivered %v", stage, delivered))
	}
	allReject := cs.UA == "r" && cs.NA == "r" && cs.EA == "r"
	out.Stat("session.actions-all-reject." + vc15.B01(allReject))
	if !delivered {
		out.Stat("session.refused-at." + stage)
		return
	}
	out.Stat("session.delivered")
	if !allReject {
		return // delivery of unentitled mail is what quarantine/ignore actions ask for
	}
	msg := tgt.Messages[len(tgt.Messages)-1]
	if msg.MsgMeta.Conn == nil || msg.MsgMeta.Conn.AuthUser == "" {
		out.Violation("C15/session-unauthenticated-delivered", op, "message reached the target without an authenticated user")
		return
	}
	if msg.MsgMeta.Conn.AuthUser != cs.User {
		out.Note(fmt.Sprintf("AuthUser %q differs from the SASL user %q", msg.MsgMeta.Conn.AuthUser, cs.User))
	}
	// envelope sender as delivered
	_, d, has := vc15.SplitLast(msg.MailFrom)
	if ok, _ := vc15.RefEntitled(cs, msg.MailFrom, d, has); !ok {
		out.Violation("C15/session-envelope-sender-not-entitled", op, fmt.Sprintf("user %q delivered with MAIL FROM %q (client sent %q)", cs.User, msg.MailFrom, cs.MailFrom))
	}
	// the author fields must reach the target exactly as sent (submissionPrepare adds fields, never edits these)
	sent, err := textproto.ReadHeader(bufio.NewReader(bytes.NewReader(append(append([]byte{}, cs.Raw...), '\r', '\n'))))
	if err == nil {
		if !reflect.DeepEqual(sent.Values("From"), msg.Header.Values("From")) || !reflect.DeepEqual(sent.Values("Sender"), msg.Header.Values("Sender")) {
			out.Violation("C15/session-author-fields-altered", op, fmt.Sprintf("From %q -> %q, Sender %q -> %q",
				sent.Values("From"), msg.Header.Values("From"), sent.Values("Sender"), msg.Header.Values("Sender")))
		}
	}
	if cs.CheckHeader {
		from, sender := cs.GTFrom, cs.GTSender
		if !cs.GTKnown {
			from, sender = vc15.ParsedReading(msg.Header.Values("From"), msg.Header.Values("Sender"))
		}
		vc15.JudgeAuthor(out, cs, from, sender, op, "/session")
	}
}

// c15PlacedSession: the place family.  The check group with authorize_sender is declared globally, in the source
// block or in the destination block of relay.example (real pipeline behind the real endpoint); the client names
// recipients of the checked block (R) and of the block without checks (L) in the order of the case.  Monitor: a
// message that reaches a target BEHIND the check (place d: the target of relay.example; g / s: both targets) under an
// all-reject configuration must come from a client entitled to the envelope sender and to the author.
func c15PlacedSession(t *testing.T, out *vh.Out, endp *Endpoint, store *c15Auth, sw *c15Switch, nb *c15Neighbour, cs *vc15.Case) {
	op := vc15.SessionOpLine(cs)
	endp.saslAuth.AuthNormalize = nil
	store.verified, store.verifiedName = false, ""
	sw.sawMsg, sw.authUser = false, ""
	chk, err := c15BuildCheck(cs)
	if err != nil {
		out.Violation("C15/session-config-rejected", op, err.Error())
		return
	}
	sw.cur, sw.gate, nb.gate = chk, nil, nil
	sw.rec, sw.senderV = true, ""
	defer func() { sw.rec = false }()
	tgt, relayTgt := &testutils.Target{}, &testutils.Target{}
	old := endp.pipeline
	p := msgpipeline.VerifC15Placed(cs.LPlace, "relay.example", tgt, relayTgt, []module.Check{nb, sw})
	p.Hostname, p.Resolver, p.FirstPipeline, p.Log = old.Hostname, old.Resolver, old.FirstPipeline, old.Log
	endp.pipeline = p
	defer func() { endp.pipeline = old }()

	stage, refused, pattern := "dial", "", ""
	func() {
		cl, err := smtp.Dial("127.0.0.1:" + testPort)
		if err != nil {
			t.Fatal(err)
		}
		defer cl.Close()
		_ = cl.Hello("mx.example.org")
		if cs.User != "" {
			stage = "auth"
			if err := cl.Auth(sasl.NewPlainClient("", cs.User, "password")); err != nil {
				return
			}
		}
		stage = "mail"
		if err := cl.Mail(cs.MailFrom, &smtp.MailOptions{UTF8: true}); err != nil {
			return
		}
		stage = "rcpt"
		accepted := 0
		for i, k := range cs.LOrder {
			dom := "example.org"
			if k == 'R' {
				dom = "relay.example"
			}
			if err := cl.Rcpt(fmt.Sprintf("rcpt%d@%s", i, dom), nil); err != nil {
				refused += string(k)
				pattern += "x"
				continue
			}
			refused += "-"
			pattern += "a"
			accepted++
		}
		if accepted == 0 {
			return
		}
		stage = "data"
		w, err := cl.Data()
		if err != nil {
			return
		}
		w.Write(cs.Raw)
		w.Write([]byte("\r\nbody\r\n"))
		if err := w.Close(); err != nil {
			return
		}
		stage = "done"
		cl.Quit()
	}()
	// (T2) which recipients were accepted, against the model's placedRcpts (argument: what the real check answered on
	// the sender, recorded at the state)
	if len(pattern) == len(cs.LOrder) && sw.senderV != "" {
		out.Corr(fmt.Sprintf("C15 placed %s %s %s", cs.LPlace, cs.LOrder, sw.senderV), pattern)
		out.Stat("session.placed.rcpts." + cs.LPlace + "." + sw.senderV)
	}
	allReject := cs.UA == "r" && cs.NA == "r" && cs.EA == "r"
	out.Stat("session.placed." + cs.LPlace + ".actions-all-reject." + vc15.B01(allReject))
	out.Stat(fmt.Sprintf("session.placed.%s.end-%s.local-%d.relay-%d", cs.LPlace, stage, len(tgt.Messages), len(relayTgt.Messages)))
	if (stage == "done") != (len(tgt.Messages)+len(relayTgt.Messages) > 0) {
		out.Violation("C15/session-reply-disagrees-with-delivery", op, fmt.Sprintf("client stage %s, delivered %d + %d", stage, len(tgt.Messages), len(relayTgt.Messages)))
	}
	if !allReject {
		return
	}
	behind := append([]module.DeliveryTarget{}, relayTgt)
	if cs.LPlace != "d" {
		behind = append(behind, tgt)
	}
	for _, b := range behind {
		for _, msg := range b.(*testutils.Target).Messages {
			where := "place " + cs.LPlace + ", recipients " + cs.LOrder + " (refused: " + refused + "), delivered to " + strings.Join(msg.RcptTo, ",")
			if msg.MsgMeta.Conn == nil || msg.MsgMeta.Conn.AuthUser == "" {
				out.Violation("C15/session-unauthenticated-delivered", op, "message reached a target behind the check without an authenticated user; "+where)
				continue
			}
			_, d, has := vc15.SplitLast(msg.MailFrom)
			if ok, _ := vc15.RefEntitled(cs, msg.MailFrom, d, has); !ok {
				out.Violation("C15/session-envelope-sender-not-entitled", op, fmt.Sprintf("user %q delivered with MAIL FROM %q; %s", cs.User, msg.MailFrom, where))
			}
			if cs.CheckHeader {
				from, sender := cs.GTFrom, cs.GTSender
				if !cs.GTKnown {
					from, sender = vc15.ParsedReading(msg.Header.Values("From"), msg.Header.Values("Sender"))
				}
				vc15.JudgeAuthor(out, cs, from, sender, op, "/session")
			}
		}
	}
}

// c15SubmissionFacts reads submission.go of the CURRENT tree: which header fields does
// submissionPrepare write?  (The model's frame fact `submissionWrites`.)
func c15SubmissionFacts(out *vh.Out) {
	fset := token.NewFileSet()
	f, err := parser.ParseFile(fset, "submission.go", nil, 0)
	if err != nil {
		out.Violation("C15/facts-unreadable", "C15 fact submission-writes", err.Error())
		return
	}
	var writes []string
	for _, d := range f.Decls {
		fd, ok := d.(*ast.FuncDecl)
		if !ok || fd.Name.Name != "submissionPrepare" {
			continue
		}
		ast.Inspect(fd.Body, func(n ast.Node) bool {
			call, ok := n.(*ast.CallExpr)
			if !ok {
				return true
			}
			sel, ok := call.Fun.(*ast.SelectorExpr)
			if !ok {
				return true
			}
			id, ok := sel.X.(*ast.Ident)
			if !ok || id.Name != "header" {
				return true
			}
			switch sel.Sel.Name {
			case "Set", "Add", "Del", "AddRaw":
				key := "?"
				if len(call.Args) > 0 {
					if bl, ok := call.Args[0].(*ast.BasicLit); ok && bl.Kind == token.STRING {
						key, _ = strconv.Unquote(bl.Value)
					}
				}
				writes = append(writes, key)
			}
			return true
		})
	}
	out.Corr("C15 fact submission-writes", vh.HexRunes(strings.Join(writes, " ")))
}

func TestVerifC15Session(t *testing.T) {
	out := vh.Open("c15session")
	defer out.Close()

	var cases []*vc15.Case
	if ops := vh.Replay(); ops != nil {
		for _, op := range ops {
			if !strings.HasPrefix(op, "C15 session ") {
				continue
			}
			cs, _, err := vc15.ParseOp(op)
			if err != nil {
				out.Note("unparsable replay op: " + err.Error())
				continue
			}
			// every session gets a check initialised anew; what an initialisation yields may differ
			// from one to the next (defaults evaluated in map order): try the case several times
			for i := 0; i < 8; i++ {
				cases = append(cases, cs)
			}
		}
		if len(cases) == 0 {
			return
		}
	} else {
		c15SubmissionFacts(out)
		for _, cs := range vc15.Fixed() {
			cases = append(cases, cs)
		}
		r := vh.NewRng(vh.Seed() + 1515)
		n := vh.N(5000) / 15
		if vh.Thorough() {
			n = vh.N(5000) / 30
		}
		for i := 0; i < n; i++ {
			cs := vc15.GenCase(r.Fork(), true)
			cs.Conn = true
			if r.Chance(80) {
				cs.UA, cs.NA, cs.EA = "r", "r", "r"
			}
			cases = append(cases, cs)
		}
		// a neighbour check in the same check group: fixed grid, and (own stream) every fourth generated session
		cases = append(cases, vc15.FixedNeighbour()...)
		rk := vh.NewRng(vh.Seed() + 151530)
		for _, cs := range cases[len(cases)-len(vc15.FixedNeighbour())-n : len(cases)-len(vc15.FixedNeighbour())] {
			if rk.Chance(25) {
				vc15.GenNeighbour(rk.Fork(), cs)
			}
		}
		// and sessions of their own, refusing configurations, the neighbour mostly quarantining
		for i, nk := 0, n/6; i < nk; i++ {
			cs := vc15.GenCase(rk.Fork(), true)
			cs.Conn = true
			cs.UA, cs.NA, cs.EA = "r", "r", "r"
			vc15.GenNeighbour(rk.Fork(), cs)
			cases = append(cases, cs)
		}
		// table.email_with_domain as entitlement table, account names of mixed kinds
		cases = append(cases, vc15.FixedWithDomain()...)
		rw := vh.NewRng(vh.Seed() + 151521)
		for i, nw := 0, n/8; i < nw; i++ {
			cases = append(cases, vc15.GenWithDomainCase(rw.Fork(), true))
		}
		// the place family: the check group declared globally / in the source block / in a destination block
		cases = append(cases, vc15.FixedPlaced()...)
		rl := vh.NewRng(vh.Seed() + 151522)
		for i, nl := 0, n/6; i < nl; i++ {
			cs := vc15.GenCase(rl.Fork(), true)
			cs.Conn = true
			cs.UA, cs.NA, cs.EA = "r", "r", "r"
			vc15.GenPlaced(rl.Fork(), cs)
			cases = append(cases, cs)
		}
		// the identity family: AUTH PLAIN with every kind of authorization identity
		cases = append(cases, vc15.FixedAuthz()...)
		rz := vh.NewRng(vh.Seed() + 151516)
		for i, nz := 0, n/6; i < nz; i++ {
			cases = append(cases, vc15.GenAuthzCase(rz.Fork()))
		}
	}

	oldPort := testPort
	defer func() { testPort = oldPort }()
	testPort = c15FreePort(t)

	// authenticated clients talk to a submission endpoint (AUTH mandatory, submissionPrepare runs);
	// unauthenticated ones to a plain smtp endpoint with the same check, which must refuse them itself.
	for _, kind := range []string{"submission", "smtp"} {
		var mine []*vc15.Case
		for _, cs := range cases {
			if (cs.User == "") == (kind == "smtp") {
				mine = append(mine, cs)
			}
		}
		if len(mine) == 0 {
			continue
		}
		tgt := testutils.Target{}
		sw := &c15Switch{}
		store := &c15Auth{}
		nb := &c15Neighbour{}
		endp := testEndpoint(t, kind, store, &tgt, []module.Check{nb, sw}, nil)
		for _, cs := range mine {
			if cs.HasL {
				c15PlacedSession(t, out, endp, store, sw, nb, cs)
				out.Stat("session.endpoint." + kind)
				continue
			}
			c15Session(t, out, endp, store, &tgt, sw, nb, cs)
			out.Stat("session.endpoint." + kind)
		}
		endp.Close()
	}
}
