package smtp

// C03 — one accepted recipient that stands for SEVERAL effective addresses (op lines `C03 x`).
//
// msgpipelineDelivery.AddRcpt passes the RCPT TO argument through three rewriting stages - the global modifiers,
// the modifiers of the source block, the modifiers of the destination block of each intermediate address - and
// every stage may return any number of addresses (alias expansion).  A success reply promises a commit on the
// target of EVERY effective address the accepted recipient stands for.  The sessions of this family run against
// a real endpoint whose pipeline (configuration text: modify / source { modify / destination { modify } })
// holds a scripted one-to-many modifier (vc03.XMod) at each of the three stages.
//
//	op line:  C03 x <S|L> <D|I> <T><partialmask>:<r0><r1><r2> G=<tab> S=<tab> D=<tab> <token>... [O:<fan-out order oracle>]
//	tab:      - | <kj>><kj>+<kj>...,<kj>>...      (nothing after > : the stage drops the address) address symbols <k><j>: id k (6 / 7: AddRcpt of target 0 / 1 fails), domain d<j> (3: not routed)
//	tokens:   E, M:..., D:..., S, Q as in `C03 s`; X<kj> = RCPT TO the address <kj>
//	observed: <replies per token> | <per-target delivery logs> | panics=<n>
//
// The monitor (c03XMonitor) computes the addresses an accepted recipient stands for from the tables alone and
// looks for each of them on the targets' side; it does not use the Lean model.

import (
	"fmt"
	"net"
	"net/textproto"
	"sort"
	"strconv"
	"strings"
	"sync"
	"testing"

	"github.com/foxcpp/maddy/framework/module"
	"github.com/foxcpp/maddy/internal/verifshim/vc03"
	"github.com/foxcpp/maddy/internal/verifshim/vh"
)

var (
	c03XLog     = &vc03.Log{}
	c03XTabs    = &vc03.XTabs{}
	c03XTargets [3]*vc03.Target
	c03XOnce    sync.Once
)

func c03XRegister() {
	c03XOnce.Do(func() {
		for i := range c03XTargets {
			c03XTargets[i] = &vc03.Target{Idx: i, L: c03XLog, Inst: fmt.Sprintf("vc03x%d", i)}
			module.RegisterInstance(c03XTargets[i], nil)
		}
		module.Register("modify.vc03x", func(_, _ string, _, inlineArgs []string) (module.Module, error) {
			if len(inlineArgs) != 1 {
				return nil, fmt.Errorf("vc03x: stage expected")
			}
			return &vc03.XMod{Stage: inlineArgs[0], T: c03XTabs}, nil
		})
	})
}

type c03XTab map[string][]string // symbol -> symbols

type c03XScn struct {
	lmtp     bool
	deferred bool
	nT       int
	partial  int
	routes   [3]int
	tabs     [3]c03XTab // G, S, D
	toks     []string
}

func c03XTabStr(t c03XTab) string {
	if len(t) == 0 {
		return "-"
	}
	var keys []string
	for k := range t {
		keys = append(keys, k)
	}
	sort.Strings(keys)
	var p []string
	for _, k := range keys {
		p = append(p, k+">"+strings.Join(t[k], "+"))
	}
	return strings.Join(p, ",")
}

func c03XSymOK(s string) bool {
	return len(s) == 2 && s[0] >= '0' && s[0] <= '7' && s[1] >= '0' && s[1] <= '3'
}

func c03XTabParse(s string) (c03XTab, error) {
	t := c03XTab{}
	if s == "-" {
		return t, nil
	}
	for _, ent := range strings.Split(s, ",") {
		kv := strings.Split(ent, ">")
		if len(kv) != 2 || !c03XSymOK(kv[0]) {
			return nil, fmt.Errorf("bad table entry %q", ent)
		}
		vals := strings.Split(kv[1], "+")
		if kv[1] == "" {
			vals = nil // a recipient that stands for no address at all
		}
		for _, v := range vals {
			if !c03XSymOK(v) {
				return nil, fmt.Errorf("bad table entry %q", ent)
			}
		}
		if _, dup := t[kv[0]]; dup {
			return nil, fmt.Errorf("duplicate table key %q", kv[0])
		}
		t[kv[0]] = vals
	}
	return t, nil
}

func (s *c03XScn) line() string {
	p, m := "S", "I"
	if s.lmtp {
		p = "L"
	}
	if s.deferred {
		m = "D"
	}
	return fmt.Sprintf("C03 x %s %s %d%d:%d%d%d G=%s S=%s D=%s %s", p, m, s.nT, s.partial, s.routes[0], s.routes[1], s.routes[2],
		c03XTabStr(s.tabs[0]), c03XTabStr(s.tabs[1]), c03XTabStr(s.tabs[2]), strings.Join(s.toks, " "))
}

func c03XParse(line string) (*c03XScn, error) {
	f := strings.Fields(line)
	if len(f) < 9 || f[0] != "C03" || f[1] != "x" || len(f[4]) != 6 {
		return nil, fmt.Errorf("not a C03 x line")
	}
	s := &c03XScn{lmtp: f[2] == "L", deferred: f[3] == "D"}
	d := func(i int) int { return int(f[4][i] - '0') }
	s.nT, s.partial = d(0), d(1)
	s.routes = [3]int{d(3), d(4), d(5)}
	if s.nT < 1 || s.nT > 3 {
		return nil, fmt.Errorf("bad target count")
	}
	for i, pre := range []string{"G=", "S=", "D="} {
		if !strings.HasPrefix(f[5+i], pre) {
			return nil, fmt.Errorf("table %s expected", pre)
		}
		t, err := c03XTabParse(f[5+i][2:])
		if err != nil {
			return nil, err
		}
		s.tabs[i] = t
	}
	for _, t := range f[8:] {
		if strings.HasPrefix(t, "O:") {
			continue
		}
		s.toks = append(s.toks, t)
	}
	return s, nil
}

// the address of a symbol: the fault fields the scripted targets read are part of it
func c03XAddr(sym string) string {
	mask := 0
	switch sym[0] {
	case '6':
		mask = 1
	case '7':
		mask = 2
	}
	dom := "d" + sym[1:] + ".example"
	if sym[1] == '3' {
		dom = "other.example"
	}
	return fmt.Sprintf("r%c-p-0-%d-0@%s", sym[0], mask, dom)
}

func (s *c03XScn) lookup(stage int, sym string) []string {
	if v, ok := s.tabs[stage][sym]; ok {
		return v
	}
	return []string{sym}
}

// c03XEff is one effective address of a recipient: what the targets of the destination block `block` are given
type c03XEff struct {
	sym   string
	block int // domain index of the address the destination block was chosen for (3 = none)
}

// the addresses a recipient stands for, from the tables alone (global, then source, then the destination
// block's modifiers; the block is chosen BEFORE its own modifiers run)
func (s *c03XScn) expansion(sym string) []c03XEff {
	var out []c03XEff
	for _, a := range s.lookup(0, sym) {
		for _, b := range s.lookup(1, a) {
			for _, c := range s.lookup(2, b) {
				out = append(out, c03XEff{c, int(b[1] - '0')})
			}
		}
	}
	return out
}

func c03XEndpoint(t *testing.T, s *c03XScn, elog *c03ErrLog) *Endpoint {
	c03XRegister()
	var b strings.Builder
	b.WriteString("modify {\n vc03x g\n}\n")
	fmt.Fprintf(&b, "source %s {\n modify {\n  vc03x s\n }\n", c03SrcDomain)
	for j, mask := range s.routes {
		fmt.Fprintf(&b, " destination d%d.example {\n  modify {\n   vc03x d\n  }\n", j)
		mask &= 1<<s.nT - 1
		if mask == 0 {
			b.WriteString("  reject 556 5.1.1 \"refused by route\"\n")
		}
		for k := 0; k < s.nT; k++ {
			if mask&(1<<k) != 0 {
				fmt.Fprintf(&b, "  deliver_to &vc03x%d\n", k)
			}
		}
		b.WriteString(" }\n")
	}
	b.WriteString(" default_destination {\n  reject 557 5.1.1 \"unknown domain\"\n }\n}\n")
	b.WriteString("default_source {\n reject 558 5.1.1 \"unknown source\"\n}\n")
	tab := map[string]map[string][]string{}
	for i, st := range []string{"g", "s", "d"} {
		m := map[string][]string{}
		for k, vs := range s.tabs[i] {
			var as []string
			for _, v := range vs {
				as = append(as, c03XAddr(v))
			}
			m[c03XAddr(k)] = as
		}
		tab[st] = m
	}
	c03XTabs.Set(tab)
	endp := c03EndpointBase(t, s.lmtp, s.deferred, b.String(), c03LimCfgs[0], elog, true)
	for k := range c03XTargets {
		c03XTargets[k].Partial = s.partial&(1<<k) != 0
	}
	return endp
}

type c03XRes struct {
	tok     string
	codes   []int
	sym     string // X tokens
	delsEnd int    // number of delivery objects in the log after the token's replies were read
}

func c03XRun(s *c03XScn, addr string) ([]c03XRes, error) {
	conn, err := net.Dial("tcp", addr)
	if err != nil {
		return nil, err
	}
	defer conn.Close()
	c := &c03Client{c: conn, tp: textproto.NewConn(conn)}
	if code, _ := c.reply(); code != 220 {
		return nil, fmt.Errorf("greeting %d", code)
	}
	var res []c03XRes
	for _, tok := range s.toks {
		r := c03XRes{tok: tok}
		f := strings.Split(tok, ":")
		n := 1
		switch {
		case tok == "E":
			if s.lmtp {
				c.send("LHLO client.example.org\r\n")
			} else {
				c.send("EHLO client.example.org\r\n")
			}
		case f[0] == "M" && len(f) == 5:
			a, params := c03Sender(f[1], f[2], f[3], f[4], 0)
			c.send("MAIL FROM:<" + a + ">" + params + "\r\n")
		case tok[0] == 'X' && c03XSymOK(tok[1:]):
			r.sym = tok[1:]
			c.send("RCPT TO:<" + c03XAddr(r.sym) + ">\r\n")
		case f[0] == "D" && len(f) == 6:
			c.send("DATA\r\n")
			code, _ := c.reply()
			if code != 0 {
				r.codes = append(r.codes, code)
			}
			if code != 354 {
				n = 0
				break
			}
			c.send(c03Message(f[1], f[2], f[3], f[4], f[5]) + ".\r\n")
			// SMTP: one reply; LMTP: one per accepted recipient - read up to a NOOP sentinel
			r.codes = append(r.codes, c.untilSentinel()...)
			n = 0
		case tok == "S":
			c.send("RSET\r\n")
		case tok == "Q":
			c.send("QUIT\r\n")
		default:
			return nil, fmt.Errorf("bad token %q", tok)
		}
		for ; n > 0; n-- {
			if code, _ := c.reply(); code != 0 {
				r.codes = append(r.codes, code)
			}
		}
		c03XLog.Lock()
		r.delsEnd = len(c03XLog.Dels)
		c03XLog.Unlock()
		res = append(res, r)
	}
	return res, nil
}

func c03XOracle() string {
	var segs []string
	cur := ""
	var curMeta *module.MsgMetadata
	curPhase := byte(0)
	for _, e := range c03XLog.Fan {
		phase := byte('c')
		if e.Kind == 'B' || e.Kind == 'N' {
			phase = 'b'
		}
		if cur != "" && (e.Del.Meta != curMeta || phase != curPhase) {
			segs = append(segs, cur)
			cur = ""
		}
		curMeta, curPhase = e.Del.Meta, phase
		cur += strconv.Itoa(e.Tgt)
	}
	if cur != "" {
		segs = append(segs, cur)
	}
	if len(segs) == 0 {
		return "O:-"
	}
	return "O:" + strings.Join(segs, ",")
}

func c03XCodes(r c03XRes) string {
	if len(r.codes) == 0 {
		return "x"
	}
	var p []string
	for _, c := range r.codes {
		p = append(p, strconv.Itoa(c))
	}
	return strings.Join(p, "/")
}

// ---------------------------------------------------------------- the property, evaluated on the real run

func c03XMonitor(out *vh.Out, s *c03XScn, line string, res []c03XRes) {
	viol := func(sig, detail string) { out.Violation("C03/"+sig, line, detail) }
	for i, d := range c03XLog.Dels {
		switch {
		case d.Closes == 0:
			viol("delivery-never-closed", fmt.Sprintf("delivery #%d on target %d %s was started but neither committed nor aborted by the end of the session", i, d.Tgt, c03DelStr(d)))
		case d.Closes > 1:
			viol("delivery-closed-twice", fmt.Sprintf("delivery #%d on target %d %s was closed %d times", i, d.Tgt, c03DelStr(d), d.Closes))
		}
		if d.UseAfter > 0 && d.Closes <= 1 {
			viol("use-after-close", fmt.Sprintf("delivery #%d on target %d %s was used after it was closed", i, d.Tgt, c03DelStr(d)))
		}
		if d.Commit != 0 && (!d.Partial && !d.BodyOK || d.Partial && !d.BodySeen) {
			viol("commit-without-successful-body", fmt.Sprintf("delivery #%d on target %d %s: Commit was called although Body failed or was never called", i, d.Tgt, c03DelStr(d)))
		}
	}

	type rc struct {
		sym string
		tok int
	}
	added := func(d *vc03.Del, a string) bool {
		for _, e := range d.Evs {
			if e.Op == 'R' && e.OK && e.Addr == a {
				return true
			}
		}
		return false
	}
	bodyOK := func(d *vc03.Del, a string) bool {
		if d.Partial && len(d.Status) > 0 {
			return d.Status[a]
		}
		return d.BodyOK
	}
	holds := func(d *vc03.Del, a string) bool { return d.Commit == 1 && added(d, a) && bodyOK(d, a) }
	var accepted, attempted []rc
	txFrom := 0 // deliveries of the current transaction: c03XLog.Dels[txFrom:delsEnd]
	finish := func(i int, finals []int, delsEnd int) {
		dels := c03XLog.Dels[txFrom:delsEnd]
		commitFailed := false
		for _, d := range dels {
			if d.Commit == 2 {
				commitFailed = true
			}
		}
		checkHeld := func(r rc) {
			for _, e := range s.expansion(r.sym) {
				a := c03XAddr(e.sym)
				for k := 0; k < s.nT; k++ {
					if e.block > 2 || s.routes[e.block]&(1<<k) == 0 {
						continue
					}
					ok := false
					for _, d := range dels {
						if d.Tgt == k && holds(d, a) {
							ok = true
						}
					}
					if !ok {
						viol("success-reply-not-committed", fmt.Sprintf("token %d: success reply, but the accepted recipient %s (token %d) stands for %s (tables G, S, D of the op line) and that address is not committed on target %d of its destination block d%d", i, c03XAddr(r.sym), r.tok, a, k, e.block))
					}
				}
			}
		}
		// what a committed delivery holds has to be an address one of the RCPT commands of the transaction stands for
		for _, d := range dels {
			if d.Commit != 1 {
				continue
			}
			for _, e := range d.Evs {
				if e.Op != 'R' || !e.OK {
					continue
				}
				known := false
				for _, r := range attempted {
					for _, x := range s.expansion(r.sym) {
						if c03XAddr(x.sym) == e.Addr && x.block <= 2 && s.routes[x.block]&(1<<d.Tgt) != 0 {
							known = true
						}
					}
				}
				if !known {
					viol("committed-for-foreign-address", fmt.Sprintf("token %d: target %d %s holds the message for %s, an address none of the recipients of the transaction stands for on this target", i, d.Tgt, c03DelStr(d), e.Addr))
				}
			}
		}
		if !s.lmtp {
			if len(finals) != 1 {
				return
			}
			if finals[0]/100 == 2 {
				for _, r := range accepted {
					checkHeld(r)
				}
				out.Stat("fan.mon.tx.success")
			} else if !commitFailed {
				out.Stat("fan.mon.tx.failure")
				for _, d := range dels {
					if d.Commit == 1 {
						viol("refused-but-committed", fmt.Sprintf("token %d: the transaction was refused (%d) before the commit step, but delivery on target %d %s is committed", i, finals[0], d.Tgt, c03DelStr(d)))
					}
				}
			}
			return
		}
		if len(finals) != len(accepted) {
			out.Stat("fan.mon.lmtp.replies-not-attributable")
			return
		}
		for n, r := range accepted {
			if finals[n]/100 == 2 {
				checkHeld(r)
				out.Stat("fan.mon.lmtp.rcpt.success")
				continue
			}
			out.Stat("fan.mon.lmtp.rcpt.failure")
			if commitFailed {
				continue
			}
			// refused before the commit step: held only if one of the recipient's own targets refused one of its addresses
			ownFailed := false
			var holders []string
			for _, e := range s.expansion(r.sym) {
				a := c03XAddr(e.sym)
				for _, d := range dels {
					if e.block > 2 || s.routes[e.block]&(1<<d.Tgt) == 0 || !added(d, a) {
						continue
					}
					if d.BodySeen && !bodyOK(d, a) {
						ownFailed = true
					}
					if holds(d, a) {
						holders = append(holders, fmt.Sprintf("target %d %s for %s", d.Tgt, c03DelStr(d), a))
					}
				}
			}
			if !ownFailed && len(holders) > 0 {
				viol("refused-but-committed", fmt.Sprintf("token %d: recipient %s was refused (%d) before the commit step although none of its targets refused any of its addresses, but the message is held by %s", i, c03XAddr(r.sym), finals[n], strings.Join(holders, ", ")))
			}
		}
	}
	for i, r := range res {
		first := 0
		if len(r.codes) > 0 {
			first = r.codes[0]
		}
		switch {
		case r.sym != "":
			attempted = append(attempted, rc{r.sym, i})
			if first == 250 {
				accepted = append(accepted, rc{r.sym, i})
			}
		case r.tok == "S" && first == 250:
			accepted, attempted, txFrom = nil, nil, r.delsEnd
		case strings.HasPrefix(r.tok, "D:") && first == 354:
			finish(i, r.codes[1:], r.delsEnd)
			accepted, attempted, txFrom = nil, nil, r.delsEnd
		}
	}
}

// ---------------------------------------------------------------- generator

func c03XGen(r *vh.Rng) *c03XScn {
	s := &c03XScn{lmtp: r.Chance(40), deferred: r.Chance(50), nT: 1 + r.Intn(3)}
	s.partial = r.Intn(1 << s.nT)
	if r.Chance(40) {
		s.partial = 0
	}
	for j := range s.routes {
		s.routes[j] = 1 + r.Intn(1<<s.nT-1)
		if r.Chance(7) {
			s.routes[j] = 0
		}
	}
	sym := func() string {
		k := r.Intn(6)
		if r.Chance(8) {
			k = 6 + r.Intn(2)
		}
		j := r.Intn(3)
		if r.Chance(4) {
			j = 3
		}
		return fmt.Sprintf("%d%d", k, j)
	}
	syms := func(min, max int) []string {
		n := min + r.Intn(max-min+1)
		var out []string
		for i := 0; i < n; i++ {
			out = append(out, sym())
		}
		return out
	}
	// the recipients of the session
	nR := 1 + r.Intn(3)
	var rcpts []string
	for i := 0; i < nR; i++ {
		rcpts = append(rcpts, sym())
	}
	s.tabs = [3]c03XTab{{}, {}, {}}
	// stage by stage: keys are taken from what reaches the stage (any position), now and then from elsewhere
	reach := append([]string(nil), rcpts...)
	for st := 0; st < 3; st++ {
		pct := []int{75, 70, 45}[st]
		var next []string
		for _, a := range reach {
			if _, ok := s.tabs[st][a]; !ok && r.Chance(pct) {
				if x := r.Intn(100); x < 72 {
					s.tabs[st][a] = syms(2, 3)
				} else if x < 77 {
					s.tabs[st][a] = []string{} // the modifier drops the address
				} else {
					s.tabs[st][a] = syms(1, 1)
				}
			}
			next = append(next, s.lookup(st, a)...)
		}
		if r.Chance(15) {
			if k := sym(); s.tabs[st][k] == nil {
				s.tabs[st][k] = syms(1, 3)
			}
		}
		reach = next
	}
	cmask := "0"
	if r.Chance(10) {
		cmask = strconv.Itoa(1 + r.Intn(1<<s.nT-1))
	}
	s.toks = append(s.toks, "E")
	nTx := 1 + r.Intn(2)
	for tx := 0; tx < nTx; tx++ {
		s.toks = append(s.toks, fmt.Sprintf("M:a:%s:0:0%s0", c03Cls(r), cmask))
		for i, a := range rcpts {
			if tx == 1 && r.Chance(40) {
				continue
			}
			s.toks = append(s.toks, "X"+a)
			if i == 0 && r.Chance(8) {
				s.toks = append(s.toks, "X"+a) // the same recipient again
			}
		}
		switch x := r.Intn(100); {
		case x < 8:
			s.toks = append(s.toks, "S")
		case x < 12:
			s.toks = append(s.toks, "Q")
			tx = nTx
		default:
			bmask, plist := "0", ""
			if r.Chance(22) {
				bmask = strconv.Itoa(1 + r.Intn(1<<s.nT-1))
			}
			if r.Chance(25) {
				for k := 0; k < 8; k++ {
					if r.Chance(25) {
						plist += strconv.Itoa(k)
					}
				}
			}
			s.toks = append(s.toks, fmt.Sprintf("D:o:%s:0:%s:%s", c03Cls(r), bmask, plist))
		}
	}
	if s.lmtp && s.partial != 0 {
		// two DIFFERENT RCPT TO arguments that share an effective address on a target that reports per recipient:
		// known finding KF-C09-1 (the pipeline's reverse translation is keyed by the effective address), judged by C09
		seen := map[string]string{}
		for _, a := range rcpts {
			for _, e := range s.expansion(a) {
				if o, ok := seen[e.sym]; ok && o != a {
					s.partial = 0
				}
				seen[e.sym] = a
			}
		}
	}
	return s
}

func c03XOne(t *testing.T, out *vh.Out, s *c03XScn) {
	c03XLog.Reset()
	elog := &c03ErrLog{}
	endp := c03XEndpoint(t, s, elog)
	line := s.line()
	res, err := c03XRun(s, endp.listeners[0].Addr().String())
	if e2 := c03Shutdown(endp); e2 != nil {
		out.Note("shutdown: " + e2.Error() + " in " + line)
	}
	vc03.LimClose(endp.limits)
	if err != nil {
		t.Errorf("%s: %v", line, err)
		return
	}
	elog.mu.Lock()
	panics := elog.panics
	elines := append([]string(nil), elog.lines...)
	elog.mu.Unlock()

	c03XLog.Lock()
	c03XMonitor(out, s, line, res)
	if panics != 0 {
		out.Violation("C03/panic", line, fmt.Sprintf("%d panic(s) inside the server's session handling were recovered by go-smtp; first log lines: %s", panics, strings.Join(elines, " // ")))
	}
	var rs, tg []string
	for _, r := range res {
		rs = append(rs, c03XCodes(r))
	}
	for k := 0; k < s.nT; k++ {
		var ds []string
		for _, d := range c03XLog.Dels {
			if d.Tgt == k {
				ds = append(ds, c03DelStr(d))
			}
		}
		tg = append(tg, fmt.Sprintf("t%d:%s", k, strings.Join(ds, "")))
	}
	oracle := c03XOracle()
	c03XLog.Unlock()
	obs := fmt.Sprintf("%s | %s | panics=%d", strings.Join(rs, " "), strings.Join(tg, " "), panics)
	out.Corr(line+" "+oracle, obs)
	if vh.Replay() != nil {
		out.Note("replay: " + line + " " + oracle + " => " + obs)
	}

	// distribution
	out.Stat(fmt.Sprintf("fan.cfg.lmtp=%v.deferred=%v.targets=%d.partial=%v", s.lmtp, s.deferred, s.nT, s.partial != 0))
	for _, r := range res {
		if r.sym == "" {
			out.Stat("fan.tok." + r.tok[:1] + "." + c03XCodes(r))
			continue
		}
		g := s.lookup(0, r.sym)
		n2, grew := 0, "last"
		for i, a := range g {
			sa := s.lookup(1, a)
			n2 += len(sa)
			if len(sa) > 1 && i < len(g)-1 {
				grew = "not-last"
			}
		}
		if n2 == len(g) {
			grew = "none"
		}
		out.Stat(fmt.Sprintf("fan.rcpt.global=%d.source=%d(grows:%s).final=%d.reply=%s", len(g), n2, grew, len(s.expansion(r.sym)), c03XCodes(r)))
	}
}

func TestVerifC03Fanout(t *testing.T) {
	t.Parallel()
	out := vh.Open("c03_fan")
	defer out.Close()
	var scns []*c03XScn
	if rep := vh.Replay(); rep != nil {
		for _, l := range rep {
			if strings.HasPrefix(l, "C03 x ") {
				s, err := c03XParse(l)
				if err != nil {
					t.Fatal(err)
				}
				scns = append(scns, s)
			}
		}
	} else {
		n := 150
		if vh.Thorough() {
			n = 2500
		}
		rng := vh.NewRng(vh.Seed()*829367861 + 777)
		for i := 0; i < n; i++ {
			scns = append(scns, c03XGen(rng.Fork()))
		}
	}
	for _, s := range scns {
		c03XOne(t, out, s)
	}
}
