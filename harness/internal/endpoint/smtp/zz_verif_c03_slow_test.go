package smtp

// C03, slow aborts: transactions over 1-3 targets that are given up by the client (RSET, QUIT, disconnect) or fail
// at the body stage while Abort of some targets takes a while (a downstream server that is slow to answer RSET, a
// storage lock).  However long the clean-up takes and whatever the context handed to Abort says, every delivery
// that was opened on a target is closed (Commit or Abort) exactly once by the time the session has ended.
//
//	op line:  C03 a <S|L> <D|I> <targets> <delay ms> <nRcpt> <end>
//	targets:  one letter per target: q = Abort returns at once, h = Abort returns after the delay or when its context
//	          is done, i = Abort returns after the delay (ignores the context), e / E = like q / i and returns an error
//	end:      r = RSET (then QUIT), q = QUIT, x = abrupt close, f = DATA, Body of target 0 fails, F = Body of the last target fails,
//	          d = DATA succeeds (then QUIT)
//	observed: replies of MAIL/RCPT.../end and per target opened/closed counts (note in replay mode; there is no model
//	          run for these lines: the rule is judged by the monitor alone, the delays pass in real time but no verdict
//	          depends on the time anything took)

import (
	"context"
	"errors"
	"fmt"
	"net"
	"net/textproto"
	"strconv"
	"strings"
	"sync"
	"testing"
	"time"

	gotextproto "github.com/emersion/go-message/textproto"
	"github.com/emersion/go-smtp"
	"github.com/foxcpp/maddy/framework/buffer"
	"github.com/foxcpp/maddy/framework/config"
	"github.com/foxcpp/maddy/framework/module"
	"github.com/foxcpp/maddy/internal/verifshim/vc03"
	"github.com/foxcpp/maddy/internal/verifshim/vh"
)

type c03AScn struct {
	id             int
	lmtp, deferred bool
	tgts           string
	delay          int
	nRcpt          int
	end            string

	mu   sync.Mutex
	dels []*c03ADelivery
	bad  []string
}

func (s *c03AScn) line() string {
	p, m := "S", "I"
	if s.lmtp {
		p = "L"
	}
	if s.deferred {
		m = "D"
	}
	return fmt.Sprintf("C03 a %s %s %s %d %d %s", p, m, s.tgts, s.delay, s.nRcpt, s.end)
}

func c03AParse(line string) (*c03AScn, error) {
	f := strings.Fields(line)
	bad := fmt.Errorf("not a C03 a line: %q", line)
	if len(f) != 8 || f[0] != "C03" || f[1] != "a" {
		return nil, bad
	}
	delay, e1 := strconv.Atoi(f[5])
	nR, e2 := strconv.Atoi(f[6])
	if e1 != nil || e2 != nil || delay < 0 || delay > 20000 || nR < 1 || nR > 5 || len(f[4]) < 1 || len(f[4]) > len(c03ATargets) ||
		strings.Trim(f[4], "qhieE") != "" || len(f[7]) != 1 || !strings.Contains("rqxfFd", f[7]) {
		return nil, bad
	}
	return &c03AScn{lmtp: f[2] == "L", deferred: f[3] == "D", tgts: f[4], delay: delay, nRcpt: nR, end: f[7]}, nil
}

// the targets are process-wide module instances; a delivery finds its scenario by the local part of the sender
var (
	c03AOnce    sync.Once
	c03ATargets [3]*c03ATarget
	c03AScns    sync.Map // id -> *c03AScn
)

type c03ATarget struct{ idx int }

type c03ADelivery struct {
	s      *c03AScn
	tgt    int
	closes int
}

func (t *c03ATarget) Init(*config.Map) error { return nil }
func (t *c03ATarget) Name() string           { return "c03slow" }
func (t *c03ATarget) InstanceName() string   { return "c03slow" + strconv.Itoa(t.idx) }

func (t *c03ATarget) Start(ctx context.Context, msgMeta *module.MsgMetadata, mailFrom string) (module.Delivery, error) {
	at := strings.IndexByte(mailFrom, '@')
	if at < 2 {
		return nil, errors.New("c03slow: unknown sender")
	}
	id, _ := strconv.Atoi(mailFrom[1:at])
	v, ok := c03AScns.Load(id)
	if !ok {
		return nil, errors.New("c03slow: unknown scenario")
	}
	s := v.(*c03AScn)
	d := &c03ADelivery{s: s, tgt: t.idx}
	s.mu.Lock()
	s.dels = append(s.dels, d)
	s.mu.Unlock()
	return d, nil
}

func (d *c03ADelivery) use(op string, closing bool) {
	d.s.mu.Lock()
	if d.closes > 0 {
		d.s.bad = append(d.s.bad, fmt.Sprintf("%s on a delivery of target %d after it was closed", op, d.tgt))
	}
	if closing {
		d.closes++
	}
	d.s.mu.Unlock()
}

func (d *c03ADelivery) AddRcpt(ctx context.Context, rcptTo string, _ smtp.RcptOptions) error {
	d.use("AddRcpt", false)
	return nil
}

func (d *c03ADelivery) Body(ctx context.Context, header gotextproto.Header, body buffer.Buffer) error {
	d.use("Body", false)
	if (d.s.end == "f" && d.tgt == 0) || (d.s.end == "F" && d.tgt == len(d.s.tgts)-1) {
		return errors.New("c03slow: body refused")
	}
	return nil
}

func (d *c03ADelivery) Commit(ctx context.Context) error {
	d.use("Commit", true)
	return nil
}

func (d *c03ADelivery) Abort(ctx context.Context) error {
	d.use("Abort", true)
	kind := d.s.tgts[d.tgt]
	wait := time.Duration(d.s.delay) * time.Millisecond
	switch kind {
	case 'h':
		select {
		case <-time.After(wait):
		case <-ctx.Done():
			return ctx.Err()
		}
	case 'i', 'E':
		time.Sleep(wait)
	}
	if kind == 'e' || kind == 'E' {
		return errors.New("c03slow: abort failed")
	}
	return nil
}

func c03ARegister() {
	c03AOnce.Do(func() {
		for i := range c03ATargets {
			c03ATargets[i] = &c03ATarget{idx: i}
			module.RegisterInstance(c03ATargets[i], nil)
		}
	})
}

func c03AOne(t *testing.T, out *vh.Out, s *c03AScn) (violations int) {
	c03ARegister()
	c03AScns.Store(s.id, s)
	defer c03AScns.Delete(s.id)
	pipe := "default_destination {\n"
	for i := range s.tgts {
		pipe += " deliver_to &c03slow" + strconv.Itoa(i) + "\n"
	}
	pipe += "}\n"
	elog := &c03ErrLog{}
	endp := c03EndpointBase(t, s.lmtp, s.deferred, pipe, c03LimCfgs[0], elog, false)
	be := &c03BBackend{endp: endp}
	endp.serv.Backend = be
	line := s.line()
	fail := func(err error) {
		t.Errorf("%s: %v", line, err)
		c03Shutdown(endp) //nolint:errcheck
		vc03.LimClose(endp.limits)
	}
	addr, err := c03Listen(t, endp, &net.TCPAddr{IP: net.IPv4(10, 2, 0, 1).To4(), Port: 42000 + s.id%1000})
	if err != nil {
		fail(err)
		return
	}
	conn, err := net.Dial("tcp", addr)
	if err != nil {
		fail(err)
		return
	}
	w := &c03Client{c: conn, tp: textproto.NewConn(conn)}
	var obs []string
	cmd := func(l string) int {
		w.send(l + "\r\n")
		code, _ := w.reply()
		obs = append(obs, strconv.Itoa(code))
		return code
	}
	w.reply()
	hello := "EHLO client.example.org"
	if s.lmtp {
		hello = "LHLO client.example.org"
	}
	cmd(hello)
	cmd(fmt.Sprintf("MAIL FROM:<a%d@k.example>", s.id))
	for i := 0; i < s.nRcpt; i++ {
		cmd(fmt.Sprintf("RCPT TO:<r%d@d0.example>", i))
	}
	switch s.end {
	case "r":
		cmd("RSET")
		cmd("QUIT")
	case "q":
		cmd("QUIT")
	case "f", "F", "d":
		if cmd("DATA") == 354 {
			w.send("From: <a@k.example>\r\nSubject: c03\r\n\r\nbody\r\n.\r\n")
			n := 1
			if s.lmtp {
				n = s.nRcpt
			}
			for i := 0; i < n; i++ {
				code, _ := w.reply()
				obs = append(obs, strconv.Itoa(code))
			}
		}
		cmd("QUIT")
	}
	w.c.Close()
	// the session is over when Logout has returned (the clean-up of an open transaction runs inside it)
	if !be.waitLive(0) {
		fail(errors.New("the session did not end within 30 s"))
		return
	}
	if err := c03Shutdown(endp); err != nil {
		fail(err)
		return
	}
	end := vc03.LimSnapshot(endp.limits)
	vc03.LimClose(endp.limits)

	s.mu.Lock()
	opened, closed := make([]int, len(s.tgts)), make([]int, len(s.tgts))
	for i, d := range s.dels {
		if d.tgt < len(opened) {
			opened[d.tgt]++
			closed[d.tgt] += d.closes
		}
		switch {
		case d.closes == 0:
			violations++
			out.Violation("C03/delivery-never-closed", line, fmt.Sprintf("delivery #%d on target %d (Abort kind %q, %d ms) was started but neither committed nor aborted by the end of the session (replies %s)", i, d.tgt, s.tgts[d.tgt], s.delay, strings.Join(obs, " ")))
		case d.closes > 1:
			violations++
			out.Violation("C03/delivery-closed-twice", line, fmt.Sprintf("delivery #%d on target %d was closed %d times", i, d.tgt, d.closes))
		}
	}
	for _, b := range s.bad {
		out.Violation("C03/use-after-close", line, b)
	}
	s.mu.Unlock()
	for _, b := range vc03.LimBusy(end) {
		out.Violation("C03/permit-not-returned", line, fmt.Sprintf("after the session ended %d permit(s) of the %q scope, key %q, are still held (users=%d, semaphores in use=%v)", b.InUse(), b.Scope, b.Key, b.Users, b.Sems))
	}
	elog.mu.Lock()
	be.mu.Lock()
	panics := elog.panics + be.panics
	plines := append(append([]string(nil), be.lines...), elog.lines...)
	be.mu.Unlock()
	elog.mu.Unlock()
	if panics != 0 {
		out.Violation("C03/panic", line, fmt.Sprintf("%d panic(s) in the session handling: %s", panics, strings.Join(plines, " // ")))
	}
	if vh.Replay() != nil {
		out.Note(fmt.Sprintf("replay: %s => %s | opened=%v closed=%v", line, strings.Join(obs, " "), opened, closed))
	}
	out.Stat(fmt.Sprintf("slow.cfg.lmtp=%v.deferred=%v", s.lmtp, s.deferred))
	out.Stat("slow.targets." + s.tgts)
	out.Stat(fmt.Sprintf("slow.end.%s.delay=%d", s.end, s.delay))
	out.Stat("slow.replies." + strings.Join(obs, ","))
	return violations
}

func c03AGen(r *vh.Rng, k int) *c03AScn {
	s := &c03AScn{lmtp: r.Chance(40), deferred: r.Chance(50), nRcpt: 1 + r.Intn(2), end: r.Pick("r", "q", "x", "f", "F", "r", "q", "x", "d")}
	long, short := 2300, 150
	if vh.Thorough() {
		long = []int{1200, 2300, 5500, 11000}[r.Intn(4)]
	}
	n := 2 + r.Intn(2)
	switch {
	case k%4 == 0: // every target is slow: whatever order the fan-out takes
		s.delay = long
		for i := 0; i < n; i++ {
			s.tgts += r.Pick("h", "i", "E")
		}
		if n == 3 && !vh.Thorough() {
			s.tgts = s.tgts[:2] + r.Pick("q", "e", "h")
		}
		if s.end == "d" {
			s.end = "x"
		}
	case k%4 == 1:
		s.delay = long
		n = 2
		s.tgts = r.Pick("hq", "qi", "iq", "qh", "Ee", "h", "i")
	default:
		s.delay = short
		for i := 0; i < 1+r.Intn(3); i++ {
			s.tgts += r.Pick("q", "h", "i", "e", "E")
		}
	}
	return s
}

func TestVerifC03SlowAbort(t *testing.T) {
	t.Parallel()
	out := vh.Open("c03_slow")
	defer out.Close()
	var scns []*c03AScn
	if rep := vh.Replay(); rep != nil {
		// which targets a hurried clean-up leaves out may depend on the order of the fan-out (a Go map): a replay
		// repeats the scenario until the rule is broken, at most 8 times
		id := 0
		for _, l := range rep {
			if strings.HasPrefix(l, "C03 a ") {
				for try := 0; try < 8; try++ {
					s, err := c03AParse(l)
					if err != nil {
						t.Fatal(err)
					}
					id++
					s.id = id
					if c03AOne(t, out, s) > 0 {
						break
					}
				}
			}
		}
		return
	} else {
		n := 12
		if vh.Thorough() {
			n = 48
		}
		rng := vh.NewRng(vh.Seed()*715827883 + 777)
		for i := 0; i < n; i++ {
			scns = append(scns, c03AGen(rng.Fork(), i))
		}
	}
	// the delays pass in real time: all scenarios at once (vh.Out serialises its writers)
	var wg sync.WaitGroup
	for i, s := range scns {
		s.id = i + 1
		wg.Add(1)
		go func(s *c03AScn) {
			defer wg.Done()
			c03AOne(t, out, s)
		}(s)
	}
	wg.Wait()
}
