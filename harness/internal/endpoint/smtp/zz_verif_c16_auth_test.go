package smtp

// C16, what an UNAUTHENTICATED client is told when authentication fails, and what a client is told
// when the endpoint's own limits refuse its message (strengthening round 7).  Both on the REAL
// endpoint: go-smtp server, Endpoint.NewSession, Session.Auth -> auth.SASLAuth.CreateSASL ->
// SASLAuth.AuthPlain -> scripted providers / auth_map table / normalisation function failing in every
// way, the reply written by go-smtp read back from the wire (an in-memory connection, no ports).
//
//	C16 auth <mech> <ir> <id> <pre> <prov> ; <prov> ...
//	   mech: plain | login | login0 (LOGIN while sasl_login is off) | other (a mechanism maddy does not have)
//	   ir:   1 the first response travels with the AUTH command, 0 after an empty challenge (PLAIN only)
//	   id:   e no authorization identity | s the user name | d another name   (PLAIN only, "-" otherwise)
//	   pre:  - | m auth_map hit | u auth_map miss | M <tree> auth_map lookup fails | Z <tree> normalisation fails
//	   prov: ok | <tree> — what the i-th provider answers (error trees: package verr)
//	C16 epfull <scope> <utf8> <defer>   MAIL on an endpoint whose per-IP / per-source bucket table is full
//	   (defer: defer_sender_reject on = the reply to the first RCPT is the one that reports it)

import (
	"bufio"
	"context"
	"encoding/base64"
	"errors"
	"fmt"
	"net"
	"strconv"
	"strings"
	"sync"
	"testing"
	"time"

	"github.com/foxcpp/go-mockdns"
	"github.com/foxcpp/maddy/framework/config"
	"github.com/foxcpp/maddy/framework/exterrors"
	"github.com/foxcpp/maddy/framework/log"
	"github.com/foxcpp/maddy/internal/auth"
	"github.com/foxcpp/maddy/internal/limits"
	"github.com/foxcpp/maddy/internal/msgpipeline"
	"github.com/foxcpp/maddy/internal/testutils"
	"github.com/foxcpp/maddy/internal/verifshim/vc16"
	"github.com/foxcpp/maddy/internal/verifshim/verr"
	"github.com/foxcpp/maddy/internal/verifshim/vh"
)

// ---------------------------------------------------------------- an endpoint without sockets

type c16Addr struct{ net.Conn }

func (c c16Addr) RemoteAddr() net.Addr {
	return &net.TCPAddr{IP: vc16.LimProbeIP, Port: 40025}
}
func (c c16Addr) LocalAddr() net.Addr { return &net.TCPAddr{IP: net.IPv4(127, 0, 0, 1), Port: 25} }

type c16Listener struct {
	ch      chan net.Conn
	closed  chan struct{}
	once    sync.Once
	serving chan struct{}
	sOnce   sync.Once
}

func (l *c16Listener) Accept() (net.Conn, error) {
	l.sOnce.Do(func() { close(l.serving) })
	select {
	case c := <-l.ch:
		return c, nil
	case <-l.closed:
		return nil, net.ErrClosed
	}
}
func (l *c16Listener) Close() error   { l.once.Do(func() { close(l.closed) }); return nil }
func (l *c16Listener) Addr() net.Addr { return &net.TCPAddr{IP: net.IPv4(127, 0, 0, 1), Port: 25} }

func (l *c16Listener) dial() net.Conn {
	c1, c2 := net.Pipe()
	l.ch <- c16Addr{c2}
	c1.SetDeadline(time.Now().Add(60 * time.Second))
	return c1
}

func c16AuthEndpoint(t *testing.T) (*Endpoint, *c16Listener) {
	mod, err := New("smtp", nil)
	if err != nil {
		t.Fatal(err)
	}
	endp := mod.(*Endpoint)
	endp.resolver = &mockdns.Resolver{Zones: map[string]mockdns.Zone{}}
	nop := log.Logger{Out: log.NopOutput{}}
	endp.Log = nop
	err = endp.Init(config.NewMap(nil, config.Node{Children: []config.Node{
		{Name: "hostname", Args: []string{"mx.example.com"}},
		{Name: "tls", Args: []string{"off"}},
		{Name: "deliver_to", Args: []string{"dummy"}},
	}}))
	if err != nil {
		t.Fatal(err)
	}
	endp.Log = nop
	endp.pipeline = msgpipeline.Mock(&testutils.Target{}, nil)
	endp.pipeline.Hostname = "mx.example.com"
	endp.pipeline.Resolver = endp.resolver
	endp.pipeline.FirstPipeline = true
	endp.pipeline.Log = nop
	l := &c16Listener{ch: make(chan net.Conn), closed: make(chan struct{}), serving: make(chan struct{})}
	endp.listenersWg.Add(1)
	go func() {
		endp.serv.Serve(l) //nolint:errcheck
		endp.listenersWg.Done()
	}()
	<-l.serving // go-smtp's Close only closes listeners Serve has registered
	return endp, l
}

// ---------------------------------------------------------------- a client that sees the wire

type c16Wire struct {
	conn net.Conn
	br   *bufio.Reader
}

type c16WireReply struct {
	code  int
	ench  string // "" = none
	texts []string
	err   error
}

func (r c16WireReply) text() string { return strings.Join(r.texts, "\n") }

func (w *c16Wire) read() c16WireReply {
	var rp c16WireReply
	for {
		line, err := w.br.ReadString('\n')
		if err != nil {
			rp.err = err
			return rp
		}
		line = strings.TrimRight(line, "\r\n")
		if len(line) < 4 {
			rp.err = fmt.Errorf("short reply line %q", line)
			return rp
		}
		rp.code, _ = strconv.Atoi(line[:3])
		rest := line[4:]
		if f := strings.SplitN(rest, " ", 2); len(strings.Split(f[0], ".")) == 3 && f[0][0] >= '0' && f[0][0] <= '9' {
			ok := true
			for _, p := range strings.Split(f[0], ".") {
				if _, err := strconv.Atoi(p); err != nil {
					ok = false
				}
			}
			if ok {
				rp.ench = f[0]
				rest = ""
				if len(f) > 1 {
					rest = f[1]
				}
			}
		}
		rp.texts = append(rp.texts, rest)
		if line[3] == ' ' {
			return rp
		}
	}
}

func (w *c16Wire) cmd(line string) c16WireReply {
	if _, err := w.conn.Write([]byte(line + "\r\n")); err != nil {
		return c16WireReply{err: err}
	}
	return w.read()
}

func c16Open(l *c16Listener) (*c16Wire, error) {
	w := &c16Wire{conn: l.dial()}
	w.br = bufio.NewReader(w.conn)
	if g := w.read(); g.err != nil || g.code != 220 {
		return nil, fmt.Errorf("greeting: %d %v", g.code, g.err)
	}
	if h := w.cmd("EHLO client.c16.example"); h.err != nil || h.code != 250 {
		return nil, fmt.Errorf("EHLO: %d %v", h.code, h.err)
	}
	return w, nil
}

func (w *c16Wire) quit() {
	w.cmd("QUIT")
	w.conn.Close()
}

// ---------------------------------------------------------------- scripted providers

type c16AuthCase struct {
	mech, ir, id string
	pre          string       // - m u M Z
	preErr       *verr.Node   // M Z
	provs        []*verr.Node // nil = accepts
	consulted    int
	blank        bool // calibration: the injected errors carry no detail (see build)
}

// build makes the error value a provider / the table / the normalisation fails with.  blank: a value
// of the same temporariness class that has nothing to disclose (its text is "x").
func (cs *c16AuthCase) build(n *verr.Node) error {
	if !cs.blank {
		return n.Build()
	}
	if t, known := verr.TempOf(n); known {
		return exterrors.WithTemporary(errors.New("x"), t)
	}
	return errors.New("x")
}

func (cs *c16AuthCase) Op() string {
	pre := cs.pre
	if cs.preErr != nil {
		pre += " " + cs.preErr.String()
	}
	var ps []string
	for _, p := range cs.provs {
		if p == nil {
			ps = append(ps, "ok")
		} else {
			ps = append(ps, p.String())
		}
	}
	return fmt.Sprintf("C16 auth %s %s %s %s %s", cs.mech, cs.ir, cs.id, pre, strings.Join(ps, " ; "))
}

func c16ParseAuth(op string) (cs *c16AuthCase, err error) {
	defer func() {
		if r := recover(); r != nil {
			cs, err = nil, fmt.Errorf("unparsable op: %v", r)
		}
	}()
	toks := strings.Fields(op)
	cs = &c16AuthCase{mech: toks[2], ir: toks[3], id: toks[4], pre: toks[5]}
	rest := toks[6:]
	if cs.pre == "M" || cs.pre == "Z" {
		cs.preErr, rest = verr.Parse(rest)
	}
	for len(rest) > 0 {
		switch rest[0] {
		case ";":
			rest = rest[1:]
		case "ok":
			cs.provs = append(cs.provs, nil)
			rest = rest[1:]
		default:
			var n *verr.Node
			n, rest = verr.Parse(rest)
			cs.provs = append(cs.provs, n)
		}
	}
	if len(cs.provs) == 0 {
		return nil, fmt.Errorf("no provider in %q", op)
	}
	return cs, nil
}

type c16Script struct{ cur *c16AuthCase }

type c16Prov struct {
	sc  *c16Script
	idx int
}

func (p c16Prov) AuthPlain(username, password string) error {
	cs := p.sc.cur
	cs.consulted++
	if n := cs.provs[p.idx]; n != nil {
		return cs.build(n)
	}
	return nil
}

type c16Map struct{ sc *c16Script }

func (m c16Map) Lookup(_ context.Context, key string) (string, bool, error) {
	switch cs := m.sc.cur; cs.pre {
	case "u":
		return "", false, nil
	case "M":
		return "", false, cs.build(cs.preErr)
	}
	return "mapped-" + key, true, nil
}

const (
	c16User = "user@c16.example"
	c16Pass = "correct horse"
)

func b64(s string) string { return base64.StdEncoding.EncodeToString([]byte(s)) }

// c16AuthExchange plays one AUTH exchange and returns the final reply.
func c16AuthExchange(endp *Endpoint, l *c16Listener, sc *c16Script, cs *c16AuthCase) (c16WireReply, error) {
	sc.cur = cs
	sa := auth.SASLAuth{Log: log.Logger{Out: log.NopOutput{}}, EnableLogin: cs.mech != "login0"}
	for i := range cs.provs {
		sa.Plain = append(sa.Plain, c16Prov{sc, i})
	}
	switch cs.pre {
	case "m", "u", "M":
		sa.AuthMap = c16Map{sc}
	case "Z":
		sa.AuthNormalize = func(string) (string, error) { return "", cs.build(cs.preErr) }
	}
	endp.saslAuth = sa

	w, err := c16Open(l)
	if err != nil {
		return c16WireReply{}, err
	}
	defer w.quit()
	var rp c16WireReply
	switch cs.mech {
	case "plain":
		ident := map[string]string{"e": "", "s": c16User, "d": "someone-else@c16.example"}[cs.id]
		resp := b64(ident + "\x00" + c16User + "\x00" + c16Pass)
		if cs.ir == "1" {
			rp = w.cmd("AUTH PLAIN " + resp)
		} else {
			if rp = w.cmd("AUTH PLAIN"); rp.err == nil && rp.code == 334 {
				rp = w.cmd(resp)
			}
		}
	case "login", "login0":
		if rp = w.cmd("AUTH LOGIN"); rp.err == nil && rp.code == 334 {
			if rp = w.cmd(b64(c16User)); rp.err == nil && rp.code == 334 {
				rp = w.cmd(b64(c16Pass))
			}
		}
	default:
		rp = w.cmd("AUTH CRAM-MD5")
	}
	return rp, rp.err
}

// truth: what happened, from the script alone — was the client authenticated, which failure value
// ended the attempt (nil when it was not a failure of a provider / table), which injected error values
// were involved at all.
func (cs *c16AuthCase) truth() (accepted bool, fail *verr.Node, involved []*verr.Node) {
	if cs.mech == "other" || cs.mech == "login0" {
		return false, nil, nil
	}
	if cs.mech == "plain" && cs.id == "d" {
		return false, nil, nil
	}
	switch cs.pre {
	case "u":
		return false, nil, nil
	case "M", "Z":
		return false, cs.preErr, []*verr.Node{cs.preErr}
	}
	for _, p := range cs.provs {
		if p == nil {
			return true, nil, involved
		}
		involved = append(involved, p)
		fail = p
	}
	return false, fail, involved
}

// detail words of an internal error text: what must not show up in a reply
func c16DetailWords(text string, generic []string) []string {
	var out []string
	for _, w := range strings.FieldsFunc(strings.ToLower(text), func(r rune) bool { return r == ' ' || r == ':' || r == ',' || r == '"' }) {
		if len(w) < 4 {
			continue
		}
		skip := false
		for _, g := range generic {
			if strings.Contains(strings.ToLower(g), w) {
				skip = true
			}
		}
		if !skip {
			out = append(out, w)
		}
	}
	return out
}

func c16CanonAuthText(code int, text string) string {
	switch {
	case code == 235:
		return "ok"
	case text == auth.ErrInvalidAuthCred.Error():
		return "invalid"
	case text == auth.ErrUnsupportedMech.Error():
		return "unsupported"
	}
	return "text:" + vh.HexRunes(text)
}

// c16Auth runs one case; generic = the reply texts the endpoint gives for failures that carry no
// detail at all (calibrated on the current tree by c16AuthCalibrate).
func c16Auth(out *vh.Out, endp *Endpoint, l *c16Listener, sc *c16Script, cs *c16AuthCase, generic map[string]bool) {
	op := cs.Op()
	rp, err := c16AuthExchange(endp, l, sc, cs)
	if err != nil {
		out.Violation("C16/auth-no-reply", op, "the exchange ended without a final reply: "+err.Error())
		return
	}
	ench := rp.ench
	if ench == "" {
		ench = "none"
	}
	out.Corr(op, fmt.Sprintf("%d %s %s", rp.code, ench, c16CanonAuthText(rp.code, rp.text())))

	accepted, fail, involved := cs.truth()
	out.Stat("auth.mech." + cs.mech)
	out.Stat("auth.pre." + cs.pre)
	out.Stat(fmt.Sprintf("auth.providers.%d", len(cs.provs)))
	out.Stat(fmt.Sprintf("auth.reply.%d", rp.code))
	if accepted != (rp.code == 235) {
		out.Violation("C16/auth-reply-vs-decision", op, fmt.Sprintf("authenticated=%v but the reply is %d", accepted, rp.code))
	}
	if accepted {
		if rp.ench == "" || rp.ench[0] != '2' {
			out.Violation("C16/auth-class-mismatch", op, fmt.Sprintf("reply %d %s", rp.code, ench))
		}
		return
	}
	// the failure reply: basic and enhanced code of one class, 4 or 5
	cls := rp.code / 100
	if (cls != 4 && cls != 5) || rp.ench == "" || int(rp.ench[0]-'0') != cls {
		out.Violation("C16/auth-class-mismatch", op, fmt.Sprintf("reply %d %s", rp.code, ench))
	}
	// AUTH precedes MAIL: SMTPUTF8 has not been negotiated
	for _, ch := range rp.text() {
		if ch >= 0x80 {
			out.Violation("C16/non-ascii-reply", op, fmt.Sprintf("U+%04X in the reply to AUTH", ch))
			break
		}
	}
	if fail != nil {
		e := fail.Build()
		switch {
		case exterrors.IsTemporary(e):
			out.Stat("auth.failure.temporary")
			if cls != 4 {
				out.Violation("C16/auth-temporary-not-4yz", op, fmt.Sprintf("the provider failed temporarily, the reply is %d", rp.code))
			}
		case exterrors.IsTemporaryOrUnspec(e):
			out.Stat("auth.failure.unclassified")
		default:
			out.Stat("auth.failure.permanent")
		}
	} else {
		out.Stat("auth.failure.refused-by-maddy")
	}
	// no disclosure: nothing of an unannotated internal error in the reply, and the text is one the
	// endpoint also gives for a failure without any detail
	genericTexts := []string{auth.ErrInvalidAuthCred.Error(), auth.ErrUnsupportedMech.Error()}
	low := strings.ToLower(rp.text())
	leaked := false
	for _, n := range involved {
		if verr.MsgAnnotated(n) {
			continue
		}
		for _, w := range c16DetailWords(n.Build().Error(), genericTexts) {
			if strings.Contains(low, w) {
				out.Violation("C16/auth-discloses-detail", op, fmt.Sprintf("the reply %d %s %q contains %q of the internal error %q",
					rp.code, ench, rp.text(), w, n.Build().Error()))
				leaked = true
				break
			}
		}
		if leaked {
			break
		}
	}
	if fail == nil || !verr.MsgAnnotated(fail) {
		out.Stat("auth.failure.unannotated")
		if !generic[rp.text()] {
			out.Violation("C16/auth-text-not-generic", op, fmt.Sprintf("the reply text %q to an unannotated failure is none of the texts given for a failure without detail %v",
				rp.text(), c16Keys(generic)))
		}
	} else {
		out.Stat("auth.failure.annotated")
	}
}

func c16Keys(m map[string]bool) []string {
	var out []string
	for k := range m {
		out = append(out, strconv.Quote(k))
	}
	// order of a map: sort
	for i := range out {
		for j := i + 1; j < len(out); j++ {
			if out[j] < out[i] {
				out[i], out[j] = out[j], out[i]
			}
		}
	}
	return out
}

// c16AuthCalibrate collects the reply texts of the CURRENT tree for failures without any detail: both
// mechanisms, a provider / the table / the normalisation failing with a featureless error of each
// temporariness class, plus the refusals maddy decides itself.  A reply to a failure WITH detail has to
// be one of these texts (otherwise the text depends on the detail).
func c16AuthCalibrate(endp *Endpoint, l *c16Listener, sc *c16Script) (map[string]bool, error) {
	generic := map[string]bool{}
	trees := []string{"P", "T 1 P", "T 0 P"} // unclassified, temporary, permanent (built blank)
	for _, mech := range []string{"plain", "login", "login0", "other"} {
		for _, tr := range trees {
			for _, pre := range []string{"-", "M", "Z"} {
				n, _ := verr.Parse(strings.Fields(tr))
				cs := &c16AuthCase{mech: mech, ir: "1", id: "e", pre: pre, provs: []*verr.Node{n}, blank: true}
				if pre != "-" {
					cs.preErr = n
				}
				if mech != "plain" {
					cs.id, cs.ir = "-", "0"
				}
				rp, err := c16AuthExchange(endp, l, sc, cs)
				if err != nil {
					return nil, err
				}
				if rp.code != 235 {
					generic[rp.text()] = true
				}
			}
		}
		for _, cs := range []*c16AuthCase{
			{mech: mech, ir: "1", id: "d", pre: "-", provs: []*verr.Node{nil}},
			{mech: mech, ir: "1", id: "e", pre: "u", provs: []*verr.Node{nil}},
		} {
			rp, err := c16AuthExchange(endp, l, sc, cs)
			if err != nil {
				return nil, err
			}
			if rp.code != 235 {
				generic[rp.text()] = true
			}
		}
	}
	return generic, nil
}

// ---------------------------------------------------------------- generators

func c16GenAuth(r *vh.Rng) *c16AuthCase {
	cs := &c16AuthCase{mech: r.Pick("plain", "plain", "login", "login", "login0", "other"), ir: "0", id: "-", pre: "-"}
	if r.Chance(3) {
		cs.mech = r.Pick("login0", "other")
	}
	if cs.mech == "plain" {
		cs.ir = r.Pick("0", "1")
		cs.id = r.Pick("e", "s", "s", "d")
		if r.Chance(85) && cs.id == "d" {
			cs.id = "s"
		}
	}
	tree := func() *verr.Node {
		switch r.Intn(10) {
		case 0, 1:
			n, _ := verr.Parse(strings.Fields(r.Pick("P", "T 1 P", "T 0 P", "N 1", "N 0", "D", "T 1 N 0", "F - - _ T 1 P")))
			return n
		case 2:
			return verr.Gen(r, 1+r.Intn(3), false)
		}
		return verr.Gen(r, r.Intn(4), true)
	}
	switch p := r.Intn(100); {
	case p < 55:
	case p < 70:
		cs.pre = "m"
	case p < 78:
		cs.pre = "u"
	case p < 90:
		cs.pre, cs.preErr = "M", tree()
	default:
		cs.pre, cs.preErr = "Z", tree()
	}
	k := 1 + r.Intn(3)
	for i := 0; i < k; i++ {
		if r.Chance(25) {
			cs.provs = append(cs.provs, nil)
		} else {
			cs.provs = append(cs.provs, tree())
		}
	}
	return cs
}

// every mechanism x every way one provider (or the table, or the normalisation) can fail
func c16SystematicAuth() []string {
	var ops []string
	leaves := []string{
		"P", "T 1 P", "T 0 P", "N 1", "N 0", "D", "T 1 N 0", "F - - _ T 1 P",
		"S 454 4 7 0 " + vh.HexRunes("Temporary authentication failure"),
		"S 535 5 7 8 " + vh.HexRunes("Invalid credentials"),
		"W 454 4 7 0 " + vh.HexRunes("Temporary authentication failure") + " T 1 P",
		"T 1 S 454 4 7 0 " + vh.HexRunes("base de données fermée"),
		"R 421 4 3 2 " + vh.HexRunes("Service shutting down"),
		"F 451 4.3.0 " + vh.HexRunes("Try again later") + " T 1 P",
	}
	for _, m := range [][3]string{{"plain", "1", "e"}, {"plain", "0", "s"}, {"login", "0", "-"}} {
		head := fmt.Sprintf("C16 auth %s %s %s ", m[0], m[1], m[2])
		ops = append(ops, head+"- ok", head+"m ok", head+"u ok")
		for _, lf := range leaves {
			ops = append(ops, head+"- "+lf, head+"M "+lf+" ok", head+"Z "+lf+" ok", head+"- "+lf+" ; ok", head+"- P ; "+lf, head+"- "+lf+" ; P")
		}
	}
	ops = append(ops, "C16 auth plain 1 d - ok", "C16 auth plain 0 d - T 1 P", "C16 auth login0 0 - - ok", "C16 auth login0 0 - - T 1 P",
		"C16 auth other 0 - - ok", "C16 auth other 0 - - T 1 P")
	return ops
}

// ---------------------------------------------------------------- MAIL with a full bucket table

func c16EpFull(out *vh.Out, endp *Endpoint, l *c16Listener, groups map[string]*limits.Group, op string) {
	toks := strings.Fields(op)
	if len(toks) != 5 {
		out.Note("unparsable op: " + op)
		return
	}
	scope, utf8, deferred := toks[2], toks[3] == "1", toks[4] == "1"
	si := vc16.LimScopeIndex(scope)
	if si != 1 && si != 2 {
		out.Note("unparsable op: " + op)
		return
	}
	g := groups[scope]
	if g == nil {
		p := []string{"-", "-", "-", "-"}
		p[si] = "s1"
		cfg := strings.Join(p, "/")
		var err error
		if g, err = vc16.NewLimits(cfg); err == nil {
			err = vc16.LimExhaust(g, cfg, scope, "F")
		}
		if err != nil {
			out.Violation("C16/harness-limits-setup", op, err.Error())
			return
		}
		groups[scope] = g
	}
	old, oldDefer := endp.limits, endp.deferServerReject
	endp.limits, endp.deferServerReject = g, deferred
	defer func() { endp.limits, endp.deferServerReject = old, oldDefer }()
	w, err := c16Open(l)
	if err != nil {
		out.Violation("C16/no-reply", op, err.Error())
		return
	}
	defer w.quit()
	line := "MAIL FROM:<sender@" + vc16.LimProbeSource + ">"
	if utf8 {
		line += " SMTPUTF8"
	}
	rp := w.cmd(line)
	if deferred && rp.err == nil && rp.code == 250 {
		// defer_sender_reject (the default): the failure of MAIL is reported to the first RCPT
		rp = w.cmd("RCPT TO:<rcpt@example.org>")
	}
	if rp.err != nil {
		out.Violation("C16/no-reply", op, rp.err.Error())
		return
	}
	ench := rp.ench
	if ench == "" {
		ench = "none"
	}
	m := "text:" + vh.HexRunes(rp.text())
	switch rp.text() {
	case "Internal server error":
		m = "generic"
	case "High load, try again later":
		m = "highload"
	}
	out.Corr(op, fmt.Sprintf("%d %s %s", rp.code, ench, m))
	out.Stat("epfull.scope." + scope)
	out.Stat(fmt.Sprintf("epfull.reply.%d", rp.code))
	if rp.code/100 == 2 {
		out.Violation("C16/limit-not-enforced", op, "MAIL accepted although the bucket table of the "+scope+" limit is full")
		return
	}
	cls := rp.code / 100
	if (cls != 4 && cls != 5) || rp.ench == "" || int(rp.ench[0]-'0') != cls {
		out.Violation("C16/endpoint-class-mismatch", op, fmt.Sprintf("reply %d %s", rp.code, ench))
	}
	if cls != 4 {
		out.Violation("C16/overload-answered-permanently", op, fmt.Sprintf(
			"MAIL refused because the bucket table of the %s limit is full is answered %d %s %q: a retry-later condition with a 5yz reply", scope, rp.code, ench, rp.text()))
	}
	if m != "generic" && m != "highload" {
		out.Violation("C16/endpoint-discloses-detail", op, "message "+strconv.Quote(rp.text()))
	}
	if !utf8 {
		for _, ch := range rp.text() {
			if ch >= 0x80 {
				out.Violation("C16/non-ascii-reply", op, fmt.Sprintf("U+%04X in reply to a non-SMTPUTF8 client", ch))
				break
			}
		}
	}
}

// ---------------------------------------------------------------- entry

func TestVerifC16Auth(t *testing.T) {
	out := vh.Open("c16_auth")
	defer out.Close()
	endp, l := c16AuthEndpoint(t)
	defer endp.Close()
	sc := &c16Script{}
	generic, err := c16AuthCalibrate(endp, l, sc)
	if err != nil {
		out.Violation("C16/auth-no-reply", "C16 auth calibration", err.Error())
		return
	}
	groups := map[string]*limits.Group{}
	run := func(op string) {
		switch {
		case strings.HasPrefix(op, "C16 auth "):
			cs, err := c16ParseAuth(op)
			if err != nil {
				out.Note(err.Error())
				return
			}
			c16Auth(out, endp, l, sc, cs, generic)
		case strings.HasPrefix(op, "C16 epfull "):
			c16EpFull(out, endp, l, groups, op)
		}
	}
	if ops := vh.Replay(); ops != nil {
		for _, op := range ops {
			run(op)
		}
		return
	}
	for _, op := range c16SystematicAuth() {
		run(op)
	}
	for _, op := range []string{"C16 epfull ip 0 0", "C16 epfull ip 1 1", "C16 epfull source 0 1", "C16 epfull source 1 0", "C16 epfull ip 0 1", "C16 epfull source 0 0"} {
		run(op)
	}
	r := vh.NewRng(vh.Seed() + 1612)
	n := vh.N(4000) / 8
	for i := 0; i < n; i++ {
		run(c16GenAuth(r).Op())
	}
}
