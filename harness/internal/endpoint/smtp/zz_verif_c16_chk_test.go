package smtp

// C16, the failures the message pipeline makes out of the verdicts of checks (strengthening round 8):
// the DMARC verdict (checkRunner.applyResults over dmarc.Verifier.Apply / EvaluateAlignment) and the
// administrator's fail action of a check (modconfig.ParseActionDirective / FailAction.Apply).  Both run in
// the REAL pipeline (msgpipeline.Mock + Start / AddRcpt / Body) with a scripted check (testutils.Check) and a
// scripted resolver, twice per case: once called directly, where the error VALUE handed to the endpoint is
// kept, abstracted (vc16.Describe) and put through the real wrapErr / toSMTPErr, and once behind the REAL
// endpoint (go-smtp server, Session.Mail / Rcpt / Data) over an in-memory connection, where the reply is
// read from the wire.
//
//	C16 dmarc <utf8> <defer> <rec> <spf> <dkim>
//	   rec:  nx no record | tmp / tmpo the policy lookup (at the From domain / at the organisational domain) fails
//	         temporarily | err it fails otherwise | bad malformed record | multi two records |
//	         <w><p><sp>  w: d record at the From domain, o at the organisational domain (From is a subdomain);
//	         p, sp: n none, q quarantine, r reject, - (sp only) absent
//	   spf, dkim: - no result | <v><a>  v: p pass, f fail, t temperror, n none, e permerror;  a: a aligned, x not
//	C16 act <utf8> <defer> <stage> <action> <nargs> <code> <a.b.c> <msg> ; <tree|ok>
//	   stage: c CheckConnection, s CheckSender, r CheckRcpt, b CheckBody — where the check fails
//	   action: reject | quarantine | ignore | anything else;  nargs / code / a.b.c / msg: the arguments after it
//	   (the `reject` directive forms; x = not a number; msg: hex runes, - = empty string)
//	   tree: the check's own reason (package verr), ok = the check passes

import (
	"context"
	"errors"
	"fmt"
	"net"
	"regexp"
	"strconv"
	"strings"
	"sync"
	"testing"

	"github.com/emersion/go-message/textproto"
	"github.com/emersion/go-msgauth/authres"
	"github.com/emersion/go-smtp"
	"github.com/foxcpp/go-mockdns"
	"github.com/foxcpp/maddy/framework/buffer"
	modconfig "github.com/foxcpp/maddy/framework/config/module"
	"github.com/foxcpp/maddy/framework/exterrors"
	"github.com/foxcpp/maddy/framework/log"
	"github.com/foxcpp/maddy/framework/module"
	"github.com/foxcpp/maddy/internal/msgpipeline"
	"github.com/foxcpp/maddy/internal/target/queue"
	"github.com/foxcpp/maddy/internal/testutils"
	"github.com/foxcpp/maddy/internal/verifshim/vc16"
	"github.com/foxcpp/maddy/internal/verifshim/verr"
	"github.com/foxcpp/maddy/internal/verifshim/vh"
)

const (
	c16OrgDomain = "example.org"
	c16SubDomain = "sub.example.org"
	c16Foreign   = "other.example.net"
)

type c16ChkCase struct {
	kind        string // dmarc | act
	utf8, deferred bool
	// dmarc
	rec, spf, dkim string
	// act
	stage, action    string
	nargs            int
	code, ench, msgH string
	reason           *verr.Node // nil = the check passes
}

func c16b(b bool) string {
	if b {
		return "1"
	}
	return "0"
}

func (cs *c16ChkCase) Op() string {
	if cs.kind == "dmarc" {
		return fmt.Sprintf("C16 dmarc %s %s %s %s %s", c16b(cs.utf8), c16b(cs.deferred), cs.rec, cs.spf, cs.dkim)
	}
	r := "ok"
	if cs.reason != nil {
		r = cs.reason.String()
	}
	return fmt.Sprintf("C16 act %s %s %s %s %d %s %s %s ; %s", c16b(cs.utf8), c16b(cs.deferred), cs.stage, cs.action, cs.nargs, cs.code, cs.ench, cs.msgH, r)
}

func c16ParseChk(op string) (cs *c16ChkCase, err error) {
	defer func() {
		if r := recover(); r != nil {
			cs, err = nil, fmt.Errorf("unparsable op %q: %v", op, r)
		}
	}()
	t := strings.Fields(op)
	switch t[1] {
	case "dmarc":
		if len(t) != 7 {
			return nil, fmt.Errorf("unparsable op %q", op)
		}
		return &c16ChkCase{kind: "dmarc", utf8: t[2] == "1", deferred: t[3] == "1", rec: t[4], spf: t[5], dkim: t[6]}, nil
	case "act":
		cs = &c16ChkCase{kind: "act", utf8: t[2] == "1", deferred: t[3] == "1", stage: t[4], action: t[5], code: t[7], ench: t[8], msgH: t[9]}
		cs.nargs, _ = strconv.Atoi(t[6])
		if t[10] != ";" {
			return nil, fmt.Errorf("unparsable op %q", op)
		}
		if t[11] != "ok" {
			var rest []string
			cs.reason, rest = verr.Parse(t[11:])
			if len(rest) != 0 {
				return nil, fmt.Errorf("unparsable op %q", op)
			}
		}
		return cs, nil
	}
	return nil, fmt.Errorf("unparsable op %q", op)
}

// ---------------------------------------------------------------- the scripted world of one case

func c16AuthVal(ch byte) authres.ResultValue {
	switch ch {
	case 'p':
		return authres.ResultPass
	case 'f':
		return authres.ResultFail
	case 't':
		return authres.ResultTempError
	case 'n':
		return authres.ResultNone
	case 'e':
		return authres.ResultPermError
	}
	panic("bad result value")
}

func (cs *c16ChkCase) fromDomain() string {
	if cs.kind == "dmarc" && (cs.rec == "tmpo" || (len(cs.rec) == 3 && cs.rec[0] == 'o')) {
		return c16SubDomain
	}
	return c16OrgDomain
}

func c16PolicyWord(ch byte) string {
	return map[byte]string{'n': "none", 'q': "quarantine", 'r': "reject"}[ch]
}

func (cs *c16ChkCase) zones() (map[string]mockdns.Zone, error) {
	z := map[string]mockdns.Zone{}
	from := "_dmarc." + cs.fromDomain() + "."
	org := "_dmarc." + c16OrgDomain + "."
	switch cs.rec {
	case "nx":
	case "tmp":
		z[from] = mockdns.Zone{Err: &net.DNSError{Err: "server misbehaving", Name: from, IsTemporary: true}}
	case "tmpo":
		z[org] = mockdns.Zone{Err: &net.DNSError{Err: "server misbehaving", Name: org, IsTemporary: true}}
	case "err":
		z[from] = mockdns.Zone{Err: errors.New("resolver: read udp 10.0.0.53: connection refused")}
	case "bad":
		z[from] = mockdns.Zone{TXT: []string{"v=DMARC1; p=bogus"}}
	case "multi":
		z[from] = mockdns.Zone{TXT: []string{"v=DMARC1; p=reject", "v=DMARC1; p=none"}}
	default:
		if len(cs.rec) != 3 || strings.IndexByte("do", cs.rec[0]) < 0 || c16PolicyWord(cs.rec[1]) == "" ||
			(cs.rec[2] != '-' && c16PolicyWord(cs.rec[2]) == "") {
			return nil, fmt.Errorf("bad record token %q", cs.rec)
		}
		txt := "v=DMARC1; p=" + c16PolicyWord(cs.rec[1])
		if cs.rec[2] != '-' {
			txt += "; sp=" + c16PolicyWord(cs.rec[2])
		}
		z[org] = mockdns.Zone{TXT: []string{"some unrelated text record", txt}}
	}
	return z, nil
}

func (cs *c16ChkCase) authResults() ([]authres.Result, error) {
	var out []authres.Result
	dom := func(al byte) (string, error) {
		switch al {
		case 'a':
			return c16OrgDomain, nil
		case 'x':
			return c16Foreign, nil
		}
		return "", fmt.Errorf("bad alignment flag")
	}
	if cs.spf != "-" {
		if len(cs.spf) != 2 || strings.IndexByte("pftne", cs.spf[0]) < 0 {
			return nil, fmt.Errorf("bad spf token %q", cs.spf)
		}
		d, err := dom(cs.spf[1])
		if err != nil {
			return nil, err
		}
		out = append(out, &authres.SPFResult{Value: c16AuthVal(cs.spf[0]), From: d, Helo: "client.c16.example"})
	}
	if cs.dkim != "-" {
		if len(cs.dkim) != 2 || strings.IndexByte("pftne", cs.dkim[0]) < 0 {
			return nil, fmt.Errorf("bad dkim token %q", cs.dkim)
		}
		d, err := dom(cs.dkim[1])
		if err != nil {
			return nil, err
		}
		out = append(out, &authres.DKIMResult{Value: c16AuthVal(cs.dkim[0]), Domain: d, Identifier: "@" + d})
	}
	return out, nil
}

func (cs *c16ChkCase) actionArgs() []string {
	args := []string{cs.action}
	if cs.nargs >= 1 {
		if cs.code == "x" {
			args = append(args, "4x0")
		} else {
			args = append(args, cs.code)
		}
	}
	if cs.nargs >= 2 {
		if cs.ench == "x" {
			args = append(args, "5.7")
		} else {
			args = append(args, cs.ench)
		}
	}
	if cs.nargs >= 3 {
		args = append(args, vh.UnhexRunes(cs.msgH))
	}
	for len(args) < cs.nargs+1 {
		args = append(args, "extra")
	}
	return args
}

var errC16Config = errors.New("configuration refused")

// pipeline builds the real pipeline of the case: one scripted check in front of a recording sink.
func (cs *c16ChkCase) pipeline(tgt *testutils.Target) (*msgpipeline.MsgPipeline, error) {
	chk := &testutils.Check{InstName: "c16chk"}
	resolver := &mockdns.Resolver{Zones: map[string]mockdns.Zone{}}
	if cs.kind == "dmarc" {
		z, err := cs.zones()
		if err != nil {
			return nil, err
		}
		resolver.Zones = z
		ar, err := cs.authResults()
		if err != nil {
			return nil, err
		}
		chk.BodyRes = module.CheckResult{AuthResult: ar}
	} else {
		// what a check module does: the administrator's directive parsed once, applied to the result
		fa, err := modconfig.ParseActionDirective(cs.actionArgs())
		if err != nil {
			return nil, errC16Config
		}
		var reason error
		if cs.reason != nil {
			reason = cs.reason.Build()
		}
		res := fa.Apply(module.CheckResult{Reason: reason})
		switch cs.stage {
		case "c":
			chk.ConnRes = res
		case "s":
			chk.SenderRes = res
		case "r":
			chk.RcptRes = res
		case "b":
			chk.BodyRes = res
		default:
			return nil, fmt.Errorf("bad stage %q", cs.stage)
		}
	}
	p := msgpipeline.Mock(tgt, []module.Check{chk})
	p.Hostname = "mx.example.com"
	p.Resolver = resolver
	p.Log = log.Logger{Out: log.NopOutput{}}
	if cs.kind == "dmarc" {
		p.VerifC16EnableDMARC()
	}
	return p, nil
}

func (cs *c16ChkCase) header() textproto.Header {
	h := textproto.Header{}
	h.Add("Subject", "C16")
	h.Add("To", "<rcpt@example.com>")
	h.Add("From", "<sender@"+cs.fromDomain()+">")
	return h
}

// direct: the pipeline called the way the endpoint calls it; the first error is the value the endpoint
// would have to answer with.
func (cs *c16ChkCase) direct() (failure error, quarantined bool, cfgErr error) {
	tgt := &testutils.Target{}
	p, err := cs.pipeline(tgt)
	if err != nil {
		return nil, false, err
	}
	ctx := context.Background()
	meta := &module.MsgMetadata{ID: "c16direct", OriginalFrom: "sender@" + c16OrgDomain, DontTraceSender: true,
		SMTPOpts: smtp.MailOptions{UTF8: cs.utf8},
		Conn: &module.ConnState{Hostname: "client.c16.example", Proto: "ESMTP",
			RemoteAddr: &net.TCPAddr{IP: net.IPv4(192, 0, 2, 7), Port: 40025}}}
	d, err := p.Start(ctx, meta, "sender@"+c16OrgDomain)
	if err != nil {
		return err, false, nil
	}
	if err := d.AddRcpt(ctx, "rcpt@example.com", smtp.RcptOptions{}); err != nil {
		d.Abort(ctx) //nolint:errcheck
		return err, false, nil
	}
	if err := d.Body(ctx, cs.header(), buffer.MemoryBuffer{Slice: []byte("hello\r\n")}); err != nil {
		d.Abort(ctx) //nolint:errcheck
		return err, false, nil
	}
	if err := d.Commit(ctx); err != nil {
		return err, false, nil
	}
	return nil, meta.Quarantine, nil
}

var c16MsgID = regexp.MustCompile(` \(msg ID = [0-9a-f]+\)$`)

// wire: the same case behind the real endpoint; the first failure reply (or the acceptance of the data).
func (cs *c16ChkCase) wire(endp *Endpoint, l *c16Listener) (rp c16WireReply, accepted, quarantined bool, err error) {
	tgt := &testutils.Target{}
	p, perr := cs.pipeline(tgt)
	if perr != nil {
		return rp, false, false, perr
	}
	p.FirstPipeline = true
	oldP, oldDefer := endp.pipeline, endp.deferServerReject
	endp.pipeline, endp.deferServerReject = p, cs.deferred
	defer func() { endp.pipeline, endp.deferServerReject = oldP, oldDefer }()
	w, oerr := c16Open(l)
	if oerr != nil {
		return rp, false, false, oerr
	}
	defer w.quit()
	line := "MAIL FROM:<sender@" + c16OrgDomain + ">"
	if cs.utf8 {
		line += " SMTPUTF8"
	}
	steps := []string{line, "RCPT TO:<rcpt@example.com>", "DATA"}
	for _, s := range steps {
		rp = w.cmd(s)
		if rp.err != nil {
			return rp, false, false, rp.err
		}
		if rp.code >= 400 {
			return rp, false, false, nil
		}
	}
	if rp.code != 354 {
		return rp, false, false, fmt.Errorf("DATA answered %d", rp.code)
	}
	var b strings.Builder
	hdr := cs.header()
	for f := hdr.Fields(); f.Next(); {
		b.WriteString(f.Key() + ": " + f.Value() + "\r\n")
	}
	b.WriteString("\r\nhello\r\n.")
	rp = w.cmd(b.String())
	if rp.err != nil {
		return rp, false, false, rp.err
	}
	if rp.code >= 400 {
		return rp, false, false, nil
	}
	q := false
	if len(tgt.Messages) == 1 {
		q = tgt.Messages[0].MsgMeta.Quarantine
	} else {
		return rp, false, false, fmt.Errorf("data accepted (%d) but the sink has %d messages", rp.code, len(tgt.Messages))
	}
	return rp, true, q, nil
}

// ---------------------------------------------------------------- ground truth, from the script alone

// dmarcTruth: does the script leave the evaluation undecided for a temporary reason (the policy lookup
// failed temporarily; or an aligned identifier could not be checked right now and nothing else aligned
// passes) — then a refusal is a retry-later one; or is the verdict definitive.
func (cs *c16ChkCase) dmarcTruth() (temporary, definitive bool) {
	if cs.rec == "tmp" || cs.rec == "tmpo" {
		return true, false
	}
	if len(cs.rec) != 3 {
		return false, false
	}
	pass := cs.spf == "pa" || cs.dkim == "pa"
	undecided := cs.spf == "ta" || cs.dkim == "ta"
	if cs.spf == "-" || cs.dkim == "-" || pass {
		return false, false
	}
	if undecided {
		return true, false
	}
	return false, true
}

// inputInOrder: is what maddy was given in order?  the DMARC failure is all maddy's own; for a fail action
// the administrator's override has to pair codes of one class, without one the check's own reason counts.
func (cs *c16ChkCase) inputInOrder() bool {
	if cs.kind != "act" {
		return true
	}
	if cs.nargs >= 2 {
		a, _ := strconv.Atoi(strings.SplitN(cs.ench, ".", 2)[0])
		c, _ := strconv.Atoi(cs.code)
		return a == c/100
	}
	if cs.nargs == 1 {
		return true
	}
	return cs.reason == nil || verr.WellFormed(cs.reason)
}

func c16ChkRun(out *vh.Out, endp *Endpoint, l *c16Listener, conv vc16.Conv, cs *c16ChkCase) {
	op := cs.Op()
	failure, dq, cfgErr := cs.direct()
	if cfgErr != nil {
		if cfgErr == errC16Config {
			out.Corr(op, "cfgerr")
			out.Stat("chk.act.cfgerr")
		} else {
			out.Note("unparsable op: " + op + ": " + cfgErr.Error())
		}
		return
	}
	// a basic code that is not 4yz / 5yz (only a malformed reason of the check carries one: code 0, 250, 600)
	// cannot be spoken on the wire as a failure at all — go-smtp writes it as it is and the session is out of
	// step; such a value goes through the conversions only
	speakable := true
	if failure != nil {
		if r, ok := conv.WrapErr(!cs.utf8, failure).(*smtp.SMTPError); ok && (r.Code < 400 || r.Code > 599) {
			speakable = false
		}
	}
	if !speakable {
		out.Stat("chk.act.unspeakable-code")
		out.Corr(op, vc16.Run(conv, failure).Canon(nil)+" || wire unspeakable")
		vc16.Check(out, op, vc16.Run(conv, failure), cs.inputInOrder())
		return
	}
	rp, accepted, wq, err := cs.wire(endp, l)
	if err != nil {
		out.Violation("C16/no-reply", op, "the session ended without a final reply: "+err.Error())
		return
	}
	out.Stat("chk." + cs.kind)
	var obs string
	if failure == nil {
		obs = "ok q=" + c16b(dq)
	} else {
		obs = vc16.Run(conv, failure).Canon(nil)
	}
	if accepted {
		obs += " || wire ok q=" + c16b(wq)
	} else {
		ench := rp.ench
		if ench == "" {
			ench = "none"
		}
		text := c16MsgID.ReplaceAllString(rp.text(), "")
		m := "text:" + vh.HexRunes(text)
		switch text {
		case "Internal server error":
			m = "generic"
		case "High load, try again later":
			m = "highload"
		}
		obs += fmt.Sprintf(" || wire %d %s %s", rp.code, ench, m)
	}
	out.Corr(op, obs)

	// ---- the property itself
	if (failure == nil) != accepted {
		out.Violation("C16/wire-vs-pipeline-decision", op, fmt.Sprintf("the pipeline called directly fails=%v, the endpoint accepted=%v (reply %d)", failure != nil, accepted, rp.code))
		return
	}
	if failure == nil {
		out.Stat(fmt.Sprintf("chk.%s.accepted.q%s", cs.kind, c16b(dq)))
		if dq != wq {
			out.Violation("C16/wire-vs-pipeline-decision", op, fmt.Sprintf("quarantined: directly %v, behind the endpoint %v", dq, wq))
		}
		return
	}
	out.Stat(fmt.Sprintf("chk.%s.refused.%d", cs.kind, rp.code/100))
	// is what maddy was given in order?  the DMARC failure is all maddy's own; for a fail action the
	// administrator's override has to pair codes of one class, without one the check's own reason counts
	inputOk := true
	var override *exterrors.SMTPError
	if cs.kind == "act" {
		fa, _ := modconfig.ParseActionDirective(cs.actionArgs())
		override = fa.ReasonOverride
		inputOk = cs.inputInOrder()
		if cs.nargs >= 2 {
			out.Stat("chk.act.override.explicit-enhanced-code")
		} else if cs.nargs == 1 {
			out.Stat("chk.act.override.basic-code-only")
		} else {
			out.Stat("chk.act.override.none")
		}
		if !inputOk {
			out.Stat("chk.act.input-not-in-order")
		}
		if t, known := verr.TempOf(cs.reason); !known {
			out.Stat("chk.act.reason.unclassified")
		} else if t {
			out.Stat("chk.act.reason.temporary")
		} else {
			out.Stat("chk.act.reason.permanent")
		}
	}
	seen := vc16.Run(conv, failure)
	vc16.Check(out, op, seen, inputOk)

	// the reply on the wire
	cls := rp.code / 100
	if inputOk && ((cls != 4 && cls != 5) || rp.ench == "" || int(rp.ench[0]-'0') != cls) {
		e := rp.ench
		if e == "" {
			e = "none"
		}
		out.Violation("C16/endpoint-class-mismatch", op, fmt.Sprintf("reply on the wire %d %s %q", rp.code, e, c16MsgID.ReplaceAllString(rp.text(), "")))
	}
	if !cs.utf8 {
		for _, ch := range rp.text() {
			if ch >= 0x80 {
				out.Violation("C16/non-ascii-reply", op, fmt.Sprintf("U+%04X in the reply on the wire to a non-SMTPUTF8 client", ch))
				break
			}
		}
	}
	text := c16MsgID.ReplaceAllString(rp.text(), "")
	if _, annotated := exterrors.Fields(failure)["smtp_msg"].(string); !annotated && override == nil && (cs.reason == nil || !verr.MsgAnnotated(cs.reason)) {
		if text != "Internal server error" && text != "High load, try again later" {
			out.Violation("C16/endpoint-discloses-detail", op, "message on the wire "+strconv.Quote(text))
		}
	}
	// the class of the reply agrees with how the failure is to be treated
	switch cs.kind {
	case "dmarc":
		temporary, definitive := cs.dmarcTruth()
		if temporary {
			out.Stat("chk.dmarc.refused.undecided")
			if cls != 4 {
				out.Violation("C16/endpoint-temporary-not-4yz", op, fmt.Sprintf("the DMARC evaluation could not be completed for a temporary reason, the refusal on the wire is %d %s", rp.code, rp.ench))
			}
			if !seen.Retried {
				out.Violation("C16/queue-temporary-not-retried", op, "the DMARC evaluation could not be completed for a temporary reason, the queue would not retry")
			}
		}
		if definitive {
			out.Stat("chk.dmarc.refused.definitive")
			if cls != 5 {
				out.Violation("C16/endpoint-permanent-not-5yz", op, fmt.Sprintf("the DMARC verdict is a definitive fail, the refusal on the wire is %d %s", rp.code, rp.ench))
			}
			if seen.Retried {
				out.Violation("C16/queue-permanent-retried", op, "the DMARC verdict is a definitive fail, the queue would retry")
			}
		}
	case "act":
		if !inputOk {
			break
		}
		// the treatment: the administrator's status when there is one, the check's own classification otherwise
		want, known := 0, false
		// (a deadline anywhere in the value is answered "451 4.4.5 High load" by the endpoint whatever surrounds
		// it: the exception every C16 monitor makes)
		if verr.HasDeadline(cs.reason) {
			out.Stat("chk.act.reason.deadline")
		} else if override != nil {
			want, known = override.Code/100, true
		} else if t, k := verr.TempOf(cs.reason); k {
			known = true
			want = 5
			if t {
				want = 4
			}
		}
		if known && cls != want {
			sig := "C16/endpoint-permanent-not-5yz"
			if want == 4 {
				sig = "C16/endpoint-temporary-not-4yz"
			}
			out.Violation(sig, op, fmt.Sprintf("the failure is to be treated as %dyz, the reply on the wire is %d %s", want, rp.code, rp.ench))
		}
	}
}

// ---------------------------------------------------------------- generators

var c16IdTokens = []string{"-", "pa", "px", "fa", "fx", "ta", "tx", "na", "ea", "ex"}

func c16RecTokens() []string {
	recs := []string{"nx", "tmp", "tmpo", "err", "bad", "multi"}
	for _, w := range "do" {
		for _, p := range "nqr" {
			for _, sp := range "-nqr" {
				recs = append(recs, string([]rune{w, p, sp}))
			}
		}
	}
	return recs
}

func c16SystematicChk() []string {
	var ops []string
	k := 0
	flags := func() (bool, bool) { k++; return k%2 == 0, k%3 != 0 }
	// every lookup outcome x the identifier results that decide the verdict
	pairs := [][2]string{{"-", "-"}, {"pa", "px"}, {"px", "pa"}, {"px", "px"}, {"fa", "fa"}, {"ta", "fx"}, {"fx", "ta"},
		{"tx", "tx"}, {"ta", "pa"}, {"-", "pa"}, {"na", "ea"}, {"ta", "ta"}}
	for _, rec := range c16RecTokens() {
		for _, pr := range pairs {
			u, d := flags()
			ops = append(ops, (&c16ChkCase{kind: "dmarc", utf8: u, deferred: d, rec: rec, spf: pr[0], dkim: pr[1]}).Op())
		}
	}
	// every action form x every kind of reason of the check
	type form struct {
		nargs           int
		code, ench, msg string
	}
	forms := []form{{0, "x", "x", "-"}, {1, "550", "x", "-"}, {1, "450", "x", "-"}, {2, "451", "4.7.1", "-"}, {2, "550", "5.7.27", "-"},
		{3, "554", "5.7.0", vh.HexRunes("Go away")}, {3, "450", "4.7.0", vh.HexRunes("revenez plus tard, café fermé")},
		{3, "521", "5.3.2", vh.HexRunes("no mail here")}, {2, "450", "5.7.1", "-"}, {3, "550", "4.7.1", vh.HexRunes("mixed")}}
	reasons := []string{
		"S 450 4 7 25 " + vh.HexRunes("DNS error during policy check"), "S 550 5 7 25 " + vh.HexRunes("No PTR record"),
		"P", "T 1 P", "T 0 P", "N 1", "N 0", "D", "T 1 N 0", "F - - _ T 1 P",
		"W 451 4 7 0 " + vh.HexRunes("Try again later") + " N 1", "R 421 4 3 2 " + vh.HexRunes("Service shutting down"),
		"T 1 S 450 4 4 3 " + vh.HexRunes("résolveur en panne"), "F - - " + vh.HexRunes("rejected by policy") + " T 0 P",
	}
	stages := []string{"b", "r", "s", "c"}
	for _, act := range []string{"reject", "quarantine", "ignore"} {
		for fi, f := range forms {
			for ri, rs := range reasons {
				if act != "reject" && (fi+ri)%4 != 0 {
					continue // quarantine / ignore never refuse: a quarter of the grid is enough
				}
				u, d := flags()
				n, _ := verr.Parse(strings.Fields(rs))
				ops = append(ops, (&c16ChkCase{kind: "act", utf8: u, deferred: d, stage: stages[(fi+ri)%4], action: act,
					nargs: f.nargs, code: f.code, ench: f.ench, msgH: f.msg, reason: n}).Op())
			}
		}
	}
	// directives that must be refused, and checks that pass
	for _, f := range []form{{1, "250", "x", "-"}, {1, "x", "x", "-"}, {2, "550", "6.1.1", "-"}, {2, "550", "x", "-"}, {3, "550", "5.7.1", "-"}, {4, "550", "5.7.1", vh.HexRunes("a")}, {1, "600", "x", "-"}} {
		n, _ := verr.Parse([]string{"P"})
		ops = append(ops, (&c16ChkCase{kind: "act", stage: "b", action: "reject", nargs: f.nargs, code: f.code, ench: f.ench, msgH: f.msg, reason: n}).Op())
	}
	ops = append(ops, "C16 act 0 1 b bounce 0 x x - ; P", "C16 act 0 1 b reject 2 550 5.7.1 - ; ok", "C16 act 1 0 r quarantine 0 x x - ; ok", "C16 act 1 0 s ignore 1 550 x - ; T 1 P")
	return ops
}

func c16GenChk(r *vh.Rng) *c16ChkCase {
	cs := &c16ChkCase{utf8: r.Bool(), deferred: r.Chance(70)}
	if r.Chance(40) {
		cs.kind = "dmarc"
		recs := c16RecTokens()
		cs.rec = recs[r.Intn(len(recs))]
		if r.Chance(35) {
			cs.rec = r.Pick("drr", "dr-", "or-", "onr", "tmp", "tmpo", "dq-")
		}
		cs.spf = c16IdTokens[r.Intn(len(c16IdTokens))]
		cs.dkim = c16IdTokens[r.Intn(len(c16IdTokens))]
		if r.Chance(30) {
			cs.spf, cs.dkim = r.Pick("ta", "fx", "fa", "tx"), r.Pick("ta", "fx", "fa", "ea")
		}
		return cs
	}
	cs.kind = "act"
	cs.stage = r.Pick("c", "s", "r", "b")
	cs.action = r.Pick("reject", "reject", "reject", "reject", "quarantine", "ignore")
	if r.Chance(2) {
		cs.action = r.Pick("bounce", "REJECT", "")
		if cs.action == "" {
			cs.action = "drop"
		}
	}
	cs.nargs = []int{0, 1, 1, 2, 2, 3, 3, 3, 4}[r.Intn(9)]
	cs.code = r.Pick("450", "451", "421", "452", "550", "554", "521", "552", "500", "550", "554")
	if r.Chance(6) {
		cs.code = r.Pick("250", "354", "600", "99", "0", "x")
	}
	cls := cs.code[:1]
	switch p := r.Intn(100); {
	case p < 75 && (cls == "4" || cls == "5"):
		cs.ench = fmt.Sprintf("%s.%d.%d", cls, r.Intn(8), r.Intn(30))
	case p < 93:
		cs.ench = fmt.Sprintf("%d.%d.%d", 4+r.Intn(2), r.Intn(8), r.Intn(30))
	default:
		cs.ench = r.Pick("2.0.0", "0.7.0", "6.1.1", "x")
	}
	cs.msgH = vh.HexRunes(r.Pick("Go away", "Message rejected", "nicht erwünscht — später", "\u0080", "try later", "x"))
	if r.Chance(4) {
		cs.msgH = "-"
	}
	switch p := r.Intn(100); {
	case p < 6:
	case p < 40:
		n, _ := verr.Parse(strings.Fields(r.Pick("P", "T 1 P", "T 0 P", "N 1", "N 0", "D", "T 1 N 0", "F - - _ T 1 P", "T 1 D")))
		cs.reason = n
	case p < 85:
		cs.reason = verr.Gen(r, r.Intn(4), true)
	default:
		cs.reason = verr.Gen(r, 1+r.Intn(3), false)
	}
	return cs
}

// ---------------------------------------------------------------- entry

func TestVerifC16Checks(t *testing.T) {
	out := vh.Open("c16_chk")
	defer out.Close()
	// the cases are independent: a few workers, each with a real endpoint of its own (the pipeline of the
	// case is installed into the endpoint for the duration of the session)
	worker := func(ops <-chan string, wg *sync.WaitGroup) {
		defer wg.Done()
		endp, l := c16AuthEndpoint(t)
		defer endp.Close()
		conv := vc16.Conv{
			WrapErr:   func(mangleUTF8 bool, err error) error { return endp.wrapErr("", mangleUTF8, "DATA", err) },
			ToSMTPErr: queue.VerifC16ToSMTPErr,
		}
		for op := range ops {
			if !strings.HasPrefix(op, "C16 dmarc ") && !strings.HasPrefix(op, "C16 act ") {
				continue
			}
			cs, err := c16ParseChk(op)
			if err != nil {
				out.Note(err.Error())
				continue
			}
			c16ChkRun(out, endp, l, conv, cs)
		}
	}
	ops := vh.Replay()
	workers := 1
	if ops == nil {
		workers = 4
		ops = c16SystematicChk()
		r := vh.NewRng(vh.Seed() + 1613)
		n := vh.N(4000) / 10
		for i := 0; i < n; i++ {
			ops = append(ops, c16GenChk(r).Op())
		}
	}
	ch := make(chan string)
	var wg sync.WaitGroup
	for i := 0; i < workers; i++ {
		wg.Add(1)
		go worker(ch, &wg)
	}
	for _, op := range ops {
		ch <- op
	}
	close(ch)
	wg.Wait()
}
