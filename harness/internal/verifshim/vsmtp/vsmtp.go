// Package vsmtp is a scriptable SMTP/LMTP next hop (a go-smtp server) for the
// verification harnesses: per-recipient RCPT refusals, DATA failure, per-recipient
// LMTP statuses, SMTPUTF8 on/off; it records what it accepted per transaction.
package vsmtp

import (
	"io"
	"net"
	"sync"

	"github.com/emersion/go-smtp"
	"github.com/foxcpp/maddy/framework/address"
)

type Tx struct {
	From string
	To   []string // as received
	Data []byte
	Done bool // DATA completed successfully
}

type Script struct {
	mu         sync.Mutex
	RejectRcpt map[string]int // lookup key of the address -> reply code
	DataFail   int            // reply code for DATA (0 = accept)
	LMTPStatus map[string]int // lookup key -> per-recipient LMTP status code (0 = ok)
	MailFail   int
	Txs        []*Tx
	Sessions   int
}

func key(a string) string {
	k, _ := address.ForLookup(a)
	return k
}

func (s *Script) Set(f func(*Script)) {
	s.mu.Lock()
	defer s.mu.Unlock()
	f(s)
}

type backend struct{ s *Script }

type session struct {
	s  *Script
	tx *Tx
}

func (b backend) NewSession(_ *smtp.Conn) (smtp.Session, error) {
	b.s.mu.Lock()
	b.s.Sessions++
	b.s.mu.Unlock()
	return &session{s: b.s}, nil
}

func smtpErr(code int, msg string) error {
	cls := code / 100
	return &smtp.SMTPError{Code: code, EnhancedCode: smtp.EnhancedCode{cls, 0, 0}, Message: msg}
}

func (s *session) Reset()        { s.tx = nil }
func (s *session) Logout() error { return nil }
func (s *session) Mail(from string, _ *smtp.MailOptions) error {
	s.s.mu.Lock()
	defer s.s.mu.Unlock()
	if s.s.MailFail != 0 {
		return smtpErr(s.s.MailFail, "mail refused")
	}
	s.tx = &Tx{From: from}
	s.s.Txs = append(s.s.Txs, s.tx)
	return nil
}

func (s *session) Rcpt(to string, _ *smtp.RcptOptions) error {
	s.s.mu.Lock()
	defer s.s.mu.Unlock()
	if c := s.s.RejectRcpt[key(to)]; c != 0 {
		return smtpErr(c, "recipient refused")
	}
	s.tx.To = append(s.tx.To, to)
	return nil
}

func (s *session) Data(r io.Reader) error {
	b, err := io.ReadAll(r)
	if err != nil {
		return err
	}
	s.s.mu.Lock()
	defer s.s.mu.Unlock()
	if s.s.DataFail != 0 {
		return smtpErr(s.s.DataFail, "data refused")
	}
	s.tx.Data = b
	s.tx.Done = true
	return nil
}

func (s *session) LMTPData(r io.Reader, status smtp.StatusCollector) error {
	b, err := io.ReadAll(r)
	if err != nil {
		return err
	}
	s.s.mu.Lock()
	defer s.s.mu.Unlock()
	if s.s.DataFail != 0 {
		return smtpErr(s.s.DataFail, "data refused")
	}
	s.tx.Data = b
	s.tx.Done = true
	for _, rcpt := range s.tx.To {
		if c := s.s.LMTPStatus[key(rcpt)]; c != 0 {
			status.SetStatus(rcpt, smtpErr(c, "mailbox problem"))
		} else {
			status.SetStatus(rcpt, nil)
		}
	}
	return nil
}

// FreePort returns a TCP port that is free on 127.0.0.1 right now (other test processes run
// concurrently on this machine; fixed or random ports collide).
func FreePort() string {
	l, err := net.Listen("tcp", "127.0.0.1:0")
	if err != nil {
		return "52525"
	}
	defer l.Close()
	_, p, _ := net.SplitHostPort(l.Addr().String())
	return p
}

type Server struct {
	Script *Script
	srv    *smtp.Server
	l      net.Listener
}

// Start listens on addr ("127.0.0.1:port").
func Start(addr string, utf8, lmtp bool) (*Server, error) {
	l, err := net.Listen("tcp", addr)
	if err != nil {
		return nil, err
	}
	sc := &Script{RejectRcpt: map[string]int{}, LMTPStatus: map[string]int{}}
	srv := smtp.NewServer(backend{sc})
	srv.Domain = "mx.example.invalid"
	srv.AllowInsecureAuth = true
	srv.EnableSMTPUTF8 = utf8
	srv.LMTP = lmtp
	go srv.Serve(l)
	// make sure Serve has started
	c, err := net.Dial("tcp", addr)
	if err == nil {
		c.Close()
	}
	return &Server{Script: sc, srv: srv, l: l}, nil
}

func (s *Server) Close() { s.srv.Close() }
