// Package vsmtp is a scriptable SMTP/LMTP next hop (a go-smtp server) for the
// verification harnesses: per-recipient RCPT refusals, DATA failure, per-recipient
// LMTP statuses, SMTPUTF8 on/off; it records what it accepted per transaction.
package vsmtp

import (
	"bufio"
	"fmt"
	"io"
	"net"
	"strings"
	"sync"

	"github.com/emersion/go-smtp"
	"github.com/foxcpp/maddy/framework/address"
)

type Tx struct {
	From string
	To   []string // as received
	Data []byte
	Done bool // DATA completed successfully
}

type Script struct {
	mu         sync.Mutex
	RejectRcpt map[string]int // lookup key of the address -> reply code
	DataFail   int            // reply code for DATA (0 = accept)
	LMTPStatus map[string]int // lookup key -> per-recipient LMTP status code (0 = ok)
	MailFail   int
	Txs        []*Tx
	Sessions   int
}

func key(a string) string {
	k, _ := address.ForLookup(a)
	return k
}

func (s *Script) Set(f func(*Script)) {
	s.mu.Lock()
	defer s.mu.Unlock()
	f(s)
}

type backend struct{ s *Script }

type session struct {
	s  *Script
	tx *Tx
}

func (b backend) NewSession(_ *smtp.Conn) (smtp.Session, error) {
	b.s.mu.Lock()
	b.s.Sessions++
	b.s.mu.Unlock()
	return &session{s: b.s}, nil
}

func smtpErr(code int, msg string) error {
	cls := code / 100
	return &smtp.SMTPError{Code: code, EnhancedCode: smtp.EnhancedCode{cls, 0, 0}, Message: msg}
}

func (s *session) Reset()        { s.tx = nil }
func (s *session) Logout() error { return nil }
func (s *session) Mail(from string, _ *smtp.MailOptions) error {
	s.s.mu.Lock()
	defer s.s.mu.Unlock()
	if s.s.MailFail != 0 {
		return smtpErr(s.s.MailFail, "mail refused")
	}
	s.tx = &Tx{From: from}
	s.s.Txs = append(s.s.Txs, s.tx)
	return nil
}

func (s *session) Rcpt(to string, _ *smtp.RcptOptions) error {
	s.s.mu.Lock()
	defer s.s.mu.Unlock()
	if c := s.s.RejectRcpt[key(to)]; c != 0 {
		return smtpErr(c, "recipient refused")
	}
	s.tx.To = append(s.tx.To, to)
	return nil
}

func (s *session) Data(r io.Reader) error {
	b, err := io.ReadAll(r)
	if err != nil {
		return err
	}
	s.s.mu.Lock()
	defer s.s.mu.Unlock()
	if s.s.DataFail != 0 {
		return smtpErr(s.s.DataFail, "data refused")
	}
	s.tx.Data = b
	s.tx.Done = true
	return nil
}

func (s *session) LMTPData(r io.Reader, status smtp.StatusCollector) error {
	b, err := io.ReadAll(r)
	if err != nil {
		return err
	}
	s.s.mu.Lock()
	defer s.s.mu.Unlock()
	if s.s.DataFail != 0 {
		return smtpErr(s.s.DataFail, "data refused")
	}
	s.tx.Data = b
	s.tx.Done = true
	for _, rcpt := range s.tx.To {
		if c := s.s.LMTPStatus[key(rcpt)]; c != 0 {
			status.SetStatus(rcpt, smtpErr(c, "mailbox problem"))
		} else {
			status.SetStatus(rcpt, nil)
		}
	}
	return nil
}

// FreePort returns a TCP port that is free on 127.0.0.1 right now (other test processes run
// concurrently on this machine; fixed or random ports collide).
func FreePort() string {
	l, err := net.Listen("tcp", "127.0.0.1:0")
	if err != nil {
		return "52525"
	}
	defer l.Close()
	_, p, _ := net.SplitHostPort(l.Addr().String())
	return p
}

func NewScript() *Script { return &Script{RejectRcpt: map[string]int{}, LMTPStatus: map[string]int{}} }

type Server struct {
	Script *Script
	srv    *smtp.Server
	l      net.Listener
}

// Start listens on addr ("127.0.0.1:port").
func Start(addr string, utf8, lmtp bool) (*Server, error) {
	l, err := net.Listen("tcp", addr)
	if err != nil {
		return nil, err
	}
	sc := &Script{RejectRcpt: map[string]int{}, LMTPStatus: map[string]int{}}
	srv := smtp.NewServer(backend{sc})
	srv.Domain = "mx.example.invalid"
	srv.AllowInsecureAuth = true
	srv.EnableSMTPUTF8 = utf8
	srv.LMTP = lmtp
	go srv.Serve(l)
	// make sure Serve has started
	c, err := net.Dial("tcp", addr)
	if err == nil {
		c.Close()
	}
	return &Server{Script: sc, srv: srv, l: l}, nil
}

func (s *Server) Close() {
	if s.srv != nil {
		s.srv.Close()
	}
}

// RawLMTP is a hand-written LMTP responder used to misbehave in ways go-smtp's server cannot:
// after the final dot it sends only the first SendStatuses per-recipient replies and then drops
// the connection.
type RawLMTP struct {
	l            net.Listener
	mu           sync.Mutex
	SendStatuses int   // how many per-recipient replies to send before closing (-1 = all)
	StatusCodes  []int // reply code per accepted recipient, in RCPT order (0/250 = ok)
	StatusByKey  map[string]int // if non-nil: reply code per recipient lookup key (overrides StatusCodes)
	UTF8         bool
	RejectRcpt   map[string]int
	Accepted     []string
	Delivered    []string // recipients (as received) for which a 250 per-recipient reply was sent
}

// Set changes the script under the responder's lock.
func (r *RawLMTP) Set(f func(*RawLMTP)) {
	r.mu.Lock()
	defer r.mu.Unlock()
	f(r)
}

func StartRawLMTP(addr string) (*RawLMTP, error) {
	l, err := net.Listen("tcp", addr)
	if err != nil {
		return nil, err
	}
	r := &RawLMTP{l: l, SendStatuses: -1, RejectRcpt: map[string]int{}}
	go r.serve()
	return r, nil
}

func (r *RawLMTP) Close() { r.l.Close() }

func (r *RawLMTP) serve() {
	for {
		c, err := r.l.Accept()
		if err != nil {
			return
		}
		go r.handle(c)
	}
}

func (r *RawLMTP) handle(c net.Conn) {
	defer c.Close()
	br := bufio.NewReader(c)
	w := func(s string) { c.Write([]byte(s + "\r\n")) }
	w("220 raw.example.invalid LMTP ready")
	var accepted []string
	for {
		line, err := br.ReadString('\n')
		if err != nil {
			return
		}
		cmd := strings.ToUpper(strings.TrimSpace(line))
		switch {
		case strings.HasPrefix(cmd, "LHLO"):
			w("250-raw.example.invalid")
			if r.UTF8 {
				w("250-SMTPUTF8")
			}
			w("250-ENHANCEDSTATUSCODES")
			w("250 8BITMIME")
		case strings.HasPrefix(cmd, "MAIL"):
			accepted = nil
			w("250 2.1.0 ok")
		case strings.HasPrefix(cmd, "RCPT"):
			a := strings.TrimSpace(line)
			if i := strings.Index(a, "<"); i >= 0 {
				a = a[i+1:]
				if j := strings.Index(a, ">"); j >= 0 {
					a = a[:j]
				}
			}
			r.mu.Lock()
			code := r.RejectRcpt[key(a)]
			r.mu.Unlock()
			if code != 0 {
				w(fmt.Sprintf("%d %d.1.1 refused", code, code/100))
			} else {
				accepted = append(accepted, a)
				w("250 2.1.5 ok")
			}
		case strings.HasPrefix(cmd, "DATA"):
			w("354 go ahead")
			for {
				l, err := br.ReadString('\n')
				if err != nil {
					return
				}
				if l == ".\r\n" || l == ".\n" {
					break
				}
			}
			r.mu.Lock()
			r.Accepted = append([]string{}, accepted...)
			n := r.SendStatuses
			codes := r.StatusCodes
			if r.StatusByKey != nil {
				codes = nil
				for _, a := range accepted {
					codes = append(codes, r.StatusByKey[key(a)])
				}
			}
			r.mu.Unlock()
			if n < 0 || n > len(accepted) {
				n = len(accepted)
			}
			for i := 0; i < n; i++ {
				code := 250
				if i < len(codes) && codes[i] != 0 {
					code = codes[i]
				}
				if code == 250 {
					r.mu.Lock()
					r.Delivered = append(r.Delivered, accepted[i])
					r.mu.Unlock()
					w("250 2.0.0 delivered")
				} else {
					w(fmt.Sprintf("%d %d.2.0 mailbox problem", code, code/100))
				}
			}
			if n < len(accepted) {
				return // drop the connection mid-way
			}
		case strings.HasPrefix(cmd, "RSET"), strings.HasPrefix(cmd, "NOOP"):
			w("250 2.0.0 ok")
		case strings.HasPrefix(cmd, "QUIT"):
			w("221 2.0.0 bye")
			return
		default:
			w("500 5.5.1 what")
		}
	}
}
