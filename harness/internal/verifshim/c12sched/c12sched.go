// Package c12sched is the scheduling shim of the C12 harness (time wheel / queue shutdown).
// It exists only inside the `go test -overlay` of /verif; timewheel.go and queue.go are replaced
// by mechanically rewritten copies (tools/extract c12rewrite) that call Point before every
// synchronisation statement, start goroutines through Go and read the clock through Now/NewTimer.
//
// Goroutines that were not started under a controller (every other test of the package) pass
// through all of this untouched.
//
// Two modes:
//   - controlled: exactly one goroutine runs at a time; each one parks at its next Point and the
//     harness decides who moves (a given schedule is replayed deterministically; virtual clock);
//   - free: real scheduler, real clock; Point injects seeded yields and delays (at most
//     `Delays` long ones per scenario, PCT-style).
package c12sched

import (
	"context"
	"runtime"
	"runtime/pprof"
	"sync"
	"sync/atomic"
	"time"
	"unsafe"
)

const Unit = time.Millisecond // one tick of the virtual clock

type G struct {
	ID       int
	Name     string
	ctl      *Ctl
	wake     chan struct{}
	Label    string // point the goroutine is parked at (controlled mode)
	Finished bool
	Panic    interface{}
	Tag      interface{} // harness data
	fmu      sync.Mutex
	doneCh   chan struct{}
}

// Wait blocks until the goroutine has returned (free mode); false on time-out.
func (g *G) Wait(d time.Duration) bool {
	select {
	case <-g.doneCh:
		return true
	case <-time.After(d):
		return false
	}
}

// Result: has the goroutine returned, and with which panic value (safe from any goroutine).
func (g *G) Result() (finished bool, panicValue interface{}) {
	g.fmu.Lock()
	defer g.fmu.Unlock()
	return g.Finished, g.Panic
}

type Timer struct {
	C        <-chan time.Time
	c        chan time.Time
	rt       *time.Timer
	ctl      *Ctl
	Deadline int64 // virtual units
	Stopped  bool
	Fired    bool
}

type Ctl struct {
	Controlled bool
	Base       time.Time
	now        int64

	mu      sync.Mutex
	Gs      []*G
	Timers  []*Timer
	report  chan *G
	pending int32
	// Auto tells which points are passed without a scheduling decision (controlled mode).
	Auto func(label string) bool
	// OnSpawn is called (in the spawning goroutine) when the code under test starts a goroutine.
	OnSpawn func(parent, child *G)
	Timeout time.Duration

	// free mode
	rngState   uint64
	YieldPct   int
	Delays     []int64 // global point indices at which a long delay is injected
	DelayDur   time.Duration
	pointCount int64
	LabelCount map[string]int
}

// Which goroutine is running?  Every goroutine started through the shim gets profiler labels of its
// own (runtime/pprof.SetGoroutineLabels); the pointer to them, which the runtime keeps in the g, is
// the key.  (Parsing runtime.Stack output costs ~10µs per call and serialises all goroutines of the
// test binary on the runtime's print lock: half of the harness's CPU time.)  Goroutines the code under
// test starts with a plain `go` would inherit the labels of their parent: the rewritten files start
// all of theirs through Go.
//
//go:linkname getProfLabel runtime/pprof.runtime_getProfLabel
func getProfLabel() unsafe.Pointer

var byLabel sync.Map // label pointer -> *G

func current() *G {
	p := getProfLabel()
	if p == nil {
		return nil
	}
	if v, ok := byLabel.Load(uintptr(p)); ok {
		return v.(*G)
	}
	return nil
}

// Current: the shim goroutine the caller runs in (nil: not started through the shim).
func Current() *G { return current() }

func NewControlled() *Ctl {
	return &Ctl{Controlled: true, Base: time.Date(2030, 1, 1, 0, 0, 0, 0, time.UTC), report: make(chan *G, 64), Timeout: 30 * time.Second}
}

func NewFree(seed uint64, yieldPct int, delays []int64, delayDur time.Duration) *Ctl {
	return &Ctl{Base: time.Now(), rngState: seed*0x9E3779B97F4A7C15 + 77, YieldPct: yieldPct, Delays: delays, DelayDur: delayDur, LabelCount: map[string]int{}}
}

func (c *Ctl) rnd() uint64 {
	c.mu.Lock()
	c.rngState += 0x9E3779B97F4A7C15
	z := c.rngState
	c.mu.Unlock()
	z = (z ^ (z >> 30)) * 0xBF58476D1CE4E5B9
	z = (z ^ (z >> 27)) * 0x94D049BB133111EB
	return z ^ (z >> 31)
}

// ---- goroutines ----

func (c *Ctl) start(name string, fn func(), parent *G) *G {
	g := &G{Name: name, ctl: c, wake: make(chan struct{}, 1), doneCh: make(chan struct{})}
	c.mu.Lock()
	g.ID = len(c.Gs)
	c.Gs = append(c.Gs, g)
	c.mu.Unlock()
	if c.Controlled {
		atomic.AddInt32(&c.pending, 1)
	}
	if c.OnSpawn != nil {
		c.OnSpawn(parent, g)
	}
	go func() {
		pprof.SetGoroutineLabels(pprof.WithLabels(context.Background(), pprof.Labels("c12sched", name)))
		id := uintptr(getProfLabel())
		byLabel.Store(id, g)
		defer func() {
			r := recover()
			byLabel.Delete(id)
			g.fmu.Lock()
			g.Panic = r
			g.Finished = true
			g.Label = ""
			g.fmu.Unlock()
			close(g.doneCh)
			if c.Controlled {
				c.report <- g
			}
		}()
		fn()
	}()
	return g
}

// Spawn starts fn as a goroutine known to the controller. Called by the harness itself.
// In controlled mode it returns once the goroutine is parked at its first point (or finished).
func (c *Ctl) Spawn(name string, fn func()) (*G, bool) {
	g := c.start(name, fn, nil)
	if c.Controlled {
		return g, c.await()
	}
	return g, true
}

// Go replaces the `go` statement in the rewritten files.
func Go(label string, fn func()) {
	p := current()
	if p == nil {
		go fn()
		return
	}
	p.ctl.start(label, fn, p)
}

// ---- points ----

func Point(label string) {
	g := current()
	if g == nil {
		return
	}
	g.point(label)
}

func (g *G) point(label string) {
	c := g.ctl
	if !c.Controlled {
		c.freePoint(label)
		return
	}
	if c.Auto != nil && c.Auto(label) {
		return
	}
	g.Label = label
	c.report <- g
	<-g.wake
}

func (c *Ctl) freePoint(label string) {
	n := atomic.AddInt64(&c.pointCount, 1)
	c.mu.Lock()
	c.LabelCount[label]++
	c.mu.Unlock()
	for _, d := range c.Delays {
		if d == n {
			time.Sleep(c.DelayDur)
			return
		}
	}
	r := c.rnd()
	if int(r%100) < c.YieldPct {
		if (r>>8)%4 == 0 {
			time.Sleep(time.Duration((r>>16)%50) * time.Microsecond)
		} else {
			runtime.Gosched()
		}
	}
}

// await waits until every goroutine that was released (or started) has parked or finished.
func (c *Ctl) await() bool {
	for atomic.LoadInt32(&c.pending) > 0 {
		select {
		case <-c.report:
			atomic.AddInt32(&c.pending, -1)
		case <-time.After(c.Timeout):
			return false
		}
	}
	return true
}

// Grant lets the given parked goroutines take their step (in this order) and waits until they and
// whatever they started are parked again. false = something blocked for real (hang).
func (c *Ctl) Grant(gs ...*G) bool {
	atomic.AddInt32(&c.pending, int32(len(gs)))
	for _, g := range gs {
		g.wake <- struct{}{}
	}
	return c.await()
}

// Abandon releases every parked goroutine for good (end of a scenario): points become no-ops.
func (c *Ctl) Abandon() {
	c.mu.Lock()
	gs := append([]*G{}, c.Gs...)
	c.mu.Unlock()
	c.Auto = func(string) bool { return true }
	for _, g := range gs {
		select {
		case g.wake <- struct{}{}:
		default:
		}
	}
	// drain reports so finishing goroutines do not block
	go func() {
		for {
			select {
			case <-c.report:
			case <-time.After(2 * time.Second):
				return
			}
		}
	}()
}

// Count returns how often a point was passed (free mode).
func (c *Ctl) Count(label string) int {
	c.mu.Lock()
	defer c.mu.Unlock()
	return c.LabelCount[label]
}

// All returns the goroutines started so far.
func (c *Ctl) All() []*G {
	c.mu.Lock()
	defer c.mu.Unlock()
	return append([]*G{}, c.Gs...)
}

// ---- clock ----

func (c *Ctl) VNow() int64          { return atomic.LoadInt64(&c.now) }
func (c *Ctl) Advance(d int64)      { atomic.AddInt64(&c.now, d) }
func (c *Ctl) At(v int64) time.Time { return c.Base.Add(time.Duration(v) * Unit) }

// Units converts a time of the code under test to virtual units (the zero time is 0).
func (c *Ctl) Units(t time.Time) int64 {
	if t.IsZero() {
		return 0
	}
	return int64(t.Sub(c.Base) / Unit)
}

func Now(label string) time.Time {
	g := current()
	if g == nil || !g.ctl.Controlled {
		if g != nil {
			g.ctl.freePoint(label)
		}
		return time.Now()
	}
	g.point(label)
	return g.ctl.At(g.ctl.VNow())
}

func Until(t time.Time) time.Duration {
	g := current()
	if g == nil || !g.ctl.Controlled {
		return time.Until(t)
	}
	return t.Sub(g.ctl.At(g.ctl.VNow()))
}

func NewTimer(label string, d time.Duration) *Timer {
	g := current()
	if g == nil || !g.ctl.Controlled {
		if g != nil {
			g.ctl.freePoint(label)
		}
		rt := time.NewTimer(d)
		return &Timer{C: rt.C, rt: rt}
	}
	g.point(label)
	c := g.ctl
	u := int64(0)
	if d > 0 {
		u = int64((d + Unit - 1) / Unit)
	}
	ch := make(chan time.Time, 1)
	t := &Timer{C: ch, c: ch, ctl: c, Deadline: c.VNow() + u}
	c.mu.Lock()
	c.Timers = append(c.Timers, t)
	c.mu.Unlock()
	return t
}

// After replaces time.After: the channel of a new (virtual) timer.
func After(label string, d time.Duration) <-chan time.Time {
	return NewTimer(label, d).C
}

// Since replaces time.Since.
func Since(t time.Time) time.Duration {
	g := current()
	if g == nil || !g.ctl.Controlled {
		return time.Since(t)
	}
	return g.ctl.At(g.ctl.VNow()).Sub(t)
}

// Sleep replaces time.Sleep.  Controlled mode: a scheduling point, virtual time does not pass by itself.
func Sleep(label string, d time.Duration) {
	g := current()
	if g == nil {
		time.Sleep(d)
		return
	}
	if !g.ctl.Controlled {
		g.ctl.freePoint(label)
		time.Sleep(d)
		return
	}
	g.point(label)
}

func (t *Timer) Stop() bool {
	if t.rt != nil {
		return t.rt.Stop()
	}
	was := !t.Stopped && !t.Fired
	t.Stopped = true
	return was
}

// Reset re-arms the timer like (*time.Timer).Reset (code under test may reuse one timer).
func (t *Timer) Reset(d time.Duration) bool {
	if t.rt != nil {
		return t.rt.Reset(d)
	}
	was := !t.Stopped && !t.Fired
	u := int64(0)
	if d > 0 {
		u = int64((d + Unit - 1) / Unit)
	}
	t.Deadline = t.ctl.VNow() + u
	t.Stopped = false
	t.Fired = false
	return was
}

// Fire delivers the expiry of a virtual timer (harness only; the deadline must have passed).
func (t *Timer) Fire() {
	if t.Fired || t.Stopped {
		return
	}
	t.Fired = true
	t.c <- t.ctl.At(t.ctl.VNow())
}

// LiveTimer returns the most recent virtual timer that is neither fired nor stopped.
func (c *Ctl) LiveTimer() *Timer {
	c.mu.Lock()
	defer c.mu.Unlock()
	for i := len(c.Timers) - 1; i >= 0; i-- {
		t := c.Timers[i]
		if !t.Fired && !t.Stopped {
			return t
		}
	}
	return nil
}
