// Package vh holds the helpers shared by the verification harnesses that are
// injected into repo packages through `go test -overlay` (see /verif/DESIGN.md).
// It exists only inside the overlay; nothing of it is in the repository tree.
package vh

import (
	"bufio"
	"fmt"
	"os"
	"path/filepath"
	"strconv"
	"strings"
	"sync"
)

// Rng is splitmix64; every random choice of a harness derives from one state.
type Rng struct{ s uint64 }

// NewRng: the state is derived from the seed through the output function, so that consecutive
// seeds give unrelated streams (a state of seed*gamma would make seed k+1 the stream of seed k
// shifted by one draw).
func NewRng(seed uint64) *Rng {
	r := &Rng{s: seed ^ 0xD1B54A32D192ED03}
	a := r.Next()
	b := r.Next()
	return &Rng{s: a ^ (b << 1) ^ (seed * 0xA0761D6478BD642F)}
}

func (r *Rng) Next() uint64 {
	r.s += 0x9E3779B97F4A7C15
	z := r.s
	z = (z ^ (z >> 30)) * 0xBF58476D1CE4E5B9
	z = (z ^ (z >> 27)) * 0x94D049BB133111EB
	return z ^ (z >> 31)
}

// Intn returns a value in [0,n).
func (r *Rng) Intn(n int) int {
	if n <= 0 {
		return 0
	}
	return int(r.Next() % uint64(n))
}
func (r *Rng) Bool() bool          { return r.Next()&1 == 1 }
func (r *Rng) Chance(pct int) bool { return r.Intn(100) < pct }
func (r *Rng) Fork() *Rng          { return &Rng{s: r.Next()} }

// Pick returns one of the strings.
func (r *Rng) Pick(xs ...string) string { return xs[r.Intn(len(xs))] }

// Env helpers.
func Seed() uint64 {
	v, err := strconv.ParseUint(os.Getenv("VERIF_SEED"), 10, 64)
	if err != nil {
		return 1
	}
	return v
}

func N(def int) int {
	v, err := strconv.Atoi(os.Getenv("VERIF_N"))
	if err != nil || v <= 0 {
		return def
	}
	return v
}

func Thorough() bool { return os.Getenv("VERIF_TIER") == "thorough" }

// Replay returns the op lines to replay (one per line of the file named by VERIF_REPLAY_OPS), or nil.
func Replay() []string {
	p := os.Getenv("VERIF_REPLAY_OPS")
	if p == "" {
		return nil
	}
	b, err := os.ReadFile(p)
	if err != nil {
		panic(err)
	}
	var out []string
	for _, l := range strings.Split(string(b), "\n") {
		if strings.TrimSpace(l) != "" {
			out = append(out, l)
		}
	}
	return out
}

// Out is the harness output: correspondence lines "op \t observed", monitor
// lines (property violations seen on the real code) and free-form statistics.
type Out struct {
	mu   sync.Mutex
	f    *os.File
	w    *bufio.Writer
	stat map[string]int
}

func Open(name string) *Out {
	dir := os.Getenv("VERIF_OUT")
	if dir == "" {
		dir = os.TempDir()
	}
	f, err := os.Create(filepath.Join(dir, name+".out"))
	if err != nil {
		panic(err)
	}
	return &Out{f: f, w: bufio.NewWriter(f), stat: map[string]int{}}
}

func clean(s string) string {
	s = strings.ReplaceAll(s, "\t", " ")
	s = strings.ReplaceAll(s, "\n", "\\n")
	s = strings.ReplaceAll(s, "\r", "\\r")
	return s
}

// Corr records one correspondence case: the op line handed to the Lean driver and
// what the real code was observed to do, in canonical form.
func (o *Out) Corr(op, observed string) {
	o.mu.Lock()
	defer o.mu.Unlock()
	fmt.Fprintf(o.w, "C\t%s\t%s\n", clean(op), clean(observed))
}

// Violation records a violation of the property itself seen on the real code.
// sig identifies the kind (matched against known_findings.json); op is the replayable input.
func (o *Out) Violation(sig, op, detail string) {
	o.mu.Lock()
	defer o.mu.Unlock()
	fmt.Fprintf(o.w, "V\t%s\t%s\t%s\n", clean(sig), clean(op), clean(detail))
}

// Stat counts an event for the input-distribution section of the evidence.
func (o *Out) Stat(key string) {
	o.mu.Lock()
	o.stat[key]++
	o.mu.Unlock()
}

func (o *Out) StatN(key string, n int) {
	o.mu.Lock()
	o.stat[key] += n
	o.mu.Unlock()
}

// Note records an informational line.
func (o *Out) Note(s string) {
	o.mu.Lock()
	defer o.mu.Unlock()
	fmt.Fprintf(o.w, "N\t%s\n", clean(s))
}

func (o *Out) Close() {
	o.mu.Lock()
	defer o.mu.Unlock()
	for k, v := range o.stat {
		fmt.Fprintf(o.w, "S\t%s\t%d\n", clean(k), v)
	}
	fmt.Fprintf(o.w, "E\tend\n")
	o.w.Flush()
	o.f.Close()
}

// Hex encodes a string as dot-separated hex code points ("-" if empty).
func HexRunes(s string) string {
	if s == "" {
		return "-"
	}
	var parts []string
	for _, r := range s {
		parts = append(parts, strconv.FormatInt(int64(r), 16))
	}
	return strings.Join(parts, ".")
}

// UnhexRunes is the inverse of HexRunes.
func UnhexRunes(s string) string {
	if s == "-" || s == "" {
		return ""
	}
	var b strings.Builder
	for _, p := range strings.Split(s, ".") {
		v, err := strconv.ParseInt(p, 16, 32)
		if err != nil {
			panic("bad hex runes: " + s)
		}
		b.WriteRune(rune(v))
	}
	return b.String()
}

// HexBytes encodes bytes as lowercase hex ("-" if empty).
func HexBytes(b []byte) string {
	if len(b) == 0 {
		return "-"
	}
	const hx = "0123456789abcdef"
	out := make([]byte, 0, len(b)*2)
	for _, c := range b {
		out = append(out, hx[c>>4], hx[c&15])
	}
	return string(out)
}

func UnhexBytes(s string) []byte {
	if s == "-" || s == "" {
		return nil
	}
	out := make([]byte, 0, len(s)/2)
	for i := 0; i+1 < len(s); i += 2 {
		v, err := strconv.ParseUint(s[i:i+2], 16, 8)
		if err != nil {
			panic("bad hex bytes: " + s)
		}
		out = append(out, byte(v))
	}
	return out
}
