// Package vauth holds the small stand-ins the C14 harnesses need: an in-memory
// module.MutableTable (the credentials table of auth.pass_table) and a
// fixed-credentials module.PlainAuth for the submission-gate harness.
// It exists only inside the overlay.
package vauth

import (
	"context"
	"sort"
	"sync"

	"github.com/foxcpp/maddy/framework/module"
)

// MemTable is a mutable in-memory table; it never fails.
type MemTable struct {
	mu sync.Mutex
	M  map[string]string
}

func NewMemTable() *MemTable { return &MemTable{M: map[string]string{}} }

func (t *MemTable) Lookup(_ context.Context, k string) (string, bool, error) {
	t.mu.Lock()
	defer t.mu.Unlock()
	v, ok := t.M[k]
	return v, ok, nil
}

func (t *MemTable) Keys() ([]string, error) {
	t.mu.Lock()
	defer t.mu.Unlock()
	ks := make([]string, 0, len(t.M))
	for k := range t.M {
		ks = append(ks, k)
	}
	sort.Strings(ks)
	return ks, nil
}

func (t *MemTable) RemoveKey(k string) error {
	t.mu.Lock()
	defer t.mu.Unlock()
	delete(t.M, k)
	return nil
}

func (t *MemTable) SetKey(k, v string) error {
	t.mu.Lock()
	defer t.mu.Unlock()
	t.M[k] = v
	return nil
}

// Snapshot returns a copy of the rows.
func (t *MemTable) Snapshot() map[string]string {
	t.mu.Lock()
	defer t.mu.Unlock()
	c := make(map[string]string, len(t.M))
	for k, v := range t.M {
		c[k] = v
	}
	return c
}

var _ module.MutableTable = (*MemTable)(nil)

// FixedAuth accepts exactly one user/password pair.
type FixedAuth struct{ User, Pass string }

func (a FixedAuth) AuthPlain(username, password string) error {
	if username == a.User && password == a.Pass {
		return nil
	}
	return module.ErrUnknownCredentials
}

var _ module.PlainAuth = FixedAuth{}
