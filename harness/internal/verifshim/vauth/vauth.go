// Package vauth holds the small stand-ins the C14 harnesses need: an in-memory
// module.MutableTable (the credentials table of auth.pass_table) and a
// fixed-credentials module.PlainAuth for the submission-gate harness.
// It exists only inside the overlay.
package vauth

import (
	"bytes"
	"context"
	"go/ast"
	"go/parser"
	"go/printer"
	"go/token"
	"sort"
	"strings"
	"sync"
	"sync/atomic"

	"github.com/foxcpp/maddy/framework/module"
)

// MemTable is a mutable in-memory table; it never fails.
type MemTable struct {
	mu      sync.Mutex
	M       map[string]string
	lookups int64
	// AfterLookup, if set, runs in the caller's goroutine after a row was read and before Lookup returns it.
	AfterLookup func()
}

// Lookups is the number of Lookup calls answered so far (the harness uses it to see that a login running in
// another goroutine has read its row).
func (t *MemTable) Lookups() int64 { return atomic.LoadInt64(&t.lookups) }

func NewMemTable() *MemTable { return &MemTable{M: map[string]string{}} }

func (t *MemTable) Lookup(_ context.Context, k string) (string, bool, error) {
	t.mu.Lock()
	v, ok := t.M[k]
	t.mu.Unlock()
	atomic.AddInt64(&t.lookups, 1)
	if t.AfterLookup != nil {
		t.AfterLookup() // the row has been read; the caller has not got it yet
	}
	return v, ok, nil
}

func (t *MemTable) Keys() ([]string, error) {
	t.mu.Lock()
	defer t.mu.Unlock()
	ks := make([]string, 0, len(t.M))
	for k := range t.M {
		ks = append(ks, k)
	}
	sort.Strings(ks)
	return ks, nil
}

func (t *MemTable) RemoveKey(k string) error {
	t.mu.Lock()
	defer t.mu.Unlock()
	delete(t.M, k)
	return nil
}

func (t *MemTable) SetKey(k, v string) error {
	t.mu.Lock()
	defer t.mu.Unlock()
	t.M[k] = v
	return nil
}

// Snapshot returns a copy of the rows.
func (t *MemTable) Snapshot() map[string]string {
	t.mu.Lock()
	defer t.mu.Unlock()
	c := make(map[string]string, len(t.M))
	for k, v := range t.M {
		c[k] = v
	}
	return c
}

var _ module.MutableTable = (*MemTable)(nil)

// FixedAuth accepts exactly one user/password pair.
type FixedAuth struct{ User, Pass string }

func (a FixedAuth) AuthPlain(username, password string) error {
	if username == a.User && password == a.Pass {
		return nil
	}
	return module.ErrUnknownCredentials
}

var _ module.PlainAuth = FixedAuth{}

// ---- source-shape facts (go/ast over the current working tree), used by the C14 skeleton checks

// Src is a parsed Go source file.
type Src struct {
	Fset *token.FileSet
	File *ast.File
}

func ParseSrc(path string) (*Src, error) {
	fset := token.NewFileSet()
	f, err := parser.ParseFile(fset, path, nil, 0)
	if err != nil {
		return nil, err
	}
	return &Src{fset, f}, nil
}

// Render prints a node with all white space removed.
func (s *Src) Render(n ast.Node) string {
	var b bytes.Buffer
	printer.Fprint(&b, s.Fset, n)
	return strings.Join(strings.Fields(b.String()), "")
}

// Func finds a function or method by name (recv: receiver type name without '*', "" for functions).
func (s *Src) Func(recv, name string) *ast.FuncDecl {
	for _, d := range s.File.Decls {
		fd, ok := d.(*ast.FuncDecl)
		if !ok || fd.Name.Name != name {
			continue
		}
		r := ""
		if fd.Recv != nil && len(fd.Recv.List) == 1 {
			t := fd.Recv.List[0].Type
			if st, ok := t.(*ast.StarExpr); ok {
				t = st.X
			}
			if id, ok := t.(*ast.Ident); ok {
				r = id.Name
			}
		}
		if r == recv {
			return fd
		}
	}
	return nil
}

// Calls lists, in source order, the calls under n whose callee (rendered) satisfies match; calls named in
// firstArg are printed with their first argument only.
func (s *Src) Calls(n ast.Node, match func(callee string) bool, firstArg func(callee string) bool) []string {
	var out []string
	ast.Inspect(n, func(x ast.Node) bool {
		c, ok := x.(*ast.CallExpr)
		if !ok {
			return true
		}
		callee := s.Render(c.Fun)
		if !match(callee) {
			return true
		}
		if firstArg != nil && firstArg(callee) && len(c.Args) > 0 {
			out = append(out, callee+"("+s.Render(c.Args[0])+")")
		} else {
			out = append(out, s.Render(c))
		}
		return true
	})
	return out
}

// FuncLitArg returns the function literal passed as first argument to the first call of callee under n.
func (s *Src) FuncLitArg(n ast.Node, callee string) *ast.FuncLit {
	var lit *ast.FuncLit
	ast.Inspect(n, func(x ast.Node) bool {
		c, ok := x.(*ast.CallExpr)
		if !ok || lit != nil {
			return lit == nil
		}
		if s.Render(c.Fun) == callee {
			for _, a := range c.Args {
				if fl, ok := a.(*ast.FuncLit); ok {
					lit = fl
					return false
				}
			}
		}
		return true
	})
	return lit
}
