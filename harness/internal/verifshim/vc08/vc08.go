// Package vc08 holds what the C08 harnesses share: message/config generators, an independent
// (deliberately simple) message splitter and tag parser used by the monitors, tampering at the
// next hop, and the bridge to the Lean driver (the model as an independent DKIM verifier).
package vc08

import (
	"bufio"
	"bytes"
	"crypto"
	"crypto/ed25519"
	"crypto/rsa"
	"crypto/sha256"
	"crypto/x509"
	"encoding/base64"
	"encoding/hex"
	"encoding/pem"
	"errors"
	"fmt"
	"io"
	"net"
	"os"
	"os/exec"
	"path/filepath"
	"strings"
	"sync"
	"time"

	"github.com/foxcpp/maddy/internal/verifshim/vh"
)

// ---------------------------------------------------------------- generators

var SignedNames = []string{"From", "To", "Subject", "Date", "Cc", "Sender", "Message-Id", "MIME-Version",
	"Content-Type", "Content-Transfer-Encoding", "Reply-To", "In-Reply-To", "References", "Autocrypt", "Openpgp",
	"List-Id", "List-Help", "List-Unsubscribe", "List-Post", "List-Owner", "List-Archive",
	"Resent-To", "Resent-Sender", "Resent-Message-Id", "Resent-Date", "Resent-From", "Resent-Cc"}

var OtherNames = []string{"Received", "X-Mailer", "X-Spam-Status", "Authentication-Results", "DKIM-Signature",
	"Return-Path", "X-Originating-Ip", "Comments", "Keywords", "X_Under.score", "X-!#$%&'*+.^`|~"}

// legal RFC 5322 field names (ftext) that are not RFC 7230 tokens
var OddNames = []string{"X(Odd)", "X@Home", "X/Path", "X\"Q\"", "X=Eq"}

// legal in a message, but not expressible in a DKIM h= tag (RFC 6376 tag values cannot hold ';'):
// generated as message fields only, never configured for signing
var UnsignableNames = []string{"X;Semi"}

func spell(r *vh.Rng, name string) string {
	switch r.Intn(8) {
	case 0:
		return strings.ToUpper(name)
	case 1:
		return strings.ToLower(name)
	case 2:
		b := []byte(name)
		for i := range b {
			if r.Bool() {
				b[i] = byte(strings.ToUpper(string(b[i]))[0])
			} else {
				b[i] = byte(strings.ToLower(string(b[i]))[0])
			}
		}
		return string(b)
	}
	return name
}

var utf8Words = []string{"привет", "мир", "日本語", "메시지", "Grüße", "naïve", "😀", "Ελληνικά", "ñandú", "ÅÄÖ"}

func word(r *vh.Rng, eightBit bool) []byte {
	switch k := r.Intn(20); {
	case k == 0: // long word
		n := 100 + r.Intn(800)
		b := make([]byte, n)
		for i := range b {
			b[i] = byte('a' + r.Intn(26))
		}
		return b
	case k <= 3 && eightBit:
		return []byte(utf8Words[r.Intn(len(utf8Words))])
	case k == 4 && eightBit: // 8-bit bytes that are not UTF-8
		n := 1 + r.Intn(4)
		b := make([]byte, n)
		for i := range b {
			b[i] = byte(0x80 + r.Intn(0x80))
		}
		return b
	case k == 5:
		return []byte(r.Pick("=?utf-8?B?0L/RgNC40LLQtdGC?=", "<a@b.example>", "\"quoted word\"", "(comment)", "b=abc;", "b = x", ";", ":", "a=b;c=d", "bh=xyz"))
	}
	n := 1 + r.Intn(10)
	b := make([]byte, n)
	for i := range b {
		b[i] = byte(33 + r.Intn(94))
	}
	return b
}

func wsp(r *vh.Rng, min int) []byte {
	n := min + r.Intn(3)
	b := make([]byte, n)
	for i := range b {
		if r.Chance(20) {
			b[i] = '\t'
		} else {
			b[i] = ' '
		}
	}
	return b
}

// Field returns one RFC 5322-shaped raw field: name, optional WSP, ':', folded value, CRLF; no
// line longer than 998 octets.
func Field(r *vh.Rng, name string, eightBit bool) []byte {
	var b bytes.Buffer
	lineLen := 0
	put := func(p []byte) { b.Write(p); lineLen += len(p) }
	fold := func() {
		b.WriteString("\r\n")
		lineLen = 0
		put(wsp(r, 1))
	}
	put([]byte(spell(r, name)))
	if r.Chance(4) {
		put(wsp(r, 1)) // obsolete syntax: WSP before the colon
	}
	put([]byte(":"))
	switch k := r.Intn(20); {
	case k == 0: // empty value
		b.WriteString("\r\n")
		return b.Bytes()
	case k == 1: // blank value
		put(wsp(r, 1))
		b.WriteString("\r\n")
		return b.Bytes()
	case k == 2: // folded right after the colon
		fold()
	case k <= 4:
	default:
		put(wsp(r, 1))
	}
	nw := 1 + r.Intn(8)
	if r.Chance(10) {
		nw = 10 + r.Intn(40)
	}
	for i := 0; i < nw; i++ {
		w := word(r, eightBit)
		if i > 0 {
			switch k := r.Intn(10); {
			case k <= 1:
				fold()
			case k == 2:
				put(wsp(r, 0))
				fold()
			case k == 3 && r.Chance(30): // obs-fold: a folded line of white space only
				fold()
				fold()
			default:
				put(wsp(r, 1))
			}
		}
		if lineLen+len(w) > 990 {
			fold()
		}
		put(w)
	}
	if r.Chance(10) {
		put(wsp(r, 1))
	}
	if r.Chance(3) && lineLen < 900 { // value ending in a white-space-only continuation line
		fold()
	}
	b.WriteString("\r\n")
	return b.Bytes()
}

// Header returns generated raw fields (top to bottom).
func Header(r *vh.Rng, eightBit bool) [][]byte {
	var fs [][]byte
	n := 2 + r.Intn(10)
	if r.Chance(8) {
		n = 20 + r.Intn(30)
	}
	huge := r.Chance(2)
	if huge {
		n = 90 + r.Intn(60) // many repeatable signed fields: the h= tag outgrows one 998-octet line
	}
	names := []string{"From"}
	for i := 0; i < n; i++ {
		switch k := r.Intn(10); {
		case huge:
			names = append(names, r.Pick("Resent-To", "Resent-From", "Resent-Date", "Resent-Message-Id", "List-Unsubscribe"))
		case k <= 5:
			names = append(names, SignedNames[r.Intn(len(SignedNames))])
		case k <= 8:
			names = append(names, OtherNames[r.Intn(len(OtherNames))])
		default:
			if r.Chance(30) {
				names = append(names, OddNames[r.Intn(len(OddNames))])
			} else if r.Chance(10) {
				names = append(names, UnsignableNames[0])
			} else {
				names = append(names, "X-"+string(word(r, false)[0]%26+'A')+"eader")
			}
		}
	}
	if r.Chance(15) { // repeated fields, also a second From
		names = append(names, names[r.Intn(len(names))], names[r.Intn(len(names))])
	}
	if r.Chance(3) {
		names = names[1:] // no From at all
	}
	// shuffle
	for i := len(names) - 1; i > 0; i-- {
		j := r.Intn(i + 1)
		names[i], names[j] = names[j], names[i]
	}
	for _, nm := range names {
		fs = append(fs, Field(r, nm, eightBit))
	}
	return fs
}

// Body returns a body made of CRLF-terminated lines.
func Body(r *vh.Rng, eightBit bool) []byte {
	if r.Chance(8) {
		return nil
	}
	var b bytes.Buffer
	n := 1 + r.Intn(12)
	if r.Chance(5) {
		n = 50 + r.Intn(200)
	}
	if r.Chance(1) {
		n = 1500 + r.Intn(1500) // beyond io.Copy's 32 KiB buffer: the canonicalisers see several chunks
	}
	for i := 0; i < n; i++ {
		switch k := r.Intn(24); {
		case k == 0:
			b.WriteString(".")
		case k == 1:
			b.WriteString("..")
		case k == 2:
			b.WriteString(".leading dot " + string(word(r, eightBit)))
		case k == 3:
			// empty line
		case k == 4:
			b.Write(wsp(r, 1)) // white space only
		case k == 5:
			b.Write(word(r, eightBit))
			b.Write(wsp(r, 1)) // trailing white space
		case k == 6:
			b.Write(wsp(r, 1))
			b.Write(word(r, eightBit)) // leading white space
		case k == 7:
			m := 500 + r.Intn(498)
			for j := 0; j < m; j++ {
				b.WriteByte(byte(33 + r.Intn(94)))
			}
		case k == 8:
			b.WriteString(". ")
		default:
			nw := 1 + r.Intn(8)
			for j := 0; j < nw; j++ {
				if j > 0 {
					b.Write(wsp(r, 1))
				}
				w := word(r, eightBit)
				if len(w) > 200 {
					w = w[:200]
				}
				b.Write(w)
			}
		}
		b.WriteString("\r\n")
	}
	switch r.Intn(6) {
	case 0:
		b.WriteString("\r\n")
	case 1:
		b.WriteString("\r\n\r\n\r\n")
	case 2:
		b.WriteString(" \r\n\r\n")
	}
	return b.Bytes()
}

// Wild mangles a conformant byte string into one that is not (bare LF / CR, missing final
// line end, NUL): used only to compare model and libraries, never by a property monitor.
func Wild(r *vh.Rng, in []byte) []byte {
	out := append([]byte{}, in...)
	for k := 0; k < 1+r.Intn(3); k++ {
		switch r.Intn(10) {
		case 6:
			out = append([]byte{" \t"[r.Intn(2)]}, out...) // header starting with white space
		case 7: // a field with an empty name
			i := bytes.Index(out, []byte("\r\n"))
			if i >= 0 {
				out = append(out[:i+2:i+2], append([]byte(": no name\r\n"), out[i+2:]...)...)
			} else {
				out = append([]byte(":x\r\n"), out...)
			}
		case 8: // a line without colon
			i := bytes.Index(out, []byte("\r\n"))
			if i >= 0 {
				out = append(out[:i+2:i+2], append([]byte("no colon here\r\n"), out[i+2:]...)...)
			}
		case 9: // header not terminated
			if i := bytes.Index(out, []byte("\r\n\r\n")); i >= 0 {
				out = out[:i+2-r.Intn(3)]
			}
		case 0:
			out = bytes.Replace(out, []byte("\r\n"), []byte("\n"), 1+r.Intn(3))
		case 1:
			if len(out) > 0 {
				i := r.Intn(len(out))
				out = append(out[:i:i], append([]byte{'\r'}, out[i:]...)...)
			}
		case 2:
			if len(out) > 0 {
				i := r.Intn(len(out))
				out = append(out[:i:i], append([]byte{'\n'}, out[i:]...)...)
			}
		case 3:
			out = bytes.TrimRight(out, "\r\n")
		case 4:
			out = bytes.TrimSuffix(out, []byte("\n"))
		case 5:
			if len(out) > 0 {
				i := r.Intn(len(out))
				out = append(out[:i:i], append([]byte{'.'}, out[i:]...)...)
			}
		}
	}
	return out
}

// ---------------------------------------------------------------- independent splitter / parser

// Split cuts a message into raw header fields and body the naive way: lines end in LF; a line
// starting with SP/HTAB continues the field; the first empty line ends the header.
func Split(msg []byte) (fields [][]byte, body []byte, ok bool) {
	rest := msg
	for {
		i := bytes.IndexByte(rest, '\n')
		if i < 0 {
			return fields, nil, false
		}
		line := rest[:i+1]
		rest = rest[i+1:]
		if string(line) == "\r\n" || string(line) == "\n" {
			return fields, rest, true
		}
		if (line[0] == ' ' || line[0] == '\t') && len(fields) > 0 {
			fields[len(fields)-1] = append(fields[len(fields)-1], line...)
		} else {
			fields = append(fields, append([]byte{}, line...))
		}
	}
}

func Join(fields [][]byte, body []byte) []byte {
	var b bytes.Buffer
	for _, f := range fields {
		b.Write(f)
	}
	b.WriteString("\r\n")
	b.Write(body)
	return b.Bytes()
}

// Name returns the lower-cased field name.
func Name(f []byte) string {
	i := bytes.IndexByte(f, ':')
	if i < 0 {
		return strings.ToLower(strings.TrimSpace(string(f)))
	}
	return strings.ToLower(strings.TrimSpace(string(f[:i])))
}

// Tags parses the tag list of a DKIM-Signature field (white space removed from values).
func Tags(sig []byte) map[string]string {
	out := map[string]string{}
	i := bytes.IndexByte(sig, ':')
	if i < 0 {
		return out
	}
	for _, p := range strings.Split(string(sig[i+1:]), ";") {
		j := strings.IndexByte(p, '=')
		if j < 0 {
			continue
		}
		v := strings.Map(func(r rune) rune {
			if r == ' ' || r == '\t' || r == '\r' || r == '\n' {
				return -1
			}
			return r
		}, p[j+1:])
		out[strings.TrimSpace(p[:j])] = v
	}
	return out
}

// ---------------------------------------------------------------- tampering at the next hop

type Tamper struct {
	Kind    string // remove | alter | add
	Payload []byte
	Detail  string
}

// Tampers derives tampered variants of a received payload: one signed field removed, one signed
// field altered (a non-white-space octet changed or appended), one field of an over-signed name added.
// oversign is the CONFIGURED list of over-signed names (the signer's input, not its output): the added
// field is of one of those names whether or not the signature lists it — a name of the list that is
// absent from the message is the usual case (Reply-To, Cc, Content-Type …).  Without a configured list
// the names are taken from the h= tag (more slots than occurrences).
func Tampers(r *vh.Rng, payload []byte, oversign []string) []Tamper {
	fields, body, ok := Split(payload)
	if !ok {
		return nil
	}
	sigIdx := -1
	for i, f := range fields {
		if Name(f) == "dkim-signature" {
			sigIdx = i
			break
		}
	}
	if sigIdx < 0 {
		return nil
	}
	hlist := strings.Split(Tags(fields[sigIdx])["h"], ":")
	slots := map[string]int{}
	for _, k := range hlist {
		slots[strings.ToLower(k)]++
	}
	present := map[string]int{}
	var signedIdx []int
	for i, f := range fields {
		if i == sigIdx {
			continue
		}
		n := Name(f)
		present[n]++
	}
	// a field is signed when its name is listed at least as often as it occurs below it … with
	// maddy's lists every occurrence of a listed name is signed; check that here too
	for i, f := range fields {
		if i == sigIdx {
			continue
		}
		n := Name(f)
		if slots[n] >= present[n] && slots[n] > 0 {
			signedIdx = append(signedIdx, i)
		}
	}
	var out []Tamper
	cp := func() [][]byte {
		c := make([][]byte, len(fields))
		for i := range fields {
			c[i] = append([]byte{}, fields[i]...)
		}
		return c
	}
	if len(signedIdx) > 0 {
		// remove
		i := signedIdx[r.Intn(len(signedIdx))]
		c := cp()
		c = append(c[:i], c[i+1:]...)
		out = append(out, Tamper{"remove", Join(c, body), Name(fields[i])})
		// alter
		i = signedIdx[r.Intn(len(signedIdx))]
		c = cp()
		f := c[i]
		colon := bytes.IndexByte(f, ':')
		var cand []int
		for j := colon + 1; j < len(f); j++ {
			if f[j] != ' ' && f[j] != '\t' && f[j] != '\r' && f[j] != '\n' {
				cand = append(cand, j)
			}
		}
		how := "append"
		if len(cand) > 0 && r.Bool() {
			j := cand[r.Intn(len(cand))]
			if f[j] == 'X' {
				f[j] = 'Y'
			} else {
				f[j] = 'X'
			}
			how = "change"
		} else if len(cand) > 0 && r.Chance(30) {
			j := cand[r.Intn(len(cand))]
			f = append(f[:j:j], f[j+1:]...)
			how = "delete"
		} else {
			end := len(f) - 2
			f = append(f[:end:end], append([]byte("X"), f[end:]...)...)
		}
		c[i] = f
		out = append(out, Tamper{"alter", Join(c, body), Name(fields[i]) + "/" + how})
	}
	// add: names with more slots than occurrences are over-signed
	var over []string
	if len(oversign) > 0 {
		seen := map[string]bool{}
		for _, k := range oversign {
			if l := strings.ToLower(k); !seen[l] && l != "" {
				seen[l] = true
				over = append(over, l)
			}
		}
	} else {
		for k, n := range slots {
			if n > present[k] && k != "" {
				over = append(over, k)
			}
		}
	}
	if len(over) > 0 {
		sortStrings(over)
		k := over[r.Intn(len(over))]
		c := cp()
		nf := []byte(spell(r, k) + ": injected " + string(word(r, false)) + "\r\n")
		var pos int
		switch r.Intn(4) {
		case 0:
			pos = 0
		case 1:
			pos = sigIdx + 1
		case 2:
			pos = len(c)
		default:
			pos = r.Intn(len(c) + 1)
		}
		c = append(c[:pos:pos], append([][]byte{nf}, c[pos:]...)...)
		out = append(out, Tamper{"add", Join(c, body), fmt.Sprintf("%s@%d/%d", k, pos, len(c))})
	}
	return out
}

func sortStrings(s []string) {
	for i := 1; i < len(s); i++ {
		for j := i; j > 0 && s[j] < s[j-1]; j-- {
			s[j], s[j-1] = s[j-1], s[j]
		}
	}
}

// ---------------------------------------------------------------- published key

// ParseRecord reads the TXT record maddy wrote next to the key ("v=DKIM1; k=…; p=…").
func ParseRecord(rec string) (crypto.PublicKey, string, error) {
	t := map[string]string{}
	for _, p := range strings.Split(rec, ";") {
		j := strings.IndexByte(p, '=')
		if j < 0 {
			continue
		}
		t[strings.TrimSpace(p[:j])] = strings.TrimSpace(p[j+1:])
	}
	raw, err := base64.StdEncoding.DecodeString(t["p"])
	if err != nil {
		return nil, "", err
	}
	switch t["k"] {
	case "rsa":
		k, err := x509.ParsePKIXPublicKey(raw)
		if err != nil {
			return nil, "", err
		}
		return k, "rsa", nil
	case "ed25519":
		if len(raw) != ed25519.PublicKeySize {
			return nil, "", errors.New("bad ed25519 key size")
		}
		return ed25519.PublicKey(raw), "ed25519", nil
	}
	return nil, "", errors.New("unknown key type " + t["k"])
}

// FormatRecord: the key record the owner of a key publishes for it (RFC 6376 3.6.1 / RFC 8463): the harness's own
// rendering, for keys that come without a record file.
func FormatRecord(pub crypto.PublicKey) string {
	switch k := pub.(type) {
	case *rsa.PublicKey:
		der, err := x509.MarshalPKIXPublicKey(k)
		if err != nil {
			panic(err)
		}
		return "v=DKIM1; k=rsa; p=" + base64.StdEncoding.EncodeToString(der)
	case ed25519.PublicKey:
		return "v=DKIM1; k=ed25519; p=" + base64.StdEncoding.EncodeToString(k)
	}
	panic(fmt.Sprintf("vc08.FormatRecord: %T", pub))
}

// RecordCarries: does the p= tag of the (possibly malformed) record hold this key in any of the usual encodings,
// whatever k= says?
func RecordCarries(rec string, pub crypto.PublicKey) bool {
	p := ""
	for _, t := range strings.Split(rec, ";") {
		if j := strings.IndexByte(t, '='); j >= 0 && strings.TrimSpace(t[:j]) == "p" {
			p = strings.Join(strings.Fields(t[j+1:]), "")
		}
	}
	raw, err := base64.StdEncoding.DecodeString(p)
	if err != nil || len(raw) == 0 {
		return false
	}
	var encs [][]byte
	switch k := pub.(type) {
	case *rsa.PublicKey:
		if der, err := x509.MarshalPKIXPublicKey(k); err == nil {
			encs = append(encs, der)
		}
		encs = append(encs, x509.MarshalPKCS1PublicKey(k))
	case ed25519.PublicKey:
		encs = append(encs, []byte(k))
		if der, err := x509.MarshalPKIXPublicKey(k); err == nil {
			encs = append(encs, der)
		}
	}
	for _, e := range encs {
		if bytes.Equal(e, raw) {
			return true
		}
	}
	return false
}

// RecordPath: the documented name of the record file of a key file ("In the same directory .dns files are generated"):
// .key replaced by .dns, .dns appended to other names.  Paths are "/"-separated and relative to the key directory.
func RecordPath(keyRel string) string {
	if strings.HasSuffix(keyRel, ".key") {
		return keyRel[:len(keyRel)-4] + ".dns"
	}
	return keyRel + ".dns"
}

// SamePublic: the same public key?
func SamePublic(a, b crypto.PublicKey) bool {
	if a == nil || b == nil {
		return false
	}
	eq, ok := a.(interface{ Equal(crypto.PublicKey) bool })
	return ok && eq.Equal(b)
}

// KeyFile is a file found in a key directory, classified by its CONTENT (never by its name).
type KeyFile struct {
	Rel     string // path relative to the directory, "/"-separated
	Content []byte
	Kind    string           // "k" = PEM private key, "r" = DKIM TXT record, "?" = neither
	Pub     crypto.PublicKey // public half (k) / published key (r)
	Algo    string           // rsa | ed25519
}

// ScanKeyDir reads every regular file below dir.
func ScanKeyDir(dir string) (map[string]KeyFile, error) {
	out := map[string]KeyFile{}
	err := filepath.Walk(dir, func(p string, info os.FileInfo, err error) error {
		if err != nil || info.IsDir() {
			return err
		}
		b, err := os.ReadFile(p)
		if err != nil {
			return err
		}
		rel, _ := filepath.Rel(dir, p)
		f := KeyFile{Rel: filepath.ToSlash(rel), Content: b, Kind: "?"}
		if blk, _ := pem.Decode(b); blk != nil {
			var key interface{}
			switch blk.Type {
			case "PRIVATE KEY":
				key, _ = x509.ParsePKCS8PrivateKey(blk.Bytes)
			case "RSA PRIVATE KEY":
				key, _ = x509.ParsePKCS1PrivateKey(blk.Bytes)
			}
			if sg, ok := key.(crypto.Signer); ok {
				f.Kind, f.Pub = "k", sg.Public()
			}
		} else if strings.HasPrefix(string(b), "v=DKIM1") {
			if pub, _, err := ParseRecord(string(b)); err == nil {
				f.Kind, f.Pub = "r", pub
			}
		}
		switch f.Pub.(type) {
		case *rsa.PublicKey:
			f.Algo = "rsa"
		case ed25519.PublicKey:
			f.Algo = "ed25519"
		}
		out[f.Rel] = f
		return nil
	})
	return out, err
}

// ---- key directories: templates, selectors, domains

// KeyTemplates: key_path values relative to the key directory.  The default, custom ones with both,
// one or no placeholder (domains sharing a key), sub-directories named after a placeholder, names not
// ending in ".key" (the record is then <key path>.dns), a placeholder used twice, look-alikes that are
// not placeholders.
var KeyTemplates = []string{
	"{domain}_{selector}.key", "{domain}_{selector}.key", "{domain}_{selector}.key",
	"{domain}.key", "{selector}/{domain}.key", "{domain}/{selector}.key", "{selector}._domainkey.{domain}.pem",
	"keys/{domain}.{selector}", "{selector}.key", "shared.key", "{domain}-{domain}.key", "{Domain}/{domain}_{selector}.KEY",
	"dkim {selector}/{domain}.private.key", "{selector}{domain}", "{{domain}}.key", "{domain}_{selector}.key.pem",
}

var KeySelectors = []string{"sel", "sel", "default", "S2024", "2024-09", "ключ", "xn--h1ajdq", "dkim_1"}

// KeyDomains: groups of spellings of one domain (an instance is never configured with two of a group).
var KeyDomains = [][]string{
	{"example.org", "EXAMPLE.ORG", "Example.Org"},
	{"mail.example.com", "Mail.Example.COM"},
	{"пример.example", "xn--e1afmkfd.example", "Пример.Example", "XN--E1AFMKFD.EXAMPLE"},
	{"bücher.example", "xn--bcher-kva.example", "BÜCHER.example", "bu\u0308cher.example"},
	{"münchen.example", "xn--mnchen-3ya.example"},
	{"例え.テスト", "xn--r8jz45g.xn--zckzah"},
	{"sub.пример.example", "sub.xn--e1afmkfd.example"},
	{"a-b.example", "A-B.example"},
}

// ExpandKeyPath is the documented meaning of key_path ("placeholders '{domain}' and '{selector}' will be
// replaced with corresponding values from domain and selector directives"): the monitor's own expansion.
func ExpandKeyPath(tmpl, domain, selector string) string {
	var b strings.Builder
	for i := 0; i < len(tmpl); {
		switch {
		case strings.HasPrefix(tmpl[i:], "{domain}"):
			b.WriteString(domain)
			i += len("{domain}")
		case strings.HasPrefix(tmpl[i:], "{selector}"):
			b.WriteString(selector)
			i += len("{selector}")
		default:
			b.WriteByte(tmpl[i])
			i++
		}
	}
	return b.String()
}

// ---------------------------------------------------------------- the Lean model as verifier

// Driver pipes the op lines to the Lean driver (one process per call) and returns its answers.
func Driver(ops []string) ([]string, error) {
	bin := os.Getenv("VERIF_DRIVER")
	if bin == "" {
		return nil, errors.New("VERIF_DRIVER not set")
	}
	cmd := exec.Command(bin)
	cmd.Stdin = strings.NewReader(strings.Join(ops, "\n") + "\n")
	outb, err := cmd.Output()
	if err != nil {
		return nil, err
	}
	lines := strings.Split(strings.TrimRight(string(outb), "\n"), "\n")
	if len(lines) != len(ops) {
		return nil, fmt.Errorf("driver answered %d lines for %d ops", len(lines), len(ops))
	}
	return lines, nil
}

// ModelVerdict is the outcome of verifying with the bytes the Lean model computed:
// SHA-256 and RSA / Ed25519 are Go's, canonicalisation, selection and tag parsing are the model's.
type ModelVerdict struct {
	OK       bool
	Reason   string
	HC, BC   string
	Picked   string
	BodyHash string // hex sha256 of the model's canonical body
	HdrHash  string // hex sha256 of the model's digest input
}

func ModelVerify(vdataAnswer string, pub crypto.PublicKey) ModelVerdict {
	t := strings.Fields(vdataAnswer)
	if len(t) != 8 || t[0] != "ok" {
		return ModelVerdict{Reason: "model: " + vdataAnswer}
	}
	v := ModelVerdict{HC: t[1], BC: t[2], Picked: t[3]}
	bodyCanon := vh.UnhexBytes(t[4])
	digestIn := vh.UnhexBytes(t[5])
	bText := vh.UnhexBytes(t[6])
	bhText := vh.UnhexBytes(t[7])
	bs := sha256.Sum256(bodyCanon)
	ds := sha256.Sum256(digestIn)
	v.BodyHash = hex.EncodeToString(bs[:])
	v.HdrHash = hex.EncodeToString(ds[:])
	bh, err := base64.StdEncoding.DecodeString(string(bhText))
	if err != nil {
		v.Reason = "bh not base64"
		return v
	}
	if !bytes.Equal(bh, bs[:]) {
		v.Reason = "body hash mismatch"
		return v
	}
	sig, err := base64.StdEncoding.DecodeString(string(bText))
	if err != nil {
		v.Reason = "b not base64"
		return v
	}
	switch k := pub.(type) {
	case *rsa.PublicKey:
		if err := rsa.VerifyPKCS1v15(k, crypto.SHA256, ds[:], sig); err != nil {
			v.Reason = "rsa: " + err.Error()
			return v
		}
	case ed25519.PublicKey:
		if !ed25519.Verify(k, ds[:], sig) {
			v.Reason = "ed25519: invalid signature"
			return v
		}
	default:
		v.Reason = "unknown key type"
		return v
	}
	v.OK = true
	return v
}

func HexList(fs [][]byte) string {
	if len(fs) == 0 {
		return ""
	}
	var p []string
	for _, f := range fs {
		p = append(p, vh.HexBytes(f))
	}
	return strings.Join(p, " ")
}

func Sha(b []byte) string {
	s := sha256.Sum256(b)
	return hex.EncodeToString(s[:])
}

// MutateSig returns the payload with its first DKIM-Signature field changed in one respect
// (tag removed, c= garbled, tag list broken, version changed, tag overridden, white space added).
func MutateSig(r *vh.Rng, payload []byte) ([]byte, string) {
	fields, body, ok := Split(payload)
	if !ok {
		return nil, ""
	}
	idx := -1
	for i, f := range fields {
		if Name(f) == "dkim-signature" {
			idx = i
			break
		}
	}
	if idx < 0 {
		return nil, ""
	}
	switch r.Intn(16) {
	case 0: // the message starts with white space
		return append([]byte(" "), payload...), "leading-space"
	case 1: // no empty line after the header
		var b bytes.Buffer
		for _, f := range fields {
			b.Write(f)
		}
		return b.Bytes(), "no-blank-line"
	case 2: // no signature at all
		var c [][]byte
		for _, f := range fields {
			if Name(f) != "dkim-signature" {
				c = append(c, f)
			}
		}
		return Join(c, body), "no-signature"
	}
	f := string(fields[idx])
	colon := strings.IndexByte(f, ':')
	val := strings.TrimSuffix(f[colon+1:], "\r\n")
	parts := strings.Split(val, ";")
	kind := ""
	switch r.Intn(8) {
	case 0: // remove one tag
		i := r.Intn(len(parts))
		kind = "drop:" + strings.TrimSpace(strings.SplitN(parts[i], "=", 2)[0])
		parts = append(parts[:i:i], parts[i+1:]...)
	case 1: // garble c=
		g := r.Pick("foo/relaxed", "relaxed/", "/simple", "simple/bar", "", "relaxed", "simple", " relaxed / relaxed ", "relaxed/simple/x", "RELAXED/relaxed")
		kind = "c=" + g
		for i, p := range parts {
			if strings.TrimSpace(strings.SplitN(p, "=", 2)[0]) == "c" {
				parts[i] = " c=" + g
			}
		}
	case 2: // a part without '='
		g := r.Pick(" junk ", "  ", "\r\n ", " x y ")
		kind = "part:" + strings.TrimSpace(g)
		i := r.Intn(len(parts) + 1)
		parts = append(parts[:i:i], append([]string{g}, parts[i:]...)...)
	case 3: // version
		g := r.Pick("2", " 1 ", "", "01", "1\r\n ")
		kind = "v=" + strings.TrimSpace(g)
		for i, p := range parts {
			if strings.TrimSpace(strings.SplitN(p, "=", 2)[0]) == "v" {
				parts[i] = " v=" + g
			}
		}
	case 4: // a later tag overrides an earlier one
		g := r.Pick(" c=simple/simple", " c=nope/nope", " v=3", " h=from", " bh=", " v=1")
		kind = "override:" + strings.TrimSpace(g)
		parts = append(parts, g)
	case 5: // folding white space inside values
		kind = "fws"
		for i, p := range parts {
			k := strings.TrimSpace(strings.SplitN(p, "=", 2)[0])
			if k == "h" || k == "c" || k == "bh" {
				parts[i] = strings.Replace(strings.Replace(p, ":", " :\r\n\t", 2), "/", " / ", 1)
			}
		}
	case 6: // empty tag name or value
		kind = "empty-tag"
		parts = append(parts, r.Pick(" =x", " zz=", "="))
	default: // change the name's case / the white space around the colon
		kind = "name"
		fields[idx] = []byte(r.Pick("dkim-signature", "DKIM-SIGNATURE", "DKIM-Signature ", "Dkim-Signature\t") + ":" + strings.Join(parts, ";") + "\r\n")
		return Join(fields, body), kind
	}
	fields[idx] = []byte(f[:colon+1] + strings.Join(parts, ";") + "\r\n")
	return Join(fields, body), kind
}

// ---------------------------------------------------------------- run-length form of byte strings in op lines

// Enc encodes a byte string for an op line: plain hex (as vh.HexBytes) when it has no long run,
// otherwise segments joined by "_", a segment being hex or hex*count (one octet repeated).  Padded
// messages of a megabyte stay a few kilobytes long in op lines and replay files.
func Enc(b []byte) string {
	if len(b) == 0 {
		return "-"
	}
	const minRun = 24
	var segs []string
	lit := 0 // start of the pending literal
	i := 0
	for i < len(b) {
		j := i + 1
		for j < len(b) && b[j] == b[i] {
			j++
		}
		if j-i >= minRun {
			if i > lit {
				segs = append(segs, vh.HexBytes(b[lit:i]))
			}
			segs = append(segs, fmt.Sprintf("%s*%d", vh.HexBytes(b[i:i+1]), j-i))
			lit = j
		}
		i = j
	}
	if lit < len(b) {
		segs = append(segs, vh.HexBytes(b[lit:]))
	}
	return strings.Join(segs, "_")
}

// Dec is the inverse of Enc (plain hex included).
func Dec(s string) []byte {
	if s == "-" || s == "" {
		return nil
	}
	if !strings.ContainsAny(s, "_*") {
		return vh.UnhexBytes(s)
	}
	var out []byte
	for _, seg := range strings.Split(s, "_") {
		if k := strings.IndexByte(seg, '*'); k >= 0 {
			n := 0
			fmt.Sscanf(seg[k+1:], "%d", &n)
			out = append(out, bytes.Repeat(vh.UnhexBytes(seg[:k]), n)...)
		} else {
			out = append(out, vh.UnhexBytes(seg)...)
		}
	}
	return out
}

func EncList(fs [][]byte) string {
	var p []string
	for _, f := range fs {
		p = append(p, Enc(f))
	}
	return strings.Join(p, " ")
}

// ---------------------------------------------------------------- padding (sizes around plausible limits)

// Pad returns raw header fields of exactly total octets (total >= 40) that no signing
// configuration lists: shape 0 = single-line fields of 900-990 octets, 1 = folded fields of up to
// 48 KiB with continuation lines of up to 990 octets, 2 = many short fields.
func Pad(r *vh.Rng, total, shape int) [][]byte {
	var out [][]byte
	one := func(i, size int) []byte { // a single-line field of exactly size octets
		f := []byte(fmt.Sprintf("X-Pad-%d: ", i))
		if size < len(f)+2 {
			panic("vc08.Pad: field too small")
		}
		f = append(f, bytes.Repeat([]byte{byte('a' + i%26)}, size-len(f)-2)...)
		return append(f, '\r', '\n')
	}
	const min = 20
	switch shape {
	case 1:
		// folded fields ("X-Pad-Folded-<i>: start" and continuation lines " " + run) of at most some
		// 48 KiB each (the model's readers append line by line: quadratic in the size of ONE field)
		rem := total
		for i := 0; rem > 0; i++ {
			size := rem
			if size > 49000 {
				size = 30000 + r.Intn(18000)
				if rem-size < 100 {
					size = rem / 2
				}
			}
			f := []byte(fmt.Sprintf("X-Pad-Folded-%d: start\r\n", i))
			left := size - len(f)
			if left < 8 {
				out = append(out, one(i, size))
				rem -= size
				continue
			}
			for j := 0; left > 0; j++ {
				n := 700 + r.Intn(288) // line length incl. the leading space, without CRLF
				if left < n+2+4 {
					n = left - 2 // >= 2: every round leaves at least 4 octets or none
				}
				f = append(f, ' ')
				f = append(f, bytes.Repeat([]byte{byte('A' + (i+j)%26)}, n-1)...)
				f = append(f, '\r', '\n')
				left -= n + 2
			}
			out = append(out, f)
			rem -= size
		}
		return out
	case 2:
		rem := total
		for i := 0; rem > 0; i++ {
			n := min + r.Intn(20)
			if rem < n+min {
				n = rem
			}
			out = append(out, one(i, n))
			rem -= n
		}
		return out
	}
	rem := total
	for i := 0; rem > 0; i++ {
		n := 900 + r.Intn(90)
		if rem < n+min {
			if rem > 990 {
				n = rem / 2
			} else {
				n = rem
			}
		}
		out = append(out, one(i, n))
		rem -= n
	}
	return out
}

// PadBody returns CRLF-terminated lines of exactly total octets (total >= 2), some starting with a dot.
func PadBody(r *vh.Rng, total int) []byte {
	var b []byte
	rem := total
	for i := 0; rem > 0; i++ {
		n := 600 + r.Intn(398) // line without CRLF
		if rem < n+2+2 {
			n = rem - 2
		}
		if n < 0 {
			n = 0
			rem = 2
		}
		ch := byte('a' + i%26)
		if i%7 == 3 && n > 0 {
			b = append(b, '.')
			b = append(b, bytes.Repeat([]byte{ch}, n-1)...)
		} else {
			b = append(b, bytes.Repeat([]byte{ch}, n)...)
		}
		b = append(b, '\r', '\n')
		rem -= n + 2
	}
	return b
}

// ---------------------------------------------------------------- fault injection

// ErrInjected is the I/O error the fault injectors return.
var ErrInjected = errors.New("c08: injected I/O error")

// FaultReader yields the first K octets of Data in reads of at most Chunk octets (0 = as asked)
// and then fails.  Together: the error comes with the last octets instead of on the next Read.
type FaultReader struct {
	Data     []byte
	K        int
	Chunk    int
	Together bool
	off      int
}

func (f *FaultReader) Read(p []byte) (int, error) {
	if f.K > len(f.Data) {
		f.K = len(f.Data)
	}
	if f.off >= f.K {
		return 0, ErrInjected
	}
	n := f.K - f.off
	if n > len(p) {
		n = len(p)
	}
	if f.Chunk > 0 && n > f.Chunk {
		n = f.Chunk
	}
	copy(p, f.Data[f.off:f.off+n])
	f.off += n
	if f.Together && f.off >= f.K {
		return n, ErrInjected
	}
	return n, nil
}

func (f *FaultReader) Close() error { return nil }

// ChunkReader yields Data completely, in reads of at most Chunk octets.
type ChunkReader struct {
	Data  []byte
	Chunk int
	off   int
}

func (c *ChunkReader) Read(p []byte) (int, error) {
	if c.off >= len(c.Data) {
		return 0, io.EOF
	}
	n := len(c.Data) - c.off
	if n > len(p) {
		n = len(p)
	}
	if c.Chunk > 0 && n > c.Chunk {
		n = c.Chunk
	}
	copy(p, c.Data[c.off:c.off+n])
	c.off += n
	return n, nil
}

func (c *ChunkReader) Close() error { return nil }

// FaultConn fails one Write: the one that would take the number of octets written after the
// DATA command line beyond K (it writes the octets up to K, then reports a time-out); the
// connection itself stays usable.
type FaultConn struct {
	net.Conn
	K      int
	inData bool
	n      int
	Fired  bool
}

type timeoutErr struct{}

func (timeoutErr) Error() string   { return "c08: injected write time-out" }
func (timeoutErr) Timeout() bool   { return true }
func (timeoutErr) Temporary() bool { return true }

func (f *FaultConn) Write(p []byte) (int, error) {
	if !f.inData {
		if bytes.HasPrefix(bytes.ToUpper(p), []byte("DATA\r\n")) {
			f.inData = true
		}
		return f.Conn.Write(p)
	}
	if f.Fired || f.n+len(p) <= f.K {
		n, err := f.Conn.Write(p)
		f.n += n
		return n, err
	}
	f.Fired = true
	keep := f.K - f.n
	n, err := f.Conn.Write(p[:keep])
	f.n += n
	if err != nil {
		return n, err
	}
	return n, &net.OpError{Op: "write", Net: "tcp", Err: timeoutErr{}}
}

// ---------------------------------------------------------------- a raw next hop

// RawTx is one DATA phase seen by the raw next hop.
type RawTx struct {
	Wire     []byte // the octets received after the 354 reply, end-of-data marker included
	Accepted bool   // the end-of-data marker arrived and 250 was sent
}

// Payload undoes the dot encoding of an accepted transaction the naive way.
func (t RawTx) Payload() []byte {
	w := t.Wire
	if !t.Accepted || len(w) < 3 {
		return nil
	}
	w = w[:len(w)-3] // ".\r\n"; the CRLF before it ends the last line of the message
	var out []byte
	for len(w) > 0 {
		i := bytes.Index(w, []byte("\r\n"))
		line := w
		if i >= 0 {
			line = w[:i+2]
		}
		w = w[len(line):]
		if line[0] == '.' {
			line = line[1:]
		}
		out = append(out, line...)
	}
	return out
}

// Raw is a hand-written SMTP / LMTP next hop (no go-smtp): it records the octets of every DATA
// phase and whether it acknowledged the message.  The end-of-data marker is looked for the way
// RFC 5321 4.1.1.4 describes it: a line consisting of a single dot.
type Raw struct {
	l    net.Listener
	LMTP bool
	mu   sync.Mutex
	txs  []RawTx
	wg   sync.WaitGroup
}

func StartRaw(lmtp bool) (*Raw, string, error) {
	l, err := net.Listen("tcp", "127.0.0.1:0")
	if err != nil {
		return nil, "", err
	}
	r := &Raw{l: l, LMTP: lmtp}
	go func() {
		for {
			c, err := l.Accept()
			if err != nil {
				return
			}
			r.wg.Add(1)
			go func() { defer r.wg.Done(); r.handle(c) }()
		}
	}()
	_, port, _ := net.SplitHostPort(l.Addr().String())
	return r, port, nil
}

func (r *Raw) Close() { r.l.Close() }

// Take waits until every connection opened so far is finished and returns (and forgets) the transactions.
func (r *Raw) Take() []RawTx {
	r.wg.Wait()
	r.mu.Lock()
	defer r.mu.Unlock()
	t := r.txs
	r.txs = nil
	return t
}

func (r *Raw) handle(c net.Conn) {
	defer c.Close()
	c.SetDeadline(time.Now().Add(60 * time.Second))
	br := bufio.NewReaderSize(c, 1<<16)
	w := func(s string) { c.Write([]byte(s + "\r\n")) }
	w("220 raw.example.invalid ready")
	rcpts := 0
	for {
		line, err := br.ReadString('\n')
		if err != nil {
			return
		}
		cmd := strings.ToUpper(strings.TrimSpace(line))
		switch {
		case strings.HasPrefix(cmd, "EHLO"), strings.HasPrefix(cmd, "LHLO"):
			w("250-raw.example.invalid")
			w("250-SMTPUTF8")
			w("250-ENHANCEDSTATUSCODES")
			w("250 8BITMIME")
		case strings.HasPrefix(cmd, "HELO"):
			w("250 raw.example.invalid")
		case strings.HasPrefix(cmd, "MAIL"):
			rcpts = 0
			w("250 2.1.0 ok")
		case strings.HasPrefix(cmd, "RCPT"):
			rcpts++
			w("250 2.1.5 ok")
		case cmd == "DATA":
			w("354 go ahead")
			var wire []byte
			done := false
			for !done {
				l, err := br.ReadBytes('\n')
				wire = append(wire, l...)
				if err != nil {
					break
				}
				if string(l) == ".\r\n" && (len(wire) == 3 || bytes.HasSuffix(wire, []byte("\r\n.\r\n"))) {
					done = true
				}
			}
			r.mu.Lock()
			r.txs = append(r.txs, RawTx{Wire: wire, Accepted: done})
			r.mu.Unlock()
			if !done {
				return
			}
			n := 1
			if r.LMTP {
				n = rcpts
			}
			for i := 0; i < n; i++ {
				w("250 2.0.0 accepted")
			}
		case strings.HasPrefix(cmd, "RSET"), strings.HasPrefix(cmd, "NOOP"):
			w("250 2.0.0 ok")
		case strings.HasPrefix(cmd, "QUIT"):
			w("221 2.0.0 bye")
			return
		default:
			w("500 5.5.1 what")
		}
	}
}

// ---------------------------------------------------------------- time as an input (round 6)

// The clock of the signer.  checks/c08.py replaces time.Now in the non-test files of internal/modify/dkim by
// vc08.Now (overlay, textual) and gives go-msgauth a setter for its package variable `now`; TestVerifC08Clock,
// which does NOT run in parallel with the other tests, sets the manual clock, everything else reads the wall clock.
var (
	clockMu     sync.Mutex
	clockManual bool
	clockAt     time.Time
)

// Now is the manual clock when one is set, the wall clock otherwise.
func Now() time.Time {
	clockMu.Lock()
	defer clockMu.Unlock()
	if clockManual {
		return clockAt
	}
	return time.Now()
}

func Since(t time.Time) time.Duration { return Now().Sub(t) }
func Until(t time.Time) time.Duration { return t.Sub(Now()) }

// SetClockMs sets the manual clock to ms milliseconds after the epoch.
func SetClockMs(ms int64) {
	clockMu.Lock()
	clockManual, clockAt = true, time.UnixMilli(ms)
	clockMu.Unlock()
}

// WallClock switches the manual clock off.
func WallClock() {
	clockMu.Lock()
	clockManual = false
	clockMu.Unlock()
}
