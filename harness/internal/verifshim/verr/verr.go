// Package verr generates error values from maddy's error-wrapping primitives,
// serialises them for the Lean driver, and evaluates the C16 property on them.
package verr

import (
	"context"
	"errors"
	"fmt"
	"net"
	"strconv"
	"strings"

	"github.com/emersion/go-smtp"
	"github.com/foxcpp/maddy/framework/exterrors"
	"github.com/foxcpp/maddy/internal/verifshim/vh"
)

// Node is the structural description of a generated error value.
type Node struct {
	Kind  string // P D N S W T F R; C = context.Canceled, Q = net.DNSError with a cause (UnwrapErr)
	Temp  bool
	Code  int
	Ench  [3]int
	Msg   string
	HasC  bool // F: carries smtp_code
	HasE  bool // F: carries smtp_enchcode
	HasM  bool // F: carries smtp_msg
	Inner *Node
}

// Build constructs the real Go error value.
func (n *Node) Build() error {
	switch n.Kind {
	case "P":
		return errors.New("open /var/lib/maddy/secret.db: permission denied")
	case "D":
		return context.DeadlineExceeded
	case "C":
		// cancellation of the context of the operation: nothing in maddy's conversions treats it
		// specially (the model reads it as P)
		return context.Canceled
	case "Q":
		// how the resolver reports an interrupted / failed query: a DNSError around the cause
		return &net.DNSError{Err: "lookup interrupted", Name: "internal.example", IsTemporary: n.Temp, UnwrapErr: n.Inner.Build()}
	case "N":
		return &net.DNSError{Err: "lookup failed", Name: "internal.example", IsTemporary: n.Temp}
	case "S":
		return &exterrors.SMTPError{Code: n.Code, EnhancedCode: exterrors.EnhancedCode(n.Ench), Message: n.Msg}
	case "W":
		return &exterrors.SMTPError{Code: n.Code, EnhancedCode: exterrors.EnhancedCode(n.Ench), Message: n.Msg, Err: n.Inner.Build()}
	case "T":
		return exterrors.WithTemporary(n.Inner.Build(), n.Temp)
	case "F":
		m := map[string]interface{}{"detail": "x"}
		if n.HasC {
			m["smtp_code"] = n.Code
		}
		if n.HasE {
			m["smtp_enchcode"] = exterrors.EnhancedCode(n.Ench)
		}
		if n.HasM {
			m["smtp_msg"] = n.Msg
		}
		return exterrors.WithFields(n.Inner.Build(), m)
	case "R":
		return &smtp.SMTPError{Code: n.Code, EnhancedCode: smtp.EnhancedCode(n.Ench), Message: n.Msg}
	}
	panic("bad node kind " + n.Kind)
}

// String is the prefix serialisation understood by the Lean driver.
func (n *Node) String() string {
	b01 := func(b bool) string {
		if b {
			return "1"
		}
		return "0"
	}
	trip := func() string { return fmt.Sprintf("%d %d %d %d %s", n.Code, n.Ench[0], n.Ench[1], n.Ench[2], vh.HexRunes(n.Msg)) }
	switch n.Kind {
	case "P", "D", "C":
		return n.Kind
	case "Q":
		return "Q " + b01(n.Temp) + " " + n.Inner.String()
	case "N":
		return "N " + b01(n.Temp)
	case "S", "R":
		return n.Kind + " " + trip()
	case "W":
		return "W " + trip() + " " + n.Inner.String()
	case "T":
		return "T " + b01(n.Temp) + " " + n.Inner.String()
	case "F":
		c, e, m := "-", "-", "_"
		if n.HasC {
			c = strconv.Itoa(n.Code)
		}
		if n.HasE {
			e = fmt.Sprintf("%d.%d.%d", n.Ench[0], n.Ench[1], n.Ench[2])
		}
		if n.HasM {
			m = vh.HexRunes(n.Msg)
		}
		return "F " + c + " " + e + " " + m + " " + n.Inner.String()
	}
	panic("bad kind")
}

// Parse is the inverse of String (used for replays).
func Parse(toks []string) (*Node, []string) {
	k := toks[0]
	toks = toks[1:]
	atoi := func(s string) int { v, _ := strconv.Atoi(s); return v }
	switch k {
	case "P", "D", "C":
		return &Node{Kind: k}, toks
	case "Q":
		n := &Node{Kind: "Q", Temp: toks[0] == "1"}
		n.Inner, toks = Parse(toks[1:])
		return n, toks
	case "N":
		return &Node{Kind: "N", Temp: toks[0] == "1"}, toks[1:]
	case "S", "R", "W":
		n := &Node{Kind: k, Code: atoi(toks[0]), Ench: [3]int{atoi(toks[1]), atoi(toks[2]), atoi(toks[3])}, Msg: vh.UnhexRunes(toks[4])}
		toks = toks[5:]
		if k == "W" {
			n.Inner, toks = Parse(toks)
		}
		return n, toks
	case "T":
		n := &Node{Kind: "T", Temp: toks[0] == "1"}
		n.Inner, toks = Parse(toks[1:])
		return n, toks
	case "F":
		n := &Node{Kind: "F"}
		if toks[0] != "-" {
			n.HasC, n.Code = true, atoi(toks[0])
		}
		if toks[1] != "-" {
			n.HasE = true
			p := strings.Split(toks[1], ".")
			n.Ench = [3]int{atoi(p[0]), atoi(p[1]), atoi(p[2])}
		}
		if toks[2] != "_" {
			n.HasM, n.Msg = true, vh.UnhexRunes(toks[2])
		}
		n.Inner, toks = Parse(toks[3:])
		return n, toks
	}
	panic("bad token " + k)
}

var msgs = []string{
	"Mailbox does not exist", "Try again later", "", "Пользователь не найден", "café closed",
	"edge \u007f\u0080\u0081 case", "\u0080", "xÿy", "emoji \U0001F4E7", "tab\there", "ASCII only ~",
}

// coherent annotations, including replies relayed from servers that send no enhanced code
// (EnhancedCode{0,0,0} = "not set")
var coherentCodes = [][4]int{
	{550, 5, 1, 1}, {450, 4, 2, 0}, {451, 4, 0, 0}, {554, 5, 7, 0}, {552, 5, 3, 4}, {421, 4, 4, 2},
	{501, 5, 5, 4}, {452, 4, 5, 3}, {535, 5, 7, 8}, {454, 4, 7, 0},
	{550, 0, 0, 0}, {450, 0, 0, 0}, {554, 0, 0, 0}, {421, 0, 0, 0},
}

func genCode(r *vh.Rng, coherentOnly bool) (int, [3]int) {
	if coherentOnly || r.Chance(85) {
		c := coherentCodes[r.Intn(len(coherentCodes))]
		return c[0], [3]int{c[1], c[2], c[3]}
	}
	codes := []int{250, 354, 421, 450, 451, 500, 550, 554, 599, 0}
	return codes[r.Intn(len(codes))], [3]int{r.Intn(7), r.Intn(8), r.Intn(30)}
}

// Gen generates an error tree of depth ≤ depth.  When wellFormed is set the value satisfies
// the hypotheses of the C16 theorems (coherent annotations, markers agreeing with annotations).
func Gen(r *vh.Rng, depth int, wellFormed bool) *Node {
	leaf := depth <= 0 || r.Chance(25)
	if leaf {
		switch r.Intn(6) {
		case 0:
			return &Node{Kind: "P"}
		case 1:
			return &Node{Kind: "D"}
		case 2:
			return &Node{Kind: "N", Temp: r.Bool()}
		case 3:
			if !wellFormed || depth == -100 {
				c, e := genCode(r, false)
				return &Node{Kind: "R", Code: c, Ench: e, Msg: msgs[r.Intn(len(msgs))]}
			}
			fallthrough
		default:
			c, e := genCode(r, wellFormed)
			return &Node{Kind: "S", Code: c, Ench: e, Msg: msgs[r.Intn(len(msgs))]}
		}
	}
	switch r.Intn(4) {
	case 0:
		c, e := genCode(r, wellFormed)
		return &Node{Kind: "W", Code: c, Ench: e, Msg: msgs[r.Intn(len(msgs))], Inner: Gen(r, depth-1, wellFormed)}
	case 1:
		inner := Gen(r, depth-1, wellFormed)
		t := r.Bool()
		if wellFormed {
			// maddy only marks unannotated errors; keep the marker consistent with an annotation below.
			if c, ok := CodeField(inner); ok {
				t = c/100 == 4
			}
		}
		return &Node{Kind: "T", Temp: t, Inner: inner}
	default:
		n := &Node{Kind: "F", Inner: Gen(r, depth-1, wellFormed)}
		if wellFormed {
			if r.Chance(30) {
				n.HasM, n.Msg = true, msgs[r.Intn(len(msgs))]
			}
			if r.Chance(25) {
				n.HasC, n.HasE = true, true
				n.Code, n.Ench = genCode(r, true)
				// keep markers consistent: only annotate when the inner temporariness agrees
				if t, ok := TempOf(n.Inner); !ok || t != (n.Code/100 == 4) {
					n.HasC, n.HasE = false, false
				}
			}
		} else {
			n.HasC, n.HasE, n.HasM = r.Chance(40), r.Chance(40), r.Chance(40)
			n.Code, n.Ench = genCode(r, false)
			n.Msg = msgs[r.Intn(len(msgs))]
		}
		return n
	}
}

// --- independent evaluation of the C16 hypotheses on the structure (written from the
// property text, not from the Lean model) ---

func TempOf(n *Node) (bool, bool) {
	switch n.Kind {
	case "P", "C":
		return false, false
	case "D":
		return true, true
	case "N", "T", "Q":
		return n.Temp, true
	case "S", "W", "R":
		return n.Code/100 == 4, true
	case "F":
		return TempOf(n.Inner)
	}
	return false, false
}

func CodeField(n *Node) (int, bool) {
	switch n.Kind {
	case "S", "W":
		return n.Code, true
	case "T", "Q":
		return CodeField(n.Inner)
	case "F":
		if n.HasC {
			return n.Code, true
		}
		return CodeField(n.Inner)
	}
	return 0, false
}

func MsgAnnotated(n *Node) bool {
	switch n.Kind {
	case "S", "W", "R":
		return true
	case "T", "Q":
		return MsgAnnotated(n.Inner)
	case "F":
		return n.HasM || MsgAnnotated(n.Inner)
	}
	return false
}

func pairOk(code int, e [3]int) bool {
	if e == [3]int{0, 0, 0} { // enhanced code not set: a 4yz/5yz basic code is enough
		return code/100 == 4 || code/100 == 5
	}
	return e[0] == code/100 && (e[0] == 4 || e[0] == 5)
}

// WellFormed: every annotation is class-coherent, field wrappers carry both codes or none,
// and a temporariness marker never contradicts the annotation the reply is built from.
func WellFormed(n *Node) bool {
	if !leavesCoherent(n) {
		return false
	}
	if c, ok := CodeField(n); ok {
		t, ok2 := TempOf(n)
		if !ok2 || t != (c/100 == 4) {
			return false
		}
	}
	return true
}

func leavesCoherent(n *Node) bool {
	switch n.Kind {
	case "P", "D", "N", "C":
		return true
	case "Q":
		return leavesCoherent(n.Inner)
	case "S", "R":
		return pairOk(n.Code, n.Ench)
	case "W":
		return pairOk(n.Code, n.Ench) && leavesCoherent(n.Inner)
	case "T":
		return leavesCoherent(n.Inner)
	case "F":
		if n.HasC != n.HasE {
			return false
		}
		if n.HasC && !pairOk(n.Code, n.Ench) {
			return false
		}
		return leavesCoherent(n.Inner)
	}
	return false
}

func HasDeadline(n *Node) bool {
	for ; n != nil; n = n.Inner {
		if n.Kind == "D" {
			return true
		}
	}
	return false
}

// WireEnch applies go-smtp's writeResponse rule for a missing enhanced code.
func WireEnch(code int, e smtp.EnhancedCode) string {
	if e == smtp.EnhancedCodeNotSet {
		cat := code / 100
		if cat == 2 || cat == 4 || cat == 5 {
			return fmt.Sprintf("%d.0.0", cat)
		}
		return "none"
	}
	return fmt.Sprintf("%d.%d.%d", e[0], e[1], e[2])
}

// RawEnch prints the enhanced code as stored (what a failure report's Status field shows).
func RawEnch(e smtp.EnhancedCode) string { return fmt.Sprintf("%d.%d.%d", e[0], e[1], e[2]) }

// CanonStored renders an error stored by the queue (no wire-level fill-in of a missing code).
func CanonStored(r *smtp.SMTPError) string {
	m := "text:" + vh.HexRunes(r.Message)
	if r.Message == "Internal server error" {
		m = "generic"
	}
	return fmt.Sprintf("%d %s %s", r.Code, RawEnch(r.EnhancedCode), m)
}

// CanonReply renders a reply the way the Lean driver prints it.
func CanonReply(r *smtp.SMTPError) string {
	m := "text:" + vh.HexRunes(r.Message)
	switch r.Message {
	case "Internal server error":
		m = "generic"
	case "High load, try again later":
		m = "highload"
	}
	return fmt.Sprintf("%d %s %s", r.Code, WireEnch(r.Code, r.EnhancedCode), m)
}

// CheckReply evaluates the property on one observed reply. where = "endpoint" | "queue".
// retried is only meaningful for "queue".
func CheckReply(out *vh.Out, where, op string, n *Node, r *smtp.SMTPError, mangled bool, retried bool) {
	if !WellFormed(n) {
		return
	}
	we := WireEnch(r.Code, r.EnhancedCode)
	if where == "queue" {
		we = RawEnch(r.EnhancedCode) // stored errors are printed into reports as they are
	}
	cls := r.Code / 100
	if we == "none" || int(we[0]-'0') != cls || (cls != 4 && cls != 5) {
		out.Violation("C16/"+where+"-class-mismatch", op, fmt.Sprintf("reply %d %s", r.Code, we))
	}
	if where == "queue" {
		if retried != (cls == 4) {
			out.Violation("C16/queue-retry-vs-class", op, fmt.Sprintf("retried=%v recorded %d %s", retried, r.Code, we))
		}
	} else {
		t, known := TempOf(n)
		if known && t && cls != 4 {
			out.Violation("C16/endpoint-temporary-not-4yz", op, fmt.Sprintf("reply %d", r.Code))
		}
		if known && !t && !HasDeadline(n) && cls != 5 {
			out.Violation("C16/endpoint-permanent-not-5yz", op, fmt.Sprintf("reply %d", r.Code))
		}
	}
	if !MsgAnnotated(n) && r.Message != "Internal server error" && r.Message != "High load, try again later" {
		out.Violation("C16/"+where+"-discloses-detail", op, "message "+strconv.Quote(r.Message))
	}
	if mangled {
		for _, ch := range r.Message {
			if ch >= 0x80 {
				out.Violation("C16/non-ascii-reply", op, fmt.Sprintf("U+%04X in reply to a non-SMTPUTF8 client", ch))
				break
			}
		}
	}
}
