// Package vos is the stand-in for package os that internal/target/queue/queue.go is compiled
// against in the C02 check (its `"os"` import is rewritten at check time; see checks/c02.py).
// It exists only inside the go-test overlay.
//
// Every call is forwarded to the real file system.  For directories registered with Register the
// calls are also recorded, per message id (file name up to the first '.'), together with a shadow
// copy of the files of that id taken BEFORE each mutating call, and with the number of bytes of
// each file that an fsync has made durable.  From those records the harness rebuilds the directory
// as it would be found after a crash before any call, in the middle of a write, or with un-synced
// data lost.  For unregistered directories vos behaves exactly like os.
package vos

import (
	"os"
	"path/filepath"
	"sort"
	"strings"
	"sync"
	"syscall"
)

const ModePerm = os.ModePerm

// flags of OpenFile (same values as package os)
const (
	O_RDONLY = os.O_RDONLY
	O_WRONLY = os.O_WRONLY
	O_RDWR   = os.O_RDWR
	O_APPEND = os.O_APPEND
	O_CREATE = os.O_CREATE
	O_EXCL   = os.O_EXCL
	O_SYNC   = os.O_SYNC
	O_TRUNC  = os.O_TRUNC
)

var (
	ErrNotExist   = os.ErrNotExist
	ErrExist      = os.ErrExist
	ErrPermission = os.ErrPermission
	ErrClosed     = os.ErrClosed
)

type PathError = os.PathError
type LinkError = os.LinkError

type (
	FileMode = os.FileMode
	FileInfo = os.FileInfo
	DirEntry = os.DirEntry
)

func IsNotExist(err error) bool { return os.IsNotExist(err) }
func IsExist(err error) bool    { return os.IsExist(err) }

func MkdirAll(path string, perm os.FileMode) error { return os.MkdirAll(path, perm) }
func ReadDir(name string) ([]os.DirEntry, error)   { return os.ReadDir(name) }
func RemoveAll(path string) error                  { return os.RemoveAll(path) }

// FState is the shadow of one file: its bytes and how many leading bytes are durable.
type FState struct {
	Data    []byte
	Durable int
}

func (s *FState) clone() FState {
	return FState{Data: append([]byte(nil), s.Data...), Durable: s.Durable}
}

// Entry is one record of a per-id log.
type Entry struct {
	Seq    int               // position in the global order of the world
	Kind   byte              // 'o' mutating call, 'r' read-only call, 'e' event (logged by the harness)
	Text   string            // "cH" "wH" "sN" "mvNM" "rmB" / "openM" "statH" / event text
	File   string            // kind letter of the file a mutating call acts on
	Bytes  []byte            // bytes of a write
	Failed bool              // the call returned an error
	Pre    map[string]FState // files of this id (by kind letter) before a mutating call
}

// World is the record of one spool directory.
type World struct {
	mu     sync.Mutex
	Dir    string
	files  map[string]*FState // by base name
	logs   map[string][]*Entry
	seq    int
	faults []*fault
}

// fault: the k-th read-only call `call` ("openM" "readM" "statH" "statB" "openH" "readH" …) on a file of id fails ONCE with
// errno; every other call (and the same call in any later run on the directory) is served normally: a transient
// condition of the machine (EMFILE, EIO, EACCES), not a property of the file.
type fault struct {
	id, call string
	k        int
	errno    syscall.Errno
	fired    bool
}

var errnos = map[string]syscall.Errno{"EMFILE": syscall.EMFILE, "EIO": syscall.EIO, "EACCES": syscall.EACCES, "ENFILE": syscall.ENFILE, "EINTR": syscall.EINTR, "ENOMEM": syscall.ENOMEM}

// ErrnoOK tells whether name is an errno InjectFault knows.
func ErrnoOK(name string) bool { _, ok := errnos[name]; return ok }

// InjectFault arms one transient fault (see fault).  Logged, when it fires, as event "@F:<call>,<k>,<errno>" in front
// of the record of the failing call.
func (w *World) InjectFault(id, call string, k int, errno string) {
	w.mu.Lock()
	w.faults = append(w.faults, &fault{id: id, call: call, k: k, errno: errnos[errno]})
	w.mu.Unlock()
}

// FaultsFired lists the faults that fired, as "<call>,<k>,<errno>" per id.
func (w *World) FaultsFired(id string) []string {
	w.mu.Lock()
	defer w.mu.Unlock()
	var out []string
	for _, e := range w.logs[id] {
		if e.Kind == 'e' && strings.HasPrefix(e.Text, "@F:") {
			out = append(out, e.Text[3:])
		}
	}
	return out
}

// faultLocked: is this call the one an armed fault waits for?  (w.mu held)
func (w *World) faultLocked(id, call string) error {
	for _, f := range w.faults {
		if f.fired || f.id != id || f.call != call {
			continue
		}
		f.k--
		if f.k > 0 {
			continue
		}
		f.fired = true
		name := ""
		for n, v := range errnos {
			if v == f.errno {
				name = n
			}
		}
		w.addLocked(id, &Entry{Kind: 'e', Text: "@F:" + call + "," + name})
		return f.errno
	}
	return nil
}

var (
	regMu  sync.RWMutex
	worlds = map[string]*World{}
)

// Register starts recording for dir; initial holds the files already present (all durable).
func Register(dir string, initial map[string][]byte) *World {
	w := &World{Dir: filepath.Clean(dir), files: map[string]*FState{}, logs: map[string][]*Entry{}}
	for name, data := range initial {
		w.files[name] = &FState{Data: append([]byte(nil), data...), Durable: len(data)}
	}
	regMu.Lock()
	worlds[w.Dir] = w
	regMu.Unlock()
	return w
}

func Unregister(w *World) {
	regMu.Lock()
	delete(worlds, w.Dir)
	regMu.Unlock()
}

func worldOf(path string) *World {
	regMu.RLock()
	w := worlds[filepath.Dir(filepath.Clean(path))]
	regMu.RUnlock()
	return w
}

// Split gives the message id and the kind letter of a spool file name.
func Split(base string) (id, kind string) {
	i := strings.IndexByte(base, '.')
	if i < 0 {
		return base, "?"
	}
	id = base[:i]
	switch base[i:] {
	case ".header":
		kind = "H"
	case ".body":
		kind = "B"
	case ".meta":
		kind = "M"
	case ".meta.new":
		kind = "N"
	case ".meta_broken":
		kind = "X"
	default:
		kind = "?" + base[i:]
	}
	return
}

var suffix = map[string]string{"H": ".header", "B": ".body", "M": ".meta", "N": ".meta.new", "X": ".meta_broken"}

// FileName is the inverse of Split.
func FileName(id, kind string) string {
	if s, ok := suffix[kind]; ok {
		return id + s
	}
	return id + kind[1:]
}

func (w *World) snapshotLocked(id string) map[string]FState {
	out := map[string]FState{}
	for name, st := range w.files {
		i, k := Split(name)
		if i == id {
			out[k] = st.clone()
		}
	}
	return out
}

func (w *World) addLocked(id string, e *Entry) {
	e.Seq = w.seq
	w.seq++
	w.logs[id] = append(w.logs[id], e)
}

// Event appends a harness event to the log of id.
func (w *World) Event(id, text string) {
	w.mu.Lock()
	w.addLocked(id, &Entry{Kind: 'e', Text: text})
	w.mu.Unlock()
}

// Events appends several events atomically.
func (w *World) Events(id string, texts ...string) {
	w.mu.Lock()
	for _, t := range texts {
		w.addLocked(id, &Entry{Kind: 'e', Text: t})
	}
	w.mu.Unlock()
}

// ExternalRemove deletes a file behind the queue's back (not a call of the queue): used to reach the
// clean-up branches of openMessage.  Logged as event "@Z:<kind>".
func (w *World) ExternalRemove(id, kind string) error {
	w.mu.Lock()
	defer w.mu.Unlock()
	name := FileName(id, kind)
	err := os.Remove(filepath.Join(w.Dir, name))
	if err == nil {
		delete(w.files, name)
	}
	w.addLocked(id, &Entry{Kind: 'e', Text: "@Z:" + kind})
	return err
}

// Log returns a copy of the log of id.
func (w *World) Log(id string) []*Entry {
	w.mu.Lock()
	defer w.mu.Unlock()
	return append([]*Entry(nil), w.logs[id]...)
}

// Ids lists the ids with a log or a file, sorted.
func (w *World) Ids() []string {
	w.mu.Lock()
	defer w.mu.Unlock()
	set := map[string]bool{}
	for id := range w.logs {
		set[id] = true
	}
	for name := range w.files {
		id, _ := Split(name)
		set[id] = true
	}
	var out []string
	for id := range set {
		out = append(out, id)
	}
	sort.Strings(out)
	return out
}

// CountOps counts the mutating calls with the given label over all ids.
func (w *World) CountOps(text string) int {
	w.mu.Lock()
	defer w.mu.Unlock()
	n := 0
	for _, lg := range w.logs {
		for _, e := range lg {
			if e.Kind == 'o' && e.Text == text {
				n++
			}
		}
	}
	return n
}

// Len is the number of log entries of all ids.
func (w *World) Len() int {
	w.mu.Lock()
	defer w.mu.Unlock()
	return w.seq
}

// Final returns the current shadow files of id by kind letter.
func (w *World) Final(id string) map[string]FState {
	w.mu.Lock()
	defer w.mu.Unlock()
	return w.snapshotLocked(id)
}

// Shadow returns all shadow files by base name.
func (w *World) Shadow() map[string]FState {
	w.mu.Lock()
	defer w.mu.Unlock()
	out := map[string]FState{}
	for name, st := range w.files {
		out[name] = st.clone()
	}
	return out
}

// File mirrors the part of *os.File that queue.go uses.
type File struct {
	f    *os.File
	w    *World
	st   *FState
	id   string
	kind string
	// the file existed and was opened without O_TRUNC: the shadow is re-read after every write
	reread bool
	// opened read-only on a registered directory: Read may meet an injected fault
	rw           *World
	rid, rkind   string
}

func (f *File) Seek(offset int64, whence int) (int64, error) { return f.f.Seek(offset, whence) }
func (f *File) Chmod(mode os.FileMode) error                 { return f.f.Chmod(mode) }
func (f *File) ReadAt(p []byte, off int64) (int, error)      { return f.f.ReadAt(p, off) }
func (f *File) Fd() uintptr                                  { return f.f.Fd() }

func (f *File) Name() string               { return f.f.Name() }
func (f *File) Read(p []byte) (int, error) {
	if f.rw != nil {
		f.rw.mu.Lock()
		errno := f.rw.faultLocked(f.rid, "read"+f.rkind)
		if errno != nil {
			f.rw.addLocked(f.rid, &Entry{Kind: 'r', Text: "read" + f.rkind, File: f.rkind, Failed: true})
		}
		f.rw.mu.Unlock()
		if errno != nil {
			return 0, &os.PathError{Op: "read", Path: f.f.Name(), Err: errno}
		}
	}
	return f.f.Read(p)
}
func (f *File) Close() error               { return f.f.Close() }
func (f *File) Stat() (os.FileInfo, error) { return f.f.Stat() }

func (f *File) Write(p []byte) (int, error) {
	if f.w == nil || f.st == nil {
		return f.f.Write(p)
	}
	f.w.mu.Lock()
	defer f.w.mu.Unlock()
	e := &Entry{Kind: 'o', Text: "w" + f.kind, File: f.kind, Pre: f.w.snapshotLocked(f.id)}
	n, err := f.f.Write(p)
	e.Bytes = append([]byte(nil), p[:n]...)
	e.Failed = err != nil
	if f.reread {
		if b, rerr := os.ReadFile(f.f.Name()); rerr == nil {
			f.st.Data = b
			if f.st.Durable > len(b) {
				f.st.Durable = len(b)
			}
		}
	} else {
		f.st.Data = append(f.st.Data, p[:n]...)
	}
	f.w.addLocked(f.id, e)
	return n, err
}

func (f *File) WriteString(s string) (int, error) { return f.Write([]byte(s)) }

func (f *File) Sync() error {
	if f.w == nil || f.st == nil {
		return f.f.Sync()
	}
	f.w.mu.Lock()
	defer f.w.mu.Unlock()
	e := &Entry{Kind: 'o', Text: "s" + f.kind, File: f.kind, Pre: f.w.snapshotLocked(f.id)}
	// the real fsync is skipped: durability is what the shadow says (tmpfs/ext4 make no difference to the check)
	f.st.Durable = len(f.st.Data)
	f.w.addLocked(f.id, e)
	return nil
}

func Create(name string) (*File, error) {
	w := worldOf(name)
	if w == nil {
		f, err := os.Create(name)
		if err != nil {
			return nil, err
		}
		return &File{f: f}, nil
	}
	base := filepath.Base(name)
	id, kind := Split(base)
	w.mu.Lock()
	defer w.mu.Unlock()
	e := &Entry{Kind: 'o', Text: "c" + kind, File: kind, Pre: w.snapshotLocked(id)}
	f, err := os.Create(name)
	e.Failed = err != nil
	w.addLocked(id, e)
	if err != nil {
		return nil, err
	}
	st := &FState{}
	w.files[base] = st
	return &File{f: f, w: w, st: st, id: id, kind: kind}, nil
}

// OpenFile: with O_CREATE (or O_TRUNC) on a registered directory this is a mutating call recorded
// like Create ("c"+kind; Failed when e.g. O_EXCL meets an existing file).  A file that already
// exists and is opened for writing without O_TRUNC keeps its shadow; after every write the shadow
// is re-read from the real file (position-independent).
func OpenFile(name string, flag int, perm os.FileMode) (*File, error) {
	w := worldOf(name)
	if w == nil {
		f, err := os.OpenFile(name, flag, perm)
		if err != nil {
			return nil, err
		}
		return &File{f: f}, nil
	}
	if flag&(O_WRONLY|O_RDWR|O_CREATE|O_TRUNC|O_APPEND) == 0 {
		return Open(name)
	}
	base := filepath.Base(name)
	id, kind := Split(base)
	w.mu.Lock()
	defer w.mu.Unlock()
	e := &Entry{Kind: 'o', Text: "c" + kind, File: kind, Pre: w.snapshotLocked(id)}
	_, statErr := os.Lstat(name)
	existed := statErr == nil
	f, err := os.OpenFile(name, flag, perm)
	e.Failed = err != nil
	if !existed || flag&O_TRUNC != 0 || err != nil {
		// creation / truncation (or a refused call) is one recorded mutating call
		w.addLocked(id, e)
	}
	if err != nil {
		return nil, err
	}
	st, present := w.files[base]
	if !present || !existed || flag&O_TRUNC != 0 {
		st = &FState{}
		w.files[base] = st
	}
	return &File{f: f, w: w, st: st, id: id, kind: kind, reread: existed && flag&O_TRUNC == 0}, nil
}

func WriteFile(name string, data []byte, perm os.FileMode) error {
	f, err := OpenFile(name, O_WRONLY|O_CREATE|O_TRUNC, perm)
	if err != nil {
		return err
	}
	_, err = f.Write(data)
	if err1 := f.Close(); err1 != nil && err == nil {
		err = err1
	}
	return err
}

func ReadFile(name string) ([]byte, error) {
	w := worldOf(name)
	b, err := os.ReadFile(name)
	if w != nil {
		id, kind := Split(filepath.Base(name))
		w.mu.Lock()
		w.addLocked(id, &Entry{Kind: 'r', Text: "open" + kind, File: kind, Failed: err != nil})
		w.mu.Unlock()
	}
	return b, err
}

func Lstat(name string) (os.FileInfo, error) { return Stat(name) }

func Open(name string) (*File, error) {
	w := worldOf(name)
	if w == nil {
		f, err := os.Open(name)
		if err != nil {
			return nil, err
		}
		return &File{f: f}, nil
	}
	id, kind := Split(filepath.Base(name))
	w.mu.Lock()
	if errno := w.faultLocked(id, "open"+kind); errno != nil {
		w.addLocked(id, &Entry{Kind: 'r', Text: "open" + kind, File: kind, Failed: true})
		w.mu.Unlock()
		return nil, &os.PathError{Op: "open", Path: name, Err: errno}
	}
	w.mu.Unlock()
	f, err := os.Open(name)
	w.mu.Lock()
	w.addLocked(id, &Entry{Kind: 'r', Text: "open" + kind, File: kind, Failed: err != nil})
	w.mu.Unlock()
	if err != nil {
		return nil, err
	}
	return &File{f: f, rw: w, rid: id, rkind: kind}, nil
}

func Stat(name string) (os.FileInfo, error) {
	w := worldOf(name)
	if w != nil {
		id, kind := Split(filepath.Base(name))
		w.mu.Lock()
		if errno := w.faultLocked(id, "stat"+kind); errno != nil {
			w.addLocked(id, &Entry{Kind: 'r', Text: "stat" + kind, File: kind, Failed: true})
			w.mu.Unlock()
			return nil, &os.PathError{Op: "stat", Path: name, Err: errno}
		}
		w.mu.Unlock()
	}
	fi, err := os.Stat(name)
	if w != nil {
		id, kind := Split(filepath.Base(name))
		w.mu.Lock()
		w.addLocked(id, &Entry{Kind: 'r', Text: "stat" + kind, File: kind, Failed: err != nil})
		w.mu.Unlock()
	}
	return fi, err
}

func Remove(name string) error {
	w := worldOf(name)
	if w == nil {
		return os.Remove(name)
	}
	base := filepath.Base(name)
	id, kind := Split(base)
	w.mu.Lock()
	defer w.mu.Unlock()
	e := &Entry{Kind: 'o', Text: "rm" + kind, File: kind, Pre: w.snapshotLocked(id)}
	err := os.Remove(name)
	e.Failed = err != nil
	if err == nil {
		delete(w.files, base)
	}
	w.addLocked(id, e)
	return err
}

func Rename(oldpath, newpath string) error {
	w := worldOf(oldpath)
	if w == nil || worldOf(newpath) != w {
		return os.Rename(oldpath, newpath)
	}
	ob, nb := filepath.Base(oldpath), filepath.Base(newpath)
	id, ok := Split(ob)
	_, nk := Split(nb)
	w.mu.Lock()
	defer w.mu.Unlock()
	e := &Entry{Kind: 'o', Text: "mv" + ok + nk, File: ok, Pre: w.snapshotLocked(id)}
	err := os.Rename(oldpath, newpath)
	e.Failed = err != nil
	if err == nil {
		if st, present := w.files[ob]; present {
			delete(w.files, ob)
			w.files[nb] = st
		}
	}
	w.addLocked(id, e)
	return err
}
