// Package vcfg: input generators shared by the C20 harnesses (lexer and cfgparser packages).
// Everything is derived from a vh.Rng. The generated alphabet never contains '/' or NUL so that an
// `import` argument can only name something inside the harness's own configuration directory.
package vcfg

import (
	"strings"

	"github.com/foxcpp/maddy/internal/verifshim/vh"
)

// Names used by generated configurations.
var (
	SnipNames  = []string{"sa", "sb", "sc", "deep", "self"}
	MacroNames = []string{"m1", "m2", "mm", "empty", "loop"}
	FileNames  = []string{"inc1", "inc2", "inc3", "selfinc", "muta", "mutb"}
	EnvKeys    = []string{"H", "DOMAIN", "X}Y", "a$b", "E", "NEST"}
	dirNames   = []string{"smtp", "hostname", "tls", "check", "modify", "deliver_to", "a", "b", "auth.pass_table", "x-y_z", "été", "日本", "d9"}
	words      = []string{"x", "y", "example.org", "tcp:0.0.0.0:25", "&ref", "=", "1", "off", "é", "日本語", "a=b", "(p)", "$", "$1@$3", "a)b", "(", ")"}
)

type Gen struct {
	R     *vh.Rng
	CRLF  bool
	InDir bool // generating the content of an imported file
}

func (g *Gen) nl() string {
	if g.CRLF {
		return "\r\n"
	}
	return "\n"
}

func (g *Gen) pick(xs []string) string { return xs[g.R.Intn(len(xs))] }

// Pick3 returns one of the given strings.
func (g *Gen) Pick3(xs ...string) string { return xs[g.R.Intn(len(xs))] }

func (g *Gen) name() string {
	r := g.R
	switch x := r.Intn(100); {
	case x < 70:
		return g.pick(dirNames)
	case x < 74:
		return "1abc"
	case x < 77:
		return `""`
	case x < 80:
		return "bad!name"
	case x < 83:
		return "(" + g.pick(SnipNames) + ")"
	case x < 86:
		return "$(" + g.pick(MacroNames) + ")"
	case x < 88:
		return "$(" + g.pick(MacroNames)
	case x < 90:
		return "{"
	case x < 92:
		return `"quoted name"`
	case x < 94:
		return "{env:H}"
	default:
		return g.pick(dirNames) + g.pick([]string{"", "1", ".x", "_", "-"})
	}
}

func (g *Gen) quoted() string {
	r := g.R
	var b strings.Builder
	b.WriteByte('"')
	n := r.Intn(6)
	for i := 0; i < n; i++ {
		switch r.Intn(12) {
		case 0:
			b.WriteString(`\"`)
		case 1:
			b.WriteString(`\\`)
		case 2:
			b.WriteString(`\n`)
		case 3:
			b.WriteString(" ")
		case 4:
			b.WriteString("\n")
		case 5:
			b.WriteString("#")
		case 6:
			b.WriteString("{")
		case 7:
			b.WriteString("$(" + g.pick(MacroNames) + ")")
		case 8:
			b.WriteString(`\`)
		default:
			b.WriteString(g.pick(words))
		}
	}
	if !r.Chance(4) {
		b.WriteByte('"')
	}
	return b.String()
}

func (g *Gen) arg() string {
	r := g.R
	switch x := r.Intn(100); {
	case x < 40:
		return g.pick(words)
	case x < 55:
		return g.quoted()
	case x < 63:
		return "$(" + g.pick(MacroNames) + ")"
	case x < 70:
		return g.pick(words) + "$(" + g.pick(MacroNames) + ")" + g.pick([]string{"", "z", "$(" + g.pick(MacroNames) + ")"})
	case x < 77:
		return "{env:" + g.pick(EnvKeys) + "}"
	case x < 80:
		return "pre{env:" + g.pick(EnvKeys) + "}post{env:UNSET}"
	case x < 82:
		return "{"
	case x < 85:
		return "}"
	case x < 87:
		return `\`
	case x < 89:
		return `"{"`
	case x < 91:
		return `"}"`
	case x < 93:
		return "$()"
	case x < 95:
		return "x$()"
	case x < 97:
		return `a\"b`
	default:
		return `""`
	}
}

func (g *Gen) args(b *strings.Builder) {
	r := g.R
	n := r.Intn(4)
	for i := 0; i < n; i++ {
		b.WriteString(g.pick([]string{" ", " ", "  ", "\t"}))
		b.WriteString(g.arg())
		if r.Chance(6) {
			b.WriteString(" \\" + g.nl() + "   ")
		}
	}
}

func (g *Gen) importLine(b *strings.Builder) {
	r := g.R
	b.WriteString("import")
	switch x := r.Intn(100); {
	case x < 45:
		b.WriteString(" " + g.pick(SnipNames))
	case x < 65:
		b.WriteString(" " + g.pick(FileNames))
	case x < 72:
		b.WriteString(" unknown_thing")
	case x < 76:
	case x < 80:
		b.WriteString(" " + g.pick(SnipNames) + " " + g.pick(SnipNames))
	case x < 84:
		b.WriteString(" $(" + g.pick(MacroNames) + ")")
	case x < 87:
		b.WriteString(" " + g.pick([]string{".", "..", `""`}))
	case x < 90:
		b.WriteString(" " + g.pick(SnipNames) + " {" + g.nl() + "ignored" + g.nl() + "}")
	default:
		b.WriteString(" " + g.pick(SnipNames))
	}
}

// directive writes one directive (with optional block) at the given block depth.
func (g *Gen) directive(b *strings.Builder, depth int, imports *int) {
	r := g.R
	ind := strings.Repeat(" ", depth*2)
	b.WriteString(ind)
	if r.Chance(12) && *imports > 0 {
		*imports--
		g.importLine(b)
		b.WriteString(g.nl())
		return
	}
	b.WriteString(g.name())
	g.args(b)
	if r.Chance(45 / (depth + 1)) {
		switch x := r.Intn(100); {
		case x < 60:
			b.WriteString(" {" + g.nl())
			n := r.Intn(4)
			for i := 0; i < n; i++ {
				g.directive(b, depth+1, imports)
			}
			b.WriteString(ind + "}")
		case x < 70:
			b.WriteString(" { }")
		case x < 80:
			b.WriteString(" {" + g.nl() + ind + "  " + g.pick(dirNames) + " " + g.pick(words) + " }")
		case x < 88:
			b.WriteString(" { " + g.pick(dirNames) + " " + g.pick(words) + " }")
		case x < 94:
			b.WriteString(" {" + g.nl() + ind + "}" + " trailing")
		default:
			b.WriteString(g.nl() + ind + "{" + g.nl() + ind + "}")
		}
	}
	if r.Chance(8) {
		b.WriteString(" # comment { \" $(x)")
	}
	b.WriteString(g.nl())
}

// Config returns a grammar-based configuration text.
func (g *Gen) Config() string {
	r := g.R
	var b strings.Builder
	if r.Chance(4) {
		b.WriteString("\ufeff")
	}
	imports := 3
	n := 1 + r.Intn(7)
	for i := 0; i < n; i++ {
		switch x := r.Intn(100); {
		case x < 14: // macro declaration
			b.WriteString("$(" + g.pick(MacroNames) + ")")
			switch y := r.Intn(10); {
			case y < 7:
				b.WriteString(" =")
			case y < 8:
				b.WriteString(" ")
			default:
				b.WriteString(" = ")
			}
			g.args(&b)
			if r.Chance(30) {
				b.WriteString(" $(" + g.pick(MacroNames) + ")")
			}
			b.WriteString(g.nl())
		case x < 28: // snippet declaration
			b.WriteString("(" + g.pick(SnipNames) + ")")
			if r.Chance(6) {
				b.WriteString(" arg")
			}
			if r.Chance(92) {
				b.WriteString(" {" + g.nl())
				k := r.Intn(3)
				for j := 0; j < k; j++ {
					g.directive(&b, 1, &imports)
				}
				if r.Chance(35) && imports > 0 {
					imports--
					b.WriteString("  ")
					g.importLine(&b)
					b.WriteString(g.nl())
				}
				b.WriteString("}")
			}
			b.WriteString(g.nl())
		case x < 33:
			b.WriteString("# just a comment" + g.nl())
		case x < 36:
			b.WriteString(g.nl())
		default:
			g.directive(&b, 0, &imports)
		}
	}
	return b.String()
}

// Deep returns a chain of d nested blocks (closed or not).
func (g *Gen) Deep(d int, closeN int, oneLine bool) string {
	var b strings.Builder
	sep := "\n"
	if oneLine {
		sep = " "
	}
	for i := 0; i < d; i++ {
		b.WriteString("a {" + sep)
	}
	b.WriteString("leaf x" + "\n")
	for i := 0; i < closeN; i++ {
		b.WriteString("}\n")
	}
	return b.String()
}

var mutAlphabet = []string{"{", "}", "\"", "\\", "#", "$", "(", ")", "=", "\n", "\r", " ", "\t", "$(", "{env:", "import ", "a", "1", ".",
	"\x80", "\xff", "\xc3", "\xe2\x80", "\ufeff", "\u00a0", "\u2028", "\u0085", "\u3000", "\u00e9", "\\\n", "\v", "\f"}

// Mutate applies k random edits.
func (g *Gen) Mutate(s string, k int) string {
	r := g.R
	b := []byte(s)
	for i := 0; i < k; i++ {
		switch r.Intn(7) {
		case 0, 1: // insert
			p := r.Intn(len(b) + 1)
			ins := []byte(mutAlphabet[r.Intn(len(mutAlphabet))])
			b = append(b[:p:p], append(ins, b[p:]...)...)
		case 2: // delete
			if len(b) > 0 {
				p := r.Intn(len(b))
				b = append(b[:p:p], b[p+1:]...)
			}
		case 3: // replace
			if len(b) > 0 {
				p := r.Intn(len(b))
				ins := []byte(mutAlphabet[r.Intn(len(mutAlphabet))])
				b = append(b[:p:p], append(ins, b[p+1:]...)...)
			}
		case 4: // duplicate a span
			if len(b) > 0 {
				p := r.Intn(len(b))
				l := 1 + r.Intn(12)
				if p+l > len(b) {
					l = len(b) - p
				}
				span := append([]byte{}, b[p:p+l]...)
				q := r.Intn(len(b) + 1)
				b = append(b[:q:q], append(span, b[q:]...)...)
			}
		case 5: // truncate
			if len(b) > 0 {
				b = b[:r.Intn(len(b)+1)]
			}
		case 6: // delete a span
			if len(b) > 0 {
				p := r.Intn(len(b))
				l := 1 + r.Intn(6)
				if p+l > len(b) {
					l = len(b) - p
				}
				b = append(b[:p:p], b[p+l:]...)
			}
		}
	}
	out := strings.ReplaceAll(string(b), "/", "_")
	return strings.ReplaceAll(out, "\x00", "_")
}

// Raw returns a short string over the special alphabet.
func (g *Gen) Raw() string {
	r := g.R
	n := r.Intn(14)
	var b strings.Builder
	for i := 0; i < n; i++ {
		b.WriteString(mutAlphabet[r.Intn(len(mutAlphabet))])
	}
	return b.String()
}
