// Package vcfg: input generators shared by the C20 harnesses (lexer and cfgparser packages).
// Everything is derived from a vh.Rng. The generated alphabet never contains '/' or NUL so that an
// `import` argument can only name something inside the harness's own configuration directory.
package vcfg

import (
	"strings"

	"github.com/foxcpp/maddy/internal/verifshim/vh"
)

// Names used by generated configurations.
var (
	SnipNames  = []string{"sa", "sb", "sc", "deep", "self"}
	MacroNames = []string{"m1", "m2", "mm", "empty", "loop"}
	FileNames  = []string{"inc1", "inc2", "inc3", "selfinc", "muta", "mutb", "inc4"}
	EnvKeys    = []string{"H", "DOMAIN", "X}Y", "a$b", "E", "NEST"}
	dirNames   = []string{"smtp", "hostname", "tls", "check", "modify", "deliver_to", "a", "b", "auth.pass_table", "x-y_z", "été", "日本", "d9"}
	words      = []string{"x", "y", "example.org", "tcp:0.0.0.0:25", "&ref", "=", "1", "off", "é", "日本語", "a=b", "(p)", "$", "$1@$3", "a)b", "(", ")"}
)

type Gen struct {
	R     *vh.Rng
	CRLF  bool
	InDir bool // generating the content of an imported file
	// Chaos 0: only constructs that parse (all syntax features, valid references);
	// 1: a few ill-formed constructs; 2: many.
	Chaos int
	Snips []string // snippets this configuration declares (Chaos 0 imports only these, acyclically)
	Files []string // importable files that exist
	rank  int      // inside the body of Snips[rank-1]: may import Snips[:rank-1] only (Chaos 0); 0 = anywhere
}

func (g *Gen) weird(p1, p2 int) bool {
	switch g.Chaos {
	case 0:
		return false
	case 1:
		return g.R.Intn(1000) < p1*10/4
	default:
		return g.R.Chance(p2)
	}
}

func (g *Gen) nl() string {
	if g.CRLF {
		return "\r\n"
	}
	return "\n"
}

func (g *Gen) pick(xs []string) string { return xs[g.R.Intn(len(xs))] }

// Pick3 returns one of the given strings.
func (g *Gen) Pick3(xs ...string) string { return xs[g.R.Intn(len(xs))] }

func (g *Gen) name() string {
	r := g.R
	if !g.weird(15, 15) {
		if r.Chance(85) {
			return g.pick(dirNames)
		}
		return g.pick(dirNames) + g.pick([]string{"", "1", ".x", "_", "-"})
	}
	if r.Chance(20) {
		// the rune classes behind the name rule: digits, letters and marks outside ASCII, in first and later positions
		return g.pick([]string{"\u0663abc", "\uff11x", "\U0001d7d8zero", "a\u0663", "x\uff11", "\u0301a", "a\u0301", "a\u20acb", "\u00c9a", "\u00b2x", "x\u00b2",
			"\u00bd", "a\u00a0b", "\u0e50\u0e51", "\u2160x", "_\u0663", "-a", ".a", "\u00aa", "\u00df9"})
	}
	switch x := r.Intn(30); {
	case x < 4:
		return "1abc"
	case x < 7:
		return `""`
	case x < 10:
		return "bad!name"
	case x < 13:
		return "(" + g.pick(SnipNames) + ")"
	case x < 16:
		return "$(" + g.pick(MacroNames) + ")"
	case x < 18:
		return "$(" + g.pick(MacroNames)
	case x < 20:
		return "{"
	case x < 22:
		return `"quoted name"`
	case x < 24:
		return "{env:H}"
	case x < 26:
		return "$()"
	default:
		return g.pick(words)
	}
}

func (g *Gen) quoted() string {
	r := g.R
	var b strings.Builder
	b.WriteByte('"')
	n := r.Intn(6)
	for i := 0; i < n; i++ {
		switch r.Intn(12) {
		case 0:
			b.WriteString(`\"`)
		case 1:
			b.WriteString(`\\`)
		case 2:
			b.WriteString(`\n`)
		case 3:
			b.WriteString(" ")
		case 4:
			b.WriteString("\n")
		case 5:
			b.WriteString("#")
		case 6:
			b.WriteString("{")
		case 7:
			b.WriteString("$(" + g.pick(MacroNames) + ")")
		case 8:
			if g.Chaos > 0 {
				b.WriteString(`\`)
			} else {
				b.WriteString(`\x`)
			}
		default:
			b.WriteString(g.pick(words))
		}
	}
	if !g.weird(4, 4) {
		b.WriteByte('"')
	}
	return b.String()
}

func (g *Gen) arg() string {
	r := g.R
	if g.weird(10, 14) {
		return g.pick([]string{"{", "}", "}", `\`, "$()", `"{`, "\"", "{env:", "$(", "x$(m1", "$($)", "$(m$1)", `"$( )"`})
	}
	switch x := r.Intn(100); {
	case x < 45:
		return g.pick(words)
	case x < 60:
		return g.quoted()
	case x < 68:
		return "$(" + g.pick(MacroNames) + ")"
	case x < 75:
		return g.pick(words) + "$(" + g.pick(MacroNames) + ")" + g.pick([]string{"", "z", "$(" + g.pick(MacroNames) + ")"})
	case x < 82:
		return "{env:" + g.pick(EnvKeys) + "}"
	case x < 85:
		return "pre{env:" + g.pick(EnvKeys) + "}post{env:UNSET}"
	case x < 88:
		if g.Chaos > 0 {
			return `"{"`
		}
		return `"{x"`
	case x < 91:
		if g.Chaos > 0 {
			return `"}" x`
		}
		return `"}x"`
	case x < 92:
		// references with unusual names: whole arguments (always a reference) and inside a string
		return g.pick([]string{"x$()", "$()", "$($)", "$(m$1)", "x$(m$1)", `"$(m 1)"`, `"x$(m 1)"`})
	case x < 93:
		// the same reference several times, nested and overlapping forms
		m := g.pick(MacroNames)
		return g.pick([]string{"x$(" + m + ")$(" + m + ")b)", "$($(" + m + "))", "a$(" + m + "$(" + m + "))", "$(" + m + ")-$(" + m + ")-$(" + m + ")"})
	case x < 96:
		return `a\"b`
	default:
		return `""`
	}
}

func (g *Gen) args(b *strings.Builder) {
	r := g.R
	n := r.Intn(4)
	for i := 0; i < n; i++ {
		b.WriteString(g.pick([]string{" ", " ", "  ", "\t"}))
		b.WriteString(g.arg())
		if r.Chance(6) {
			b.WriteString(" \\" + g.nl() + "   ")
		}
	}
}

// importable returns the names a well-formed import may use here.
func (g *Gen) importable() []string {
	var xs []string
	if g.rank == 0 {
		xs = append(xs, g.Snips...)
	} else {
		xs = append(xs, g.Snips[:g.rank-1]...)
	}
	if !g.InDir {
		xs = append(xs, g.Files...)
	}
	return xs
}

func (g *Gen) importLine(b *strings.Builder) bool {
	r := g.R
	if !g.weird(30, 45) {
		xs := g.importable()
		if len(xs) == 0 {
			return false
		}
		b.WriteString("import " + g.pick(xs))
		if r.Chance(8) {
			b.WriteString(" {" + g.nl() + "ignored" + g.nl() + "}")
		}
		return true
	}
	b.WriteString("import")
	switch x := r.Intn(100); {
	case x < 35:
		b.WriteString(" " + g.pick(SnipNames))
	case x < 55:
		b.WriteString(" " + g.pick(FileNames))
	case x < 65:
		b.WriteString(" unknown_thing")
	case x < 72:
	case x < 80:
		b.WriteString(" " + g.pick(SnipNames) + " " + g.pick(SnipNames))
	case x < 88:
		b.WriteString(" $(" + g.pick(MacroNames) + ")")
	default:
		b.WriteString(" " + g.pick([]string{".", "..", `""`}))
	}
	return true
}

// directive writes one directive (with optional block) at the given block depth.
func (g *Gen) directive(b *strings.Builder, depth int, imports *int) {
	r := g.R
	ind := strings.Repeat(" ", depth*2)
	b.WriteString(ind)
	if r.Chance(12) && *imports > 0 {
		if g.importLine(b) {
			*imports--
			b.WriteString(g.nl())
			return
		}
	}
	b.WriteString(g.name())
	g.args(b)
	if r.Chance(45 / (depth + 1)) {
		switch x := r.Intn(100); {
		case x < 60:
			b.WriteString(" {" + g.nl())
			n := r.Intn(4)
			for i := 0; i < n; i++ {
				g.directive(b, depth+1, imports)
			}
			b.WriteString(ind + "}")
		case x < 70:
			b.WriteString(" { }")
		case x < 80:
			b.WriteString(" {" + g.nl() + ind + "  " + g.pick(dirNames) + " " + g.pick(words) + " }")
		case x < 88:
			b.WriteString(" { " + g.pick(dirNames) + " " + g.pick(words) + " }")
		default:
			if g.Chaos == 0 {
				b.WriteString(" {" + g.nl() + ind + "}")
			} else if x < 94 {
				b.WriteString(" {" + g.nl() + ind + "}" + " trailing")
			} else {
				b.WriteString(g.nl() + ind + "{" + g.nl() + ind + "}")
			}
		}
	}
	if r.Chance(8) {
		b.WriteString(" # comment { \" $(x)")
	}
	b.WriteString(g.nl())
}

// Config returns a grammar-based configuration text.
func (g *Gen) Config() string {
	r := g.R
	var b strings.Builder
	if r.Chance(4) {
		b.WriteString("\ufeff")
	}
	imports := 3
	// item kinds: -1-k = declaration of Snips[k]; 0 macro; 1 comment; 2 blank; 3 directive; 4 stray snippet
	var items []int
	for k := range g.Snips {
		items = append(items, -1-k)
	}
	n := 1 + r.Intn(7)
	for i := 0; i < n; i++ {
		switch x := r.Intn(100); {
		case x < 16:
			items = append(items, 0)
		case x < 21:
			items = append(items, 1)
		case x < 24:
			items = append(items, 2)
		case x < 28 && g.Chaos > 0:
			items = append(items, 4)
		default:
			items = append(items, 3)
		}
	}
	for i := len(items) - 1; i > 0; i-- {
		j := r.Intn(i + 1)
		items[i], items[j] = items[j], items[i]
	}
	snippet := func(name string, rank int) {
		b.WriteString("(" + name + ")")
		if g.weird(6, 6) {
			b.WriteString(" arg")
		}
		if !g.weird(8, 8) {
			b.WriteString(" {" + g.nl())
			g.rank = rank
			k := r.Intn(3)
			for j := 0; j < k; j++ {
				g.directive(&b, 1, &imports)
			}
			if r.Chance(45) && imports > 0 {
				b.WriteString("  ")
				if g.importLine(&b) {
					imports--
				} else {
					b.WriteString("x")
				}
				b.WriteString(g.nl())
			}
			g.rank = 0
			b.WriteString("}")
		}
		b.WriteString(g.nl())
	}
	for _, it := range items {
		switch {
		case it < 0:
			snippet(g.Snips[-1-it], -it)
		case it == 4:
			snippet(g.pick(SnipNames), 0)
		case it == 0: // macro declaration
			b.WriteString("$(" + g.pick(MacroNames) + ")")
			if g.weird(20, 25) {
				b.WriteString(g.pick([]string{" ", " x", "", " = "}))
			} else if r.Chance(15) {
				// a macro made only of (possibly undefined) macro references: may have no value at all
				b.WriteString(" = $(" + g.pick(MacroNames) + ")")
				b.WriteString(g.nl())
				continue
			} else {
				b.WriteString(" = " + g.pick(words))
			}
			g.args(&b)
			if r.Chance(25) {
				b.WriteString(" $(" + g.pick(MacroNames) + ")")
			}
			b.WriteString(g.nl())
		case it == 1:
			b.WriteString("# just a comment" + g.nl())
		case it == 2:
			b.WriteString(g.nl())
		default:
			g.directive(&b, 0, &imports)
		}
	}
	return b.String()
}

// Deep returns a chain of d nested blocks (closed or not).
func (g *Gen) Deep(d int, closeN int, oneLine bool) string {
	var b strings.Builder
	sep := "\n"
	if oneLine {
		sep = " "
	}
	for i := 0; i < d; i++ {
		b.WriteString("a {" + sep)
	}
	b.WriteString("leaf x" + "\n")
	for i := 0; i < closeN; i++ {
		b.WriteString("}\n")
	}
	return b.String()
}

var mutAlphabet = []string{"{", "}", "\"", "\\", "#", "$", "(", ")", "=", "\n", "\r", " ", "\t", "$(", "{env:", "import ", "a", "1", ".",
	"\x80", "\xff", "\xc3", "\xe2\x80", "\ufeff", "\u00a0", "\u2028", "\u0085", "\u3000", "\u00e9", "\\\n", "\v", "\f"}

// Mutate applies k random edits.
func (g *Gen) Mutate(s string, k int) string {
	r := g.R
	b := []byte(s)
	for i := 0; i < k; i++ {
		switch r.Intn(7) {
		case 0, 1: // insert
			p := r.Intn(len(b) + 1)
			ins := []byte(mutAlphabet[r.Intn(len(mutAlphabet))])
			b = append(b[:p:p], append(ins, b[p:]...)...)
		case 2: // delete
			if len(b) > 0 {
				p := r.Intn(len(b))
				b = append(b[:p:p], b[p+1:]...)
			}
		case 3: // replace
			if len(b) > 0 {
				p := r.Intn(len(b))
				ins := []byte(mutAlphabet[r.Intn(len(mutAlphabet))])
				b = append(b[:p:p], append(ins, b[p+1:]...)...)
			}
		case 4: // duplicate a span
			if len(b) > 0 {
				p := r.Intn(len(b))
				l := 1 + r.Intn(12)
				if p+l > len(b) {
					l = len(b) - p
				}
				span := append([]byte{}, b[p:p+l]...)
				q := r.Intn(len(b) + 1)
				b = append(b[:q:q], append(span, b[q:]...)...)
			}
		case 5: // truncate
			if len(b) > 0 {
				b = b[:r.Intn(len(b)+1)]
			}
		case 6: // delete a span
			if len(b) > 0 {
				p := r.Intn(len(b))
				l := 1 + r.Intn(6)
				if p+l > len(b) {
					l = len(b) - p
				}
				b = append(b[:p:p], b[p+l:]...)
			}
		}
	}
	out := strings.ReplaceAll(string(b), "/", "_")
	return strings.ReplaceAll(out, "\x00", "_")
}

// Raw returns a short string over the special alphabet.
func (g *Gen) Raw() string {
	r := g.R
	n := r.Intn(14)
	var b strings.Builder
	for i := 0; i < n; i++ {
		b.WriteString(mutAlphabet[r.Intn(len(mutAlphabet))])
	}
	return b.String()
}

// TreeWords are argument texts for directly generated trees (the harness keeps the expressible ones).
var TreeWords = []string{"x", "example.org", "with space", "multi\nline", "two\n\nbreaks", "q\"uote", "\\\\", "a\\\\\"b", "#hash", "a#b",
	"a{b", "}x", "{x", "$", "$1@$3", "(p)", "", " ", "\t", "\u00e9", "\u65e5\u672c", "tcp:0.0.0.0:25", "=", "a b  c", "\r", "x\r\ny", "'", "\\n",
	"\u00a0", "\ufeff", "\u2028", "import", "{", "}", "\\", "$(m1)", "{env:H}"}

// TreeNames are directive names for directly generated trees.
var TreeNames = []string{"a", "smtp", "auth.pass_table", "x-y_z", "\u00e9t\u00e9", "\u65e5\u672c", "d9", "_", "a.b-c_d"}
