// Package vc09 is a hand-written, positionally scripted SMTP/LMTP next hop for the C09
// harnesses. Unlike the go-smtp based vsmtp server its decisions do not depend on how an
// address is spelled: the harness announces what the NEXT RCPT command is answered with
// (accept, refuse, or a connection fault exactly while that RCPT is in flight: 421 + close,
// close without a reply, TCP reset, stall), the outcome of end-of-data is decided by a callback
// that sees the recipients of the transaction as they arrived on the wire, and LMTP
// per-recipient replies are given by position. Everything the server accepted is recorded per
// transaction (ground truth for the monitors).
//
// Stalls are done in virtual time: the client side of the connection is wrapped (Staller); when
// the server decides to stall, every pending and later deadline of that client connection is
// moved into the past, so the client's command time-out fires at once — no sleeping, no
// wall-clock dependence.
package vc09

import (
	"bufio"
	"context"
	"fmt"
	"net"
	"strings"
	"sync"
	"sync/atomic"
	"time"
)

// Actions for one RCPT command.
const (
	Accept  = '1' // 250
	Refuse  = '0' // 550
	F421    = '4' // 421, then the server closes the connection
	FClose  = 'c' // connection closed without a reply
	FReset  = 'r' // connection reset (RST) without a reply
	FStall  = 's' // no reply ever; nothing else is answered on this connection either
	Refuse4 = 't' // 451 (transient refusal of this recipient only)
)

// IsFault reports whether the action kills the connection.
func IsFault(a byte) bool { return a == F421 || a == FClose || a == FReset || a == FStall }

type Tx struct {
	Conn      int      // serial number of the connection
	From      string   // as received
	UTF8      bool     // MAIL FROM carried the SMTPUTF8 parameter
	To        []string // recipients answered 250, as received
	DataSeen  bool     // the message data was received completely
	Done      bool     // SMTP: end-of-data answered 250. LMTP: every per-recipient reply was sent
	Delivered []string // LMTP: recipients whose per-recipient reply was 250
}

type Server struct {
	l    net.Listener
	LMTP bool
	UTF8 bool
	// Strict: the server (offering SMTPUTF8) enforces RFC 6531 section 3.4: a non-ASCII address in
	// RCPT TO is answered 553 unless the MAIL FROM of the transaction carried the SMTPUTF8 parameter
	// (Postfix strict_smtputf8). Set before the first connection.
	Strict bool

	mu sync.Mutex
	// sizeOn/size: what the NEXT EHLO announces as RFC 1870 SIZE (set with NextSize before the client
	// opens the connection: the announcement belongs to the recipient domain the connection is for)
	sizeOn   bool
	size     int
	no8bit   bool // the next EHLO does not announce 8BITMIME
	nextRcpt byte
	// OnData decides the reply to end-of-data of an SMTP transaction (0 or 250 = accept).
	OnData func(to []string) int
	// LMTPCodes: per-recipient reply codes by position among the accepted recipients (0 = 250);
	// LMTPSend: how many of them are sent before the connection is dropped (-1 = all).
	LMTPCodes []int
	LMTPSend  int
	Txs       []*Tx
	Sessions  int
	Anomalies []string // protocol anomalies of the client (non-ASCII address without SMTPUTF8, ...)
	Staller   *Staller
	conns     map[net.Conn]bool
	closed    bool
}

func Start(addr string, utf8, lmtp bool) (*Server, error) {
	l, err := net.Listen("tcp", addr)
	if err != nil {
		return nil, err
	}
	s := &Server{l: l, LMTP: lmtp, UTF8: utf8, LMTPSend: -1, conns: map[net.Conn]bool{}}
	go s.serve()
	return s, nil
}

// Set changes the script under the server's lock.
func (s *Server) Set(f func(*Server)) {
	s.mu.Lock()
	defer s.mu.Unlock()
	f(s)
}

// NextRcpt announces the answer to the next RCPT command (on whatever connection it arrives).
func (s *Server) NextRcpt(a byte) {
	s.mu.Lock()
	s.nextRcpt = a
	s.mu.Unlock()
}

// Pending returns the announced action if no RCPT command has consumed it yet (0 otherwise).
// NextSize scripts the SIZE announcement of the EHLO replies sent from now on (on = false: the
// extension is not offered; n = 0: offered without a fixed limit).
func (s *Server) NextSize(on bool, n int) {
	s.mu.Lock()
	s.sizeOn, s.size = on, n
	s.mu.Unlock()
}

// Next8Bit scripts whether the EHLO replies sent from now on announce 8BITMIME.
func (s *Server) Next8Bit(announce bool) {
	s.mu.Lock()
	s.no8bit = !announce
	s.mu.Unlock()
}

func (s *Server) Pending() byte {
	s.mu.Lock()
	defer s.mu.Unlock()
	return s.nextRcpt
}

// AcceptedTotal returns how many RCPT commands have been answered 250 so far (all transactions).
func (s *Server) AcceptedTotal() int {
	s.mu.Lock()
	defer s.mu.Unlock()
	n := 0
	for _, tx := range s.Txs {
		n += len(tx.To)
	}
	return n
}

func (s *Server) Close() {
	s.mu.Lock()
	s.closed = true
	for c := range s.conns {
		c.Close()
	}
	s.mu.Unlock()
	s.l.Close()
}

func (s *Server) serve() {
	n := 0
	for {
		c, err := s.l.Accept()
		if err != nil {
			return
		}
		n++
		s.mu.Lock()
		if s.closed {
			s.mu.Unlock()
			c.Close()
			return
		}
		s.conns[c] = true
		s.Sessions++
		s.mu.Unlock()
		go s.handle(c, n)
	}
}

func isASCII(s string) bool {
	for i := 0; i < len(s); i++ {
		if s[i] >= 0x80 {
			return false
		}
	}
	return true
}

func angle(line string) string {
	a := strings.TrimSpace(line)
	if i := strings.Index(a, "<"); i >= 0 {
		a = a[i+1:]
		if j := strings.Index(a, ">"); j >= 0 {
			a = a[:j]
		}
	}
	return a
}

func (s *Server) handle(c net.Conn, serial int) {
	defer func() {
		c.Close()
		s.mu.Lock()
		delete(s.conns, c)
		s.mu.Unlock()
	}()
	br := bufio.NewReader(c)
	w := func(l string) { c.Write([]byte(l + "\r\n")) }
	anomaly := func(a string) {
		s.mu.Lock()
		s.Anomalies = append(s.Anomalies, a)
		s.mu.Unlock()
	}
	w("220 raw.example.invalid ready")
	var tx *Tx
	for {
		line, err := br.ReadString('\n')
		if err != nil {
			return
		}
		cmd := strings.ToUpper(strings.TrimSpace(line))
		switch {
		case strings.HasPrefix(cmd, "EHLO"), strings.HasPrefix(cmd, "LHLO"):
			w("250-raw.example.invalid")
			if s.UTF8 {
				w("250-SMTPUTF8")
			}
			s.mu.Lock()
			sizeOn, size, no8bit := s.sizeOn, s.size, s.no8bit
			s.mu.Unlock()
			if sizeOn {
				w(fmt.Sprintf("250-SIZE %d", size))
			}
			w("250-ENHANCEDSTATUSCODES")
			if no8bit {
				w("250 HELP")
			} else {
				w("250 8BITMIME")
			}
		case strings.HasPrefix(cmd, "HELO"):
			w("250 raw.example.invalid")
		case strings.HasPrefix(cmd, "MAIL"):
			tx = &Tx{Conn: serial, From: angle(line)}
			if i := strings.Index(cmd, ">"); i >= 0 && strings.Contains(cmd[i:], "SMTPUTF8") {
				tx.UTF8 = true
				if !s.UTF8 {
					anomaly("SMTPUTF8 parameter although the extension is not offered")
				}
			}
			s.mu.Lock()
			s.Txs = append(s.Txs, tx)
			s.mu.Unlock()
			w("250 2.1.0 ok")
		case strings.HasPrefix(cmd, "RCPT"):
			a := angle(line)
			s.mu.Lock()
			act := s.nextRcpt
			s.nextRcpt = 0
			s.mu.Unlock()
			if act == 0 {
				act = Accept
			}
			if tx == nil {
				anomaly("RCPT without MAIL")
				w("503 5.5.1 MAIL first")
				continue
			}
			if !s.UTF8 && !isASCII(a) {
				anomaly("non-ASCII recipient without SMTPUTF8")
				if !IsFault(act) {
					w("553 5.6.7 non-ASCII address, SMTPUTF8 not offered")
					continue
				}
			}
			if s.UTF8 && !tx.UTF8 && !isASCII(a) {
				anomaly("non-ASCII recipient in a transaction opened without the SMTPUTF8 parameter")
				if s.Strict && !IsFault(act) {
					w("553 5.6.7 non-ASCII address, SMTPUTF8 was not requested in MAIL FROM")
					continue
				}
			}
			switch act {
			case Accept:
				s.mu.Lock()
				tx.To = append(tx.To, a)
				s.mu.Unlock()
				w("250 2.1.5 ok")
			case Refuse:
				w("550 5.1.1 no such user")
			case Refuse4:
				w("451 4.2.0 try later")
			case F421:
				w("421 4.3.2 shutting down")
				return
			case FClose:
				return
			case FReset:
				if tc, ok := c.(*net.TCPConn); ok {
					tc.SetLinger(0)
				}
				return
			case FStall:
				if s.Staller != nil {
					s.Staller.Stall(c.RemoteAddr().String())
				}
				// swallow whatever else arrives until the client gives up
				for {
					if _, err := br.ReadString('\n'); err != nil {
						return
					}
				}
			}
		case strings.HasPrefix(cmd, "DATA"):
			if tx == nil || len(tx.To) == 0 {
				w("503 5.5.1 no valid recipients")
				continue
			}
			w("354 go ahead")
			for {
				l, err := br.ReadString('\n')
				if err != nil {
					return
				}
				if l == ".\r\n" || l == ".\n" {
					break
				}
			}
			s.mu.Lock()
			tx.DataSeen = true
			to := append([]string{}, tx.To...)
			onData := s.OnData
			codes := append([]int{}, s.LMTPCodes...)
			send := s.LMTPSend
			s.mu.Unlock()
			if !s.LMTP {
				code := 0
				if onData != nil {
					code = onData(to)
				}
				if code == 0 || code == 250 {
					s.mu.Lock()
					tx.Done = true
					s.mu.Unlock()
					w("250 2.0.0 queued")
				} else {
					w(fmt.Sprintf("%d %d.3.0 data refused", code, code/100))
				}
				tx = nil
				continue
			}
			if send < 0 || send > len(to) {
				send = len(to)
			}
			for i := 0; i < send; i++ {
				code := 250
				if i < len(codes) && codes[i] != 0 {
					code = codes[i]
				}
				if code == 250 {
					s.mu.Lock()
					tx.Delivered = append(tx.Delivered, to[i])
					s.mu.Unlock()
					w("250 2.0.0 delivered")
				} else {
					w(fmt.Sprintf("%d %d.2.0 mailbox problem", code, code/100))
				}
			}
			if send < len(to) {
				return // drop the connection mid-way
			}
			s.mu.Lock()
			tx.Done = true
			s.mu.Unlock()
			tx = nil
		case strings.HasPrefix(cmd, "RSET"):
			tx = nil
			w("250 2.0.0 ok")
		case strings.HasPrefix(cmd, "NOOP"):
			w("250 2.0.0 ok")
		case strings.HasPrefix(cmd, "QUIT"):
			w("221 2.0.0 bye")
			return
		default:
			w("500 5.5.1 what")
		}
	}
}

// Staller wraps a dial function; connections it hands out can be "stalled" by the server.
type Staller struct {
	mu    sync.Mutex
	conns map[string]*stallConn
}

func NewStaller() *Staller { return &Staller{conns: map[string]*stallConn{}} }

type stallConn struct {
	net.Conn
	stalled atomic.Bool
}

var past = time.Unix(1, 0)

func (c *stallConn) SetDeadline(t time.Time) error {
	if c.stalled.Load() {
		t = past
	}
	return c.Conn.SetDeadline(t)
}

func (c *stallConn) SetReadDeadline(t time.Time) error {
	if c.stalled.Load() {
		t = past
	}
	return c.Conn.SetReadDeadline(t)
}

func (c *stallConn) SetWriteDeadline(t time.Time) error {
	if c.stalled.Load() {
		t = past
	}
	return c.Conn.SetWriteDeadline(t)
}

// Wrap returns a dial function whose connections are registered with the Staller.
func (s *Staller) Wrap(dial func(ctx context.Context, network, addr string) (net.Conn, error)) func(ctx context.Context, network, addr string) (net.Conn, error) {
	return func(ctx context.Context, network, addr string) (net.Conn, error) {
		c, err := dial(ctx, network, addr)
		if err != nil {
			return nil, err
		}
		sc := &stallConn{Conn: c}
		s.mu.Lock()
		s.conns[c.LocalAddr().String()] = sc
		s.mu.Unlock()
		return sc, nil
	}
}

// Stall makes every pending and future I/O of the client connection with the given local
// address time out immediately.
func (s *Staller) Stall(clientAddr string) {
	s.mu.Lock()
	c := s.conns[clientAddr]
	s.mu.Unlock()
	if c == nil {
		return
	}
	c.stalled.Store(true)
	c.Conn.SetDeadline(past)
}
