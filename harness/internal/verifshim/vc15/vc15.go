// Package vc15 is the shared part of the C15 (sender authorisation) harnesses: case
// description, generators, header rendering with ground truth, op-line encoding, the
// reference entitlement function and the monitors.  It exists only inside the overlay.
//
// One case = one configuration (normalisation settings, actions, prepare_email and
// user_to_email tables), one connection state and one message (MAIL FROM + header bytes).
// The header is RENDERED from a structure (ground truth: which addresses are in which
// From/Sender field) with display-name tricks, groups, quoting, RFC 2047 words, folding and
// repeated fields; the real code parses the bytes and decides.
//
// The monitors evaluate the property on the real decision with a reference entitlement
// function written from the property text (exists-entry, coarse spelling equivalence, every
// address of every From field); they never consult the Lean model.
package vc15

import (
	"bytes"
	"context"
	"encoding/base64"
	"errors"
	"fmt"
	"net/mail"
	"sort"
	"strings"
	"sync"
	"unicode"

	"github.com/foxcpp/maddy/framework/config"
	"github.com/foxcpp/maddy/framework/module"
	"github.com/foxcpp/maddy/internal/authz"
	"github.com/foxcpp/maddy/internal/table"
	"github.com/foxcpp/maddy/internal/testutils"
	"github.com/foxcpp/maddy/internal/verifshim/vh"
	"golang.org/x/net/idna"
	"golang.org/x/text/unicode/norm"
)

// ---------------------------------------------------------------- case description

// Tab describes a table module of a case.
type Tab struct {
	Kind string // I identity, T testutils.Table (single), S table.Static (multi), M multi with error switch,
	// L table.email_localpart, O table.email_localpart_optional (computed, no rows)
	Err  bool
	Keys []string // insertion order
	Rows map[string][]string
}

func (t *Tab) Add(k string, vs ...string) {
	if t.Rows == nil {
		t.Rows = map[string][]string{}
	}
	if _, ok := t.Rows[k]; !ok {
		t.Keys = append(t.Keys, k)
	}
	if t.Kind == "T" {
		t.Rows[k] = vs[:1]
		return
	}
	t.Rows[k] = vs
}

type multiTab struct {
	m   map[string][]string
	err error
}

func (t multiTab) Lookup(_ context.Context, k string) (string, bool, error) {
	panic("vc15: Lookup must not be used on a MultiTable")
}

func (t multiTab) LookupMulti(_ context.Context, k string) ([]string, error) {
	if t.err != nil {
		return nil, t.err
	}
	return t.m[k], nil
}

// Build constructs the table object: the repository's own identity / static / test tables
// where they can express the case, a two-line multi table with an error switch otherwise.
func (t *Tab) Build() module.Table {
	switch t.Kind {
	case "I":
		if t.Err {
			panic("identity table cannot fail")
		}
		return &table.Identity{}
	case "T":
		m := map[string]string{}
		for k, v := range t.Rows {
			m[k] = v[0]
		}
		var err error
		if t.Err {
			err = errors.New("c15: table unavailable")
		}
		return testutils.Table{M: m, Err: err}
	case "S":
		if t.Err {
			panic("static table cannot fail")
		}
		mod, err := table.NewStatic("table.static", "c15", nil, nil)
		if err != nil {
			panic(err)
		}
		if err := mod.(*table.Static).Init(config.NewMap(nil, config.Node{Children: t.staticNodes()})); err != nil {
			panic(err)
		}
		return mod.(module.Table)
	case "M":
		var err error
		if t.Err {
			err = errors.New("c15: table unavailable")
		}
		return multiTab{m: t.Rows, err: err}
	case "L", "O":
		if t.Err {
			panic("email_localpart table cannot fail")
		}
		name := "table.email_localpart"
		if t.Kind == "O" {
			name = "table.email_localpart_optional"
		}
		mod, err := table.NewEmailLocalpart(name, "c15", nil, nil)
		if err != nil {
			panic(err)
		}
		return mod.(module.Table)
	}
	panic("bad table kind " + t.Kind)
}

func (t *Tab) staticNodes() []config.Node {
	var nodes []config.Node
	for _, k := range t.Keys {
		nodes = append(nodes, config.Node{Name: "entry", Args: append([]string{k}, t.Rows[k]...)})
	}
	return nodes
}

// ---- configuration through the real config path (used by the SMTP-level harness)

var (
	memMu   sync.Mutex
	memTabs = map[string]module.Table{}
	memSeq  int
)

type memModule struct {
	module.Table
	inst string
}

func (m memModule) Init(*config.Map) error { return nil }
func (m memModule) Name() string           { return "table.c15mem" }
func (m memModule) InstanceName() string   { return m.inst }

type memMultiModule struct {
	memModule
	multi module.MultiTable
}

func (m memMultiModule) LookupMulti(ctx context.Context, k string) ([]string, error) {
	return m.multi.LookupMulti(ctx, k)
}

func init() {
	module.Register("table.c15mem", func(_, instName string, _, inlineArgs []string) (module.Module, error) {
		if len(inlineArgs) != 1 {
			return nil, errors.New("c15mem: expected the table id")
		}
		memMu.Lock()
		defer memMu.Unlock()
		t, ok := memTabs[inlineArgs[0]]
		if !ok {
			return nil, errors.New("c15mem: unknown table id")
		}
		if mt, ok := t.(module.MultiTable); ok {
			return memMultiModule{memModule{t, instName}, mt}, nil
		}
		return memModule{t, instName}, nil
	})
}

// ConfigNode returns the configuration directive (`user_to_email …` / `prepare_email …`) that
// makes the check use this table.
func (t *Tab) ConfigNode(directive string) config.Node {
	switch t.Kind {
	case "I":
		return config.Node{Name: directive, Args: []string{"identity"}}
	case "S":
		return config.Node{Name: directive, Args: []string{"static"}, Children: t.staticNodes()}
	case "L":
		return config.Node{Name: directive, Args: []string{"email_localpart"}}
	case "O":
		return config.Node{Name: directive, Args: []string{"email_localpart_optional"}}
	}
	memMu.Lock()
	memSeq++
	id := fmt.Sprintf("t%d", memSeq)
	memTabs[id] = t.Build()
	memMu.Unlock()
	return config.Node{Name: directive, Args: []string{"c15mem", id}}
}

func ActionWord(s string) string {
	switch s {
	case "r":
		return "reject"
	case "q":
		return "quarantine"
	default:
		return "ignore"
	}
}

// ConfigNodes: the directives of the check other than the tables.
func (cs *Case) ConfigNodes() []config.Node {
	yn := "no"
	if cs.CheckHeader {
		yn = "yes"
	}
	return []config.Node{
		{Name: "check_header", Args: []string{yn}},
		{Name: "unauth_action", Args: []string{ActionWord(cs.UA)}},
		{Name: "no_match_action", Args: []string{ActionWord(cs.NA)}},
		{Name: "err_action", Args: []string{ActionWord(cs.EA)}},
		{Name: "auth_normalize", Args: []string{cs.AuthNorm}},
		{Name: "from_normalize", Args: []string{cs.FromNorm}},
	}
}

func (t *Tab) groups(tag string) string {
	var b strings.Builder
	fmt.Fprintf(&b, " | %s %s %s", strings.ToUpper(tag), t.Kind, B01(t.Err))
	for _, k := range t.Keys {
		fmt.Fprintf(&b, " | %s %s", tag, vh.HexRunes(k))
		for _, v := range t.Rows[k] {
			b.WriteString(" " + vh.HexRunes(v))
		}
	}
	return b.String()
}

// lookup as the reference sees the table: all values configured for the key.
func (t *Tab) refValues(k string) (vals []string, found bool) {
	switch t.Kind {
	case "I":
		return []string{k}, true
	case "L", "O":
		// "the local part of the address": what stands before the last at-sign, when both sides
		// of it are non-empty; a key that is not an address has no local part (L: no mapping,
		// O: the key itself)
		if l, d, ok := SplitLast(k); ok && l != "" && d != "" {
			return []string{l}, true
		}
		if t.Kind == "O" {
			return []string{k}, true
		}
		return nil, false
	}
	v, ok := t.Rows[k]
	return v, ok && len(v) > 0
}

type Addr struct{ Local, Domain string }

func (a Addr) String() string { return a.Local + "@" + a.Domain }

type Case struct {
	CheckHeader        bool
	UA, NA, EA         string // r q i
	AuthNorm, FromNorm string // names in authz.NormalizeFuncs
	Prep, U2E          Tab
	Conn               bool
	User               string
	MailFrom           string
	Raw                []byte   // header bytes, CRLF lines, without the terminating blank line
	GTKnown            bool     // ground truth below is authoritative (well-formed rendering)
	GTFrom             [][]Addr // per From field, in message order
	GTSender           [][]Addr // per Sender field (0 or 1 address each)
}

func B01(b bool) string {
	if b {
		return "1"
	}
	return "0"
}

// StageObs is what one stage of the check answered.
type StageObs struct {
	Reason             string // "ok" or the name of the refusal
	Codes              string // "<code>:<class>.<subject>.<detail>" of the refusal
	Reject, Quarantine bool
}

func (s StageObs) String() string {
	if s.Reason == "ok" {
		return "ok/" + B01(s.Reject) + B01(s.Quarantine)
	}
	return s.Reason + ":" + s.Codes + "/" + B01(s.Reject) + B01(s.Quarantine)
}
func (s StageObs) Pass() bool { return s.Reason == "ok" }

// Run is one execution of the real check.
type Run struct {
	Sender, Body StageObs
	FromVals     []string // hdr.Values("From")
	SenderVals   []string
}

// ---------------------------------------------------------------- op line

func addrTok(a Addr) string { return vh.HexRunes(a.Local) + "/" + vh.HexRunes(a.Domain) }

func normRow(tag, name, in string) string {
	out, err := authz.NormalizeFuncs[name](in)
	if err != nil {
		return fmt.Sprintf(" | %s %s 0 -", tag, vh.HexRunes(in))
	}
	return fmt.Sprintf(" | %s %s 1 %s", tag, vh.HexRunes(in), vh.HexRunes(out))
}

// OpLine: configuration + what the libraries returned (normalisation results, parse results)
// for the model; raw bytes and ground truth (ignored by the model) for replay.
func OpLine(cs *Case, r *Run) string {
	var b strings.Builder
	fmt.Fprintf(&b, "C15 run %s %s %s %s %s %s %s", B01(cs.CheckHeader), cs.UA, cs.NA, cs.EA, B01(cs.Conn),
		vh.HexRunes(cs.User), vh.HexRunes(cs.MailFrom))
	fmt.Fprintf(&b, " | N %s %s", cs.AuthNorm, cs.FromNorm)
	b.WriteString(cs.Prep.groups("p"))
	b.WriteString(cs.U2E.groups("u"))
	fnIn := map[string]bool{cs.MailFrom: true}
	var fgroups []string
	for _, v := range r.FromVals {
		l, err := mail.ParseAddressList(v)
		g := " | F " + B01(v == "") + " " + B01(err == nil)
		if err == nil {
			for _, a := range l {
				g += " " + vh.HexRunes(a.Address)
				fnIn[a.Address] = true
			}
		}
		fgroups = append(fgroups, g)
	}
	for _, v := range r.SenderVals {
		a, err := mail.ParseAddress(v)
		g := " | S " + B01(v == "") + " " + B01(err == nil)
		if err == nil {
			g += " " + vh.HexRunes(a.Address)
			fnIn[a.Address] = true
		}
		fgroups = append(fgroups, g)
	}
	ins := make([]string, 0, len(fnIn))
	for k := range fnIn {
		ins = append(ins, k)
	}
	sort.Strings(ins)
	for _, in := range ins {
		b.WriteString(normRow("fn", cs.FromNorm, in))
	}
	b.WriteString(normRow("an", cs.AuthNorm, cs.User))
	for _, g := range fgroups {
		b.WriteString(g)
	}
	b.WriteString(replayTail(cs))
	return b.String()
}

func replayTail(cs *Case) string {
	var b strings.Builder
	fmt.Fprintf(&b, " | H %s | G %s", vh.HexBytes(cs.Raw), B01(cs.GTKnown))
	for _, f := range cs.GTFrom {
		b.WriteString(" | GF")
		for _, a := range f {
			b.WriteString(" " + addrTok(a))
		}
	}
	for _, f := range cs.GTSender {
		b.WriteString(" | GS")
		for _, a := range f {
			b.WriteString(" " + addrTok(a))
		}
	}
	return b.String()
}

// SessionOpLine is the replayable description of a case run through a whole SMTP session
// (no model counterpart: monitor only).
func SessionOpLine(cs *Case) string {
	var b strings.Builder
	fmt.Fprintf(&b, "C15 session %s %s %s %s %s %s %s", B01(cs.CheckHeader), cs.UA, cs.NA, cs.EA, B01(cs.Conn),
		vh.HexRunes(cs.User), vh.HexRunes(cs.MailFrom))
	fmt.Fprintf(&b, " | N %s %s", cs.AuthNorm, cs.FromNorm)
	b.WriteString(cs.Prep.groups("p"))
	b.WriteString(cs.U2E.groups("u"))
	b.WriteString(replayTail(cs))
	return b.String()
}

// ParseOp rebuilds the case from a `C15 run …` or `C15 session …` line.
func ParseOp(op string) (*Case, string, error) {
	groups := strings.Split(op, " | ")
	head := strings.Fields(groups[0])
	if len(head) != 9 || head[0] != "C15" || (head[1] != "run" && head[1] != "session") {
		return nil, "", fmt.Errorf("bad head")
	}
	cs := &Case{CheckHeader: head[2] == "1", UA: head[3], NA: head[4], EA: head[5], Conn: head[6] == "1",
		User: vh.UnhexRunes(head[7]), MailFrom: vh.UnhexRunes(head[8]), AuthNorm: "auto", FromNorm: "auto"}
	cs.Prep.Kind, cs.U2E.Kind = "I", "I"
	unAddr := func(t string) Addr {
		p := strings.SplitN(t, "/", 2)
		return Addr{vh.UnhexRunes(p[0]), vh.UnhexRunes(p[1])}
	}
	for _, g := range groups[1:] {
		t := strings.Fields(g)
		if len(t) == 0 {
			continue
		}
		switch t[0] {
		case "N":
			cs.AuthNorm, cs.FromNorm = t[1], t[2]
		case "P":
			cs.Prep.Kind, cs.Prep.Err = t[1], t[2] == "1"
		case "U":
			cs.U2E.Kind, cs.U2E.Err = t[1], t[2] == "1"
		case "p", "u":
			var vs []string
			for _, x := range t[2:] {
				vs = append(vs, vh.UnhexRunes(x))
			}
			tab := &cs.Prep
			if t[0] == "u" {
				tab = &cs.U2E
			}
			if tab.Rows == nil {
				tab.Rows = map[string][]string{}
			}
			k := vh.UnhexRunes(t[1])
			tab.Keys = append(tab.Keys, k)
			tab.Rows[k] = vs
		case "H":
			cs.Raw = vh.UnhexBytes(t[1])
		case "G":
			cs.GTKnown = t[1] == "1"
		case "GF", "GS":
			var as []Addr
			for _, x := range t[1:] {
				as = append(as, unAddr(x))
			}
			if t[0] == "GF" {
				cs.GTFrom = append(cs.GTFrom, as)
			} else {
				cs.GTSender = append(cs.GTSender, as)
			}
		}
	}
	if _, ok := authz.NormalizeFuncs[cs.AuthNorm]; !ok {
		return nil, "", fmt.Errorf("bad norm")
	}
	if _, ok := authz.NormalizeFuncs[cs.FromNorm]; !ok {
		return nil, "", fmt.Errorf("bad norm")
	}
	return cs, head[1], nil
}

// ---------------------------------------------------------------- reference entitlement (monitor)

// CoarseText: the coarse spelling equivalence of the property — letter case and Unicode
// normalisation (incl. width) variants are the same text.
func CoarseText(s string) string {
	for i := 0; i < 3; i++ {
		s = norm.NFKC.String(strings.ToLower(norm.NFKC.String(s)))
	}
	return s
}

// CoarseDomain additionally identifies A-label and U-label spellings and a trailing dot.
func CoarseDomain(d string) string {
	d = strings.TrimSuffix(d, ".")
	labels := strings.Split(d, ".")
	for i, l := range labels {
		if len(l) >= 4 && strings.EqualFold(l[:4], "xn--") {
			if u, err := idna.ToUnicode(strings.ToLower(l)); err == nil {
				labels[i] = u
			}
		}
	}
	return CoarseText(strings.Join(labels, "."))
}

func SplitLast(s string) (string, string, bool) {
	i := strings.LastIndex(s, "@")
	if i < 0 {
		return s, "", false
	}
	return s[:i], s[i+1:], true
}

func CoarseWhole(s string) string {
	l, d, ok := SplitLast(s)
	if !ok {
		return CoarseText(s)
	}
	return CoarseText(l) + "@" + CoarseDomain(d)
}

// entries the configured mapping gives the authenticated user
func refEntries(cs *Case) []string {
	if cs.U2E.Err {
		return nil
	}
	nu, err := authz.NormalizeFuncs[cs.AuthNorm](cs.User)
	if err != nil {
		return nil
	}
	vals, _ := cs.U2E.refValues(nu)
	return vals
}

// is one concrete address covered by an entry?  returns the kind of entry ("" = not covered)
func covered(entries []string, whole, domain string, hasDomain bool) string {
	for _, e := range entries {
		if e == "" {
			// an empty entry (key-only line, trailing comma, empty SQL column) names no address,
			// no domain and is not the wildcard: it entitles to nothing
			continue
		}
		if e == "*" {
			return "star"
		}
		if hasDomain && domain != "" && !strings.Contains(e, "@") && CoarseDomain(e) == CoarseDomain(domain) {
			return "domain"
		}
		if CoarseWhole(e) == CoarseWhole(whole) {
			return "address"
		}
	}
	return ""
}

// RefEntitled: may the authenticated user of the case use this address under the configured
// mapping?  `whole` is the address string; `domain` its domain when hasDomain.  The second
// result says how ("star", "domain", "address", "alias:…", "" = not entitled).
func RefEntitled(cs *Case, whole, domain string, hasDomain bool) (bool, string) {
	entries := refEntries(cs)
	if len(entries) == 0 {
		return false, ""
	}
	// prepare_email: the address may be an alias the configuration maps to other addresses
	if cs.Prep.Kind != "I" && !cs.Prep.Err {
		if key, err := authz.NormalizeFuncs[cs.FromNorm](whole); err == nil {
			if vals, ok := cs.Prep.refValues(key); ok {
				for _, v := range vals {
					_, d, has := SplitLast(v)
					if how := covered(entries, v, d, has); how != "" {
						return true, "alias:" + how
					}
				}
				return false, ""
			}
		}
	}
	how := covered(entries, whole, domain, hasDomain)
	return how != "", how
}

// Monitor evaluates the property on one execution of the real check (both stages).
func Monitor(out *vh.Out, cs *Case, r *Run, op string) {
	if !cs.Conn {
		// locally generated message: not a client; the check must not interfere
		if !r.Sender.Pass() || !r.Body.Pass() {
			out.Violation("C15/local-message-refused", op, r.Sender.String()+" "+r.Body.String())
		}
		out.Stat("monitor.local")
		return
	}
	allReject := cs.UA == "r" && cs.NA == "r" && cs.EA == "r"
	// unauthenticated clients are refused
	if cs.User == "" {
		if r.Sender.Pass() {
			out.Violation("C15/unauthenticated-accepted", op, "sender stage passed without authentication")
		} else if cs.UA == "r" && !r.Sender.Reject {
			out.Violation("C15/unauthenticated-not-rejected", op, r.Sender.String())
		}
		if cs.CheckHeader && r.Body.Pass() {
			out.Violation("C15/unauthenticated-accepted", op, "body stage passed without authentication")
		}
		out.Stat("monitor.unauth")
	}
	// a refusal is enforced as configured
	for _, res := range []StageObs{r.Sender, r.Body} {
		if !res.Pass() && cs.UA == cs.NA && cs.NA == cs.EA {
			if res.Reject != (cs.UA == "r") || res.Quarantine != (cs.UA == "q") {
				out.Violation("C15/action-not-applied", op, res.String())
			}
		}
		if res.Pass() && (res.Reject || res.Quarantine) {
			out.Violation("C15/flag-without-reason", op, res.String())
		}
	}
	// envelope sender
	if r.Sender.Pass() && cs.User != "" {
		_, d, has := SplitLast(cs.MailFrom)
		ok, how := RefEntitled(cs, cs.MailFrom, d, has)
		if !ok {
			out.Violation("C15/envelope-sender-not-entitled", op, fmt.Sprintf("user %q accepted MAIL FROM %q", cs.User, cs.MailFrom))
		}
		out.Stat("monitor.envelope-pass.by-" + how)
	}
	// header author
	if cs.CheckHeader && r.Body.Pass() && cs.User != "" {
		from, sender := cs.GTFrom, cs.GTSender
		if !cs.GTKnown {
			// mutated (possibly ill-formed) bytes: the only available reading is the library's
			from, sender = ParsedReading(r.FromVals, r.SenderVals)
			out.Stat("monitor.header-pass.parsed-reading")
		} else {
			out.Stat("monitor.header-pass.ground-truth")
		}
		JudgeAuthor(out, cs, from, sender, op, "")
	}
	if allReject && !r.Sender.Reject && !r.Body.Reject {
		out.Stat("monitor.accepted")
	} else if allReject {
		out.Stat("monitor.rejected")
	}
}

// ParsedReading: what net/mail makes of the field values.
func ParsedReading(fromVals, senderVals []string) (from, sender [][]Addr) {
	for _, v := range fromVals {
		l, _ := mail.ParseAddressList(v)
		var f []Addr
		for _, a := range l {
			lp, d, _ := SplitLast(a.Address)
			f = append(f, Addr{lp, d})
		}
		from = append(from, f)
	}
	for _, v := range senderVals {
		var f []Addr
		if a, err := mail.ParseAddress(v); err == nil {
			lp, d, _ := SplitLast(a.Address)
			f = append(f, Addr{lp, d})
		}
		sender = append(sender, f)
	}
	return
}

// JudgeAuthor: the header-author clause of the property for an accepted message —
// every address in every From field is the user's, or else the Sender address(es) are.
func JudgeAuthor(out *vh.Out, cs *Case, from, sender [][]Addr, op, sigSuffix string) {
	nFrom, fromOK := 0, true
	for _, f := range from {
		for _, a := range f {
			nFrom++
			if ok, _ := RefEntitled(cs, a.String(), a.Domain, true); !ok {
				fromOK = false
			}
		}
	}
	nSender, senderOK := 0, true
	for _, f := range sender {
		for _, a := range f {
			nSender++
			if ok, _ := RefEntitled(cs, a.String(), a.Domain, true); !ok {
				senderOK = false
			}
		}
	}
	switch {
	case nFrom > 0 && fromOK:
		out.Stat("monitor.author.from" + sigSuffix)
	case nSender > 0 && senderOK:
		out.Stat("monitor.author.sender" + sigSuffix)
	case nFrom == 0 && nSender == 0:
		out.Violation("C15/accepted-without-author"+sigSuffix, op, "no From and no Sender address, header check passed")
	default:
		sig := "C15/header-author-not-entitled"
		if len(from) > 1 {
			sig = "C15/repeated-from-field-not-examined"
		} else if len(sender) > 1 {
			sig = "C15/repeated-sender-field-not-examined"
		}
		out.Violation(sig+sigSuffix, op, fmt.Sprintf("user %q accepted From %v Sender %v", cs.User, from, sender))
	}
}

// Distribution records the shape of the case.
func Distribution(out *vh.Out, cs *Case, r *Run) {
	out.Stat("cfg.authnorm." + cs.AuthNorm)
	out.Stat("cfg.fromnorm." + cs.FromNorm)
	out.Stat("cfg.prepare." + cs.Prep.Kind + B01(cs.Prep.Err))
	out.Stat("cfg.u2e." + cs.U2E.Kind + B01(cs.U2E.Err))
	acts := cs.UA + cs.NA + cs.EA
	if acts != "rrr" && acts != "qqq" && acts != "iii" {
		acts = "mixed"
	}
	out.Stat("cfg.actions." + acts)
	out.Stat("cfg.checkheader." + B01(cs.CheckHeader))
	out.Stat(fmt.Sprintf("hdr.fromfields.%d", len(r.FromVals)))
	out.Stat(fmt.Sprintf("hdr.senderfields.%d", len(r.SenderVals)))
	out.Stat("hdr.gtknown." + B01(cs.GTKnown))
	// the sending user's row: entries that are not an address, a domain or "*"
	if entries := refEntries(cs); len(entries) > 0 && cs.U2E.Kind != "I" {
		kinds := map[string]bool{}
		for _, e := range entries {
			l, d, has := SplitLast(e)
			switch {
			case e == "":
				kinds["empty"] = true
			case e == "*":
				kinds["star"] = true
			case has && l != "" && d != "":
				kinds["address"] = true
			case has:
				kinds["half"] = true
			case strings.Contains(e, "."):
				kinds["domain"] = true
			default:
				kinds["bare-word"] = true
			}
		}
		for k := range kinds {
			out.Stat("cfg.u2e.row-has." + k)
		}
	}
	if cs.Conn && cs.User != "" {
		// does the value the entitlement test sees (after from_normalize) have a domain?
		if nf, err := authz.NormalizeFuncs[cs.FromNorm](cs.MailFrom); err == nil {
			l, d, has := SplitLast(nf)
			out.Stat("mailfrom.normalised-splits." + B01(has && l != "" && d != ""))
		}
		if strings.EqualFold(cs.MailFrom, "postmaster") {
			out.Stat("mailfrom.bare-postmaster." + r.Sender.Reason)
		}
	}
	if cs.GTKnown {
		// does the library's reading agree with the structure the bytes were rendered from?
		agree := len(r.FromVals) == len(cs.GTFrom)
		for i := 0; agree && i < len(r.FromVals); i++ {
			l, err := mail.ParseAddressList(r.FromVals[i])
			if len(cs.GTFrom[i]) == 0 && len(l) == 0 {
				continue
			}
			if err != nil || len(l) != len(cs.GTFrom[i]) {
				agree = false
				if err != nil && hasForeignWord(r.FromVals[i]) {
					// well-formed, but net/mail does not know the charset of an encoded word
					out.Stat("hdr.parse-fails.charset-unknown-to-net-mail")
				} else {
					out.Stat("hdr.parse-fails.other")
				}
				break
			}
			for j, a := range l {
				if a.Address != cs.GTFrom[i][j].String() {
					agree = false
				}
			}
		}
		out.Stat("hdr.parse-agrees-with-structure." + B01(agree))
		// the parsed From and Sender being the same address is a branch of its own in CheckBody
		if len(cs.GTFrom) == 1 && len(cs.GTFrom[0]) == 1 && len(cs.GTSender) == 1 && len(cs.GTSender[0]) == 1 {
			out.Stat("hdr.sender-equals-from." + B01(cs.GTFrom[0][0] == cs.GTSender[0][0]))
		}
	}
}

// ---------------------------------------------------------------- generators

var Domains = []string{"example.org", "example.com", "münchen.de", "пример.рф", "corp.example.net", "bücher.example"}
var Locals = []string{"alice", "bob", "carol", "rené", "дима", "first.last", "a+tag", "o'neil", "big.boss", "straße", "sigmaς", "strasse", "sigmaσ"}
var Users = []string{"alice", "bob@example.org", "carol", "rené", "дима@пример.рф", "big.boss@corp.example.net", "example.org", "svc-mailer", "straße"}

var NormNames = []string{"auto", "precis_casefold_email", "precis_casefold", "precis_email", "precis", "casefold", "noop"}

func upper(s string) string {
	var b strings.Builder
	for _, ch := range s {
		up := unicode.ToUpper(ch)
		if unicode.ToLower(up) == ch {
			b.WriteRune(up)
		} else {
			b.WriteRune(ch)
		}
	}
	return b.String()
}

func mixCase(r *vh.Rng, s string) string {
	var b strings.Builder
	for _, ch := range s {
		up := unicode.ToUpper(ch)
		if r.Bool() && unicode.ToLower(up) == ch {
			b.WriteRune(up)
		} else {
			b.WriteRune(ch)
		}
	}
	return b.String()
}

func wide(r *vh.Rng, s string) string {
	var b strings.Builder
	for _, ch := range s {
		if ch >= 'a' && ch <= 'z' && r.Chance(40) {
			b.WriteRune(ch - 'a' + 'ａ')
		} else {
			b.WriteRune(ch)
		}
	}
	return b.String()
}

func textVariant(r *vh.Rng, s string) string {
	switch r.Intn(6) {
	case 0:
		return upper(s)
	case 1:
		return mixCase(r, s)
	case 2:
		return norm.NFD.String(s)
	case 3:
		return norm.NFD.String(mixCase(r, s))
	case 4:
		return wide(r, s)
	}
	return s
}

func domainVariant(r *vh.Rng, d string) string {
	switch r.Intn(6) {
	case 0:
		return upper(d)
	case 1:
		if a, err := idna.ToASCII(d); err == nil {
			return a
		}
	case 2:
		if a, err := idna.ToASCII(d); err == nil {
			return strings.ToUpper(a)
		}
	case 3:
		return norm.NFD.String(d)
	case 4:
		return mixCase(r, d)
	}
	return d
}

func addrVariant(r *vh.Rng, a Addr) Addr {
	if r.Chance(35) {
		return a
	}
	out := a
	if r.Bool() {
		out.Local = textVariant(r, a.Local)
	}
	if r.Bool() {
		out.Domain = domainVariant(r, a.Domain)
	}
	return out
}

func randAddr(r *vh.Rng) Addr {
	return Addr{Locals[r.Intn(len(Locals))], Domains[r.Intn(len(Domains))]}
}

// near misses of an entitled address / domain
func nearMiss(r *vh.Rng, a Addr) Addr {
	switch r.Intn(9) {
	case 8:
		return Addr{"x@" + a.Local, a.Domain} // splitting at the first at-sign makes the entitled address the "domain"
	case 0:
		return Addr{a.Local, "sub." + a.Domain}
	case 1:
		return Addr{a.Local, a.Domain + ".evil.example"}
	case 2:
		return Addr{a.Local, "evil-" + a.Domain}
	case 3:
		return Addr{a.String(), "evil.example"} // quoted local part containing the entitled address
	case 4:
		return Addr{a.Local + "x", a.Domain}
	case 5:
		return Addr{a.Local, strings.TrimSuffix(a.Domain, a.Domain[strings.LastIndex(a.Domain, "."):]) + ".test"}
	case 6:
		return Addr{"*", a.Domain + "x"}
	default:
		return Addr{a.Domain, a.Local + ".example"} // swapped
	}
}

type world struct {
	entitled []Addr   // concrete addresses the sending user is entitled to (canonical spelling)
	entDoms  []string // domains the user is entitled to
	star     bool
	others   []Addr // addresses of other users
	// entries that are not an address, a domain or "*": bare local parts ("alice"), halves
	// ("alice@", "@example.org"), the empty string.  They entitle to no address; the picker
	// draws the addresses a sloppy comparison would let through.
	oddLocals []string
	oddDoms   []string
	empty     bool
}

func normOrSelf(name, s string) string {
	if o, err := authz.NormalizeFuncs[name](s); err == nil {
		return o
	}
	return s
}

// GenCase draws one case.  smtpSafe restricts MAIL FROM and the user name to what can travel
// through a real SMTP dialogue (used by the session harness).
func GenCase(r *vh.Rng, smtpSafe bool) *Case {
	cs := &Case{CheckHeader: !r.Chance(8), UA: "r", NA: "r", EA: "r", Conn: !r.Chance(5), GTKnown: true}
	if r.Chance(25) {
		cs.UA, cs.NA, cs.EA = r.Pick("r", "q", "i"), r.Pick("r", "q", "i"), r.Pick("r", "q", "i")
	} else if r.Chance(10) {
		a := r.Pick("q", "i")
		cs.UA, cs.NA, cs.EA = a, a, a
	}
	cs.AuthNorm = NormNames[r.Intn(len(NormNames))]
	cs.FromNorm = NormNames[r.Intn(len(NormNames))]
	if r.Chance(40) {
		cs.AuthNorm, cs.FromNorm = "auto", "auto" // the defaults
	}

	// --- who is who
	userCanon := Users[r.Intn(len(Users))]
	w := &world{}
	cs.U2E.Kind = r.Pick("I", "I", "I", "T", "T", "T", "S", "S", "S", "S", "S", "S", "M", "M", "M", "L", "O")
	if cs.U2E.Kind == "T" || cs.U2E.Kind == "M" {
		cs.U2E.Err = r.Chance(6)
	}
	keyOf := func(u string) string {
		if r.Chance(85) {
			return normOrSelf(cs.AuthNorm, u)
		}
		return u
	}
	entrySpelling := func(s string, isAddr bool) string {
		if r.Chance(80) {
			if isAddr {
				return normOrSelf(cs.FromNorm, s)
			}
			return normOrSelf("casefold", norm.NFC.String(s))
		}
		if isAddr {
			l, d, _ := SplitLast(s)
			return addrVariant(r, Addr{l, d}).String()
		}
		return domainVariant(r, s)
	}
	if cs.U2E.Kind == "I" {
		// identity: the user name itself is the entry (address, domain or plain name)
		if l, d, ok := SplitLast(userCanon); ok {
			w.entitled = append(w.entitled, Addr{l, d})
		} else if strings.Contains(userCanon, ".") {
			w.entDoms = append(w.entDoms, userCanon)
		} else {
			w.oddLocals = append(w.oddLocals, userCanon)
		}
	} else if cs.U2E.Kind == "L" || cs.U2E.Kind == "O" {
		// the local part of the account name is the (only) entry: a value without a domain
		if l, _, ok := SplitLast(userCanon); ok {
			w.oddLocals = append(w.oddLocals, l)
		} else if cs.U2E.Kind == "O" {
			w.oddLocals = append(w.oddLocals, userCanon)
		}
	} else {
		// the sending user's row
		var vals []string
		n := 1 + r.Intn(3)
		if cs.U2E.Kind == "T" {
			n = 1
		}
		for i := 0; i < n; i++ {
			switch k := r.Intn(20); {
			case k < 10:
				a := randAddr(r)
				w.entitled = append(w.entitled, a)
				vals = append(vals, entrySpelling(a.String(), true))
			case k < 15:
				d := Domains[r.Intn(len(Domains))]
				w.entDoms = append(w.entDoms, d)
				vals = append(vals, entrySpelling(d, false))
			case k < 16:
				w.star = true
				vals = append(vals, "*")
			case k < 18:
				// what table.file yields for a key-only line or a list ending in a comma
				w.empty = true
				vals = append(vals, "")
			case k < 19:
				// only a local part
				l := r.Pick(Locals[r.Intn(len(Locals))], "postmaster", "Postmaster", userCanon)
				if strings.Contains(l, "@") {
					l = "alice"
				}
				w.oddLocals = append(w.oddLocals, l)
				vals = append(vals, l)
			default:
				// half an address
				if r.Bool() {
					l := Locals[r.Intn(len(Locals))]
					w.oddLocals = append(w.oddLocals, l)
					vals = append(vals, l+"@")
				} else {
					d := Domains[r.Intn(len(Domains))]
					w.oddDoms = append(w.oddDoms, d)
					vals = append(vals, "@"+d)
				}
			}
		}
		if n > 1 && len(vals) > 1 && r.Chance(8) {
			// the trailing comma / the doubled comma of a hand-written list
			w.empty = true
			vals[1+r.Intn(len(vals)-1)] = ""
		}
		if !r.Chance(7) { // sometimes the user has no row at all
			cs.U2E.Add(keyOf(userCanon), vals...)
		} else {
			w.entitled, w.entDoms, w.star = nil, nil, false
			w.oddLocals, w.oddDoms, w.empty = nil, nil, false
		}
		// other users' rows
		for i, n := 0, r.Intn(3); i < n; i++ {
			ou := Users[r.Intn(len(Users))]
			if ou == userCanon {
				continue
			}
			a := randAddr(r)
			w.others = append(w.others, a)
			vs := []string{entrySpelling(a.String(), true)}
			if cs.U2E.Kind != "T" && r.Chance(10) {
				vs = append(vs, "")
			}
			if cs.U2E.Kind != "T" && r.Bool() {
				d := Domains[r.Intn(len(Domains))]
				vs = append(vs, d)
				w.others = append(w.others, Addr{"someone", d})
			}
			cs.U2E.Add(keyOf(ou), vs...)
		}
	}
	for len(w.others) < 2 {
		w.others = append(w.others, randAddr(r))
	}

	// --- user spelling
	cs.User = userCanon
	switch k := r.Intn(20); {
	case k < 2:
		cs.User = ""
	case k < 9:
		cs.User = textVariant(r, userCanon)
		if l, d, ok := SplitLast(userCanon); ok && r.Bool() {
			cs.User = addrVariant(r, Addr{l, d}).String()
		}
	case k == 9:
		if smtpSafe {
			cs.User = r.Pick("mallory", "al ice", "alice​", "*", "x@", "@example.org", "ｍallory")
		} else {
			cs.User = r.Pick("mallory", "al ice", "alice​", "ali\u0000ce", "*", "x@", "@example.org", "ｍallory")
		}
	}

	// --- prepare_email
	cs.Prep.Kind = "I"
	var aliases []Addr // alias addresses that map to something
	if r.Chance(12) {
		// computed tables that reduce an address to a value without a domain
		cs.Prep.Kind = r.Pick("L", "L", "O")
	} else if r.Chance(25) {
		cs.Prep.Kind = r.Pick("T", "S", "M")
		if cs.Prep.Kind != "S" {
			cs.Prep.Err = r.Chance(8)
		}
		for i, n := 0, 1+r.Intn(2); i < n; i++ {
			alias := Addr{r.Pick("sales", "info", "alias", "ops"), Domains[r.Intn(len(Domains))]}
			// aliases the user would be entitled to if they were not aliases (own address, own domain)
			switch k := r.Intn(10); {
			case k < 3 && len(w.entitled) > 0:
				alias = w.entitled[r.Intn(len(w.entitled))]
			case k < 6 && len(w.entDoms) > 0:
				alias.Domain = w.entDoms[r.Intn(len(w.entDoms))]
			}
			var targets []string
			for j, m := 0, 1+r.Intn(2); j < m; j++ {
				switch k := r.Intn(10); {
				case k < 5 && len(w.entitled) > 0:
					targets = append(targets, normOrSelf(cs.FromNorm, w.entitled[r.Intn(len(w.entitled))].String()))
				case k < 8:
					targets = append(targets, w.others[r.Intn(len(w.others))].String())
				case k == 8:
					t := r.Pick("no-at-sign", "@nolocal.example", "nodomain@", "", "postmaster", "POSTMASTER", "alice")
					if len(w.oddLocals) > 0 && r.Bool() {
						t = w.oddLocals[r.Intn(len(w.oddLocals))]
					}
					targets = append(targets, t)
				default:
					targets = append(targets, randAddr(r).String())
				}
			}
			key := alias.String()
			if r.Chance(85) {
				key = normOrSelf(cs.FromNorm, key)
			}
			cs.Prep.Add(key, targets...)
			aliases = append(aliases, alias)
		}
	}

	// --- address picker
	localOnly := cs.Prep.Kind == "L" || cs.Prep.Kind == "O"
	pick := func() Addr {
		if (len(w.oddLocals) > 0 || len(w.oddDoms) > 0 || localOnly) && r.Chance(30) {
			// what a comparison by local part / by halves / of a domain-less value would let through
			switch k := r.Intn(10); {
			case k < 4 && len(w.oddLocals) > 0:
				return addrVariant(r, Addr{w.oddLocals[r.Intn(len(w.oddLocals))], Domains[r.Intn(len(Domains))]})
			case k < 6 && len(w.oddLocals) > 0:
				return Addr{Locals[r.Intn(len(Locals))], w.oddLocals[r.Intn(len(w.oddLocals))]}
			case k < 8 && len(w.oddDoms) > 0:
				return addrVariant(r, Addr{Locals[r.Intn(len(Locals))], w.oddDoms[r.Intn(len(w.oddDoms))]})
			case k < 9:
				return Addr{r.Pick("postmaster", "Postmaster", "POSTMASTER"), Domains[r.Intn(len(Domains))]}
			}
		}
		switch k := r.Intn(20); {
		case k < 7 && len(w.entitled) > 0:
			return addrVariant(r, w.entitled[r.Intn(len(w.entitled))])
		case k < 10 && len(w.entDoms) > 0:
			return addrVariant(r, Addr{Locals[r.Intn(len(Locals))], w.entDoms[r.Intn(len(w.entDoms))]})
		case k < 13:
			return addrVariant(r, w.others[r.Intn(len(w.others))])
		case k < 16 && len(aliases) > 0:
			return addrVariant(r, aliases[r.Intn(len(aliases))])
		case k < 17:
			if len(w.entitled) > 0 {
				return nearMiss(r, w.entitled[r.Intn(len(w.entitled))])
			}
			if len(w.entDoms) > 0 {
				return nearMiss(r, Addr{"alice", w.entDoms[r.Intn(len(w.entDoms))]})
			}
			return randAddr(r)
		case k == 17:
			return Addr{r.Pick("ali ce", "a\"b", "a\\b", "a,b", "a@b", "<alice>", "(alice)"), Domains[r.Intn(len(Domains))]}
		default:
			return addrVariant(r, randAddr(r))
		}
	}
	trickName := func() string {
		// display names that look like addresses: an entitled one when possible
		var a Addr
		if len(w.entitled) > 0 && r.Chance(70) {
			a = w.entitled[r.Intn(len(w.entitled))]
		} else {
			a = pick()
		}
		switch r.Intn(6) {
		case 0:
			return a.String()
		case 1:
			return "<" + a.String() + ">"
		case 2:
			return "Alice, <" + a.String() + ">"
		case 3:
			return a.String() + ", bob@example.com"
		case 4:
			return "\"" + a.String() + "\" <" + a.String() + ">"
		default:
			return r.Pick("Alice", "Bob B.", "René Müller", "Дима", "CEO")
		}
	}

	// --- MAIL FROM
	switch k := r.Intn(20); {
	case k == 0 && !smtpSafe:
		cs.MailFrom = r.Pick("", "postmaster", "POSTMASTER", "no-at-sign", "@example.org", "alice@", "a@b@example.org")
	case k == 0:
		cs.MailFrom = r.Pick("", "postmaster", "POSTMASTER")
	case k == 2:
		// senders without a domain: the null sender, the bare postmaster in several spellings
		cs.MailFrom = r.Pick("", "postmaster", "Postmaster", "POSTMASTER", "postmaster", "PostMaster")
	case k == 3 && !smtpSafe:
		// … a bare local part, half an address
		a := pick()
		l := a.Local
		if len(w.oddLocals) > 0 && r.Bool() {
			l = w.oddLocals[r.Intn(len(w.oddLocals))]
		}
		cs.MailFrom = r.Pick(l, l, l+"@", "@"+a.Domain, "@")
	case k == 1 && !smtpSafe:
		a := pick()
		cs.MailFrom = a.Local + "@" + a.Domain + "."
	default:
		a := pick()
		cs.MailFrom = a.String()
		if r.Chance(5) || (smtpSafe && !isDotAtom(a.Local)) {
			cs.MailFrom = quoteLocal(a.Local, true) + "@" + a.Domain
		}
	}

	// --- header
	genHeader(r, cs, pick, trickName)
	return cs
}

// ---- rendering

func isAtext(ch rune) bool {
	if ch >= 0x80 {
		return true
	}
	if ch >= 'a' && ch <= 'z' || ch >= 'A' && ch <= 'Z' || ch >= '0' && ch <= '9' {
		return true
	}
	return strings.ContainsRune("!#$%&'*+-/=?^_`{|}~", ch)
}

func isDotAtom(s string) bool {
	if s == "" || strings.HasPrefix(s, ".") || strings.HasSuffix(s, ".") || strings.Contains(s, "..") {
		return false
	}
	for _, ch := range s {
		if ch != '.' && !isAtext(ch) {
			return false
		}
	}
	return true
}

func quote(s string) string {
	var b strings.Builder
	b.WriteByte('"')
	for _, ch := range s {
		if ch == '"' || ch == '\\' {
			b.WriteByte('\\')
		}
		b.WriteRune(ch)
	}
	b.WriteByte('"')
	return b.String()
}

func quoteLocal(local string, force bool) string {
	if isDotAtom(local) && !force {
		return local
	}
	return quote(local)
}

type mbox struct {
	addr  Addr
	name  string
	style int // 0 bare, 1 angle, 2 atom name, 3 quoted name, 4 encoded-word name, 5 trailing comment,
	// 6 encoded-word name + angle-addr + comment holding an encoded word: a reader that decodes the
	// words BEFORE parsing the structure sees the name's specials as syntax ("x@y (" … ")")
	fq bool
}

func isPhraseAtoms(s string) bool {
	if s == "" {
		return false
	}
	for _, w := range strings.Split(s, " ") {
		if w == "" {
			return false
		}
		for _, ch := range w {
			if !isAtext(ch) || ch >= 0x80 {
				return false
			}
		}
		if strings.HasPrefix(w, "=?") {
			return false
		}
	}
	return true
}

// RFC 2047 encoded words as allowed inside a phrase: every byte that is not a letter or digit is
// escaped (Q) or the whole chunk is base64 (B); long names are split into several words.
//
// The charset label: UTF-8, or — for chunks that are pure ASCII, whose bytes are the same in
// all of them — one of the ASCII-compatible charsets a mail reader meets (net/mail itself knows
// UTF-8, ISO-8859-1 and US-ASCII only and fails the whole field on any other).
var asciiCompatibleCharsets = []string{"us-ascii", "iso-8859-1", "ISO-8859-15", "koi8-r", "KOI8-U", "windows-1251",
	"windows-1252", "iso-8859-5", "iso-2022-jp", "gb2312", "euc-kr", "big5"}

// hasForeignWord: does the field value hold an encoded word in a charset net/mail does not know?
func hasForeignWord(v string) bool {
	for _, part := range strings.Split(v, "=?")[1:] {
		if i := strings.Index(part, "?"); i > 0 {
			switch strings.ToLower(part[:i]) {
			case "utf-8", "us-ascii", "iso-8859-1":
			default:
				return true
			}
		}
	}
	return false
}

func isASCII(s string) bool {
	for i := 0; i < len(s); i++ {
		if s[i] >= 0x80 {
			return false
		}
	}
	return true
}

func encodedWords(r *vh.Rng, name string, fold func() string) string {
	return encodedWordsIn(r, name, fold, r.Chance(12))
}

func encodedWordsIn(r *vh.Rng, name string, fold func() string, foreign bool) string {
	runes := []rune(name)
	var words []string
	for len(runes) > 0 {
		n := 1 + r.Intn(10)
		if n > len(runes) {
			n = len(runes)
		}
		chunk := string(runes[:n])
		runes = runes[n:]
		cset := r.Pick("utf-8", "UTF-8")
		if foreign && isASCII(chunk) {
			cset = asciiCompatibleCharsets[r.Intn(len(asciiCompatibleCharsets))]
		}
		if r.Bool() {
			words = append(words, "=?"+cset+"?"+r.Pick("b", "B")+"?"+base64.StdEncoding.EncodeToString([]byte(chunk))+"?=")
			continue
		}
		var b strings.Builder
		for _, c := range []byte(chunk) {
			switch {
			case c >= 'a' && c <= 'z' || c >= 'A' && c <= 'Z' || c >= '0' && c <= '9':
				b.WriteByte(c)
			case c == ' ':
				b.WriteByte('_')
			default:
				fmt.Fprintf(&b, "=%02X", c)
			}
		}
		words = append(words, "=?"+cset+"?"+r.Pick("q", "Q")+"?"+b.String()+"?=")
	}
	out := ""
	for i, w := range words {
		if i > 0 {
			out += fold()
		}
		out += w
	}
	return out
}

func (m mbox) render(r *vh.Rng, fold func() string) string {
	spec := quoteLocal(m.addr.Local, m.fq) + "@" + m.addr.Domain
	switch m.style {
	case 1:
		return "<" + spec + ">"
	case 2:
		if isPhraseAtoms(m.name) {
			return m.name + fold() + "<" + spec + ">"
		}
		return quote(m.name) + fold() + "<" + spec + ">"
	case 3:
		return quote(m.name) + fold() + "<" + spec + ">"
	case 4:
		return encodedWords(r, m.name, fold) + fold() + "<" + spec + ">"
	case 5:
		c := strings.Map(func(ch rune) rune {
			if ch == '(' || ch == ')' || ch == '\\' {
				return -1
			}
			return ch
		}, m.name)
		if r.Chance(25) && c != "" {
			// RFC 2047 allows encoded words inside comments
			return spec + " (" + encodedWords(r, c, fold) + ")"
		}
		return spec + " (" + c + ")"
	case 6:
		foreign := r.Chance(70)
		open, close := r.Pick(" (", " (", " (", " (", ", (", " <", ";(", " (x) ("), r.Pick(")", ")", ")", ">", "))", "x)")
		return encodedWordsIn(r, m.name+open, fold, foreign) + fold() + "<" + spec + ">" + fold() + "(" + encodedWordsIn(r, close, fold, foreign) + ")"
	}
	return spec
}

func genMbox(r *vh.Rng, a Addr, trickName func() string) mbox {
	m := mbox{addr: a, style: r.Intn(6), fq: r.Chance(8)}
	if r.Chance(6) {
		m.style = 6
	}
	if m.style >= 2 {
		m.name = trickName()
	}
	if m.style == 6 {
		// the decoded name must read as an addr-spec: keep the bare address form of the trick
		m.name = strings.Trim(strings.TrimPrefix(m.name, "Alice, "), "<>")
		if i := strings.Index(m.name, ","); i >= 0 {
			m.name = m.name[:i]
		}
		if i := strings.Index(m.name, "\""); i >= 0 {
			m.name = strings.Trim(m.name[i:], "\"<> ")
			if j := strings.Index(m.name, "\""); j >= 0 {
				m.name = m.name[:j]
			}
		}
	}
	return m
}

// one address-list field value + its ground truth
func genList(r *vh.Rng, pick func() Addr, trickName func() string, nAddr int, single bool) (string, []Addr) {
	fold := func() string {
		if r.Chance(20) {
			return r.Pick("\r\n ", "\r\n\t", "  ", "\r\n  ")
		}
		return " "
	}
	var parts []string
	var gt []Addr
	remaining := nAddr
	for remaining > 0 || (nAddr == 0 && len(parts) == 0) {
		if !single && (nAddr == 0 || r.Chance(15)) {
			// a group with 0..remaining members
			k := 0
			if remaining > 0 {
				k = 1 + r.Intn(remaining)
			}
			var ms []string
			for i := 0; i < k; i++ {
				a := pick()
				gt = append(gt, a)
				ms = append(ms, genMbox(r, a, trickName).render(r, fold))
			}
			remaining -= k
			gname := r.Pick("team", "undisclosed-recipients", "\"a, b\"", "Friends")
			parts = append(parts, gname+":"+fold()+strings.Join(ms, ","+fold())+";")
			if nAddr == 0 {
				break
			}
			continue
		}
		a := pick()
		gt = append(gt, a)
		parts = append(parts, genMbox(r, a, trickName).render(r, fold))
		remaining--
	}
	v := strings.Join(parts, ","+fold())
	if !single && len(gt) > 0 && r.Chance(6) {
		// obsolete syntax (RFC 5322 obs-mbox-list): empty list elements
		if r.Bool() {
			v += ","
		} else {
			v = "," + fold() + v
		}
	}
	return v, gt
}

func fieldName(r *vh.Rng, name string) string {
	switch r.Intn(10) {
	case 0:
		return strings.ToUpper(name)
	case 1:
		return strings.ToLower(name)
	case 2:
		return mixCase(r, strings.ToLower(name))
	}
	return name
}

func mutate(r *vh.Rng, v string) string {
	if v == "" {
		return r.Pick("<", "@", ",", ";", "\"")
	}
	bs := []rune(v)
	pos := r.Intn(len(bs) + 1)
	ins := []rune(r.Pick("<", ">", ",", ";", ":", "\"", "(", ")", "@", "\\", " ", ".", "[", "]", "=?utf-8?q?x?="))
	switch r.Intn(3) {
	case 0: // insert
		bs = append(bs[:pos], append(ins, bs[pos:]...)...)
	case 1: // delete
		if pos < len(bs) {
			bs = append(bs[:pos], bs[pos+1:]...)
		}
	default: // replace
		if pos < len(bs) {
			bs = append(bs[:pos], append(ins, bs[pos+1:]...)...)
		}
	}
	s := string(bs)
	// keep the field a single (folded) field: no bare CR/LF damage
	s = strings.ReplaceAll(s, "\r\n", "\x00")
	s = strings.NewReplacer("\r", "", "\n", "").Replace(s)
	return strings.ReplaceAll(s, "\x00", "\r\n")
}

func genHeader(r *vh.Rng, cs *Case, pick func() Addr, trickName func() string) {
	type fld struct {
		name, value string
		gt          []Addr
		kind        int // 0 other, 1 From, 2 Sender
	}
	var fields []fld
	nFrom := 1
	switch k := r.Intn(20); {
	case k == 0:
		nFrom = 0
	case k < 3:
		nFrom = 2
	case k == 3:
		nFrom = 3
	}
	var firstFrom []Addr
	for i := 0; i < nFrom; i++ {
		nAddr := 1
		switch k := r.Intn(20); {
		case k == 0:
			nAddr = 0
		case k < 3:
			nAddr = 2
		case k == 3:
			nAddr = 3
		}
		if nAddr == 0 && r.Bool() {
			fields = append(fields, fld{"From", "", nil, 1}) // empty field
			continue
		}
		v, gt := genList(r, pick, trickName, nAddr, false)
		fields = append(fields, fld{"From", v, gt, 1})
		if i == 0 {
			firstFrom = gt
		}
	}
	nSender := 0
	switch k := r.Intn(20); {
	case k < 7:
		nSender = 1
	case k == 7:
		nSender = 2
	}
	for i := 0; i < nSender; i++ {
		if r.Chance(5) {
			fields = append(fields, fld{"Sender", "", nil, 2})
			continue
		}
		spick := pick
		if len(firstFrom) == 1 && r.Chance(20) {
			// Sender repeats the From address: literally, or in another spelling of it
			if r.Bool() {
				spick = func() Addr { return firstFrom[0] }
			} else {
				spick = func() Addr { return addrVariant(r, firstFrom[0]) }
			}
		}
		v, gt := genList(r, spick, trickName, 1, true)
		fields = append(fields, fld{"Sender", v, gt, 2})
	}
	subject := "hello"
	if r.Chance(8) {
		// a continuation line that looks like an author field is part of the Subject, not a field
		subject = "hello\r\n " + r.Pick("From", "Sender") + ": <" + pick().String() + ">"
	}
	fields = append(fields, fld{"To", "someone@example.net", nil, 0}, fld{"Subject", subject, nil, 0})
	if r.Bool() {
		fields = append(fields, fld{"Message-ID", "<1@example.net>", nil, 0})
	}
	// shuffle
	for i := len(fields) - 1; i > 0; i-- {
		j := r.Intn(i + 1)
		fields[i], fields[j] = fields[j], fields[i]
	}
	doMutate := r.Chance(10)
	var b bytes.Buffer
	for _, f := range fields {
		v := f.value
		if doMutate && f.kind != 0 && r.Bool() {
			v = mutate(r, v)
			cs.GTKnown = false
		}
		name := f.name
		if f.kind != 0 {
			name = fieldName(r, f.name)
		}
		sep := ": "
		if r.Chance(10) {
			sep = r.Pick(":", ":  ", ":\r\n ", " : ")
		}
		if v == "" {
			sep = ":"
		}
		b.WriteString(name + sep + v + "\r\n")
		switch f.kind {
		case 1:
			cs.GTFrom = append(cs.GTFrom, f.gt)
		case 2:
			cs.GTSender = append(cs.GTSender, f.gt)
		}
	}
	cs.Raw = b.Bytes()
}

// ---------------------------------------------------------------- fixed scenarios (always run)

func Fixed() []*Case {
	mk := func(user, mailFrom string, u2e Tab, hdr string, gtFrom [][]Addr, gtSender [][]Addr) *Case {
		cs := &Case{CheckHeader: true, UA: "r", NA: "r", EA: "r", AuthNorm: "auto", FromNorm: "auto", Conn: true,
			User: user, MailFrom: mailFrom, U2E: u2e, Raw: []byte(hdr), GTKnown: true, GTFrom: gtFrom, GTSender: gtSender}
		cs.Prep.Kind = "I"
		return cs
	}
	ident := Tab{Kind: "I"}
	alice := Addr{"alice", "example.org"}
	bob := Addr{"bob", "example.com"}
	var st Tab
	st.Kind = "S"
	st.Add("alice", "alice@example.org", "corp.example.net")
	rest := "To: someone@example.net\r\nSubject: hello\r\n"
	// entries that are no address, no domain and not "*" (empty, bare local part, halves) and
	// sender values without a domain (bare postmaster, prepare_email reducing to the local part)
	odd := func(user, mailFrom, fromNorm, prepKind string, entries ...string) *Case {
		var t Tab
		t.Kind = "S"
		t.Add(user, entries...)
		cs := mk(user, mailFrom, t, "From: <alice@example.org>\r\n"+rest, [][]Addr{{alice}}, nil)
		cs.FromNorm, cs.Prep.Kind = fromNorm, prepKind
		return cs
	}
	return []*Case{
		odd("backup", "postmaster", "noop", "I", ""),
		odd("backup", "postmaster", "auto", "I", ""),
		odd("backup", "POSTMASTER", "casefold", "I", "alice@example.org", ""),
		odd("backup", "bob@example.com", "auto", "L", ""),
		odd("backup", "bob@example.com", "auto", "O", "alice@example.org", ""),
		odd("backup", "no-at-sign", "noop", "I", ""),
		odd("backup", "alice@", "noop", "I", "", "alice"),
		odd("alice", "alice@example.com", "auto", "I", "alice", "alice@example.org"),
		odd("alice", "alice@example.com", "auto", "L", "alice"),
		odd("alice", "bob@example.org", "auto", "I", "@example.org", "alice@example.org"),
		odd("alice", "postmaster@example.com", "auto", "L", "postmaster"),
		// lower-casing is not full case folding: ß / ss, ς / σ are different local parts
		odd("alice", "straße@example.org", "casefold", "I", "strasse@example.org"),
		odd("alice", "sigmaς@example.org", "casefold", "I", "sigmaσ@example.org"),
		// own envelope sender, foreign From, Sender = the same foreign address in another spelling
		mk("alice@example.org", "alice@example.org", ident, "From: <bob@example.com>\r\nSender: <BOB@EXAMPLE.COM>\r\n"+rest, [][]Addr{{bob}}, [][]Addr{{{"BOB", "EXAMPLE.COM"}}}),
		mk("alice@example.org", "alice@example.org", ident, "From: <bob@xn--mnchen-3ya.de>\r\nSender: <bob@münchen.de>\r\n"+rest, [][]Addr{{{"bob", "xn--mnchen-3ya.de"}}}, [][]Addr{{{"bob", "münchen.de"}}}),
		// encoded words in a charset net/mail does not know, decoding to RFC 5322 specials: for every
		// RFC 5322 reader the one author is bob (display name "alice@example.org (", comment ")")
		mk("alice@example.org", "alice@example.org", ident,
			"From: =?koi8-r?q?alice=40example.org_=28?= <bob@example.com> (=?koi8-r?q?=29?=)\r\n"+rest, [][]Addr{{bob}}, nil),
		mk("alice@example.org", "alice@example.org", ident,
			"From: =?utf-8?q?alice=40example.org_=28?= <bob@example.com> (=?utf-8?q?=29?=)\r\n"+rest, [][]Addr{{bob}}, nil),
		// the upstream integration cases: own address, someone else's address
		mk("alice@example.org", "alice@example.org", ident, "From: <alice@example.org>\r\n"+rest, [][]Addr{{alice}}, nil),
		mk("alice@example.org", "bob@example.com", ident, "From: <bob@example.com>\r\n"+rest, [][]Addr{{bob}}, nil),
		// DESIGN §6 (m): two From fields, first entitled, second not — and the opposite order
		mk("alice@example.org", "alice@example.org", ident, "From: <alice@example.org>\r\nFrom: <bob@example.com>\r\n"+rest, [][]Addr{{alice}, {bob}}, nil),
		mk("alice@example.org", "alice@example.org", ident, "From: <bob@example.com>\r\nFrom: <alice@example.org>\r\n"+rest, [][]Addr{{bob}, {alice}}, nil),
		// From not the user's, Sender is; two Sender fields, first entitled, second not
		mk("alice@example.org", "alice@example.org", ident, "From: <bob@example.com>\r\nSender: <alice@example.org>\r\n"+rest, [][]Addr{{bob}}, [][]Addr{{alice}}),
		mk("alice@example.org", "alice@example.org", ident, "From: <bob@example.com>\r\nSender: <alice@example.org>\r\nSender: <bob@example.com>\r\n"+rest, [][]Addr{{bob}}, [][]Addr{{alice}, {bob}}),
		// display-name trick, group, domain wildcard, missing From
		mk("alice@example.org", "alice@example.org", ident, "From: \"alice@example.org\" <bob@example.com>\r\n"+rest, [][]Addr{{bob}}, nil),
		mk("alice", "alice@example.org", st, "From: team: x@corp.example.net;\r\n"+rest, [][]Addr{{{"x", "corp.example.net"}}}, nil),
		mk("alice", "ALICE@EXAMPLE.ORG", st, rest, nil, nil),
		mk("", "alice@example.org", ident, "From: <alice@example.org>\r\n"+rest, [][]Addr{{alice}}, nil),
	}
}
