// Package vc15 is the shared part of the C15 (sender authorisation) harnesses: case
// description, generators, header rendering with ground truth, op-line encoding, the
// reference entitlement function and the monitors.  It exists only inside the overlay.
//
// One case = one configuration (normalisation settings, actions, prepare_email and
// user_to_email tables), one connection state and one message (MAIL FROM + header bytes).
// The header is RENDERED from a structure (ground truth: which addresses are in which
// From/Sender field) with display-name tricks, groups, quoting, RFC 2047 words, folding and
// repeated fields; the real code parses the bytes and decides.
//
// The monitors evaluate the property on the real decision with a reference entitlement
// function written from the property text (exists-entry, coarse spelling equivalence, every
// address of every From field); they never consult the Lean model.
package vc15

import (
	"bytes"
	"context"
	"encoding/base64"
	"errors"
	"fmt"
	"net/mail"
	"os"
	"path/filepath"
	"sort"
	"strconv"
	"strings"
	"sync"
	"time"
	"unicode"

	parser "github.com/foxcpp/maddy/framework/cfgparser"
	"github.com/foxcpp/maddy/framework/config"
	"github.com/foxcpp/maddy/framework/module"
	"github.com/foxcpp/maddy/internal/authz"
	"github.com/foxcpp/maddy/internal/table"
	"github.com/foxcpp/maddy/internal/testutils"
	"github.com/foxcpp/maddy/internal/verifshim/vh"
	"golang.org/x/net/idna"
	"golang.org/x/text/secure/precis"
	"golang.org/x/text/unicode/norm"
)

// ---------------------------------------------------------------- case description

// Tab describes a table module of a case.
type Tab struct {
	Kind string // I identity, T testutils.Table (single), S table.Static (multi), M multi with error switch,
	// L table.email_localpart, O table.email_localpart_optional (computed, no rows),
	// W table.email_with_domain: Keys = the domains (inline arguments, in order), no values,
	// F the real table.file: Lines = the entry lines of the file, in file order (a key may repeat:
	// its values add up), Style = how the bytes are rendered, Path = where the file is
	Err   bool
	Keys  []string // insertion order
	Rows  map[string][]string
	Lines []Line
	Style int
	Path  string
	// C the real table.chain: the steps in order (`step <table>` / `optional_step <table>`), each a
	// table of one of the other kinds (not F, not C)
	Steps []ChainStep

	memIDs []string
}

// ChainStep is one `step` / `optional_step` directive of a table.chain block.
type ChainStep struct {
	Optional bool
	Tab      Tab
}

// Line is one entry line of a table file: `key: v1, v2` (`key` alone = one empty value).
type Line struct {
	Key  string
	Vals []string
}

func (t *Tab) Add(k string, vs ...string) {
	if t.Kind == "F" {
		t.Lines = append(t.Lines, Line{k, vs})
		return
	}
	if t.Rows == nil {
		t.Rows = map[string][]string{}
	}
	if _, ok := t.Rows[k]; !ok {
		t.Keys = append(t.Keys, k)
	}
	if t.Kind == "T" {
		t.Rows[k] = vs[:1]
		return
	}
	t.Rows[k] = vs
}

type multiTab struct {
	m   map[string][]string
	err error
}

func (t multiTab) Lookup(_ context.Context, k string) (string, bool, error) {
	panic("vc15: Lookup must not be used on a MultiTable")
}

func (t multiTab) LookupMulti(_ context.Context, k string) ([]string, error) {
	if t.err != nil {
		return nil, t.err
	}
	return t.m[k], nil
}

// Build constructs the table object: the repository's own identity / static / test tables
// where they can express the case, a two-line multi table with an error switch otherwise.
func (t *Tab) Build() module.Table {
	switch t.Kind {
	case "I":
		if t.Err {
			panic("identity table cannot fail")
		}
		return &table.Identity{}
	case "T":
		m := map[string]string{}
		for k, v := range t.Rows {
			m[k] = v[0]
		}
		var err error
		if t.Err {
			err = errors.New("c15: table unavailable")
		}
		return testutils.Table{M: m, Err: err}
	case "S":
		if t.Err {
			panic("static table cannot fail")
		}
		mod, err := table.NewStatic("table.static", "c15", nil, nil)
		if err != nil {
			panic(err)
		}
		if err := mod.(*table.Static).Init(config.NewMap(nil, config.Node{Children: t.staticNodes()})); err != nil {
			panic(err)
		}
		return mod.(module.Table)
	case "M":
		var err error
		if t.Err {
			err = errors.New("c15: table unavailable")
		}
		return multiTab{m: t.Rows, err: err}
	case "L", "O":
		if t.Err {
			panic("email_localpart table cannot fail")
		}
		name := "table.email_localpart"
		if t.Kind == "O" {
			name = "table.email_localpart_optional"
		}
		mod, err := table.NewEmailLocalpart(name, "c15", nil, nil)
		if err != nil {
			panic(err)
		}
		return mod.(module.Table)
	case "W":
		if t.Err {
			panic("email_with_domain table cannot fail")
		}
		mod, err := table.NewEmailWithDomain("table.email_with_domain", "c15", nil, append([]string{}, t.Keys...))
		if err != nil {
			panic(err)
		}
		if err := mod.Init(config.NewMap(nil, config.Node{})); err != nil {
			panic(err)
		}
		return mod.(module.Table)
	}
	panic("bad table kind " + t.Kind)
}

func (t *Tab) staticNodes() []config.Node {
	var nodes []config.Node
	for _, k := range t.Keys {
		nodes = append(nodes, config.Node{Name: "entry", Args: append([]string{k}, t.Rows[k]...)})
	}
	return nodes
}

// ---- configuration through the real config path (used by the SMTP-level harness)

var (
	memMu   sync.Mutex
	memTabs = map[string]module.Table{}
	memSeq  int
)

type memModule struct {
	module.Table
	inst string
}

func (m memModule) Init(*config.Map) error { return nil }
func (m memModule) Name() string           { return "table.c15mem" }
func (m memModule) InstanceName() string   { return m.inst }

type memMultiModule struct {
	memModule
	multi module.MultiTable
}

func (m memMultiModule) LookupMulti(ctx context.Context, k string) ([]string, error) {
	return m.multi.LookupMulti(ctx, k)
}

func init() {
	module.Register("table.c15mem", func(_, instName string, _, inlineArgs []string) (module.Module, error) {
		if len(inlineArgs) != 1 {
			return nil, errors.New("c15mem: expected the table id")
		}
		memMu.Lock()
		defer memMu.Unlock()
		t, ok := memTabs[inlineArgs[0]]
		if !ok {
			return nil, errors.New("c15mem: unknown table id")
		}
		if mt, ok := t.(module.MultiTable); ok {
			return memMultiModule{memModule{t, instName}, mt}, nil
		}
		return memModule{t, instName}, nil
	})
}

// ConfigNode returns the configuration directive (`user_to_email …` / `prepare_email …`) that
// makes the check use this table.
func (t *Tab) ConfigNode(directive string) config.Node {
	switch t.Kind {
	case "I":
		return config.Node{Name: directive, Args: []string{"identity"}}
	case "S":
		return config.Node{Name: directive, Args: []string{"static"}, Children: t.staticNodes()}
	case "L":
		return config.Node{Name: directive, Args: []string{"email_localpart"}}
	case "O":
		return config.Node{Name: directive, Args: []string{"email_localpart_optional"}}
	case "W":
		return config.Node{Name: directive, Args: append([]string{"email_with_domain"}, t.Keys...)}
	case "F":
		if t.Path == "" {
			panic("vc15: table file without a path")
		}
		if t.Style%2 == 1 {
			// the path as the `file` directive of the block instead of the inline argument
			return config.Node{Name: directive, Args: []string{"file"}, Children: []config.Node{{Name: "file", Args: []string{t.Path}}}}
		}
		return config.Node{Name: directive, Args: []string{"file", t.Path}}
	}
	if t.Kind == "C" {
		// the real table.chain, configured as the documentation says: a block of step directives
		children := []config.Node{}
		for i := range t.Steps {
			name := "step"
			if t.Steps[i].Optional {
				name = "optional_step"
			}
			children = append(children, t.Steps[i].Tab.ConfigNode(name))
		}
		return config.Node{Name: directive, Args: []string{"chain"}, Children: children}
	}
	memMu.Lock()
	memSeq++
	id := fmt.Sprintf("t%d", memSeq)
	memTabs[id] = t.Build()
	t.memIDs = append(t.memIDs, id)
	memMu.Unlock()
	return config.Node{Name: directive, Args: []string{"c15mem", id}}
}

// ReleaseMem forgets the in-memory tables registered for configuration blocks of the case.
func (cs *Case) ReleaseMem() {
	memMu.Lock()
	defer memMu.Unlock()
	tabs := []*Tab{&cs.U2E, &cs.Prep}
	for _, top := range []*Tab{&cs.U2E, &cs.Prep} {
		for i := range top.Steps {
			tabs = append(tabs, &top.Steps[i].Tab)
		}
	}
	for _, t := range tabs {
		for _, id := range t.memIDs {
			delete(memTabs, id)
		}
		t.memIDs = nil
	}
}

// SmallEnvironment drops the environment variables the harness does not need: the configuration
// parser builds a replacement table from the whole environment for every text it reads.
func SmallEnvironment() {
	for _, kv := range os.Environ() {
		name := strings.SplitN(kv, "=", 2)[0]
		if strings.HasPrefix(name, "VERIF_") || strings.HasPrefix(name, "GO") || name == "TMPDIR" || name == "HOME" || name == "PATH" {
			continue
		}
		os.Unsetenv(name)
	}
}

func ActionWord(s string) string {
	switch s {
	case "r":
		return "reject"
	case "q":
		return "quarantine"
	default:
		return "ignore"
	}
}

// ActionArgs: the arguments of an action directive as they stand in the configuration: the word
// the letter stands for followed by the further arguments (`reject 553 5.7.1 "text"`); with the
// letter x (a directive that is no documented form) the arguments as they are.
func ActionArgs(letter string, more []string) []string {
	if letter == "x" {
		return append([]string{}, more...)
	}
	return append([]string{ActionWord(letter)}, more...)
}

// ActionsDocumented: are all three action directives of the case written in a documented form?
func (cs *Case) ActionsDocumented() bool {
	return DocumentedAction(ActionArgs(cs.UA, cs.UArgs)) && DocumentedAction(ActionArgs(cs.NA, cs.NArgs)) && DocumentedAction(ActionArgs(cs.EA, cs.EArgs))
}

// DocumentedAction: is the argument list one of the documented forms — `ignore`, `reject`,
// `quarantine`, `reject|quarantine <code> [<enhanced code> [<text>]]` with a 4xx/5xx code, an
// enhanced code of class 4 or 5 and a non-empty text?  (Written from the reference documentation;
// used for the statistics only.)
func DocumentedAction(args []string) bool {
	num := func(s string) (int, bool) {
		if s == "" || len(s) > 6 {
			return 0, false
		}
		n := 0
		for _, ch := range s {
			if ch < '0' || ch > '9' {
				return 0, false
			}
			n = n*10 + int(ch-'0')
		}
		return n, true
	}
	if len(args) == 0 {
		return false
	}
	switch args[0] {
	case "ignore":
		return len(args) == 1
	case "reject", "quarantine":
	default:
		return false
	}
	if len(args) > 4 {
		return false
	}
	if len(args) >= 2 {
		if c, ok := num(args[1]); !ok || (c/100 != 4 && c/100 != 5) {
			return false
		}
	}
	if len(args) >= 3 {
		ps := strings.Split(args[2], ".")
		if len(ps) != 3 {
			return false
		}
		for i, x := range ps {
			n, ok := num(x)
			if !ok || (i == 0 && n != 4 && n != 5) {
				return false
			}
		}
	}
	if len(args) == 4 && args[3] == "" {
		return false
	}
	return true
}

// ---- the configuration block of the check, as text

// Bits of Case.Omit: the directive is NOT written in the configuration block (possible only when
// the case wants the documented default of that directive).
const (
	OmCheckHeader uint = 1 << iota
	OmUnauth
	OmNoMatch
	OmErr
	OmAuthNorm
	OmFromNorm
	OmU2E
	OmPrep
	OmAll = OmPrep<<1 - 1
)

// Omittable: the directives whose wanted value is the documented default
// (check_header yes, every action reject, both normalisers auto, both tables identity).
func (cs *Case) Omittable() uint {
	var m uint
	if cs.CheckHeader {
		m |= OmCheckHeader
	}
	if cs.UA == "r" && len(cs.UArgs) == 0 {
		m |= OmUnauth
	}
	if cs.NA == "r" && len(cs.NArgs) == 0 {
		m |= OmNoMatch
	}
	if cs.EA == "r" && len(cs.EArgs) == 0 {
		m |= OmErr
	}
	if cs.AuthNorm == "auto" {
		m |= OmAuthNorm
	}
	if cs.FromNorm == "auto" {
		m |= OmFromNorm
	}
	if cs.U2E.Kind == "I" {
		m |= OmU2E
	}
	if cs.Prep.Kind == "I" {
		m |= OmPrep
	}
	return m
}

// Directives: the directives of the configuration block — those not omitted, in the order the
// case asks for (Order seeds a permutation; 0 = the order of the documentation).
func (cs *Case) Directives() []config.Node {
	yn := "no"
	if cs.CheckHeader {
		yn = "yes"
	}
	omit := cs.Omit & cs.Omittable()
	type dir struct {
		bit  uint
		node func() config.Node
	}
	plain := func(name string, arg string) func() config.Node {
		return func() config.Node { return config.Node{Name: name, Args: []string{arg}} }
	}
	action := func(name, letter string, more []string) func() config.Node {
		return func() config.Node { return config.Node{Name: name, Args: ActionArgs(letter, more)} }
	}
	all := []dir{
		{OmCheckHeader, plain("check_header", yn)},
		{OmPrep, func() config.Node { return cs.Prep.ConfigNode("prepare_email") }},
		{OmU2E, func() config.Node { return cs.U2E.ConfigNode("user_to_email") }},
		{OmUnauth, action("unauth_action", cs.UA, cs.UArgs)},
		{OmNoMatch, action("no_match_action", cs.NA, cs.NArgs)},
		{OmErr, action("err_action", cs.EA, cs.EArgs)},
		{OmAuthNorm, plain("auth_normalize", cs.AuthNorm)},
		{OmFromNorm, plain("from_normalize", cs.FromNorm)},
	}
	if cs.Order != 0 {
		r := vh.NewRng(cs.Order)
		for i := len(all) - 1; i > 0; i-- {
			j := r.Intn(i + 1)
			all[i], all[j] = all[j], all[i]
		}
	}
	nodes := []config.Node{}
	for _, d := range all {
		if omit&d.bit == 0 {
			nodes = append(nodes, d.node())
		}
	}
	return nodes
}

func quoteArg(a string) string {
	return "\"" + strings.ReplaceAll(a, "\"", "\\\"") + "\""
}

func renderNode(b *strings.Builder, n config.Node, indent string) {
	b.WriteString(indent + n.Name)
	for _, a := range n.Args {
		b.WriteString(" " + quoteArg(a))
	}
	if n.Children == nil {
		b.WriteString("\n")
		return
	}
	b.WriteString(" {\n")
	for _, c := range n.Children {
		renderNode(b, c, indent+"    ")
	}
	b.WriteString(indent + "}\n")
}

func sameNodes(a, b []config.Node) bool {
	if len(a) != len(b) {
		return false
	}
	for i := range a {
		if a[i].Name != b[i].Name || len(a[i].Args) != len(b[i].Args) || (a[i].Children == nil) != (b[i].Children == nil) {
			return false
		}
		for j := range a[i].Args {
			if a[i].Args[j] != b[i].Args[j] {
				return false
			}
		}
		if !sameNodes(a[i].Children, b[i].Children) {
			return false
		}
	}
	return true
}

// ConfigBlock: the configuration block of the check for this case.  The directives are written
// out as configuration TEXT and read back with the server's own configuration parser; the block
// it returns is what the check's Init is given.  A value the configuration syntax cannot carry
// (a backslash before a quote, "{", an environment / macro reference) makes the parsed block
// differ from the intended one: then the intended nodes are used directly (how = "nodes").
// The block can be given to any number of instances (config.NewMap + Init each); ReleaseMem
// afterwards.
func (cs *Case) ConfigBlock() (block config.Node, text string, how string) {
	want := cs.Directives()
	var b strings.Builder
	renderNode(&b, config.Node{Name: "check.authorize_sender", Children: want}, "")
	text = b.String()
	nodes, err := parser.Read(strings.NewReader(text), "c15.conf")
	if err == nil && len(nodes) == 1 && nodes[0].Name == "check.authorize_sender" && len(nodes[0].Args) == 0 && sameNodes(nodes[0].Children, want) {
		return nodes[0], text, "text"
	}
	return config.Node{Name: "check.authorize_sender", Children: want}, text, "nodes"
}

func (t *Tab) groups(tag string) string {
	var b strings.Builder
	fmt.Fprintf(&b, " | %s %s %s", strings.ToUpper(tag), t.Kind, B01(t.Err))
	if t.Kind == "C" {
		// ` | us <optional> <kind> <err>` opens a step, the `u` groups after it are its rows
		for i := range t.Steps {
			st := &t.Steps[i]
			fmt.Fprintf(&b, " | %ss %s %s %s", tag, B01(st.Optional), st.Tab.Kind, B01(st.Tab.Err))
			for _, k := range st.Tab.Keys {
				fmt.Fprintf(&b, " | %s %s", tag, vh.HexRunes(k))
				for _, v := range st.Tab.Rows[k] {
					b.WriteString(" " + vh.HexRunes(v))
				}
			}
		}
		return b.String()
	}
	if t.Kind == "F" {
		fmt.Fprintf(&b, " %d", t.Style)
		for _, l := range t.Lines {
			fmt.Fprintf(&b, " | %s %s", tag, vh.HexRunes(l.Key))
			for _, v := range l.Vals {
				b.WriteString(" " + vh.HexRunes(v))
			}
		}
		return b.String()
	}
	for _, k := range t.Keys {
		fmt.Fprintf(&b, " | %s %s", tag, vh.HexRunes(k))
		for _, v := range t.Rows[k] {
			b.WriteString(" " + vh.HexRunes(v))
		}
	}
	return b.String()
}

// chainRef: what a table.chain answers for the key, written from its documentation: "using the
// value returned by a previous table as an input for the second table" — the answer is the
// relational composition of the step tables: every value some step table gives for a value of the
// step before, one application per step.  The documentation says what happens to a value that is
// NOT in a step's table for one value only ("step: return not exists", "optional_step: it is passed to
// the next step without changes"); with several values at once it can be read two ways:
//
//	reading 0 (all or nothing): one value without a mapping decides for the whole step — a `step`
//	                            makes the whole lookup "not exists", an `optional_step` is left out
//	reading 1 (value by value): the value without a mapping contributes nothing (`step`) or itself
//	                            (`optional_step`), the other values are translated
//
// The monitor counts a sender as entitled when SOME reading entitles it and as refused-though-
// entitled only when EVERY reading entitles it.  A step that fails makes the lookup fail.
// Order and multiplicity of the values mean nothing for entitlement: the result is a set.
func (t *Tab) chainRef(k string, reading int) (vals []string, failed bool) {
	cur := []string{k}
	for i := range t.Steps {
		st := &t.Steps[i]
		if len(cur) == 0 {
			break
		}
		if st.Tab.Err {
			return nil, true
		}
		var next []string
		seen := map[string]bool{}
		add := func(vs ...string) {
			for _, v := range vs {
				if !seen[v] {
					seen[v] = true
					next = append(next, v)
				}
			}
		}
		missing := false
		for _, key := range cur {
			vs, ok := st.Tab.refValues(key)
			if st.Tab.Kind == "T" && len(vs) > 1 {
				vs = vs[:1]
			}
			switch {
			case ok && len(vs) > 0:
				add(vs...)
			case reading == 1 && st.Optional:
				add(key)
			case reading == 1:
			default:
				missing = true
			}
		}
		if missing {
			if st.Optional {
				continue
			}
			return nil, false
		}
		cur = next
	}
	return cur, false
}

// tabValues: the values of a table of the case for a key, under the reading of chains the case is
// currently judged by.  failed: the lookup is an error.
func (cs *Case) tabValues(t *Tab, k string) (vals []string, found, failed bool) {
	if t.Err {
		return nil, false, true
	}
	if t.Kind == "C" {
		vals, failed = t.chainRef(k, cs.reading)
		return vals, len(vals) > 0, failed
	}
	vals, found = t.refValues(k)
	return vals, found, false
}

// HasChain: is one of the tables of the case a table.chain?
func (cs *Case) HasChain() bool { return cs.U2E.Kind == "C" || cs.Prep.Kind == "C" }

// lookup as the reference sees the table: all values configured for the key.
func (t *Tab) refValues(k string) (vals []string, found bool) {
	switch t.Kind {
	case "C":
		vals, _ = t.chainRef(k, 0)
		return vals, len(vals) > 0
	case "I":
		return []string{k}, true
	case "L", "O":
		// "the local part of the address": what stands before the last at-sign, when both sides
		// of it are non-empty; a key that is not an address has no local part (L: no mapping,
		// O: the key itself)
		if l, d, ok := SplitLast(k); ok && l != "" && d != "" {
			return []string{l}, true
		}
		if t.Kind == "O" {
			return []string{k}, true
		}
		return nil, false
	case "W":
		// docs/reference/table/email_with_domain.md: "The module ... appends one or more domains to the
		// specified value": the WHOLE key is the local part of every value (written so that it is one:
		// RefQuoteLocal), whatever the key looks like — an account named by an address of another realm
		// gets "bob@example.net"@example.org, never bob@example.org
		for _, d := range t.Keys {
			vals = append(vals, RefQuoteLocal(k)+"@"+d)
		}
		return vals, len(vals) > 0
	case "F":
		// every line of the file that starts with the key contributes its values
		for _, l := range t.Lines {
			if l.Key == k {
				vals = append(vals, l.Vals...)
			}
		}
		return vals, len(vals) > 0
	}
	v, ok := t.Rows[k]
	return v, ok && len(v) > 0
}

// RefQuoteLocal: a string written as the local part of an address (RFC 5321 4.1.2 / RFC 5322 3.4.1):
// as it is when it needs no quoting, otherwise a quoted string with a backslash before `"` and `\`.
// A string needs quoting when it holds a space or one of the RFC 5322 specials other than the dot.
func RefQuoteLocal(s string) string {
	if !strings.ContainsAny(s, "()<>[]:;@\\,\" ") {
		return s
	}
	var b strings.Builder
	b.WriteByte('"')
	for _, ch := range s {
		if ch == '"' || ch == '\\' {
			b.WriteByte('\\')
		}
		b.WriteRune(ch)
	}
	b.WriteByte('"')
	return b.String()
}

type Addr struct{ Local, Domain string }

func (a Addr) String() string { return a.Local + "@" + a.Domain }

type Case struct {
	CheckHeader        bool
	UA, NA, EA         string // r q i — or x: a directive that is no documented form (its whole argument list is in …Args)
	// what follows the action word in the configuration: nothing, or <code> [<enhanced code> [<text>]]
	UArgs, NArgs, EArgs []string
	AuthNorm, FromNorm string // names in authz.NormalizeFuncs
	Prep, U2E          Tab
	Conn               bool
	User               string
	MailFrom           string
	Raw                []byte   // header bytes, CRLF lines, without the terminating blank line
	GTKnown            bool     // ground truth below is authoritative (well-formed rendering)
	GTFrom             [][]Addr // per From field, in message order
	GTSender           [][]Addr // per Sender field (0 or 1 address each)
	// how the configuration block is written: directives left out (bits Om…; only those whose
	// wanted value is the default count) and the order of the ones written
	Omit  uint
	Order uint64
	// SMTP sessions only (op-line group `| Z <authzid> <form>`): the client sends AUTH PLAIN with this
	// authorization identity next to the login name User and the password of the account User; ZForm
	// names the kind of identity (statistics).  Without it: the empty identity and the catch-all password.
	HasZ    bool
	Authzid string
	ZForm   string
	// SMTP sessions only (op-line group `| K <stage> <verdict> <first>`): a second check runs in the same check
	// group as authorize_sender; at KStage (conn / sender / rcpt / body / all = at every stage) it answers KVerdict (q quarantine, r reject,
	// i a reason without an action, - nothing) and the two checks finish that stage in the order KFirst
	// (n the neighbour first, a authorize_sender first, - unordered)
	HasK                     bool
	KStage, KVerdict, KFirst string
	// SMTP sessions only (op-line group `| L <place> <order>`): WHERE in the pipeline the check group with
	// authorize_sender is declared (g: globally, s: in the source block, d: in the destination block of the
	// domain relay.example, whose recipients go to a target of their own; the block of the other recipients has no
	// check) and which recipients the client names, in order (R: a recipient of relay.example, L: another recipient)
	HasL           bool
	LPlace, LOrder string

	// which reading of the table.chain documentation the reference takes (see chainRef)
	reading int
	// set by refExact: every prepared form of the address it looked at was a plain address (both
	// halves non-empty); the check answers a prepared value it cannot split with an error, not a decision
	prepClean bool
}

func B01(b bool) string {
	if b {
		return "1"
	}
	return "0"
}

// StageObs is what one stage of the check answered.
type StageObs struct {
	Reason             string // "ok" or the name of the refusal
	Codes              string // "<code>:<class>.<subject>.<detail>" of the refusal
	Reject, Quarantine bool
}

func (s StageObs) String() string {
	if s.Reason == "ok" {
		return "ok/" + B01(s.Reject) + B01(s.Quarantine)
	}
	return s.Reason + ":" + s.Codes + "/" + B01(s.Reject) + B01(s.Quarantine)
}
func (s StageObs) Pass() bool { return s.Reason == "ok" }

// Run is one execution of the real check.
type Run struct {
	Sender, Body StageObs
	FromVals     []string // hdr.Values("From")
	SenderVals   []string
}

// ---------------------------------------------------------------- op line

func addrTok(a Addr) string { return vh.HexRunes(a.Local) + "/" + vh.HexRunes(a.Domain) }

func normRow(tag, name, in string) string {
	out, err := authz.NormalizeFuncs[name](in)
	if err != nil {
		return fmt.Sprintf(" | %s %s 0 -", tag, vh.HexRunes(in))
	}
	return fmt.Sprintf(" | %s %s 1 %s", tag, vh.HexRunes(in), vh.HexRunes(out))
}

// OpLine: configuration + what the libraries returned (normalisation results, parse results)
// for the model; raw bytes and ground truth (ignored by the model) for replay.
func OpLine(cs *Case, r *Run) string {
	var b strings.Builder
	fmt.Fprintf(&b, "C15 run %s %s %s %s %s %s %s", B01(cs.CheckHeader), cs.UA, cs.NA, cs.EA, B01(cs.Conn),
		vh.HexRunes(cs.User), vh.HexRunes(cs.MailFrom))
	fmt.Fprintf(&b, " | N %s %s", cs.AuthNorm, cs.FromNorm)
	b.WriteString(cs.omitGroup())
	b.WriteString(cs.actGroups())
	b.WriteString(cs.Prep.groups("p"))
	b.WriteString(cs.U2E.groups("u"))
	fnIn := map[string]bool{cs.MailFrom: true}
	var fgroups []string
	for _, v := range r.FromVals {
		l, err := mail.ParseAddressList(v)
		g := " | F " + B01(v == "") + " " + B01(err == nil)
		if err == nil {
			for _, a := range l {
				g += " " + vh.HexRunes(a.Address)
				fnIn[a.Address] = true
			}
		}
		fgroups = append(fgroups, g)
	}
	for _, v := range r.SenderVals {
		a, err := mail.ParseAddress(v)
		g := " | S " + B01(v == "") + " " + B01(err == nil)
		if err == nil {
			g += " " + vh.HexRunes(a.Address)
			fnIn[a.Address] = true
		}
		fgroups = append(fgroups, g)
	}
	ins := make([]string, 0, len(fnIn))
	for k := range fnIn {
		ins = append(ins, k)
	}
	sort.Strings(ins)
	for _, in := range ins {
		b.WriteString(normRow("fn", cs.FromNorm, in))
	}
	b.WriteString(normRow("an", cs.AuthNorm, cs.User))
	for _, g := range fgroups {
		b.WriteString(g)
	}
	b.WriteString(replayTail(cs))
	return b.String()
}

func replayTail(cs *Case) string {
	var b strings.Builder
	fmt.Fprintf(&b, " | H %s | G %s", vh.HexBytes(cs.Raw), B01(cs.GTKnown))
	for _, f := range cs.GTFrom {
		b.WriteString(" | GF")
		for _, a := range f {
			b.WriteString(" " + addrTok(a))
		}
	}
	for _, f := range cs.GTSender {
		b.WriteString(" | GS")
		for _, a := range f {
			b.WriteString(" " + addrTok(a))
		}
	}
	return b.String()
}

// SessionOpLine is the replayable description of a case run through a whole SMTP session
// (no model counterpart: monitor only).
func SessionOpLine(cs *Case) string {
	var b strings.Builder
	fmt.Fprintf(&b, "C15 session %s %s %s %s %s %s %s", B01(cs.CheckHeader), cs.UA, cs.NA, cs.EA, B01(cs.Conn),
		vh.HexRunes(cs.User), vh.HexRunes(cs.MailFrom))
	fmt.Fprintf(&b, " | N %s %s", cs.AuthNorm, cs.FromNorm)
	b.WriteString(cs.omitGroup())
	b.WriteString(cs.actGroups())
	b.WriteString(cs.Prep.groups("p"))
	b.WriteString(cs.U2E.groups("u"))
	if cs.HasZ {
		form := cs.ZForm
		if form == "" {
			form = "-"
		}
		fmt.Fprintf(&b, " | Z %s %s", vh.HexRunes(cs.Authzid), form)
	}
	if cs.HasK {
		fmt.Fprintf(&b, " | K %s %s %s", cs.KStage, cs.KVerdict, cs.KFirst)
	}
	if cs.HasL {
		fmt.Fprintf(&b, " | L %s %s", cs.LPlace, cs.LOrder)
	}
	b.WriteString(replayTail(cs))
	return b.String()
}

// actGroups: ` | AU <arg>*` … — what follows the action word of each action directive (only when
// there is something, or the directive is no documented form at all).
func (cs *Case) actGroups() string {
	var b strings.Builder
	for _, a := range []struct {
		tag, letter string
		args        []string
	}{{"AU", cs.UA, cs.UArgs}, {"AN", cs.NA, cs.NArgs}, {"AE", cs.EA, cs.EArgs}} {
		if len(a.args) == 0 && a.letter != "x" {
			continue
		}
		b.WriteString(" | " + a.tag)
		for _, x := range a.args {
			b.WriteString(" " + vh.HexRunes(x))
		}
	}
	return b.String()
}

// omitGroup: ` | O <mask> <order>` — which directives the configuration block leaves out (the
// model takes the default for those) and the seed of the order of the written ones.
func (cs *Case) omitGroup() string {
	return fmt.Sprintf(" | O %d %d", cs.Omit&cs.Omittable(), cs.Order)
}

// ParseOp rebuilds the case from a `C15 run …` or `C15 session …` line.
func ParseOp(op string) (*Case, string, error) {
	groups := strings.Split(op, " | ")
	head := strings.Fields(groups[0])
	if len(head) != 9 || head[0] != "C15" || (head[1] != "run" && head[1] != "session" && head[1] != "file") {
		return nil, "", fmt.Errorf("bad head")
	}
	cs := &Case{CheckHeader: head[2] == "1", UA: head[3], NA: head[4], EA: head[5], Conn: head[6] == "1",
		User: vh.UnhexRunes(head[7]), MailFrom: vh.UnhexRunes(head[8]), AuthNorm: "auto", FromNorm: "auto"}
	cs.Prep.Kind, cs.U2E.Kind = "I", "I"
	unAddr := func(t string) Addr {
		p := strings.SplitN(t, "/", 2)
		return Addr{vh.UnhexRunes(p[0]), vh.UnhexRunes(p[1])}
	}
	for _, g := range groups[1:] {
		t := strings.Fields(g)
		if len(t) == 0 {
			continue
		}
		switch t[0] {
		case "N":
			cs.AuthNorm, cs.FromNorm = t[1], t[2]
		case "O":
			m, _ := strconv.ParseUint(t[1], 10, 32)
			cs.Omit = uint(m)
			cs.Order, _ = strconv.ParseUint(t[2], 10, 64)
		case "AU", "AN", "AE":
			args := []string{}
			for _, x := range t[1:] {
				args = append(args, vh.UnhexRunes(x))
			}
			switch t[0] {
			case "AU":
				cs.UArgs = args
			case "AN":
				cs.NArgs = args
			default:
				cs.EArgs = args
			}
		case "P", "U":
			tab := &cs.Prep
			if t[0] == "U" {
				tab = &cs.U2E
			}
			tab.Kind, tab.Err = t[1], t[2] == "1"
			if len(t) > 3 {
				tab.Style, _ = strconv.Atoi(t[3])
			}
		case "ps", "us":
			tab := &cs.Prep
			if t[0] == "us" {
				tab = &cs.U2E
			}
			if len(t) != 4 || tab.Kind != "C" {
				return nil, "", fmt.Errorf("bad step group")
			}
			tab.Steps = append(tab.Steps, ChainStep{Optional: t[1] == "1", Tab: Tab{Kind: t[2], Err: t[3] == "1"}})
		case "Z":
			if len(t) != 3 {
				return nil, "", fmt.Errorf("bad Z group")
			}
			cs.HasZ, cs.Authzid, cs.ZForm = true, vh.UnhexRunes(t[1]), t[2]
		case "K":
			if len(t) != 4 {
				return nil, "", fmt.Errorf("bad K group")
			}
			cs.HasK, cs.KStage, cs.KVerdict, cs.KFirst = true, t[1], t[2], t[3]
		case "L":
			if len(t) != 3 || strings.Trim(t[2], "RL") != "" || t[2] == "" {
				return nil, "", fmt.Errorf("bad L group")
			}
			cs.HasL, cs.LPlace, cs.LOrder = true, t[1], t[2]
		case "p", "u":
			var vs []string
			for _, x := range t[2:] {
				vs = append(vs, vh.UnhexRunes(x))
			}
			tab := &cs.Prep
			if t[0] == "u" {
				tab = &cs.U2E
			}
			if tab.Kind == "C" {
				if len(tab.Steps) == 0 {
					return nil, "", fmt.Errorf("row before the first step")
				}
				tab = &tab.Steps[len(tab.Steps)-1].Tab
			}
			if tab.Kind == "F" {
				tab.Lines = append(tab.Lines, Line{vh.UnhexRunes(t[1]), vs})
				continue
			}
			if tab.Rows == nil {
				tab.Rows = map[string][]string{}
			}
			k := vh.UnhexRunes(t[1])
			tab.Keys = append(tab.Keys, k)
			tab.Rows[k] = vs
		case "H":
			cs.Raw = vh.UnhexBytes(t[1])
		case "G":
			cs.GTKnown = t[1] == "1"
		case "GF", "GS":
			var as []Addr
			for _, x := range t[1:] {
				as = append(as, unAddr(x))
			}
			if t[0] == "GF" {
				cs.GTFrom = append(cs.GTFrom, as)
			} else {
				cs.GTSender = append(cs.GTSender, as)
			}
		}
	}
	if _, ok := authz.NormalizeFuncs[cs.AuthNorm]; !ok {
		return nil, "", fmt.Errorf("bad norm")
	}
	if _, ok := authz.NormalizeFuncs[cs.FromNorm]; !ok {
		return nil, "", fmt.Errorf("bad norm")
	}
	return cs, head[1], nil
}

// ---------------------------------------------------------------- reference normalisation (monitor)

// RefNorm: what the configured normalisation setting makes of a string, computed here from the
// documentation of the settings with the Unicode libraries directly (PRECIS profiles, IDNA, NFC) —
// not through authz.NormalizeFuncs / framework/address / framework/dns, which are under test.
//
//	noop                    the string itself
//	casefold                lower case
//	precis_casefold         PRECIS UsernameCaseMapped
//	precis                  PRECIS UsernameCasePreserved
//	precis_casefold_email   local part: UsernameCaseMapped; domain: U-labels, NFC, lower case
//	precis_email            local part: UsernameCasePreserved; domain: the same
//	auto                    precis_casefold_email for a valid address, precis_casefold otherwise
//
// ok = false: the setting refuses the string.  known = false: the reference does not decide (auto
// on a string whose validity as an address takes the full RFC 5321 grammar to decide); the caller
// falls back to the coarse spelling equivalence.
func RefNorm(name, s string) (out string, ok, known bool) {
	profile := func(p *precis.Profile, v string) (string, bool, bool) {
		o, err := p.CompareKey(v)
		return o, err == nil, true
	}
	switch name {
	case "noop":
		return s, true, true
	case "casefold":
		return strings.Map(unicode.ToLower, s), true, true
	case "precis_casefold":
		return profile(precis.UsernameCaseMapped, s)
	case "precis":
		return profile(precis.UsernameCasePreserved, s)
	case "precis_casefold_email":
		o, ok := refEmail(s, precis.UsernameCaseMapped)
		return o, ok, true
	case "precis_email":
		o, ok := refEmail(s, precis.UsernameCasePreserved)
		return o, ok, true
	case "auto":
		switch refAddressClass(s) {
		case 1:
			o, ok := refEmail(s, precis.UsernameCaseMapped)
			return o, ok, true
		case 0:
			return profile(precis.UsernameCaseMapped, s)
		}
		return "", false, false
	}
	return "", false, false
}

// refSplit: local part and domain of an address: the parts around the last at-sign, both
// non-empty; the bare postmaster (any letter case) has no domain.
func refSplit(s string) (local, domain string, ok bool) {
	if strings.EqualFold(s, "postmaster") {
		return s, "", true
	}
	i := strings.LastIndexByte(s, '@')
	if i <= 0 || i == len(s)-1 {
		return "", "", false
	}
	return s[:i], s[i+1:], true
}

// refDomain: the comparison form of a domain: A-labels (prefix in any letter case) to U-labels,
// NFC, lower case, without the trailing dot.
func refDomain(d string) (string, bool) {
	labels := strings.Split(d, ".")
	for i, l := range labels {
		if len(l) >= 4 && strings.EqualFold(l[:4], "xn--") {
			labels[i] = strings.Map(func(ch rune) rune {
				if ch >= 'A' && ch <= 'Z' {
					return ch + 32
				}
				return ch
			}, l)
		}
	}
	u, err := idna.ToUnicode(strings.Join(labels, "."))
	if err != nil {
		return "", false
	}
	return strings.TrimSuffix(strings.ToLower(norm.NFC.String(u)), "."), true
}

func refEmail(s string, p *precis.Profile) (string, bool) {
	l, d, ok := refSplit(s)
	if !ok {
		return "", false
	}
	l, err := p.CompareKey(l)
	if err != nil {
		return "", false
	}
	d, ok = refDomain(d)
	if !ok {
		return "", false
	}
	return l + "@" + d, true
}

// refAddressClass: 1 = plainly a valid address (dot-atom-like local part of letters, digits, the
// RFC 5322 atext specials and non-ASCII; domain of non-empty LDH / non-ASCII labels that has an
// A-label form with labels of at most 63 octets), 0 = plainly not an address (no at-sign and not
// postmaster; an empty half), -1 = undecided here (quoted local parts, other characters, dots at
// the ends of the domain, very long strings).
func refAddressClass(s string) int {
	if len(s) > 250 {
		return -1
	}
	l, d, ok := refSplit(s)
	if !ok {
		return 0
	}
	if d == "" {
		return 1 // postmaster
	}
	for _, ch := range l {
		switch {
		case ch >= 'a' && ch <= 'z', ch >= 'A' && ch <= 'Z', ch >= '0' && ch <= '9', ch > 0x7f && ch != utf8Error:
		case strings.ContainsRune("!#$%&'*+-/=?^_`{|}~.", ch):
		default:
			return -1
		}
	}
	for _, lab := range strings.Split(d, ".") {
		if lab == "" {
			return -1
		}
		for _, ch := range lab {
			switch {
			case ch >= 'a' && ch <= 'z', ch >= 'A' && ch <= 'Z', ch >= '0' && ch <= '9', ch == '-', ch > 0x7f && ch != utf8Error:
			default:
				return -1
			}
		}
	}
	if _, ok := refDomain(d); !ok {
		return -1
	}
	a, err := idna.ToASCII(d)
	if err != nil {
		return -1
	}
	for _, lab := range strings.Split(a, ".") {
		if len(lab) > 63 {
			return -1
		}
	}
	return 1
}

// isHalf: an at-sign with nothing before or nothing after it ("alice@", "@example.org", "@"; also
// "postmaster@", which is what the e-mail settings make of the bare postmaster): half an address
// names no mailbox — as an entry it entitles to nothing, as a prepared form nothing covers it but "*".
func isHalf(s string) bool {
	i := strings.LastIndexByte(s, '@')
	return i >= 0 && (i == 0 || i == len(s)-1)
}

const utf8Error = '\uFFFD'

// refExact: the entitlement of the property, literally: the user's entries are the row of the
// mapping for the NORMALISED user name; the address is entitled iff its PREPARED form — the
// configured normalisation of the address, then the prepare_email images if the table has any — is
// literally an entry, or its domain is literally an entry, or "*" is an entry.  No spelling is
// folded beyond what the configured normalisation folds: under a case-preserving setting
// Support@example.org and support@example.org are different mailboxes.
// known = false: a normalisation result the reference does not decide.
func refExact(cs *Case, whole string) (entitled bool, how string, known bool) {
	if cs.U2E.Err || cs.Prep.Err {
		return false, "", true
	}
	nu, ok, known := RefNorm(cs.AuthNorm, cs.User)
	if !known {
		return false, "", false
	}
	if !ok {
		return false, "", true
	}
	na, ok, known := RefNorm(cs.FromNorm, whole)
	if !known {
		return false, "", false
	}
	if !ok {
		return false, "", true
	}
	// the check asks prepare_email first, then user_to_email: a failing lookup refuses
	prepared, alias := []string{na}, ""
	if cs.Prep.Kind != "I" {
		vals, ok, failed := cs.tabValues(&cs.Prep, na)
		if failed {
			return false, "", true
		}
		if ok {
			prepared, alias = vals, "alias:"
		}
	}
	entries, _, failed := cs.tabValues(&cs.U2E, nu)
	if failed {
		return false, "", true
	}
	if cs.U2E.Kind == "C" {
		alias += "chain:"
	}
	cs.prepClean = true
	for _, p := range prepared {
		if l, d, ok := refSplit(p); !ok || l == "" || d == "" {
			cs.prepClean = false
		}
	}
	for _, p := range prepared {
		dom := ""
		if l, d, ok := refSplit(p); ok && l != "" {
			dom = d
		}
		for _, e := range entries {
			switch {
			case e == "":
			case e == "*":
				return true, "exact:" + alias + "star", true
			case e == p && !isHalf(p):
				return true, "exact:" + alias + "address", true
			case dom != "" && e == dom:
				return true, "exact:" + alias + "domain", true
			}
		}
	}
	return false, "", true
}

// ---------------------------------------------------------------- reference entitlement (monitor)

// CoarseText: the coarse spelling equivalence of the property — letter case and Unicode
// normalisation (incl. width) variants are the same text.
func CoarseText(s string) string {
	for i := 0; i < 3; i++ {
		s = norm.NFKC.String(strings.ToLower(norm.NFKC.String(s)))
	}
	return s
}

// CoarseDomain additionally identifies A-label and U-label spellings and a trailing dot.
func CoarseDomain(d string) string {
	d = strings.TrimSuffix(d, ".")
	labels := strings.Split(d, ".")
	for i, l := range labels {
		if len(l) >= 4 && strings.EqualFold(l[:4], "xn--") {
			if u, err := idna.ToUnicode(strings.ToLower(l)); err == nil {
				labels[i] = u
			}
		}
	}
	return CoarseText(strings.Join(labels, "."))
}

func SplitLast(s string) (string, string, bool) {
	i := strings.LastIndex(s, "@")
	if i < 0 {
		return s, "", false
	}
	return s[:i], s[i+1:], true
}

func CoarseWhole(s string) string {
	l, d, ok := SplitLast(s)
	if !ok {
		return CoarseText(s)
	}
	return CoarseText(l) + "@" + CoarseDomain(d)
}

// entries the configured mapping gives the authenticated user
func refEntries(cs *Case) []string {
	if cs.U2E.Err {
		return nil
	}
	nu, err := authz.NormalizeFuncs[cs.AuthNorm](cs.User)
	if err != nil {
		return nil
	}
	vals, _ := cs.U2E.refValues(nu)
	return vals
}

// is one concrete address covered by an entry?  returns the kind of entry ("" = not covered)
func covered(entries []string, whole, domain string, hasDomain bool) string {
	for _, e := range entries {
		if e == "" {
			// an empty entry (key-only line, trailing comma, empty SQL column) names no address,
			// no domain and is not the wildcard: it entitles to nothing
			continue
		}
		if e == "*" {
			return "star"
		}
		if hasDomain && domain != "" && !strings.Contains(e, "@") && CoarseDomain(e) == CoarseDomain(domain) {
			return "domain"
		}
		if CoarseWhole(e) == CoarseWhole(whole) {
			return "address"
		}
	}
	return ""
}

// RefEntitled: may the authenticated user of the case use this address under the configured
// mapping?  `whole` is the address string; `domain` its domain when hasDomain.  The second
// result says how ("star", "domain", "address", "alias:…", "" = not entitled).
func RefEntitled(cs *Case, whole, domain string, hasDomain bool) (bool, string) {
	// the exact reading: literal comparison of the prepared form (reference normalisation)
	if ok, how, known := refExact(cs, whole); known {
		if !ok && cs.HasChain() {
			// the other reading of the table.chain documentation
			cs.reading = 1
			ok, how, _ = refExact(cs, whole)
			cs.reading = 0
		}
		return ok, how
	}
	return refCoarse(cs, whole, domain, hasDomain)
}

// RefSurelyEntitled: the exact reference decides, and entitles the user to the address under every
// reading of the configuration's documentation.  A refusal of such a sender is over-refusal.
func RefSurelyEntitled(cs *Case, whole string) bool {
	ok, _, known := refExact(cs, whole)
	if !known || !ok || !cs.prepClean {
		return false
	}
	if cs.HasChain() {
		cs.reading = 1
		ok, _, _ = refExact(cs, whole)
		cs.reading = 0
		ok = ok && cs.prepClean
	}
	return ok
}

// refCoarse: the same with the coarse spelling equivalence, for the strings whose normal form the
// reference does not decide.
func refCoarse(cs *Case, whole, domain string, hasDomain bool) (bool, string) {
	entries := refEntries(cs)
	if len(entries) == 0 {
		return false, ""
	}
	// prepare_email: the address may be an alias the configuration maps to other addresses
	if cs.Prep.Kind != "I" && !cs.Prep.Err {
		if key, err := authz.NormalizeFuncs[cs.FromNorm](whole); err == nil {
			if vals, ok := cs.Prep.refValues(key); ok {
				for _, v := range vals {
					_, d, has := SplitLast(v)
					if how := covered(entries, v, d, has); how != "" {
						return true, "alias:" + how
					}
				}
				return false, ""
			}
		}
	}
	how := covered(entries, whole, domain, hasDomain)
	return how != "", how
}

// Monitor evaluates the property on one execution of the real check (both stages).
func Monitor(out *vh.Out, cs *Case, r *Run, op string) {
	if !cs.Conn {
		// locally generated message: not a client; the check must not interfere
		if !r.Sender.Pass() || !r.Body.Pass() {
			out.Violation("C15/local-message-refused", op, r.Sender.String()+" "+r.Body.String())
		}
		out.Stat("monitor.local")
		return
	}
	allReject := cs.UA == "r" && cs.NA == "r" && cs.EA == "r"
	// unauthenticated clients are refused
	if cs.User == "" {
		if r.Sender.Pass() {
			out.Violation("C15/unauthenticated-accepted", op, "sender stage passed without authentication")
		} else if cs.UA == "r" && !r.Sender.Reject {
			out.Violation("C15/unauthenticated-not-rejected", op, r.Sender.String())
		}
		if cs.CheckHeader && r.Body.Pass() {
			out.Violation("C15/unauthenticated-accepted", op, "body stage passed without authentication")
		}
		out.Stat("monitor.unauth")
	}
	// a refusal is enforced as configured: the documentation gives every refusal its directive —
	// unauth_action for the unauthenticated client, no_match_action for a sender / author the user is
	// not entitled to, err_action for everything else (lookup errors, malformed or missing author
	// fields) — and the WORD of the directive (reject / quarantine / ignore) says what happens, whatever
	// reply code or text follows it
	for _, res := range []StageObs{r.Sender, r.Body} {
		if !res.Pass() {
			act := cs.EA
			switch res.Reason {
			case "authRequired":
				act = cs.UA
			case "noMatch":
				act = cs.NA
			}
			if strings.HasPrefix(res.Reason, "other(") {
				act = "" // a refusal the documentation does not know: judged by the uniform rule only
				if cs.UA == cs.NA && cs.NA == cs.EA {
					act = cs.UA
				}
			}
			if act != "" && (res.Reject != (act == "r") || res.Quarantine != (act == "q")) {
				out.Violation("C15/action-not-applied", op, res.String()+" under "+strings.Join(ActionArgs(cs.UA, cs.UArgs), " ")+
					" / "+strings.Join(ActionArgs(cs.NA, cs.NArgs), " ")+" / "+strings.Join(ActionArgs(cs.EA, cs.EArgs), " "))
			}
		}
		if res.Pass() && (res.Reject || res.Quarantine) {
			out.Violation("C15/flag-without-reason", op, res.String())
		}
	}
	if cs.User == "" && cs.UA == "q" && !r.Sender.Pass() && !r.Sender.Quarantine {
		out.Violation("C15/unauthenticated-not-quarantined", op, r.Sender.String())
	}
	// A stage lets the message through when it has nothing to say, and also when it does not ask
	// for rejection although every action is reject (as configured, or by default when the
	// directives are left out): a refusal that is only logged is an acceptance.
	senderThrough := r.Sender.Pass() || (allReject && !r.Sender.Reject)
	bodyThrough := r.Body.Pass() || (allReject && !r.Body.Reject)
	if allReject && (senderThrough != r.Sender.Pass() || bodyThrough != r.Body.Pass()) {
		out.Violation("C15/refusal-not-enforced", op, "actions are reject, result "+r.Sender.String()+" "+r.Body.String())
	}
	// envelope sender
	if senderThrough && cs.User != "" {
		_, d, has := SplitLast(cs.MailFrom)
		ok, how := RefEntitled(cs, cs.MailFrom, d, has)
		if !ok {
			out.Violation("C15/envelope-sender-not-entitled", op, fmt.Sprintf("user %q accepted MAIL FROM %q", cs.User, cs.MailFrom))
		}
		out.Stat("monitor.envelope-pass.by-" + how)
	}
	// the converse, where the reference is exact: a sender the configured mapping gives the user
	// (under every reading of its documentation) is not refused as "not yours"
	if cs.User != "" && r.Sender.Reason == "noMatch" && RefSurelyEntitled(cs, cs.MailFrom) {
		out.Violation("C15/entitled-sender-refused", op, fmt.Sprintf("user %q refused MAIL FROM %q: %s", cs.User, cs.MailFrom, r.Sender.String()))
	}
	if cs.User != "" && cs.CheckHeader && cs.GTKnown && r.Body.Reason == "noMatch" && len(cs.GTFrom) == 1 && len(cs.GTFrom[0]) == 1 &&
		len(r.FromVals) == 1 {
		a := cs.GTFrom[0][0]
		if l, err := mail.ParseAddressList(r.FromVals[0]); err == nil && len(l) == 1 && l[0].Address == a.String() && RefSurelyEntitled(cs, a.String()) {
			out.Violation("C15/entitled-author-refused", op, fmt.Sprintf("user %q refused From %q: %s", cs.User, a.String(), r.Body.String()))
		}
	}
	// header author
	if cs.CheckHeader && bodyThrough && cs.User != "" {
		from, sender := cs.GTFrom, cs.GTSender
		if !cs.GTKnown {
			// mutated (possibly ill-formed) bytes: the only available reading is the library's
			from, sender = ParsedReading(r.FromVals, r.SenderVals)
			out.Stat("monitor.header-pass.parsed-reading")
		} else {
			out.Stat("monitor.header-pass.ground-truth")
		}
		JudgeAuthor(out, cs, from, sender, op, "")
	}
	// with quarantine actions a message of a client that is not entitled must carry the flag
	if allQ := cs.UA == "q" && cs.NA == "q" && cs.EA == "q"; allQ && cs.User != "" {
		_, d, has := SplitLast(cs.MailFrom)
		if ok, _ := RefEntitled(cs, cs.MailFrom, d, has); !ok && !r.Sender.Quarantine {
			out.Violation("C15/not-entitled-not-quarantined", op, fmt.Sprintf("user %q MAIL FROM %q: %s", cs.User, cs.MailFrom, r.Sender.String()))
		}
		out.Stat("monitor.all-quarantine")
	}
	if allReject && !r.Sender.Reject && !r.Body.Reject {
		out.Stat("monitor.accepted")
	} else if allReject {
		out.Stat("monitor.rejected")
	}
}

// ParsedReading: what net/mail makes of the field values.
func ParsedReading(fromVals, senderVals []string) (from, sender [][]Addr) {
	for _, v := range fromVals {
		l, _ := mail.ParseAddressList(v)
		var f []Addr
		for _, a := range l {
			lp, d, _ := SplitLast(a.Address)
			f = append(f, Addr{lp, d})
		}
		from = append(from, f)
	}
	for _, v := range senderVals {
		var f []Addr
		if a, err := mail.ParseAddress(v); err == nil {
			lp, d, _ := SplitLast(a.Address)
			f = append(f, Addr{lp, d})
		}
		sender = append(sender, f)
	}
	return
}

// JudgeAuthor: the header-author clause of the property for an accepted message —
// every address in every From field is the user's, or else the Sender address(es) are.
func JudgeAuthor(out *vh.Out, cs *Case, from, sender [][]Addr, op, sigSuffix string) {
	nFrom, fromOK := 0, true
	for _, f := range from {
		for _, a := range f {
			nFrom++
			if ok, _ := RefEntitled(cs, a.String(), a.Domain, true); !ok {
				fromOK = false
			}
		}
	}
	nSender, senderOK := 0, true
	for _, f := range sender {
		for _, a := range f {
			nSender++
			if ok, _ := RefEntitled(cs, a.String(), a.Domain, true); !ok {
				senderOK = false
			}
		}
	}
	switch {
	case nFrom > 0 && fromOK:
		out.Stat("monitor.author.from" + sigSuffix)
	case nSender > 0 && senderOK:
		out.Stat("monitor.author.sender" + sigSuffix)
	case nFrom == 0 && nSender == 0:
		out.Violation("C15/accepted-without-author"+sigSuffix, op, "no From and no Sender address, header check passed")
	default:
		sig := "C15/header-author-not-entitled"
		if len(from) > 1 {
			sig = "C15/repeated-from-field-not-examined"
		} else if len(sender) > 1 {
			sig = "C15/repeated-sender-field-not-examined"
		}
		out.Violation(sig+sigSuffix, op, fmt.Sprintf("user %q accepted From %v Sender %v", cs.User, from, sender))
	}
}

// Distribution records the shape of the case.
func Distribution(out *vh.Out, cs *Case, r *Run) {
	out.Stat("cfg.authnorm." + cs.AuthNorm)
	out.Stat("cfg.fromnorm." + cs.FromNorm)
	out.Stat("cfg.prepare." + cs.Prep.Kind + B01(cs.Prep.Err))
	out.Stat("cfg.u2e." + cs.U2E.Kind + B01(cs.U2E.Err))
	acts := cs.UA + cs.NA + cs.EA
	if acts != "rrr" && acts != "qqq" && acts != "iii" {
		acts = "mixed"
	}
	out.Stat("cfg.actions." + acts)
	for _, a := range [][]string{ActionArgs(cs.UA, cs.UArgs), ActionArgs(cs.NA, cs.NArgs), ActionArgs(cs.EA, cs.EArgs)} {
		form := "not-documented"
		if DocumentedAction(a) {
			form = fmt.Sprintf("%s+%d", a[0], len(a)-1)
		}
		out.Stat("cfg.action-form." + form)
	}
	// the reference normalisation against the configured function, on the strings of this case
	for _, q := range []struct{ name, in string }{{cs.FromNorm, cs.MailFrom}, {cs.AuthNorm, cs.User}} {
		ro, rok, known := RefNorm(q.name, q.in)
		if !known {
			out.Stat("oracle.norm.reference-undecided")
			continue
		}
		o, err := authz.NormalizeFuncs[q.name](q.in)
		out.Stat("oracle.norm.agrees-with-configured-function." + B01(rok == (err == nil) && (!rok || ro == o)))
	}
	for _, q := range []struct {
		name string
		t    *Tab
		key  string
	}{{"u2e", &cs.U2E, normOrSelf(cs.AuthNorm, cs.User)}, {"prepare", &cs.Prep, normOrSelf(cs.FromNorm, cs.MailFrom)}} {
		if q.t.Kind != "C" {
			continue
		}
		out.Stat(fmt.Sprintf("chain.%s.steps.%d", q.name, len(q.t.Steps)))
		maxVals, selfKey := 0, false
		for i := range q.t.Steps {
			st := &q.t.Steps[i]
			out.Stat(fmt.Sprintf("chain.%s.step-kind.%s.optional-%s", q.name, st.Tab.Kind, B01(st.Optional)))
			for _, k := range st.Tab.Keys {
				if n := len(st.Tab.Rows[k]); n > maxVals {
					maxVals = n
				}
				for _, v := range st.Tab.Rows[k] {
					if _, isKey := st.Tab.Rows[v]; isKey && v != k && i > 0 {
						selfKey = true
					}
				}
			}
		}
		out.Stat(fmt.Sprintf("chain.%s.max-values-per-key.%d", q.name, min(maxVals, 4)))
		out.Stat("chain." + q.name + ".value-is-key-of-the-same-step." + B01(selfKey))
		v0, f0 := q.t.chainRef(q.key, 0)
		v1, _ := q.t.chainRef(q.key, 1)
		out.Stat(fmt.Sprintf("chain.%s.answer-values.%d", q.name, min(len(v0), 5)))
		out.Stat("chain." + q.name + ".lookup-fails." + B01(f0))
		sort.Strings(v0)
		sort.Strings(v1)
		out.Stat("chain." + q.name + ".readings-agree." + B01(strings.Join(v0, "\x00") == strings.Join(v1, "\x00")))
	}
	if cs.Conn && cs.User != "" {
		out.Stat("oracle.mailfrom-surely-entitled." + B01(RefSurelyEntitled(cs, cs.MailFrom)) + ".sender-" + r.Sender.Reason)
	}
	out.Stat("cfg.checkheader." + B01(cs.CheckHeader))
	out.Stat(fmt.Sprintf("hdr.fromfields.%d", len(r.FromVals)))
	out.Stat(fmt.Sprintf("hdr.senderfields.%d", len(r.SenderVals)))
	out.Stat("hdr.gtknown." + B01(cs.GTKnown))
	// the sending user's row: entries that are not an address, a domain or "*"
	if entries := refEntries(cs); len(entries) > 0 && cs.U2E.Kind != "I" {
		kinds := map[string]bool{}
		for _, e := range entries {
			l, d, has := SplitLast(e)
			switch {
			case e == "":
				kinds["empty"] = true
			case e == "*":
				kinds["star"] = true
			case has && l != "" && d != "":
				kinds["address"] = true
			case has:
				kinds["half"] = true
			case strings.Contains(e, "."):
				kinds["domain"] = true
			default:
				kinds["bare-word"] = true
			}
		}
		for k := range kinds {
			out.Stat("cfg.u2e.row-has." + k)
		}
	}
	if cs.Conn && cs.User != "" {
		// does the value the entitlement test sees (after from_normalize) have a domain?
		if nf, err := authz.NormalizeFuncs[cs.FromNorm](cs.MailFrom); err == nil {
			l, d, has := SplitLast(nf)
			out.Stat("mailfrom.normalised-splits." + B01(has && l != "" && d != ""))
		}
		if strings.EqualFold(cs.MailFrom, "postmaster") {
			out.Stat("mailfrom.bare-postmaster." + r.Sender.Reason)
		}
	}
	if cs.GTKnown {
		// does the library's reading agree with the structure the bytes were rendered from?
		agree := len(r.FromVals) == len(cs.GTFrom)
		for i := 0; agree && i < len(r.FromVals); i++ {
			l, err := mail.ParseAddressList(r.FromVals[i])
			if len(cs.GTFrom[i]) == 0 && len(l) == 0 {
				continue
			}
			if err != nil || len(l) != len(cs.GTFrom[i]) {
				agree = false
				if err != nil && hasForeignWord(r.FromVals[i]) {
					// well-formed, but net/mail does not know the charset of an encoded word
					out.Stat("hdr.parse-fails.charset-unknown-to-net-mail")
				} else {
					out.Stat("hdr.parse-fails.other")
				}
				break
			}
			for j, a := range l {
				if a.Address != cs.GTFrom[i][j].String() {
					agree = false
				}
			}
		}
		out.Stat("hdr.parse-agrees-with-structure." + B01(agree))
		// the parsed From and Sender being the same address is a branch of its own in CheckBody
		if len(cs.GTFrom) == 1 && len(cs.GTFrom[0]) == 1 && len(cs.GTSender) == 1 && len(cs.GTSender[0]) == 1 {
			out.Stat("hdr.sender-equals-from." + B01(cs.GTFrom[0][0] == cs.GTSender[0][0]))
		}
	}
}

// ---------------------------------------------------------------- generators

var Domains = []string{"example.org", "example.com", "münchen.de", "пример.рф", "corp.example.net", "bücher.example"}
var Locals = []string{"alice", "bob", "carol", "rené", "дима", "first.last", "a+tag", "o'neil", "big.boss", "straße", "sigmaς", "strasse", "sigmaσ"}
var Users = []string{"alice", "bob@example.org", "carol", "rené", "дима@пример.рф", "big.boss@corp.example.net", "example.org", "svc-mailer", "straße"}

var NormNames = []string{"auto", "precis_casefold_email", "precis_casefold", "precis_email", "precis", "casefold", "noop"}

func upper(s string) string {
	var b strings.Builder
	for _, ch := range s {
		up := unicode.ToUpper(ch)
		if unicode.ToLower(up) == ch {
			b.WriteRune(up)
		} else {
			b.WriteRune(ch)
		}
	}
	return b.String()
}

func mixCase(r *vh.Rng, s string) string {
	var b strings.Builder
	for _, ch := range s {
		up := unicode.ToUpper(ch)
		if r.Bool() && unicode.ToLower(up) == ch {
			b.WriteRune(up)
		} else {
			b.WriteRune(ch)
		}
	}
	return b.String()
}

func wide(r *vh.Rng, s string) string {
	var b strings.Builder
	for _, ch := range s {
		if ch >= 'a' && ch <= 'z' && r.Chance(40) {
			b.WriteRune(ch - 'a' + 'ａ')
		} else {
			b.WriteRune(ch)
		}
	}
	return b.String()
}

func textVariant(r *vh.Rng, s string) string {
	switch r.Intn(6) {
	case 0:
		return upper(s)
	case 1:
		return mixCase(r, s)
	case 2:
		return norm.NFD.String(s)
	case 3:
		return norm.NFD.String(mixCase(r, s))
	case 4:
		return wide(r, s)
	}
	return s
}

func domainVariant(r *vh.Rng, d string) string {
	switch r.Intn(6) {
	case 0:
		return upper(d)
	case 1:
		if a, err := idna.ToASCII(d); err == nil {
			return a
		}
	case 2:
		if a, err := idna.ToASCII(d); err == nil {
			return strings.ToUpper(a)
		}
	case 3:
		return norm.NFD.String(d)
	case 4:
		return mixCase(r, d)
	}
	return d
}

func addrVariant(r *vh.Rng, a Addr) Addr {
	if r.Chance(35) {
		return a
	}
	out := a
	if r.Bool() {
		out.Local = textVariant(r, a.Local)
	}
	if r.Bool() {
		out.Domain = domainVariant(r, a.Domain)
	}
	return out
}

func randAddr(r *vh.Rng) Addr {
	return Addr{Locals[r.Intn(len(Locals))], Domains[r.Intn(len(Domains))]}
}

// near misses of an entitled address / domain
func nearMiss(r *vh.Rng, a Addr) Addr {
	switch r.Intn(9) {
	case 8:
		return Addr{"x@" + a.Local, a.Domain} // splitting at the first at-sign makes the entitled address the "domain"
	case 0:
		return Addr{a.Local, "sub." + a.Domain}
	case 1:
		return Addr{a.Local, a.Domain + ".evil.example"}
	case 2:
		return Addr{a.Local, "evil-" + a.Domain}
	case 3:
		return Addr{a.String(), "evil.example"} // quoted local part containing the entitled address
	case 4:
		return Addr{a.Local + "x", a.Domain}
	case 5:
		return Addr{a.Local, strings.TrimSuffix(a.Domain, a.Domain[strings.LastIndex(a.Domain, "."):]) + ".test"}
	case 6:
		return Addr{"*", a.Domain + "x"}
	default:
		return Addr{a.Domain, a.Local + ".example"} // swapped
	}
}

type world struct {
	entitled []Addr   // concrete addresses the sending user is entitled to (canonical spelling)
	entDoms  []string // domains the user is entitled to
	star     bool
	others   []Addr // addresses of other users
	// entries that are not an address, a domain or "*": bare local parts ("alice"), halves
	// ("alice@", "@example.org"), the empty string.  They entitle to no address; the picker
	// draws the addresses a sloppy comparison would let through.
	oddLocals []string
	oddDoms   []string
	empty     bool
}

func normOrSelf(name, s string) string {
	if o, err := authz.NormalizeFuncs[name](s); err == nil {
		return o
	}
	return s
}

// GenReplyArgs: what may follow `reject` / `quarantine`: <code> [<enhanced code> [<text>]].
func GenReplyArgs(r *vh.Rng) []string {
	args := []string{r.Pick("550", "553", "554", "521", "450", "451", "452", "535", "500", "499")}
	if r.Chance(65) {
		// the class of the enhanced code need not be the class of the basic code
		args = append(args, r.Pick("5.7.1", "5.7.0", "5.7.8", "5.1.0", "5.1.8", "4.7.1", "4.7.0", "4.3.0", "5.0.0", "5.7.27", "4.10.255"))
		if r.Chance(65) {
			args = append(args, r.Pick("Not yours", "Sender address rejected: not owned by user", "go away", "5.7.1 is the code",
				"Authentication required", "Unauthorized use of sender address", "ok", "accepted", "say \"please\"", "nicht erlaubt: Absender gehört dir nicht",
				"Отказано", "x", "250 OK", "ignore", "quarantine"))
		}
	}
	return args
}

// GenCase draws one case.  smtpSafe restricts MAIL FROM and the user name to what can travel
// through a real SMTP dialogue (used by the session harness).
func GenCase(r *vh.Rng, smtpSafe bool) *Case {
	cs := &Case{CheckHeader: !r.Chance(8), UA: "r", NA: "r", EA: "r", Conn: !r.Chance(5), GTKnown: true}
	if r.Chance(25) {
		cs.UA, cs.NA, cs.EA = r.Pick("r", "q", "i"), r.Pick("r", "q", "i"), r.Pick("r", "q", "i")
	} else if r.Chance(10) {
		a := r.Pick("q", "i")
		cs.UA, cs.NA, cs.EA = a, a, a
	}
	// every documented form of the three action directives: the bare word, or reject / quarantine
	// followed by <code> [<enhanced code> [<text>]]
	{
		ar := r.Fork()
		for _, a := range []struct {
			letter *string
			args   *[]string
		}{{&cs.UA, &cs.UArgs}, {&cs.NA, &cs.NArgs}, {&cs.EA, &cs.EArgs}} {
			if *a.letter != "i" && ar.Chance(30) {
				*a.args = GenReplyArgs(ar)
			}
			if !smtpSafe && ar.Chance(1) {
				// not a documented form: the configuration must be refused (or, for `ignore <more>`, means ignore)
				switch ar.Intn(12) {
				case 0:
					*a.letter, *a.args = "x", []string{ar.Pick("drop", "Reject", "REJECT", "rejected", "quarantined", "deny", "", "reject,")}
				case 1:
					*a.letter, *a.args = "x", []string{ar.Pick("drop", "Reject", "553"), "553", "5.7.1"}
				case 2:
					*a.letter, *a.args = "x", []string{}
				case 3:
					*a.letter, *a.args = ar.Pick("r", "q"), []string{ar.Pick("250", "354", "99", "600", "5xx", "abc", "55 3", "")}
				case 4:
					*a.letter, *a.args = ar.Pick("r", "q"), []string{"553", ar.Pick("2.7.1", "5.7", "5.7.1.0", "5", "a.b.c", "0.7.1", "5..1", "")}
				case 5:
					*a.letter, *a.args = ar.Pick("r", "q"), []string{"553", "5.7.1", ""}
				case 6:
					*a.letter, *a.args = ar.Pick("r", "q"), []string{"553", "5.7.1", "Not", "yours"}
				case 7:
					*a.letter, *a.args = "i", []string{ar.Pick("553", "now", "")}
				case 8:
					*a.letter, *a.args = ar.Pick("r", "q"), []string{"250", "5.7.1", "Fine"}
				case 9:
					*a.letter, *a.args = ar.Pick("r", "q"), []string{ar.Pick("400", "499", "500", "599", "0553", "4000")}
				case 10:
					*a.letter, *a.args = ar.Pick("r", "q"), []string{"451", ar.Pick("4.0.0", "5.999.999", "4.7.01")}
				default:
					*a.letter, *a.args = "x", []string{"ignore ", "reject"}
				}
			}
		}
	}
	cs.AuthNorm = NormNames[r.Intn(len(NormNames))]
	cs.FromNorm = NormNames[r.Intn(len(NormNames))]
	if r.Chance(40) {
		cs.AuthNorm, cs.FromNorm = "auto", "auto" // the defaults
	}

	// --- who is who
	userCanon := Users[r.Intn(len(Users))]
	w := &world{}
	cs.U2E.Kind = r.Pick("I", "I", "I", "T", "T", "T", "S", "S", "S", "S", "S", "S", "M", "M", "M", "L", "O")
	if cs.U2E.Kind == "T" || cs.U2E.Kind == "M" {
		cs.U2E.Err = r.Chance(6)
	}
	keyOf := func(u string) string {
		if r.Chance(85) {
			return normOrSelf(cs.AuthNorm, u)
		}
		return u
	}
	entrySpelling := func(s string, isAddr bool) string {
		if r.Chance(80) {
			if isAddr {
				return normOrSelf(cs.FromNorm, s)
			}
			return normOrSelf("casefold", norm.NFC.String(s))
		}
		if isAddr {
			l, d, _ := SplitLast(s)
			return addrVariant(r, Addr{l, d}).String()
		}
		return domainVariant(r, s)
	}
	if cs.U2E.Kind == "I" {
		// identity: the user name itself is the entry (address, domain or plain name)
		if l, d, ok := SplitLast(userCanon); ok {
			w.entitled = append(w.entitled, Addr{l, d})
		} else if strings.Contains(userCanon, ".") {
			w.entDoms = append(w.entDoms, userCanon)
		} else {
			w.oddLocals = append(w.oddLocals, userCanon)
		}
	} else if cs.U2E.Kind == "L" || cs.U2E.Kind == "O" {
		// the local part of the account name is the (only) entry: a value without a domain
		if l, _, ok := SplitLast(userCanon); ok {
			w.oddLocals = append(w.oddLocals, l)
		} else if cs.U2E.Kind == "O" {
			w.oddLocals = append(w.oddLocals, userCanon)
		}
	} else {
		// the sending user's row
		var vals []string
		n := 1 + r.Intn(3)
		if cs.U2E.Kind == "T" {
			n = 1
		}
		for i := 0; i < n; i++ {
			switch k := r.Intn(20); {
			case k < 10:
				a := randAddr(r)
				w.entitled = append(w.entitled, a)
				vals = append(vals, entrySpelling(a.String(), true))
			case k < 15:
				d := Domains[r.Intn(len(Domains))]
				w.entDoms = append(w.entDoms, d)
				vals = append(vals, entrySpelling(d, false))
			case k < 16:
				w.star = true
				vals = append(vals, "*")
			case k < 18:
				// what table.file yields for a key-only line or a list ending in a comma
				w.empty = true
				vals = append(vals, "")
			case k < 19:
				// only a local part
				l := r.Pick(Locals[r.Intn(len(Locals))], "postmaster", "Postmaster", userCanon)
				if strings.Contains(l, "@") {
					l = "alice"
				}
				w.oddLocals = append(w.oddLocals, l)
				vals = append(vals, l)
			default:
				// half an address
				if r.Bool() {
					l := Locals[r.Intn(len(Locals))]
					w.oddLocals = append(w.oddLocals, l)
					vals = append(vals, l+"@")
				} else {
					d := Domains[r.Intn(len(Domains))]
					w.oddDoms = append(w.oddDoms, d)
					vals = append(vals, "@"+d)
				}
			}
		}
		if n > 1 && len(vals) > 1 && r.Chance(8) {
			// the trailing comma / the doubled comma of a hand-written list
			w.empty = true
			vals[1+r.Intn(len(vals)-1)] = ""
		}
		if !r.Chance(7) { // sometimes the user has no row at all
			cs.U2E.Add(keyOf(userCanon), vals...)
		} else {
			w.entitled, w.entDoms, w.star = nil, nil, false
			w.oddLocals, w.oddDoms, w.empty = nil, nil, false
		}
		// other users' rows
		for i, n := 0, r.Intn(3); i < n; i++ {
			ou := Users[r.Intn(len(Users))]
			if ou == userCanon {
				continue
			}
			a := randAddr(r)
			w.others = append(w.others, a)
			vs := []string{entrySpelling(a.String(), true)}
			if cs.U2E.Kind != "T" && r.Chance(10) {
				vs = append(vs, "")
			}
			if cs.U2E.Kind != "T" && r.Bool() {
				d := Domains[r.Intn(len(Domains))]
				vs = append(vs, d)
				w.others = append(w.others, Addr{"someone", d})
			}
			cs.U2E.Add(keyOf(ou), vs...)
		}
	}
	for len(w.others) < 2 {
		w.others = append(w.others, randAddr(r))
	}

	// --- user spelling
	cs.User = userCanon
	switch k := r.Intn(20); {
	case k < 2:
		cs.User = ""
	case k < 9:
		cs.User = textVariant(r, userCanon)
		if l, d, ok := SplitLast(userCanon); ok && r.Bool() {
			cs.User = addrVariant(r, Addr{l, d}).String()
		}
	case k == 9:
		if smtpSafe {
			cs.User = r.Pick("mallory", "al ice", "alice​", "*", "x@", "@example.org", "ｍallory")
		} else {
			cs.User = r.Pick("mallory", "al ice", "alice​", "ali\u0000ce", "*", "x@", "@example.org", "ｍallory")
		}
	}

	// --- prepare_email
	cs.Prep.Kind = "I"
	var aliases []Addr // alias addresses that map to something
	if r.Chance(12) {
		// computed tables that reduce an address to a value without a domain
		cs.Prep.Kind = r.Pick("L", "L", "O")
	} else if r.Chance(25) {
		cs.Prep.Kind = r.Pick("T", "S", "M")
		if cs.Prep.Kind != "S" {
			cs.Prep.Err = r.Chance(8)
		}
		for i, n := 0, 1+r.Intn(2); i < n; i++ {
			alias := Addr{r.Pick("sales", "info", "alias", "ops"), Domains[r.Intn(len(Domains))]}
			// aliases the user would be entitled to if they were not aliases (own address, own domain)
			switch k := r.Intn(10); {
			case k < 3 && len(w.entitled) > 0:
				alias = w.entitled[r.Intn(len(w.entitled))]
			case k < 6 && len(w.entDoms) > 0:
				alias.Domain = w.entDoms[r.Intn(len(w.entDoms))]
			}
			var targets []string
			for j, m := 0, 1+r.Intn(2); j < m; j++ {
				switch k := r.Intn(10); {
				case k < 5 && len(w.entitled) > 0:
					targets = append(targets, normOrSelf(cs.FromNorm, w.entitled[r.Intn(len(w.entitled))].String()))
				case k < 8:
					targets = append(targets, w.others[r.Intn(len(w.others))].String())
				case k == 8:
					t := r.Pick("no-at-sign", "@nolocal.example", "nodomain@", "", "postmaster", "POSTMASTER", "alice")
					if len(w.oddLocals) > 0 && r.Bool() {
						t = w.oddLocals[r.Intn(len(w.oddLocals))]
					}
					targets = append(targets, t)
				default:
					targets = append(targets, randAddr(r).String())
				}
			}
			key := alias.String()
			if r.Chance(85) {
				key = normOrSelf(cs.FromNorm, key)
			}
			cs.Prep.Add(key, targets...)
			aliases = append(aliases, alias)
		}
	}

	// --- address picker
	localOnly := cs.Prep.Kind == "L" || cs.Prep.Kind == "O"
	pick := func() Addr {
		if (len(w.oddLocals) > 0 || len(w.oddDoms) > 0 || localOnly) && r.Chance(30) {
			// what a comparison by local part / by halves / of a domain-less value would let through
			switch k := r.Intn(10); {
			case k < 4 && len(w.oddLocals) > 0:
				return addrVariant(r, Addr{w.oddLocals[r.Intn(len(w.oddLocals))], Domains[r.Intn(len(Domains))]})
			case k < 6 && len(w.oddLocals) > 0:
				return Addr{Locals[r.Intn(len(Locals))], w.oddLocals[r.Intn(len(w.oddLocals))]}
			case k < 8 && len(w.oddDoms) > 0:
				return addrVariant(r, Addr{Locals[r.Intn(len(Locals))], w.oddDoms[r.Intn(len(w.oddDoms))]})
			case k < 9:
				return Addr{r.Pick("postmaster", "Postmaster", "POSTMASTER"), Domains[r.Intn(len(Domains))]}
			}
		}
		switch k := r.Intn(20); {
		case k < 7 && len(w.entitled) > 0:
			return addrVariant(r, w.entitled[r.Intn(len(w.entitled))])
		case k < 10 && len(w.entDoms) > 0:
			return addrVariant(r, Addr{Locals[r.Intn(len(Locals))], w.entDoms[r.Intn(len(w.entDoms))]})
		case k < 13:
			return addrVariant(r, w.others[r.Intn(len(w.others))])
		case k < 16 && len(aliases) > 0:
			return addrVariant(r, aliases[r.Intn(len(aliases))])
		case k < 17:
			if len(w.entitled) > 0 {
				return nearMiss(r, w.entitled[r.Intn(len(w.entitled))])
			}
			if len(w.entDoms) > 0 {
				return nearMiss(r, Addr{"alice", w.entDoms[r.Intn(len(w.entDoms))]})
			}
			return randAddr(r)
		case k == 17:
			return Addr{r.Pick("ali ce", "a\"b", "a\\b", "a,b", "a@b", "<alice>", "(alice)"), Domains[r.Intn(len(Domains))]}
		default:
			return addrVariant(r, randAddr(r))
		}
	}
	trickName := func() string {
		// display names that look like addresses: an entitled one when possible
		var a Addr
		if len(w.entitled) > 0 && r.Chance(70) {
			a = w.entitled[r.Intn(len(w.entitled))]
		} else {
			a = pick()
		}
		switch r.Intn(6) {
		case 0:
			return a.String()
		case 1:
			return "<" + a.String() + ">"
		case 2:
			return "Alice, <" + a.String() + ">"
		case 3:
			return a.String() + ", bob@example.com"
		case 4:
			return "\"" + a.String() + "\" <" + a.String() + ">"
		default:
			return r.Pick("Alice", "Bob B.", "René Müller", "Дима", "CEO")
		}
	}

	// --- MAIL FROM
	switch k := r.Intn(20); {
	case k == 0 && !smtpSafe:
		cs.MailFrom = r.Pick("", "postmaster", "POSTMASTER", "no-at-sign", "@example.org", "alice@", "a@b@example.org")
	case k == 0:
		cs.MailFrom = r.Pick("", "postmaster", "POSTMASTER")
	case k == 2:
		// senders without a domain: the null sender, the bare postmaster in several spellings
		cs.MailFrom = r.Pick("", "postmaster", "Postmaster", "POSTMASTER", "postmaster", "PostMaster")
	case k == 3 && !smtpSafe:
		// … a bare local part, half an address
		a := pick()
		l := a.Local
		if len(w.oddLocals) > 0 && r.Bool() {
			l = w.oddLocals[r.Intn(len(w.oddLocals))]
		}
		cs.MailFrom = r.Pick(l, l, l+"@", "@"+a.Domain, "@")
	case k == 1 && !smtpSafe:
		a := pick()
		cs.MailFrom = a.Local + "@" + a.Domain + "."
	default:
		a := pick()
		cs.MailFrom = a.String()
		if r.Chance(5) || (smtpSafe && !isDotAtom(a.Local)) {
			cs.MailFrom = quoteLocal(a.Local, true) + "@" + a.Domain
		}
	}

	// --- header
	genHeader(r, cs, pick, trickName)

	// --- tables kept in a file (the real table.file; not in SMTP sessions: the file module of
	// a session's check cannot be reached to stop its reloader)
	if !smtpSafe {
		for _, t := range []*Tab{&cs.U2E, &cs.Prep} {
			if (t.Kind == "S" || t.Kind == "M" || t.Kind == "T") && !t.Err && r.Chance(14) {
				t.ToFile(r)
			}
		}
	}

	// --- how the configuration block is written: which of the directives that have their
	// default value are left out (every combination), in which order the others stand
	cs.Omit = uint(r.Intn(int(OmAll) + 1))
	switch k := r.Intn(10); {
	case k < 3:
		cs.Omit = OmAll // nothing that has its default is written: the usual configuration
	case k == 3:
		cs.Omit = 0
	}
	if r.Chance(70) {
		cs.Order = r.Next()>>1 | 1
	}

	// --- tables that are a table.chain (drawn last: the cases without one stay what they were)
	if (cs.Prep.Kind == "S" || cs.Prep.Kind == "M" || cs.Prep.Kind == "T") && !cs.Prep.Err && r.Chance(30) {
		chainPrep(r, cs, w)
	}
	if (cs.U2E.Kind == "S" || cs.U2E.Kind == "M" || cs.U2E.Kind == "T") && !cs.U2E.Err && r.Chance(30) {
		chainU2E(r, cs, w, smtpSafe)
	}
	return cs
}

// chainPrep puts the prepare_email table of the case at the head of a table.chain and, mostly,
// a second table behind it that maps some of its targets on (to addresses that are again keys of that
// table, to addresses of the user, to others).
func chainPrep(r *vh.Rng, cs *Case, w *world) {
	first := cs.Prep
	var targets []string
	for _, k := range first.Keys {
		targets = append(targets, first.Rows[k]...)
	}
	steps := []ChainStep{{Optional: r.Chance(50), Tab: first}}
	if r.Chance(70) && len(targets) > 0 {
		second := Tab{Kind: r.Pick("S", "S", "M", "T")}
		pool := append([]string{}, targets...)
		for _, a := range w.entitled {
			pool = append(pool, normOrSelf(cs.FromNorm, a.String()))
		}
		for _, a := range w.others {
			pool = append(pool, a.String())
		}
		for _, k := range targets {
			if k == "" || !r.Chance(75) {
				continue
			}
			var vs []string
			for j, m := 0, 1+r.Intn(3); j < m; j++ {
				vs = append(vs, pool[r.Intn(len(pool))])
			}
			if _, dup := second.Rows[k]; !dup {
				second.Add(k, vs...)
			}
		}
		if len(second.Keys) > 0 {
			steps = append(steps, ChainStep{Optional: r.Chance(60), Tab: second})
		}
	}
	cs.Prep = Tab{Kind: "C", Steps: steps}
}

// chainU2E replaces the user_to_email table of the case by a table.chain of 1-3 steps: the table
// the case had (account -> addresses / groups) and behind it delegation tables over one small pool of
// names, so that the values a step returns are often keys of the same step and of the next one: a
// step returns 0 (no row), 1, 2 or 3 values for a key.  MAIL FROM and the author fields are drawn
// anew: addresses the composition of the steps gives the user, names that stand in some step's
// table but are not reached by ONE application per step, others.
func chainU2E(r *vh.Rng, cs *Case, w *world, smtpSafe bool) {
	first := cs.U2E
	userKey := normOrSelf(cs.AuthNorm, cs.User)
	// the pool of names: what the first table hands out, addresses of others, fresh ones
	var pool []string
	inPool := map[string]bool{}
	add := func(v string) {
		if v != "" && !inPool[v] {
			inPool[v] = true
			pool = append(pool, v)
		}
	}
	for _, k := range first.Keys {
		for _, v := range first.Rows[k] {
			add(v)
		}
	}
	for _, a := range w.others {
		add(normOrSelf(cs.FromNorm, a.String()))
	}
	for len(pool) < 5+r.Intn(3) {
		add(normOrSelf(cs.FromNorm, randAddr(r).String()))
	}
	if r.Chance(15) {
		add(Domains[r.Intn(len(Domains))])
	}
	// mostly the user has a row of two or three names (the delegation steps then see several keys at once)
	if cs.User != "" && first.Kind != "T" && r.Chance(70) {
		row := append([]string{}, first.Rows[userKey]...)
		for want := 2 + r.Intn(2); len(row) < want; {
			row = append(row, pool[r.Intn(len(pool))])
		}
		first.Add(userKey, row...)
	}
	steps := []ChainStep{{Optional: r.Chance(25), Tab: first}}
	for i, n := 0, []int{0, 1, 1, 1, 2, 2}[r.Intn(6)]; i < n; i++ {
		st := ChainStep{Optional: r.Chance(35), Tab: Tab{Kind: r.Pick("S", "S", "S", "S", "S", "M", "M", "T", "T", "I", "O")}}
		if st.Tab.Kind == "M" || st.Tab.Kind == "T" {
			st.Tab.Err = r.Chance(3)
		}
		if st.Tab.Kind == "S" || st.Tab.Kind == "M" || st.Tab.Kind == "T" {
			density := []int{100, 100, 100, 85, 60}[r.Intn(5)]
			names := append([]string{}, pool...)
			for _, k := range names {
				if !r.Chance(density) {
					continue // no row: the step returns nothing for this key
				}
				var vs []string
				m := 1 + r.Intn(3)
				if r.Chance(50) {
					vs = append(vs, k) // a delegation table usually keeps the name itself
				}
				for len(vs) < m {
					if r.Chance(12) {
						fresh := normOrSelf(cs.FromNorm, randAddr(r).String())
						add(fresh)
						vs = append(vs, fresh)
						continue
					}
					vs = append(vs, pool[r.Intn(len(pool))])
				}
				if r.Chance(4) {
					vs = append(vs, r.Pick("", "*", "alice", "@example.org"))
				}
				st.Tab.Add(k, vs...)
			}
		}
		steps = append(steps, st)
	}
	cs.U2E = Tab{Kind: "C", Steps: steps}

	// what the composition gives the user (either reading), and the names it does not give
	given := map[string]bool{}
	var finals []string
	for reading := 0; reading < 2; reading++ {
		vals, _ := cs.U2E.chainRef(userKey, reading)
		for _, v := range vals {
			if !given[v] {
				given[v] = true
				finals = append(finals, v)
			}
		}
	}
	var traps []string
	for _, v := range pool {
		if !given[v] {
			traps = append(traps, v)
		}
	}
	// the names reached when a step's table is applied MORE than once (a delegation table read
	// transitively) and the composition does not give: what an implementation that feeds a step its
	// own output would hand out
	var near []string
	{
		cur := []string{userKey}
		for i := range steps {
			seen := map[string]bool{}
			var out []string
			queue := append([]string{}, cur...)
			for len(queue) > 0 && len(out) < 40 {
				k := queue[0]
				queue = queue[1:]
				vs, _ := steps[i].Tab.refValues(k)
				for _, v := range vs {
					if !seen[v] {
						seen[v] = true
						out = append(out, v)
						queue = append(queue, v)
					}
				}
			}
			if len(out) == 0 {
				if steps[i].Optional {
					continue
				}
				cur = nil
				break
			}
			cur = out
		}
		for _, v := range cur {
			if !given[v] && v != "" {
				near = append(near, v)
			}
		}
	}
	toAddr := func(v string) Addr {
		if l, d, ok := SplitLast(v); ok && l != "" && d != "" {
			return Addr{l, d}
		}
		if strings.Contains(v, ".") && !strings.Contains(v, "@") {
			return Addr{Locals[r.Intn(len(Locals))], v}
		}
		return randAddr(r)
	}
	pick := func() Addr {
		switch k := r.Intn(20); {
		case k < 7 && len(finals) > 0:
			a := toAddr(finals[r.Intn(len(finals))])
			if r.Chance(25) {
				return addrVariant(r, a)
			}
			return a
		case k < 13 && len(near) > 0:
			return toAddr(near[r.Intn(len(near))])
		case k < 16 && len(traps) > 0:
			a := toAddr(traps[r.Intn(len(traps))])
			if r.Chance(15) {
				return addrVariant(r, a)
			}
			return a
		case k < 18:
			return w.others[r.Intn(len(w.others))]
		default:
			return randAddr(r)
		}
	}
	a := pick()
	cs.MailFrom = a.String()
	if smtpSafe && !isDotAtom(a.Local) {
		cs.MailFrom = quoteLocal(a.Local, true) + "@" + a.Domain
	}
	cs.GTFrom, cs.GTSender, cs.GTKnown = nil, nil, true
	genHeader(r, cs, pick, func() string { return r.Pick("Alice", "CEO office", pick().String()) })
}

// ---- tables kept in a file

func fileToken(s string, isKey bool) bool {
	if strings.TrimSpace(s) != s || strings.ContainsAny(s, "\r\n") {
		return false
	}
	if isKey {
		return s != "" && !strings.Contains(s, ":") && !strings.HasPrefix(s, "#")
	}
	return !strings.Contains(s, ",")
}

// ToFile turns a table with rows into the same table kept in a file (kind F), when the file
// syntax can carry every key and value.  A row with several values is sometimes written as
// several lines with the same key.
func (t *Tab) ToFile(r *vh.Rng) bool {
	var lines []Line
	for _, k := range t.Keys {
		vs := t.Rows[k]
		if !fileToken(k, true) || len(vs) == 0 {
			return false
		}
		for _, v := range vs {
			if !fileToken(v, false) {
				return false
			}
		}
		if len(vs) > 1 && r.Chance(25) {
			cut := 1 + r.Intn(len(vs)-1)
			lines = append(lines, Line{k, append([]string{}, vs[:cut]...)}, Line{k, append([]string{}, vs[cut:]...)})
			continue
		}
		lines = append(lines, Line{k, append([]string{}, vs...)})
	}
	t.Kind, t.Lines, t.Keys, t.Rows = "F", lines, nil, nil
	t.Style = r.Intn(1 << 20)
	return true
}

// RenderFile: the bytes of a table file with these entry lines.  The style seeds the layout:
// comment lines, blank lines, blanks around the separators, `key` or `key:` for a line whose only
// value is empty, CRLF line ends, a missing final newline.  Without entry lines the file has no
// bytes at all, only comments, or only blank lines.
func RenderFile(lines []Line, style int) []byte {
	r := vh.NewRng(uint64(style)*2654435761 + 17)
	var b bytes.Buffer
	eol := "\n"
	if r.Chance(15) {
		eol = "\r\n"
	}
	comment := func() {
		b.WriteString(r.Pick("# aliases", "#", "# alice: bob@example.com", "#alice@example.org: *", "# key: value, value") + eol)
	}
	if len(lines) == 0 {
		switch style % 3 {
		case 1:
			comment()
			if r.Bool() {
				comment()
			}
		case 2:
			b.WriteString(r.Pick("\n", "\n\n", "  \n", "\t\n \n"))
		}
		return b.Bytes()
	}
	if r.Chance(40) {
		comment()
	}
	sp := func() string { return r.Pick("", "", " ", "  ", "\t") }
	for i, l := range lines {
		if r.Chance(15) {
			comment()
		}
		if r.Chance(15) {
			b.WriteString(r.Pick("", " ", "\t") + eol)
		}
		b.WriteString(sp() + l.Key)
		if len(l.Vals) == 1 && l.Vals[0] == "" && r.Bool() {
			b.WriteString(sp()) // the key alone
		} else {
			b.WriteString(sp() + ":")
			for j, v := range l.Vals {
				if j > 0 {
					b.WriteString(",")
				}
				b.WriteString(sp() + v + sp())
			}
		}
		if i == len(lines)-1 && r.Chance(20) {
			return b.Bytes() // no newline at the end of the file
		}
		b.WriteString(eol)
	}
	if r.Chance(20) {
		comment()
	}
	return b.Bytes()
}

var (
	tmpMu    sync.Mutex
	tmpDir   string
	tmpSeq   int
	fileTick int64
)

// TempDir: the directory the table files of this process live in.
func TempDir() string {
	tmpMu.Lock()
	defer tmpMu.Unlock()
	if tmpDir == "" {
		d, err := os.MkdirTemp("", "verif-c15-")
		if err != nil {
			panic(err)
		}
		tmpDir = d
	}
	return tmpDir
}

// RemoveTempDir removes it (end of a test function).
func RemoveTempDir() {
	tmpMu.Lock()
	defer tmpMu.Unlock()
	if tmpDir != "" {
		os.RemoveAll(tmpDir)
		tmpDir = ""
	}
}

func NewFilePath() string {
	d := TempDir()
	tmpMu.Lock()
	defer tmpMu.Unlock()
	tmpSeq++
	return filepath.Join(d, fmt.Sprintf("t%d", tmpSeq))
}

// WriteFileAtomically puts the bytes at the path in one step (written beside it and renamed), with
// a modification time that lies years in the past and moves forward by a second with every call:
// table.file reloads a file only when its time stamp is not older than the one it loaded last and
// the last change is at least half a reload interval ago — neither depends on the clock this way.
func WriteFileAtomically(path string, content []byte) {
	tmpMu.Lock()
	fileTick++
	tick := fileTick
	tmpMu.Unlock()
	tmp := path + ".new"
	if err := os.WriteFile(tmp, content, 0o600); err != nil {
		panic(err)
	}
	mt := time.Date(2001, 1, 1, 0, 0, 0, 0, time.UTC).Add(time.Duration(tick) * time.Second)
	if err := os.Chtimes(tmp, mt, mt); err != nil {
		panic(err)
	}
	if err := os.Rename(tmp, path); err != nil {
		panic(err)
	}
}

// Materialize writes the table files of the case (kind F) and returns what removes them again.
func (cs *Case) Materialize() (cleanup func()) {
	var paths []string
	for _, t := range []*Tab{&cs.U2E, &cs.Prep} {
		if t.Kind == "F" {
			t.Path = NewFilePath()
			WriteFileAtomically(t.Path, RenderFile(t.Lines, t.Style))
			paths = append(paths, t.Path)
		}
	}
	return func() {
		for _, p := range paths {
			os.Remove(p)
		}
	}
}

// ---- rendering

func isAtext(ch rune) bool {
	if ch >= 0x80 {
		return true
	}
	if ch >= 'a' && ch <= 'z' || ch >= 'A' && ch <= 'Z' || ch >= '0' && ch <= '9' {
		return true
	}
	return strings.ContainsRune("!#$%&'*+-/=?^_`{|}~", ch)
}

func isDotAtom(s string) bool {
	if s == "" || strings.HasPrefix(s, ".") || strings.HasSuffix(s, ".") || strings.Contains(s, "..") {
		return false
	}
	for _, ch := range s {
		if ch != '.' && !isAtext(ch) {
			return false
		}
	}
	return true
}

func quote(s string) string {
	var b strings.Builder
	b.WriteByte('"')
	for _, ch := range s {
		if ch == '"' || ch == '\\' {
			b.WriteByte('\\')
		}
		b.WriteRune(ch)
	}
	b.WriteByte('"')
	return b.String()
}

func quoteLocal(local string, force bool) string {
	if isDotAtom(local) && !force {
		return local
	}
	return quote(local)
}

type mbox struct {
	addr  Addr
	name  string
	style int // 0 bare, 1 angle, 2 atom name, 3 quoted name, 4 encoded-word name, 5 trailing comment,
	// 6 encoded-word name + angle-addr + comment holding an encoded word: a reader that decodes the
	// words BEFORE parsing the structure sees the name's specials as syntax ("x@y (" … ")")
	fq bool
}

func isPhraseAtoms(s string) bool {
	if s == "" {
		return false
	}
	for _, w := range strings.Split(s, " ") {
		if w == "" {
			return false
		}
		for _, ch := range w {
			if !isAtext(ch) || ch >= 0x80 {
				return false
			}
		}
		if strings.HasPrefix(w, "=?") {
			return false
		}
	}
	return true
}

// RFC 2047 encoded words as allowed inside a phrase: every byte that is not a letter or digit is
// escaped (Q) or the whole chunk is base64 (B); long names are split into several words.
//
// The charset label: UTF-8, or — for chunks that are pure ASCII, whose bytes are the same in
// all of them — one of the ASCII-compatible charsets a mail reader meets (net/mail itself knows
// UTF-8, ISO-8859-1 and US-ASCII only and fails the whole field on any other).
var asciiCompatibleCharsets = []string{"us-ascii", "iso-8859-1", "ISO-8859-15", "koi8-r", "KOI8-U", "windows-1251",
	"windows-1252", "iso-8859-5", "iso-2022-jp", "gb2312", "euc-kr", "big5"}

// hasForeignWord: does the field value hold an encoded word in a charset net/mail does not know?
func hasForeignWord(v string) bool {
	for _, part := range strings.Split(v, "=?")[1:] {
		if i := strings.Index(part, "?"); i > 0 {
			switch strings.ToLower(part[:i]) {
			case "utf-8", "us-ascii", "iso-8859-1":
			default:
				return true
			}
		}
	}
	return false
}

func isASCII(s string) bool {
	for i := 0; i < len(s); i++ {
		if s[i] >= 0x80 {
			return false
		}
	}
	return true
}

func encodedWords(r *vh.Rng, name string, fold func() string) string {
	return encodedWordsIn(r, name, fold, r.Chance(12))
}

func encodedWordsIn(r *vh.Rng, name string, fold func() string, foreign bool) string {
	runes := []rune(name)
	var words []string
	for len(runes) > 0 {
		n := 1 + r.Intn(10)
		if n > len(runes) {
			n = len(runes)
		}
		chunk := string(runes[:n])
		runes = runes[n:]
		cset := r.Pick("utf-8", "UTF-8")
		if foreign && isASCII(chunk) {
			cset = asciiCompatibleCharsets[r.Intn(len(asciiCompatibleCharsets))]
		}
		if r.Bool() {
			words = append(words, "=?"+cset+"?"+r.Pick("b", "B")+"?"+base64.StdEncoding.EncodeToString([]byte(chunk))+"?=")
			continue
		}
		var b strings.Builder
		for _, c := range []byte(chunk) {
			switch {
			case c >= 'a' && c <= 'z' || c >= 'A' && c <= 'Z' || c >= '0' && c <= '9':
				b.WriteByte(c)
			case c == ' ':
				b.WriteByte('_')
			default:
				fmt.Fprintf(&b, "=%02X", c)
			}
		}
		words = append(words, "=?"+cset+"?"+r.Pick("q", "Q")+"?"+b.String()+"?=")
	}
	out := ""
	for i, w := range words {
		if i > 0 {
			out += fold()
		}
		out += w
	}
	return out
}

func (m mbox) render(r *vh.Rng, fold func() string) string {
	spec := quoteLocal(m.addr.Local, m.fq) + "@" + m.addr.Domain
	switch m.style {
	case 1:
		return "<" + spec + ">"
	case 2:
		if isPhraseAtoms(m.name) {
			return m.name + fold() + "<" + spec + ">"
		}
		return quote(m.name) + fold() + "<" + spec + ">"
	case 3:
		return quote(m.name) + fold() + "<" + spec + ">"
	case 4:
		return encodedWords(r, m.name, fold) + fold() + "<" + spec + ">"
	case 5:
		c := strings.Map(func(ch rune) rune {
			if ch == '(' || ch == ')' || ch == '\\' {
				return -1
			}
			return ch
		}, m.name)
		if r.Chance(25) && c != "" {
			// RFC 2047 allows encoded words inside comments
			return spec + " (" + encodedWords(r, c, fold) + ")"
		}
		return spec + " (" + c + ")"
	case 6:
		foreign := r.Chance(70)
		open, close := r.Pick(" (", " (", " (", " (", ", (", " <", ";(", " (x) ("), r.Pick(")", ")", ")", ">", "))", "x)")
		return encodedWordsIn(r, m.name+open, fold, foreign) + fold() + "<" + spec + ">" + fold() + "(" + encodedWordsIn(r, close, fold, foreign) + ")"
	}
	return spec
}

func genMbox(r *vh.Rng, a Addr, trickName func() string) mbox {
	m := mbox{addr: a, style: r.Intn(6), fq: r.Chance(8)}
	if r.Chance(6) {
		m.style = 6
	}
	if m.style >= 2 {
		m.name = trickName()
	}
	if m.style == 6 {
		// the decoded name must read as an addr-spec: keep the bare address form of the trick
		m.name = strings.Trim(strings.TrimPrefix(m.name, "Alice, "), "<>")
		if i := strings.Index(m.name, ","); i >= 0 {
			m.name = m.name[:i]
		}
		if i := strings.Index(m.name, "\""); i >= 0 {
			m.name = strings.Trim(m.name[i:], "\"<> ")
			if j := strings.Index(m.name, "\""); j >= 0 {
				m.name = m.name[:j]
			}
		}
	}
	return m
}

// one address-list field value + its ground truth
func genList(r *vh.Rng, pick func() Addr, trickName func() string, nAddr int, single bool) (string, []Addr) {
	fold := func() string {
		if r.Chance(20) {
			return r.Pick("\r\n ", "\r\n\t", "  ", "\r\n  ")
		}
		return " "
	}
	var parts []string
	var gt []Addr
	remaining := nAddr
	for remaining > 0 || (nAddr == 0 && len(parts) == 0) {
		if !single && (nAddr == 0 || r.Chance(15)) {
			// a group with 0..remaining members
			k := 0
			if remaining > 0 {
				k = 1 + r.Intn(remaining)
			}
			var ms []string
			for i := 0; i < k; i++ {
				a := pick()
				gt = append(gt, a)
				ms = append(ms, genMbox(r, a, trickName).render(r, fold))
			}
			remaining -= k
			gname := r.Pick("team", "undisclosed-recipients", "\"a, b\"", "Friends")
			parts = append(parts, gname+":"+fold()+strings.Join(ms, ","+fold())+";")
			if nAddr == 0 {
				break
			}
			continue
		}
		a := pick()
		gt = append(gt, a)
		parts = append(parts, genMbox(r, a, trickName).render(r, fold))
		remaining--
	}
	v := strings.Join(parts, ","+fold())
	if !single && len(gt) > 0 && r.Chance(6) {
		// obsolete syntax (RFC 5322 obs-mbox-list): empty list elements
		if r.Bool() {
			v += ","
		} else {
			v = "," + fold() + v
		}
	}
	return v, gt
}

func fieldName(r *vh.Rng, name string) string {
	switch r.Intn(10) {
	case 0:
		return strings.ToUpper(name)
	case 1:
		return strings.ToLower(name)
	case 2:
		return mixCase(r, strings.ToLower(name))
	}
	return name
}

func mutate(r *vh.Rng, v string) string {
	if v == "" {
		return r.Pick("<", "@", ",", ";", "\"")
	}
	bs := []rune(v)
	pos := r.Intn(len(bs) + 1)
	ins := []rune(r.Pick("<", ">", ",", ";", ":", "\"", "(", ")", "@", "\\", " ", ".", "[", "]", "=?utf-8?q?x?="))
	switch r.Intn(3) {
	case 0: // insert
		bs = append(bs[:pos], append(ins, bs[pos:]...)...)
	case 1: // delete
		if pos < len(bs) {
			bs = append(bs[:pos], bs[pos+1:]...)
		}
	default: // replace
		if pos < len(bs) {
			bs = append(bs[:pos], append(ins, bs[pos+1:]...)...)
		}
	}
	s := string(bs)
	// keep the field a single (folded) field: no bare CR/LF damage
	s = strings.ReplaceAll(s, "\r\n", "\x00")
	s = strings.NewReplacer("\r", "", "\n", "").Replace(s)
	return strings.ReplaceAll(s, "\x00", "\r\n")
}

func genHeader(r *vh.Rng, cs *Case, pick func() Addr, trickName func() string) {
	type fld struct {
		name, value string
		gt          []Addr
		kind        int // 0 other, 1 From, 2 Sender
	}
	var fields []fld
	nFrom := 1
	switch k := r.Intn(20); {
	case k == 0:
		nFrom = 0
	case k < 3:
		nFrom = 2
	case k == 3:
		nFrom = 3
	}
	var firstFrom []Addr
	for i := 0; i < nFrom; i++ {
		nAddr := 1
		switch k := r.Intn(20); {
		case k == 0:
			nAddr = 0
		case k < 3:
			nAddr = 2
		case k == 3:
			nAddr = 3
		}
		if nAddr == 0 && r.Bool() {
			fields = append(fields, fld{"From", "", nil, 1}) // empty field
			continue
		}
		v, gt := genList(r, pick, trickName, nAddr, false)
		fields = append(fields, fld{"From", v, gt, 1})
		if i == 0 {
			firstFrom = gt
		}
	}
	nSender := 0
	switch k := r.Intn(20); {
	case k < 7:
		nSender = 1
	case k == 7:
		nSender = 2
	}
	for i := 0; i < nSender; i++ {
		if r.Chance(5) {
			fields = append(fields, fld{"Sender", "", nil, 2})
			continue
		}
		spick := pick
		if len(firstFrom) == 1 && r.Chance(20) {
			// Sender repeats the From address: literally, or in another spelling of it
			if r.Bool() {
				spick = func() Addr { return firstFrom[0] }
			} else {
				spick = func() Addr { return addrVariant(r, firstFrom[0]) }
			}
		}
		v, gt := genList(r, spick, trickName, 1, true)
		fields = append(fields, fld{"Sender", v, gt, 2})
	}
	subject := "hello"
	if r.Chance(8) {
		// a continuation line that looks like an author field is part of the Subject, not a field
		subject = "hello\r\n " + r.Pick("From", "Sender") + ": <" + pick().String() + ">"
	}
	fields = append(fields, fld{"To", "someone@example.net", nil, 0}, fld{"Subject", subject, nil, 0})
	if r.Bool() {
		fields = append(fields, fld{"Message-ID", "<1@example.net>", nil, 0})
	}
	// shuffle
	for i := len(fields) - 1; i > 0; i-- {
		j := r.Intn(i + 1)
		fields[i], fields[j] = fields[j], fields[i]
	}
	doMutate := r.Chance(10)
	var b bytes.Buffer
	for _, f := range fields {
		v := f.value
		if doMutate && f.kind != 0 && r.Bool() {
			v = mutate(r, v)
			cs.GTKnown = false
		}
		name := f.name
		if f.kind != 0 {
			name = fieldName(r, f.name)
		}
		sep := ": "
		if r.Chance(10) {
			sep = r.Pick(":", ":  ", ":\r\n ", " : ")
		}
		if v == "" {
			sep = ":"
		}
		b.WriteString(name + sep + v + "\r\n")
		switch f.kind {
		case 1:
			cs.GTFrom = append(cs.GTFrom, f.gt)
		case 2:
			cs.GTSender = append(cs.GTSender, f.gt)
		}
	}
	cs.Raw = b.Bytes()
}

// ---------------------------------------------------------------- fixed scenarios (always run)

func Fixed() []*Case {
	mk := func(user, mailFrom string, u2e Tab, hdr string, gtFrom [][]Addr, gtSender [][]Addr) *Case {
		cs := &Case{CheckHeader: true, UA: "r", NA: "r", EA: "r", AuthNorm: "auto", FromNorm: "auto", Conn: true,
			User: user, MailFrom: mailFrom, U2E: u2e, Raw: []byte(hdr), GTKnown: true, GTFrom: gtFrom, GTSender: gtSender}
		cs.Prep.Kind = "I"
		return cs
	}
	ident := Tab{Kind: "I"}
	alice := Addr{"alice", "example.org"}
	bob := Addr{"bob", "example.com"}
	var st Tab
	st.Kind = "S"
	st.Add("alice", "alice@example.org", "corp.example.net")
	rest := "To: someone@example.net\r\nSubject: hello\r\n"
	// entries that are no address, no domain and not "*" (empty, bare local part, halves) and
	// sender values without a domain (bare postmaster, prepare_email reducing to the local part)
	odd := func(user, mailFrom, fromNorm, prepKind string, entries ...string) *Case {
		var t Tab
		t.Kind = "S"
		t.Add(user, entries...)
		cs := mk(user, mailFrom, t, "From: <alice@example.org>\r\n"+rest, [][]Addr{{alice}}, nil)
		cs.FromNorm, cs.Prep.Kind = fromNorm, prepKind
		return cs
	}
	var grid []*Case
	// the documented forms of the action directives x the three refusals: a forged MAIL FROM, a forged
	// From (own envelope sender), an unauthenticated client, a header without author
	forms := [][]string{nil, {"553"}, {"550", "5.7.1"}, {"553", "5.7.1", "Not yours"}, {"451", "4.7.1", "Try later"}, {"554", "5.7.0", "ok"}}
	for fi, form := range forms {
		for _, word := range []string{"r", "q"} {
			for k := 0; k < 4; k++ {
				var cs *Case
				switch k {
				case 0:
					cs = mk("alice@example.org", "bob@example.com", ident, "From: <alice@example.org>\r\n"+rest, [][]Addr{{alice}}, nil)
				case 1:
					cs = mk("alice@example.org", "alice@example.org", ident, "From: <bob@example.com>\r\n"+rest, [][]Addr{{bob}}, nil)
				case 2:
					cs = mk("", "alice@example.org", ident, "From: <alice@example.org>\r\n"+rest, [][]Addr{{alice}}, nil)
				default:
					cs = mk("alice@example.org", "alice@example.org", ident, rest, nil, nil)
				}
				cs.UA, cs.NA, cs.EA = word, word, word
				// the custom reply on all three, or on one of them only
				switch (fi + k) % 4 {
				case 0:
					cs.UArgs, cs.NArgs, cs.EArgs = form, form, form
				case 1:
					cs.NArgs = form
				case 2:
					cs.UArgs = form
				default:
					cs.EArgs, cs.NArgs = form, form
				}
				if k == 2 {
					cs.UArgs = form
				}
				if k == 3 {
					cs.EArgs = form
				}
				grid = append(grid, cs)
			}
		}
	}
	// the normalisation settings x spellings that differ from the entry in the letter case of the local
	// part, in the spelling of the domain (letter case, A-label / U-label) and in Unicode normalisation:
	// which of them are the entry's mailbox is for the configured setting to say
	for _, nn := range []string{"auto", "precis_casefold_email", "precis_email", "precis", "casefold", "noop"} {
		for k, a := range []Addr{{"Support", "example.org"}, {"support", "EXAMPLE.org"}, {"support", "xn--mnchen-3ya.de"}, {"SUPPORT", "XN--MNCHEN-3YA.DE"},
			{"rene\u0301", "example.org"}, {"support", "mu\u0308nchen.de"}, {"support", "example.org"}, {"ｓupport", "example.org"}} {
			var t Tab
			t.Kind = "S"
			t.Add("alice", "support@example.org", "support@münchen.de", "rené@example.org")
			if k%2 == 1 {
				// the same with domain entries
				t = Tab{Kind: "S"}
				t.Add("alice", "example.org", "münchen.de")
			}
			cs := mk("alice", a.String(), t, "From: <"+a.String()+">\r\n"+rest, [][]Addr{{a}}, nil)
			cs.FromNorm = nn
			grid = append(grid, cs)
			// capital letters in the entry, small ones in the address
			var t2 Tab
			t2.Kind = "S"
			t2.Add("alice", "Support@Example.ORG", "XN--MNCHEN-3YA.DE")
			b := Addr{strings.ToLower(a.Local), a.Domain}
			cs2 := mk("alice", b.String(), t2, "From: <"+b.String()+">\r\n"+rest, [][]Addr{{b}}, nil)
			cs2.FromNorm = nn
			if k < 4 {
				grid = append(grid, cs2)
			}
		}
		// the user name: entries keyed by the lower-case name, the client logs in as Alice
		var t Tab
		t.Kind = "S"
		t.Add("alice", "alice@example.org")
		cs := mk("Alice", "alice@example.org", t, "From: <alice@example.org>\r\n"+rest, [][]Addr{{alice}}, nil)
		cs.AuthNorm = nn
		grid = append(grid, cs)
	}
	// table.chain as user_to_email: account -> groups, then ONE level of delegation (the delegation
	// table's values are again keys of it: a.smith@ delegates to ceo-office@, which alice is NOT given)
	deleg := func(optional bool, rows ...[]string) Tab {
		var accounts, d Tab
		accounts.Kind, d.Kind = "S", "S"
		accounts.Add("alice", "alice@example.org", "info@example.org")
		accounts.Add("bob", "bob@example.com")
		for _, row := range rows {
			d.Add(row[0], row[1:]...)
		}
		return Tab{Kind: "C", Steps: []ChainStep{{Tab: accounts}, {Optional: optional, Tab: d}}}
	}
	full := [][]string{{"alice@example.org", "alice@example.org", "a.smith@example.org"}, {"info@example.org", "info@example.org", "sales@example.org"},
		{"a.smith@example.org", "a.smith@example.org", "ceo-office@example.org"}, {"bob@example.com", "bob@example.com"}}
	partial := [][]string{{"alice@example.org", "a.smith@example.org", "postmaster@example.org"}, {"a.smith@example.org", "ceo-office@example.org"}}
	for _, who := range []string{"alice", "a.smith", "info", "sales", "ceo-office", "postmaster"} {
		a := Addr{who, "example.org"}
		for k, t := range []Tab{deleg(false, full...), deleg(true, full...), deleg(false, partial...), deleg(true, partial...)} {
			cs := mk("alice", a.String(), t, "From: <"+a.String()+">\r\n"+rest, [][]Addr{{a}}, nil)
			if k%2 == 1 {
				// the same chain in front of the check as prepare_email is not the point here; vary the settings instead
				cs.FromNorm, cs.AuthNorm = "precis_casefold_email", "precis_casefold"
			}
			grid = append(grid, cs)
		}
	}
	// table.chain as prepare_email: alias -> mailboxes -> (optional) second rewriting
	for _, from := range []string{"sales@example.org", "info@example.org", "alice@example.org", "team@example.org"} {
		var al, second, u Tab
		al.Kind, second.Kind, u.Kind = "S", "S", "S"
		al.Add("sales@example.org", "alice@example.org", "bob@example.com")
		al.Add("info@example.org", "alice@example.org", "alice@corp.example.net")
		al.Add("team@example.org", "alice@example.org", "alice@corp.example.net", "info@example.org")
		second.Add("alice@example.org", "alice@corp.example.net", "alice@example.org")
		second.Add("alice@corp.example.net", "bob@example.com")
		second.Add("info@example.org", "alice@corp.example.net")
		u.Add("alice", "alice@example.org", "alice@corp.example.net")
		for _, opt := range []bool{false, true} {
			l, d, _ := SplitLast(from)
			cs := mk("alice", from, u, "From: <"+from+">\r\n"+rest, [][]Addr{{{l, d}}}, nil)
			cs.Prep = Tab{Kind: "C", Steps: []ChainStep{{Optional: opt, Tab: al}, {Optional: true, Tab: second}}}
			grid = append(grid, cs)
		}
	}
	return append(grid, []*Case{
		odd("backup", "postmaster", "noop", "I", ""),
		odd("backup", "postmaster", "auto", "I", ""),
		odd("backup", "POSTMASTER", "casefold", "I", "alice@example.org", ""),
		odd("backup", "bob@example.com", "auto", "L", ""),
		odd("backup", "bob@example.com", "auto", "O", "alice@example.org", ""),
		odd("backup", "no-at-sign", "noop", "I", ""),
		odd("backup", "alice@", "noop", "I", "", "alice"),
		odd("alice", "alice@example.com", "auto", "I", "alice", "alice@example.org"),
		odd("alice", "alice@example.com", "auto", "L", "alice"),
		odd("alice", "bob@example.org", "auto", "I", "@example.org", "alice@example.org"),
		odd("alice", "postmaster@example.com", "auto", "L", "postmaster"),
		// lower-casing is not full case folding: ß / ss, ς / σ are different local parts
		odd("alice", "straße@example.org", "casefold", "I", "strasse@example.org"),
		odd("alice", "sigmaς@example.org", "casefold", "I", "sigmaσ@example.org"),
		// own envelope sender, foreign From, Sender = the same foreign address in another spelling
		mk("alice@example.org", "alice@example.org", ident, "From: <bob@example.com>\r\nSender: <BOB@EXAMPLE.COM>\r\n"+rest, [][]Addr{{bob}}, [][]Addr{{{"BOB", "EXAMPLE.COM"}}}),
		mk("alice@example.org", "alice@example.org", ident, "From: <bob@xn--mnchen-3ya.de>\r\nSender: <bob@münchen.de>\r\n"+rest, [][]Addr{{{"bob", "xn--mnchen-3ya.de"}}}, [][]Addr{{{"bob", "münchen.de"}}}),
		// encoded words in a charset net/mail does not know, decoding to RFC 5322 specials: for every
		// RFC 5322 reader the one author is bob (display name "alice@example.org (", comment ")")
		mk("alice@example.org", "alice@example.org", ident,
			"From: =?koi8-r?q?alice=40example.org_=28?= <bob@example.com> (=?koi8-r?q?=29?=)\r\n"+rest, [][]Addr{{bob}}, nil),
		mk("alice@example.org", "alice@example.org", ident,
			"From: =?utf-8?q?alice=40example.org_=28?= <bob@example.com> (=?utf-8?q?=29?=)\r\n"+rest, [][]Addr{{bob}}, nil),
		// the upstream integration cases: own address, someone else's address
		mk("alice@example.org", "alice@example.org", ident, "From: <alice@example.org>\r\n"+rest, [][]Addr{{alice}}, nil),
		mk("alice@example.org", "bob@example.com", ident, "From: <bob@example.com>\r\n"+rest, [][]Addr{{bob}}, nil),
		// DESIGN §6 (m): two From fields, first entitled, second not — and the opposite order
		mk("alice@example.org", "alice@example.org", ident, "From: <alice@example.org>\r\nFrom: <bob@example.com>\r\n"+rest, [][]Addr{{alice}, {bob}}, nil),
		mk("alice@example.org", "alice@example.org", ident, "From: <bob@example.com>\r\nFrom: <alice@example.org>\r\n"+rest, [][]Addr{{bob}, {alice}}, nil),
		// From not the user's, Sender is; two Sender fields, first entitled, second not
		mk("alice@example.org", "alice@example.org", ident, "From: <bob@example.com>\r\nSender: <alice@example.org>\r\n"+rest, [][]Addr{{bob}}, [][]Addr{{alice}}),
		mk("alice@example.org", "alice@example.org", ident, "From: <bob@example.com>\r\nSender: <alice@example.org>\r\nSender: <bob@example.com>\r\n"+rest, [][]Addr{{bob}}, [][]Addr{{alice}, {bob}}),
		// display-name trick, group, domain wildcard, missing From
		mk("alice@example.org", "alice@example.org", ident, "From: \"alice@example.org\" <bob@example.com>\r\n"+rest, [][]Addr{{bob}}, nil),
		mk("alice", "alice@example.org", st, "From: team: x@corp.example.net;\r\n"+rest, [][]Addr{{{"x", "corp.example.net"}}}, nil),
		mk("alice", "ALICE@EXAMPLE.ORG", st, rest, nil, nil),
		mk("", "alice@example.org", ident, "From: <alice@example.org>\r\n"+rest, [][]Addr{{alice}}, nil),
	}...)
}

// ---------------------------------------------------------------- a neighbour check in the same check group

// FixedNeighbour: authorize_sender runs next to a second check (a reputation / content filter) that gives its
// verdict at the same stage; the two finish in either order.  Whatever the neighbour says and however fast it is,
// a client that is not entitled to the envelope sender / the author address must be refused.
func FixedNeighbour() []*Case {
	var grid []*Case
	alice, bob := Addr{"alice", "example.org"}, Addr{"bob", "example.com"}
	for _, stage := range []string{"sender", "body", "all"} {
		for _, verdict := range []string{"q", "i", "r", "-"} {
			for _, first := range []string{"n", "a"} {
				for k := 0; k < 4; k++ {
					var cs *Case
					switch k {
					case 0: // forged envelope sender and author
						cs = wdCase("alice@example.org", "auto", Tab{Kind: "I"}, bob, bob)
					case 1: // own envelope sender, forged author
						cs = wdCase("alice@example.org", "auto", Tab{Kind: "I"}, alice, bob)
					case 2: // forged envelope sender, own author
						cs = wdCase("alice@example.org", "auto", Tab{Kind: "I"}, bob, alice)
					default: // all own
						cs = wdCase("alice@example.org", "auto", Tab{Kind: "I"}, alice, alice)
					}
					cs.HasK, cs.KStage, cs.KVerdict, cs.KFirst = true, stage, verdict, first
					grid = append(grid, cs)
				}
			}
		}
	}
	return grid
}

// FixedPlaced: the check group with authorize_sender declared globally, in the source block or in a destination
// block (checks of a destination block are instantiated when the first recipient of the block is named: the
// sender decision is then made late, by replay), recipients of the checked and of an unchecked block in every
// order.  Whatever the place, a message that reaches a target behind the check must come from an entitled client.
func FixedPlaced() []*Case {
	var grid []*Case
	alice, bob := Addr{"alice", "example.org"}, Addr{"bob", "example.com"}
	for _, place := range []string{"g", "s", "d"} {
		for _, order := range []string{"R", "RL", "LR", "RR", "LLR", "RLR"} {
			for k := 0; k < 4; k++ {
				var cs *Case
				switch k {
				case 0:
					cs = wdCase("alice@example.org", "auto", Tab{Kind: "I"}, bob, bob)
				case 1:
					cs = wdCase("alice@example.org", "auto", Tab{Kind: "I"}, alice, bob)
				case 2: // forged envelope sender, own author: only the envelope is off
					cs = wdCase("alice@example.org", "auto", Tab{Kind: "I"}, bob, alice)
				default:
					cs = wdCase("alice@example.org", "auto", Tab{Kind: "I"}, alice, alice)
				}
				cs.HasL, cs.LPlace, cs.LOrder = true, place, order
				grid = append(grid, cs)
			}
		}
	}
	return grid
}

// GenPlaced draws the place of the check group and the recipients of a generated session.
func GenPlaced(r *vh.Rng, cs *Case) {
	cs.HasL = true
	cs.LPlace = r.Pick("d", "d", "d", "d", "s", "g")
	cs.LOrder = r.Pick("R", "R", "RL", "LR", "LR", "RR", "LLR", "LRL", "RLR", "LRR")
}

// GenNeighbour draws the neighbour of a generated session.
func GenNeighbour(r *vh.Rng, cs *Case) {
	cs.HasK = true
	cs.KStage = r.Pick("sender", "sender", "sender", "body", "body", "body", "all", "all", "all", "conn", "rcpt")
	cs.KVerdict = r.Pick("q", "q", "q", "q", "i", "i", "r", "-")
	cs.KFirst = r.Pick("n", "n", "n", "a", "a", "-")
}

// ---------------------------------------------------------------- table.email_with_domain as entitlement table

// The documented configuration `user_to_email email_with_domain DOMAIN…` (directly or as the last
// step of a chain) on a server where account names are of mixed kinds: plain names, names that are
// addresses of another realm / provider (bob@example.net, bob@mail.example.org), names with
// characters that need quoting.  Every account is given <its WHOLE name>@DOMAIN; an account whose name
// is an address shares nothing with the account named by that address's local part.

func wdCase(user, authNorm string, u2e Tab, mailFrom Addr, from Addr) *Case {
	rest := "To: someone@example.net\r\nSubject: hello\r\n"
	cs := &Case{CheckHeader: true, UA: "r", NA: "r", EA: "r", AuthNorm: authNorm, FromNorm: "auto", Conn: true,
		User: user, MailFrom: mailFrom.String(), U2E: u2e, Raw: []byte("From: <" + from.String() + ">\r\n" + rest), GTKnown: true,
		GTFrom: [][]Addr{{from}}}
	cs.Prep.Kind = "I"
	return cs
}

func wdTab(domains ...string) Tab {
	t := Tab{Kind: "W"}
	for _, d := range domains {
		t.Add(d)
	}
	return t
}

// wdChain: accounts table (login name -> mailbox names) in front of email_with_domain.
func wdChain(first Tab, optional bool, domains ...string) Tab {
	return Tab{Kind: "C", Steps: []ChainStep{{Optional: optional, Tab: first}, {Tab: wdTab(domains...)}}}
}

func FixedWithDomain() []*Case {
	var grid []*Case
	var accounts Tab
	accounts.Kind = "S"
	for _, u := range []string{"bob", "bob@example.net", "bob@mail.example.org", "alice@example.org"} {
		accounts.Add(u, u)
	}
	for _, user := range []string{"bob", "bob@example.net", "Bob@EXAMPLE.net", "bob@mail.example.org", "alice@example.org"} {
		for _, a := range []Addr{{"bob", "example.org"}, {"bob", "example.com"}, {"alice", "example.org"}} {
			for k, t := range []Tab{wdTab("example.org", "example.com"), wdTab("example.org"), wdChain(accounts, false, "example.org", "example.com")} {
				an := "auto"
				if k == 1 {
					an = "precis_casefold_email"
				}
				grid = append(grid, wdCase(user, an, t, a, a))
			}
		}
	}
	return grid
}

// FixedWithDomainQuoted (in-package harness only): the address the table gives an account whose name needs quoting.
func FixedWithDomainQuoted() []*Case {
	var grid []*Case
	for _, user := range []string{"bob@example.net", "bob smith", "bob", "ops,night"} {
		for _, fn := range []string{"noop", "auto"} {
			for _, d := range []string{"example.org", "example.com", "example.net"} {
				cs := wdCase(user, "auto", wdTab("example.org", "example.com"), Addr{"bob", "example.org"}, Addr{"bob", "example.org"})
				cs.MailFrom, cs.FromNorm = RefQuoteLocal(user)+"@"+d, fn
				grid = append(grid, cs)
			}
		}
	}
	return grid
}

func GenWithDomainCase(r *vh.Rng, smtpSafe bool) *Case {
	names := []string{"bob", "alice", "carol", "j.doe", "ext", "rené"}
	realms := []string{"example.net", "mail.example.org", "example.org", "corp.example.net", "EXAMPLE.net"}
	domPool := []string{"example.org", "example.com", "corp.example.net", "xn--mnchen-3ya.de"}
	name := r.Pick(names...)
	user := name
	switch x := r.Intn(100); {
	case x < 55:
		user = name + "@" + r.Pick(realms...)
		if r.Chance(20) {
			user = upper(user[:1]) + user[1:]
		}
	case x < 90:
	default:
		user = name + r.Pick(" smith", ",ops", ":1", "(home)", ";x", "<x>")
	}
	nd := 1 + r.Intn(3)
	var doms []string
	for off, i := r.Intn(len(domPool)), 0; i < nd; i++ {
		doms = append(doms, domPool[(off+i)%len(domPool)])
	}
	var t Tab
	switch x := r.Intn(100); {
	case x < 55:
		t = wdTab(doms...)
	case x < 85:
		// accounts table first: the login name's mailbox names (the name itself, sometimes a second one)
		var acc Tab
		acc.Kind = r.Pick("S", "S", "M", "T")
		row := []string{user}
		if lu, err := authz.NormalizeFuncs["auto"](user); err == nil {
			row[0] = lu
		}
		if acc.Kind != "T" && r.Chance(40) {
			row = append(row, r.Pick(names...)+"@"+r.Pick(realms...))
		}
		acc.Add(row[0], row...)
		acc.Add(r.Pick(names...), r.Pick(names...))
		t = wdChain(acc, r.Chance(30), doms...)
	case x < 93:
		// the documented chain: the local part of the login name gets the domains (entitles the collision)
		t = wdChain(Tab{Kind: r.Pick("O", "L")}, false, doms...)
	default:
		t = wdChain(Tab{Kind: "I"}, r.Bool(), doms...)
	}
	pickAddr := func() Addr {
		d := r.Pick(doms...)
		if r.Chance(12) {
			d = r.Pick(domPool...)
		}
		switch x := r.Intn(100); {
		case x < 50:
			return Addr{name, d} // the local part of the login name (the whole name when it is plain)
		case x < 65:
			if l, rd, ok := SplitLast(user); ok {
				return Addr{l, rd}
			}
			return Addr{name, d}
		case x < 80:
			return Addr{r.Pick(names...), d}
		case x < 90:
			return Addr{upper(name), d}
		default:
			return randAddr(r)
		}
	}
	mf := pickAddr()
	from := mf
	if r.Chance(35) {
		from = pickAddr()
	}
	cs := wdCase(user, r.Pick("auto", "auto", "precis_casefold_email", "precis_email", "noop", "casefold"), t, mf, from)
	cs.FromNorm = r.Pick("auto", "auto", "precis_casefold_email", "noop")
	if !smtpSafe && r.Chance(14) {
		// the address the documentation gives the account: the WHOLE (normalised) login name as local part, quoted
		// when it has to be (MAIL FROM only; the author stays what it was)
		if nu, err := authz.NormalizeFuncs[cs.AuthNorm](user); err == nil {
			cs.MailFrom = RefQuoteLocal(nu) + "@" + r.Pick(doms...)
			if r.Chance(70) {
				cs.FromNorm = "noop"
			}
		}
	}
	if r.Chance(15) {
		cs.UA, cs.NA, cs.EA = r.Pick("r", "q"), r.Pick("r", "q"), r.Pick("r", "q", "i")
	}
	return cs
}

// ---------------------------------------------------------------- histories of an entitlement file

// A History is the life of one `user_to_email file …` table under a running check: the file as
// it is when the check is initialised, then edits of the file (entries added, moved, removed;
// the file emptied, left with comments only, deleted, created again, damaged) and reloads.  After
// every reload the check must decide as the CURRENT content of the file says.

type FileStep struct {
	Op     string // W write these lines, D delete the file, B write a file that cannot be parsed, R reload
	Style  int
	Lines  []Line
	Probes []Probe // R: the messages tried after the reload
}

// Probe: a message tried against the check.  Base = the message of the base case; otherwise
// MAIL FROM and a header with the one author From.
type Probe struct {
	Base     bool
	MailFrom string
	From     Addr
}

type History struct {
	Base    *Case // configuration, user, base message; Base.U2E (kind F) is the file at initialisation
	Present bool  // is the file there when the check is initialised?
	Steps   []FileStep
}

// BadFile is a table file the module cannot parse (nothing before the colon).
var BadFile = []byte("# half-written\nalice@example.org: alice@example.org\n: bob@example.com\n")

func cloneLines(ls []Line) []Line {
	out := make([]Line, 0, len(ls))
	for _, l := range ls {
		out = append(out, Line{l.Key, append([]string{}, l.Vals...)})
	}
	return out
}

// GenHistory draws a history.
func GenHistory(r *vh.Rng) *History {
	var base *Case
	for {
		base = GenCase(r.Fork(), false)
		if !base.Conn || base.User == "" || !base.ActionsDocumented() {
			continue
		}
		t := &base.U2E
		if t.Kind == "F" {
			break
		}
		if (t.Kind == "S" || t.Kind == "M") && !t.Err && t.ToFile(r) {
			break
		}
	}
	if r.Chance(75) {
		base.UA, base.NA, base.EA = "r", "r", "r" // (a custom reply stays)
	}
	h := &History{Base: base, Present: !r.Chance(12)}
	nu := normOrSelf(base.AuthNorm, base.User)
	initial := cloneLines(base.U2E.Lines)
	cur := cloneLines(initial)
	exists := h.Present

	// everything the user's lines ever held: the addresses a stale table would still let through
	var ever []string
	note := func(ls []Line) {
		for _, l := range ls {
			if l.Key == nu {
				ever = append(ever, l.Vals...)
			}
		}
	}
	note(initial)
	mailFromN := normOrSelf(base.FromNorm, base.MailFrom)
	newValue := func() string {
		v := mailFromN
		switch r.Intn(6) {
		case 0:
			if _, d, ok := SplitLast(mailFromN); ok && d != "" {
				v = d
			}
		case 1:
			v = "*"
		case 2:
			v = normOrSelf(base.FromNorm, randAddr(r).String())
		case 3:
			if len(base.GTFrom) > 0 && len(base.GTFrom[0]) > 0 {
				v = normOrSelf(base.FromNorm, base.GTFrom[0][0].String())
			}
		}
		if !fileToken(v, false) {
			v = "alice@example.org"
		}
		return v
	}
	write := func(ls []Line) {
		cur = cloneLines(ls)
		exists = true
		note(cur)
		h.Steps = append(h.Steps, FileStep{Op: "W", Style: r.Intn(1 << 20), Lines: cloneLines(ls)})
	}
	userIdx := func() []int {
		var ix []int
		for i, l := range cur {
			if l.Key == nu {
				ix = append(ix, i)
			}
		}
		return ix
	}
	edit := func() {
		if !exists && r.Chance(70) {
			// the file comes back
			if r.Bool() {
				write(initial)
			} else {
				write([]Line{{nu, []string{newValue()}}})
			}
			return
		}
		ix := userIdx()
		switch k := r.Intn(13); {
		case k < 2:
			write(nil) // emptied: no bytes, comments only or blank lines only (the style says which)
		case k == 2:
			exists = false
			h.Steps = append(h.Steps, FileStep{Op: "D"})
		case k < 5 && len(ix) > 0:
			// the user's lines go away
			var keep []Line
			for _, l := range cur {
				if l.Key != nu {
					keep = append(keep, l)
				}
			}
			write(keep)
		case k == 5 && len(ix) > 0:
			// one entry of the user goes away
			ls := cloneLines(cur)
			i := ix[r.Intn(len(ix))]
			j := r.Intn(len(ls[i].Vals))
			ls[i].Vals = append(ls[i].Vals[:j], ls[i].Vals[j+1:]...)
			if len(ls[i].Vals) == 0 {
				if r.Bool() {
					ls[i].Vals = []string{""} // the key stays, alone on its line
				} else {
					ls = append(ls[:i], ls[i+1:]...)
				}
			}
			write(ls)
		case k < 8:
			// an entry is added: to a line of the user or as a new line
			ls := cloneLines(cur)
			if len(ix) > 0 && r.Bool() {
				i := ix[r.Intn(len(ix))]
				ls[i].Vals = append(ls[i].Vals, newValue())
			} else if fileToken(nu, true) {
				l := Line{nu, []string{newValue()}}
				if r.Bool() {
					ls = append(ls, l)
				} else {
					ls = append([]Line{l}, ls...)
				}
			}
			write(ls)
		case k == 8 && len(ix) > 0:
			// the user's line is given to somebody else
			ls := cloneLines(cur)
			other := normOrSelf(base.AuthNorm, Users[r.Intn(len(Users))])
			if other == nu || !fileToken(other, true) {
				other = "somebody"
			}
			ls[ix[r.Intn(len(ix))]].Key = other
			write(ls)
		case k == 9:
			write(initial)
		case k == 10:
			exists = true
			h.Steps = append(h.Steps, FileStep{Op: "B"})
		case k == 11 && len(ix) > 0:
			// the key in a spelling the normalised user name does not have
			ls := cloneLines(cur)
			i := ix[r.Intn(len(ix))]
			ls[i].Key = r.Pick(upper(nu), nu+".", "x"+nu, nu+"x")
			if ls[i].Key == nu || !fileToken(ls[i].Key, true) {
				ls[i].Key = "x" + strings.ReplaceAll(nu, ":", "")
			}
			write(ls)
		default:
			write([]Line{{nu, []string{newValue()}}, {"somebody", []string{"somebody@example.net"}}})
		}
	}
	probes := func() []Probe {
		ps := []Probe{{Base: true}}
		for i, n := 0, 1+r.Intn(2); i < n && len(ever) > 0; i++ {
			e := ever[r.Intn(len(ever))]
			l, d, has := SplitLast(e)
			switch {
			case has && l != "" && d != "":
			case e == "" || e == "*" || has:
				l, d = "alice", "example.org"
			default:
				l, d = r.Pick("alice", "bob"), e // a domain entry (or a bare word)
			}
			a := Addr{l, d}
			ps = append(ps, Probe{MailFrom: a.String(), From: a})
		}
		return ps
	}
	reload := func() {
		h.Steps = append(h.Steps, FileStep{Op: "R", Probes: probes()})
	}
	for i, n := 0, 2+r.Intn(4); i < n; i++ {
		edit()
		if r.Chance(80) {
			reload()
		}
		if r.Chance(10) {
			reload() // a reload with nothing new
		}
	}
	if h.Steps[len(h.Steps)-1].Op != "R" {
		reload()
	}
	return h
}

func (p *Probe) group() string {
	if p.Base {
		return " | Q = ="
	}
	return " | Q " + vh.HexRunes(p.MailFrom) + " " + addrTok(p.From)
}

// OpLine: the history up to and including step `upto` (-1: nothing after the initialisation),
// optionally with a final probe.  The Lean driver answers with the entries the table holds at
// the end; the harness replays it (and tries the probe).
func (h *History) OpLine(upto int, q *Probe) string {
	cs := h.Base
	var b strings.Builder
	fmt.Fprintf(&b, "C15 file %s %s %s %s %s %s %s", B01(cs.CheckHeader), cs.UA, cs.NA, cs.EA, B01(cs.Conn),
		vh.HexRunes(cs.User), vh.HexRunes(cs.MailFrom))
	fmt.Fprintf(&b, " | N %s %s", cs.AuthNorm, cs.FromNorm)
	b.WriteString(cs.omitGroup())
	b.WriteString(cs.actGroups())
	b.WriteString(cs.Prep.groups("p"))
	b.WriteString(cs.U2E.groups("u"))
	b.WriteString(replayTail(cs))
	b.WriteString(" | I " + B01(h.Present))
	for i := 0; i <= upto && i < len(h.Steps); i++ {
		st := h.Steps[i]
		switch st.Op {
		case "W":
			fmt.Fprintf(&b, " | W %d", st.Style)
			for _, l := range st.Lines {
				b.WriteString(" | l " + vh.HexRunes(l.Key))
				for _, v := range l.Vals {
					b.WriteString(" " + vh.HexRunes(v))
				}
			}
		default:
			b.WriteString(" | " + st.Op)
		}
	}
	if q != nil {
		b.WriteString(q.group())
	}
	return b.String()
}

// ParseHistory rebuilds a history (and the final probe, if the line has one).
func ParseHistory(op string) (*History, *Probe, error) {
	cs, kind, err := ParseOp(op)
	if err != nil {
		return nil, nil, err
	}
	if kind != "file" || cs.U2E.Kind != "F" {
		return nil, nil, fmt.Errorf("not a file history")
	}
	h := &History{Base: cs, Present: true}
	var q *Probe
	started := false
	for _, g := range strings.Split(op, " | ")[1:] {
		t := strings.Fields(g)
		if len(t) == 0 {
			continue
		}
		if !started {
			if t[0] == "I" && len(t) == 2 {
				h.Present, started = t[1] == "1", true
			}
			continue
		}
		switch t[0] {
		case "W":
			st := FileStep{Op: "W"}
			if len(t) > 1 {
				st.Style, _ = strconv.Atoi(t[1])
			}
			h.Steps = append(h.Steps, st)
		case "l":
			if len(h.Steps) == 0 || h.Steps[len(h.Steps)-1].Op != "W" || len(t) < 2 {
				return nil, nil, fmt.Errorf("line outside a write")
			}
			var vs []string
			for _, x := range t[2:] {
				vs = append(vs, vh.UnhexRunes(x))
			}
			st := &h.Steps[len(h.Steps)-1]
			st.Lines = append(st.Lines, Line{vh.UnhexRunes(t[1]), vs})
		case "D", "B", "R":
			h.Steps = append(h.Steps, FileStep{Op: t[0]})
		case "Q":
			if len(t) != 3 {
				return nil, nil, fmt.Errorf("bad probe")
			}
			if t[1] == "=" {
				q = &Probe{Base: true}
			} else {
				p := strings.SplitN(t[2], "/", 2)
				if len(p) != 2 {
					return nil, nil, fmt.Errorf("bad probe")
				}
				q = &Probe{MailFrom: vh.UnhexRunes(t[1]), From: Addr{vh.UnhexRunes(p[0]), vh.UnhexRunes(p[1])}}
			}
		}
	}
	if !started {
		return nil, nil, fmt.Errorf("no initialisation marker")
	}
	return h, q, nil
}

// ProbeCase: the case "this message against a table file with these lines".
func (h *History) ProbeCase(p Probe, lines []Line) *Case {
	cs := *h.Base
	cs.U2E.Lines = lines
	if !p.Base {
		cs.MailFrom = p.MailFrom
		cs.Raw = []byte("From: <" + quoteLocal(p.From.Local, false) + "@" + p.From.Domain + ">\r\nTo: someone@example.net\r\nSubject: hello\r\n")
		cs.GTKnown, cs.GTFrom, cs.GTSender = true, [][]Addr{{p.From}}, nil
	}
	return &cs
}

// HistoryKeys: the keys of all entry lines the history wrote up to step `upto`, in order of
// first appearance.
func (h *History) HistoryKeys(upto int) []string {
	var keys []string
	seen := map[string]bool{}
	add := func(ls []Line) {
		for _, l := range ls {
			if !seen[l.Key] {
				seen[l.Key] = true
				keys = append(keys, l.Key)
			}
		}
	}
	add(h.Base.U2E.Lines)
	for i := 0; i <= upto && i < len(h.Steps); i++ {
		add(h.Steps[i].Lines)
	}
	return keys
}

// DumpTable: what a multi table answers for these keys, canonically.
func DumpTable(t module.MultiTable, keys []string) string {
	if len(keys) == 0 {
		return "-"
	}
	var parts []string
	for _, k := range keys {
		vs, err := t.LookupMulti(context.Background(), k)
		if err != nil {
			parts = append(parts, vh.HexRunes(k)+"=!")
			continue
		}
		hv := make([]string, len(vs))
		for i, v := range vs {
			hv[i] = vh.HexRunes(v)
		}
		parts = append(parts, vh.HexRunes(k)+"="+strings.Join(hv, ","))
	}
	return strings.Join(parts, ";")
}

// ---------------------------------------------------------------- SASL PLAIN identities (SMTP sessions)

// The `authzid` family: accounts whose names differ only in what the automatic normalisation folds
// (letter case, Unicode normalisation form, width, A-label / U-label), each with its own password
// and its own entitlements; the client logs in as one of them (User) with THAT account's password
// and sends an authorization identity of every kind.  The endpoint's auth_map_normalize and the
// check's auth_normalize are the same setting (AuthNorm).  Whatever the endpoint makes of the
// identity, the entitlements that decide must be those of the account whose password was verified.

// Password of an account (as the credential store names it).
func Password(account string) string { return "pw:" + account }

type zPair struct{ login, variant, form string }

var zPairs = []zPair{
	{"admin", "Admin", "case"},
	{"Admin", "admin", "case"},
	{"alice", "ALICE", "case"},
	{"rené", "rené", "nfd"},
	{"admin", "\uff41dmin", "width"},
	{"bob@example.org", "bob@EXAMPLE.ORG", "case-domain"},
	{"bob@example.org", "Bob@example.org", "case"},
	{"carol@münchen.de", "carol@xn--mnchen-3ya.de", "a-label"},
	{"carol@xn--mnchen-3ya.de", "carol@münchen.de", "u-label"},
}

var zForms = []string{"empty", "identical", "variant", "other-account", "garbage"}

const (
	zOwnAddr     = "own.mailbox@example.org"
	zVariantAddr = "boss@example.org"
	zOtherAddr   = "other@example.com"
)

func zCase(setting string, p zPair, form, garbage, target string) *Case {
	cs := &Case{CheckHeader: true, UA: "r", NA: "r", EA: "r", AuthNorm: setting, FromNorm: "auto", Conn: true,
		User: p.login, HasZ: true, GTKnown: true}
	cs.Prep.Kind = "I"
	cs.U2E.Kind = "S"
	cs.U2E.Add(normOrSelf(setting, p.login), zOwnAddr)
	if k := normOrSelf(setting, p.variant); k != normOrSelf(setting, p.login) {
		cs.U2E.Add(k, zVariantAddr)
	}
	if _, dup := cs.U2E.Rows["mallory"]; !dup {
		cs.U2E.Add("mallory", zOtherAddr)
	}
	cs.ZForm = form
	switch form {
	case "empty":
		cs.Authzid = ""
	case "identical":
		cs.Authzid = p.login
	case "variant":
		cs.Authzid, cs.ZForm = p.variant, p.form
	case "other-account":
		cs.Authzid = "mallory"
	default:
		cs.Authzid = garbage
	}
	cs.MailFrom = target
	l, d, _ := SplitLast(target)
	cs.Raw = []byte("From: <" + target + ">\r\nTo: someone@example.net\r\nSubject: hello\r\n")
	cs.GTFrom = [][]Addr{{{l, d}}}
	return cs
}

// FixedAuthz: the same for every seed — the case-preserving and the folding settings x every pair of
// names x the variant as authorization identity, asking for the variant account's address; the other
// identity forms on two pairs.
func FixedAuthz() []*Case {
	var out []*Case
	for _, setting := range []string{"noop", "precis", "precis_email", "auto"} {
		for _, p := range zPairs {
			out = append(out, zCase(setting, p, "variant", "", zVariantAddr))
		}
		for _, p := range zPairs[:2] {
			for _, form := range []string{"empty", "identical", "other-account", "garbage"} {
				target := zOwnAddr
				if form == "other-account" {
					target = zOtherAddr
				}
				out = append(out, zCase(setting, p, form, "*", target))
			}
		}
	}
	return out
}

func GenAuthzCase(r *vh.Rng) *Case {
	setting := NormNames[r.Intn(len(NormNames))]
	p := zPairs[r.Intn(len(zPairs))]
	form := zForms[r.Intn(len(zForms))]
	if r.Chance(40) {
		form = "variant"
	}
	target := r.Pick(zVariantAddr, zVariantAddr, zOwnAddr, zOtherAddr)
	cs := zCase(setting, p, form, r.Pick("*", "x y", "@", "admin@", "nobody", "ADMIN ", "Admin​"), target)
	if r.Chance(30) {
		cs.FromNorm = NormNames[r.Intn(len(NormNames))]
	}
	if r.Chance(50) {
		cs.Omit = OmAll
	}
	return cs
}

// NormBoth: the normal form of an account name under a setting, by the independent reference where it
// decides, by the configured function otherwise.
func NormBoth(setting, s string) (string, bool) {
	if o, ok, known := RefNorm(setting, s); known {
		return o, ok
	}
	o, err := authz.NormalizeFuncs[setting](s)
	return o, err == nil
}
