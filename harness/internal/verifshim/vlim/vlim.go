// Package vlim holds the helpers shared by the C11 harnesses (limits): building a
// limits.Group from the compact configuration token of the op lines, reading the
// occupancy of its limiters by reflection, and running a call under a context that
// is cancelled exactly when the calling goroutine is parked in a limiter wait.
// It exists only inside the test overlay.
package vlim

import (
	"context"
	"fmt"
	"net"
	"reflect"
	"runtime"
	"sort"
	"strconv"
	"strings"
	"sync"
	"time"
	"unsafe"

	"github.com/foxcpp/maddy/framework/config"
	"github.com/foxcpp/maddy/internal/limits"
	"github.com/foxcpp/maddy/internal/limits/limiters"
	"golang.org/x/net/idna"
	"golang.org/x/text/unicode/norm"
)

// Lim is one directive: concurrency N (Sem) or rate N <1h>.
type Lim struct {
	Sem bool
	N   int
}

type Cfg struct {
	Scopes [4][]Lim // all, ip, source, destination
	Reap   int      // model units: <0 = every idle bucket is stale, otherwise never within a run
	MaxB   int
}

var ScopeNames = [4]string{"all", "ip", "source", "destination"}

func (c Cfg) String() string {
	var parts []string
	for _, sc := range c.Scopes {
		if len(sc) == 0 {
			parts = append(parts, "-")
			continue
		}
		var l []string
		for _, x := range sc {
			if x.Sem {
				l = append(l, "s"+strconv.Itoa(x.N))
			} else {
				l = append(l, "r"+strconv.Itoa(x.N))
			}
		}
		parts = append(parts, strings.Join(l, ","))
	}
	parts = append(parts, strconv.Itoa(c.Reap), strconv.Itoa(c.MaxB))
	return strings.Join(parts, "/")
}

func ParseCfg(s string) (Cfg, error) {
	var c Cfg
	f := strings.Split(s, "/")
	if len(f) != 6 {
		return c, fmt.Errorf("bad cfg %q", s)
	}
	for i := 0; i < 4; i++ {
		if f[i] == "-" {
			continue
		}
		for _, x := range strings.Split(f[i], ",") {
			if len(x) < 2 {
				return c, fmt.Errorf("bad lim %q", x)
			}
			n, err := strconv.Atoi(x[1:])
			if err != nil {
				return c, err
			}
			c.Scopes[i] = append(c.Scopes[i], Lim{Sem: x[0] == 's', N: n})
		}
	}
	var err error
	if c.Reap, err = strconv.Atoi(f[4]); err != nil {
		return c, err
	}
	if c.MaxB, err = strconv.Atoi(f[5]); err != nil {
		return c, err
	}
	return c, nil
}

// Bound returns the smallest positive concurrency configured for the scope (0 = unlimited).
func (c Cfg) Bound(scope int) int {
	b := 0
	for _, l := range c.Scopes[scope] {
		if l.Sem && l.N > 0 && (b == 0 || l.N < b) {
			b = l.N
		}
	}
	return b
}

// HasRate reports whether the scope has a rate limiter that can block.
func (c Cfg) HasRate(scope int) bool {
	for _, l := range c.Scopes[scope] {
		if !l.Sem && l.N > 0 {
			return true
		}
	}
	return false
}

// Nodes is the limits block as configuration nodes (rate interval 1h: no refill within a run).
func (c Cfg) Nodes() []config.Node {
	var out []config.Node
	// directives of the scopes interleaved the way a file could have them: order inside a scope is what matters
	for i, sc := range c.Scopes {
		for _, l := range sc {
			if l.Sem {
				out = append(out, config.Node{Name: ScopeNames[i], Args: []string{"concurrency", strconv.Itoa(l.N)}})
			} else {
				out = append(out, config.Node{Name: ScopeNames[i], Args: []string{"rate", strconv.Itoa(l.N), "1h"}})
			}
		}
	}
	return out
}

// NewGroup runs the real Group.Init on the configuration and applies Reap/MaxB to the bucket sets.
// A panic of Init is returned as an error with Panicked set.
func NewGroup(c Cfg) (g *limits.Group, panicked interface{}, err error) {
	defer func() {
		if r := recover(); r != nil {
			panicked = r
		}
	}()
	m, err := limits.New("limits", "verif", nil, nil)
	if err != nil {
		return nil, nil, err
	}
	g = m.(*limits.Group)
	if err := g.Init(config.NewMap(nil, config.Node{Children: c.Nodes()})); err != nil {
		return nil, nil, err
	}
	Tune(g, c.Reap, c.MaxB)
	return g, nil, nil
}

func field(v reflect.Value, name string) reflect.Value {
	f := v.FieldByName(name)
	if !f.IsValid() {
		return f
	}
	return reflect.NewAt(f.Type(), unsafe.Pointer(f.UnsafeAddr())).Elem()
}

// Tune sets ReapInterval / MaxBuckets of the three bucket sets.
func Tune(g *limits.Group, reap int, maxB int) {
	gv := reflect.ValueOf(g).Elem()
	for _, n := range []string{"ip", "source", "dest"} {
		p := field(gv, n)
		if p.IsNil() {
			continue
		}
		bs := p.Elem()
		d := time.Duration(reap) * time.Hour
		if reap < 0 {
			d = -1
		}
		bs.FieldByName("ReapInterval").Set(reflect.ValueOf(d))
		bs.FieldByName("MaxBuckets").Set(reflect.ValueOf(maxB))
	}
}

// AdvanceClock makes every bucket of the set look d older (the stand-in for the passage of time:
// BucketSet reads time.Now() itself).
func AdvanceClock(bs *limiters.BucketSet, d time.Duration) {
	v := reflect.ValueOf(bs).Elem()
	lck := field(v, "mLck").Addr().Interface().(interface {
		Lock()
		Unlock()
	})
	lck.Lock()
	defer lck.Unlock()
	it := v.FieldByName("m").MapRange()
	for it.Next() {
		b := it.Value().Elem()
		lu := b.FieldByName("lastUse")
		w := reflect.NewAt(lu.Type(), unsafe.Pointer(lu.UnsafeAddr())).Elem()
		w.Set(reflect.ValueOf(w.Interface().(time.Time).Add(-d)))
	}
}

// CloseGroup stops the refill goroutines of the group's rate limiters.
func CloseGroup(g *limits.Group) {
	defer func() { recover() }()
	gv := reflect.ValueOf(g).Elem()
	field(gv, "global").Addr().MethodByName("Close").Call(nil)
	for _, n := range []string{"ip", "source", "dest"} {
		p := field(gv, n)
		if !p.IsNil() {
			p.MethodByName("Close").Call(nil)
		}
	}
}

func chanLen(l reflect.Value) string {
	// l: interface value holding Semaphore, Rate or *MultiLimit
	for l.Kind() == reflect.Interface || l.Kind() == reflect.Ptr {
		if l.IsNil() {
			return "nil"
		}
		l = l.Elem()
	}
	switch l.Type().Name() {
	case "Semaphore":
		return strconv.Itoa(l.FieldByName("c").Len())
	case "Rate":
		return strconv.Itoa(l.FieldByName("bucket").Len())
	case "MultiLimit":
		return multi(l)
	}
	return "?" + l.Type().Name()
}

func multi(ml reflect.Value) string {
	w := ml.FieldByName("Wrapped")
	var out []string
	for i := 0; i < w.Len(); i++ {
		out = append(out, chanLen(w.Index(i)))
	}
	return strings.Join(out, ",")
}

// Snapshot prints the channel lengths of every limiter of the group in the canonical form of
// the Lean driver: A=<global>|I=<ip buckets>|S=<source>|D=<dest>, buckets as id:users:lens sorted by id.
// keyID maps (scope index, map key) to the numeric id used in op lines.
func Snapshot(g *limits.Group, keyID func(scope int, key string) int) string {
	gv := reflect.ValueOf(g).Elem()
	out := "A=" + multi(field(gv, "global"))
	for i, n := range []string{"ip", "source", "dest"} {
		out += "|" + string("ISD"[i]) + "=" + BucketSetString(field(gv, n), func(k string) int { return keyID(i+1, k) })
	}
	return out
}

// BucketSetString prints a *limiters.BucketSet (reflect value of the pointer).
func BucketSetString(p reflect.Value, keyID func(key string) int) string {
	if p.Kind() == reflect.Ptr && p.IsNil() {
		return "off"
	}
	bs := p
	if bs.Kind() == reflect.Ptr {
		bs = bs.Elem()
	}
	lck := field(bs, "mLck").Addr().Interface().(interface {
		Lock()
		Unlock()
	})
	lck.Lock()
	defer lck.Unlock()
	type ent struct {
		id int
		s  string
	}
	var ents []ent
	it := bs.FieldByName("m").MapRange()
	for it.Next() {
		k := it.Key().String()
		b := it.Value().Elem()
		users := "0"
		if u := b.FieldByName("users"); u.IsValid() {
			users = strconv.FormatInt(u.Int(), 10)
		}
		id := keyID(k)
		ents = append(ents, ent{id, fmt.Sprintf("%d:%s:%s", id, users, chanLen(b.FieldByName("r")))})
	}
	sort.Slice(ents, func(i, j int) bool {
		if ents[i].id != ents[j].id {
			return ents[i].id < ents[j].id
		}
		return ents[i].s < ents[j].s
	})
	var l []string
	for _, e := range ents {
		l = append(l, e.s)
	}
	return strings.Join(l, ";")
}

// Idle reports whether a snapshot shows no semaphore permit in use and no bucket user.
// Rate limiters (whose channel length is the number of tokens left) are skipped using the configuration.
func Idle(c Cfg, snap string) bool {
	parts := strings.Split(snap, "|")
	if len(parts) != 4 {
		return false
	}
	check := func(scope int, lens string) bool {
		if lens == "" {
			return true
		}
		f := strings.Split(lens, ",")
		for i, l := range c.Scopes[scope] {
			if i < len(f) && l.Sem && f[i] != "0" {
				return false
			}
		}
		return true
	}
	if !check(0, strings.TrimPrefix(parts[0], "A=")) {
		return false
	}
	for sc := 1; sc < 4; sc++ {
		body := parts[sc][2:]
		if body == "off" || body == "" {
			continue
		}
		for _, b := range strings.Split(body, ";") {
			f := strings.SplitN(b, ":", 3)
			if len(f) != 3 || f[1] != "0" || !check(sc, f[2]) {
				return false
			}
		}
	}
	return true
}

func goid() string {
	buf := make([]byte, 64)
	n := runtime.Stack(buf, false)
	f := strings.Fields(string(buf[:n]))
	if len(f) < 2 {
		return ""
	}
	return f[1]
}

// parkedInLimiter reports whether goroutine id is parked in a channel wait inside package limiters.
func parkedInLimiter(id string) bool {
	buf := make([]byte, 1<<16)
	for {
		n := runtime.Stack(buf, true)
		if n < len(buf) {
			buf = buf[:n]
			break
		}
		buf = make([]byte, 2*len(buf))
	}
	s := string(buf)
	hdr := "goroutine " + id + " ["
	i := strings.Index(s, hdr)
	if i < 0 {
		return false
	}
	sec := s[i:]
	if j := strings.Index(sec, "\n\n"); j >= 0 {
		sec = sec[:j]
	}
	state := sec[len(hdr):]
	if j := strings.Index(state, "]"); j >= 0 {
		state = state[:j]
	}
	if !(strings.HasPrefix(state, "select") || strings.HasPrefix(state, "chan send") || strings.HasPrefix(state, "chan receive")) {
		return false
	}
	// the innermost user frame must be a limiter method
	lines := strings.Split(sec, "\n")
	for _, l := range lines[1:] {
		if strings.HasPrefix(l, "\t") {
			continue
		}
		if strings.HasPrefix(l, "runtime.") {
			continue
		}
		return strings.Contains(l, "internal/limits/limiters.")
	}
	return false
}

// RunCtx runs fn on a new goroutine with a context that is cancelled as soon as (and only when)
// that goroutine is parked in a limiter wait: the deterministic stand-in for "the limit timed out".
func RunCtx(parent context.Context, fn func(ctx context.Context) error) (err error, cancelled bool, panicked interface{}) {
	ctx, cancel := context.WithCancel(parent)
	defer cancel()
	type res struct {
		err error
		p   interface{}
	}
	done := make(chan res, 1)
	idc := make(chan string, 1)
	go func() {
		idc <- goid()
		var r res
		defer func() {
			if p := recover(); p != nil {
				r.p = p
			}
			done <- r
		}()
		r.err = fn(ctx)
	}()
	id := <-idc
	wait := 50 * time.Microsecond
	deadline := time.Now().Add(120 * time.Second)
	for {
		select {
		case r := <-done:
			return r.err, cancelled, r.p
		case <-time.After(wait):
		}
		if !cancelled && parkedInLimiter(id) {
			cancelled = true
			cancel()
		}
		if wait < 2*time.Millisecond {
			wait *= 2
		}
		if time.Now().After(deadline) {
			return fmt.Errorf("vlim.RunCtx: call did not finish"), cancelled, nil
		}
	}
}

// ---- source addresses and the key of the per-IP bucket set (strengthening round 5) ----
//
// Op lines name source ADDRESSES by id. The table below turns an id into the net.IP handed to the code:
//
//	1..99, 900   IPv4, spelled by the harness (v4 func), 4-byte form
//	100+10n+h    2001:db8:0:n::h  (n 0..4, h 0..9: ten addresses in each of five /64 networks; h = 0 is the
//	             network address itself)
//	150+x        the IPv4-mapped IPv6 (16-byte) form of IPv4 address x (x 1..49)
//	200..206     ::1, fe80::1, two more hosts of 2001:db8:0:1::/64 with high host bits, NAT64, 6to4, another /48
//
// Which bucket key the code derives from an address is NOT assumed: IPKeys observes it on a real limits.Group
// (keys and users of the ip bucket table after a TakeMsg that is rolled back at the source scope, and after a
// TakeMsg/ReleaseMsg pair) and hands the result to the model through the k.<addr>.<take>.<undo>.<rel> tokens.

// AllAddrIDs lists the address ids of the table in ascending order.
func AllAddrIDs() []int {
	var ids []int
	for i := 1; i <= 12; i++ {
		ids = append(ids, i)
	}
	for i := 100; i <= 149; i++ {
		ids = append(ids, i)
	}
	for i := 151; i <= 162; i++ {
		ids = append(ids, i)
	}
	for i := 200; i <= 206; i++ {
		ids = append(ids, i)
	}
	return append(ids, 900)
}

var oddAddrs = []string{"::1", "fe80::1", "2001:db8:0:1:ffff:ffff:ffff:ffff", "2001:db8:0:1:8000::1", "64:ff9b::a00:1", "2002:a00:1::1", "2001:db8:1::1"}

// Addr is the address with the given id; v4 spells the IPv4 ones.
func Addr(id int, v4 func(int) net.IP) net.IP {
	switch {
	case id >= 100 && id < 150:
		ip := net.ParseIP("2001:db8::")
		ip[7] = byte((id - 100) / 10)
		ip[15] = byte((id - 100) % 10)
		return ip
	case id > 150 && id < 200:
		ip := make(net.IP, 16)
		copy(ip, v4(id-150).To16())
		return ip
	case id >= 200 && id < 200+len(oddAddrs):
		return net.ParseIP(oddAddrs[id-200])
	}
	ip := make(net.IP, 4)
	copy(ip, v4(id).To4())
	return ip
}

// AddrClass names the kind of address (for the recorded distribution).
func AddrClass(id int) string {
	switch {
	case id >= 100 && id < 150:
		if id%10 == 0 {
			return "v6net"
		}
		return "v6"
	case id > 150 && id < 200:
		return "v4mapped"
	case id >= 200 && id < 300:
		return "v6odd"
	}
	return "v4"
}

// MonID is the identity of the IP for the monitors, from the property text alone: an IPv4 address and its
// IPv4-mapped IPv6 form are the same IP; every other address is counted on its own (an under-approximation
// when the code groups addresses, e.g. by /64: never a false alarm).
func MonID(id int) int {
	if id > 150 && id < 200 {
		return id - 150
	}
	return id
}

// AddrPool draws n address ids: sometimes IPv4 only (1..n), otherwise a mixture in which several addresses
// of one /64, an IPv4 address together with its mapped form, and the odd ones occur.
func AddrPool(intn func(int) int, n int) []int {
	pool := make([]int, 0, n)
	if intn(100) < 30 {
		for i := 1; i <= n; i++ {
			pool = append(pool, i)
		}
		return pool
	}
	net6 := 1 + intn(2)
	has := func(x int) bool {
		for _, y := range pool {
			if y == x {
				return true
			}
		}
		return false
	}
	for tries := 0; len(pool) < n && tries < 200; tries++ {
		var x int
		switch c := intn(100); {
		case c < 25:
			x = 1 + intn(4)
		case c < 60:
			x = 100 + 10*net6 + intn(5) // same /64
		case c < 72:
			x = 100 + 10*(3-net6) + 1 + intn(4) // the other /64
		case c < 90:
			x = 151 + intn(4)
		default:
			x = 200 + intn(len(oddAddrs))
		}
		if !has(x) {
			pool = append(pool, x)
		}
	}
	for i := 1; len(pool) < n; i++ {
		if !has(i) {
			pool = append(pool, i)
		}
	}
	return pool
}

type ipKeyEnt struct {
	takeStr          string
	take, undo, rel  int
	undoSame, relSam bool
	note             string
}

// IPKeys: the key derivation of the ip scope as observed on the real code, for every address of the table.
type IPKeys struct {
	v4    func(int) net.IP
	once  sync.Once
	ent   map[int]ipKeyEnt
	byStr map[string]int
	rev   map[string]int
}

func NewIPKeys(v4 func(int) net.IP) *IPKeys { return &IPKeys{v4: v4} }

// ipUsers reads key -> users of the ip bucket table.
func ipUsers(g *limits.Group) map[string]int {
	out := map[string]int{}
	p := field(reflect.ValueOf(g).Elem(), "ip")
	if p.IsNil() {
		return out
	}
	bs := p.Elem()
	lck := field(bs, "mLck").Addr().Interface().(interface {
		Lock()
		Unlock()
	})
	lck.Lock()
	defer lck.Unlock()
	it := bs.FieldByName("m").MapRange()
	for it.Next() {
		n := 0
		if u := it.Value().Elem().FieldByName("users"); u.IsValid() {
			n = int(u.Int())
		}
		out[it.Key().String()] = n
	}
	return out
}

func setMaxBuckets(g *limits.Group, set string, n int) {
	p := field(reflect.ValueOf(g).Elem(), set)
	if !p.IsNil() {
		p.Elem().FieldByName("MaxBuckets").Set(reflect.ValueOf(n))
	}
}

func (k *IPKeys) probe(id int) (e ipKeyEnt) {
	defer func() {
		if r := recover(); r != nil {
			e.note += fmt.Sprintf(" panic while probing: %v", r)
		}
	}()
	e.undoSame, e.relSam = true, true
	ip := Addr(id, k.v4)
	var cfg Cfg
	cfg.Scopes[1] = []Lim{{Sem: true, N: 3}}
	cfg.Scopes[2] = []Lim{{Sem: true, N: 1}}
	cfg.Reap, cfg.MaxB = 3600, 20010
	helper := net.IPv4(192, 0, 2, 250)
	ctx, cancel := context.WithTimeout(context.Background(), 20*time.Second)
	defer cancel()

	// (1) take key and release key: TakeMsg, ReleaseMsg on a fresh group
	g2, p, err := NewGroup(cfg)
	if p != nil || err != nil {
		e.note = fmt.Sprintf("probe group: %v %v", p, err)
		return e
	}
	defer CloseGroup(g2)
	if err := g2.TakeMsg(ctx, ip, "probe.example"); err != nil {
		e.note = "probe TakeMsg failed: " + err.Error()
		return e
	}
	for s, u := range ipUsers(g2) {
		if u > 0 {
			e.takeStr = s
		}
	}
	g2.ReleaseMsg(ip, "probe.example")
	if ipUsers(g2)[e.takeStr] != 0 {
		e.relSam = false
		e.note += fmt.Sprintf(" ReleaseMsg(%v) left the bucket %q taken by TakeMsg(%v) in use;", ip, e.takeStr, ip)
	}

	// (2) roll-back key: the source scope refuses (its table is full: one bucket in use, MaxBuckets 0)
	g, p, err := NewGroup(cfg)
	if p != nil || err != nil {
		e.note += fmt.Sprintf(" probe group: %v %v", p, err)
		return e
	}
	defer CloseGroup(g)
	if err := g.TakeMsg(ctx, helper, "helper.example"); err != nil {
		e.note += " helper TakeMsg failed: " + err.Error()
		return e
	}
	setMaxBuckets(g, "source", 0)
	before := ipUsers(g)
	err = g.TakeMsg(ctx, ip, "probe.example")
	after := ipUsers(g)
	if err == nil {
		e.note += " TakeMsg succeeded although the source table is full;"
		g.ReleaseMsg(ip, "probe.example")
		return e
	}
	for s, u := range after {
		if u != before[s] {
			e.undoSame = false
			e.note += fmt.Sprintf(" TakeMsg(%v) refused at the source scope (%v) left the ip bucket %q with users %d instead of %d;", ip, err, s, u, before[s])
		}
	}
	if _, ok := after[e.takeStr]; !ok {
		e.note += fmt.Sprintf(" take key differs between calls (%q not in %v);", e.takeStr, after)
		e.undoSame = false
	}
	return e
}

// Probe observes every address of the table once (idempotent).
func (k *IPKeys) Probe() {
	k.once.Do(func() {
		k.ent, k.byStr, k.rev = map[int]ipKeyEnt{}, map[string]int{}, map[string]int{}
		for _, id := range AllAddrIDs() {
			e := k.probe(id)
			if t, ok := k.byStr[e.takeStr]; ok && e.takeStr != "" {
				e.take = t
			} else {
				e.take = id
				if e.takeStr != "" {
					k.byStr[e.takeStr] = id
				}
			}
			e.undo, e.rel = e.take, e.take
			if !e.undoSame {
				e.undo = 5000 + id
			}
			if !e.relSam {
				e.rel = 6000 + id
			}
			k.ent[id] = e
			if _, ok := k.rev[string(Addr(id, k.v4))]; !ok {
				k.rev[string(Addr(id, k.v4))] = id
			}
		}
	})
}

// Entry: the key ids (take, roll-back, release) of an address; ids outside the table are their own key.
func (k *IPKeys) Entry(id int) (take, undo, rel int) {
	k.Probe()
	if e, ok := k.ent[id]; ok {
		return e.take, e.undo, e.rel
	}
	return id, id, id
}

// Unlawful describes how the key law is broken for the address ("" = TakeMsg, its roll-back and ReleaseMsg
// were observed to use the same bucket).
func (k *IPKeys) Unlawful(id int) string {
	k.Probe()
	e := k.ent[id]
	if e.undoSame && e.relSam {
		return ""
	}
	return strings.TrimSpace(e.note)
}

// Broken tells which of the two was observed to use another bucket than TakeMsg: the roll-back, ReleaseMsg.
func (k *IPKeys) Broken(id int) (undo, rel bool) {
	k.Probe()
	e := k.ent[id]
	return !e.undoSame, !e.relSam
}

// ProbeNotes lists anything unexpected seen while probing (lawful or not).
func (k *IPKeys) ProbeNotes() []string {
	k.Probe()
	var out []string
	for _, id := range AllAddrIDs() {
		if n := k.ent[id].note; n != "" {
			out = append(out, fmt.Sprintf("address %d (%v): %s", id, Addr(id, k.v4), strings.TrimSpace(n)))
		}
	}
	return out
}

// AddrID is the id of an address of the table (-1 = not in the table).
func (k *IPKeys) AddrID(ip net.IP) int {
	k.Probe()
	if id, ok := k.rev[string(ip)]; ok {
		return id
	}
	if v := ip.To4(); v != nil {
		if id, ok := k.rev[string(v)]; ok {
			return id
		}
	}
	if id, ok := k.rev[string(ip.To16())]; ok {
		return id
	}
	return -1
}

// KeyID names a key of the ip bucket table: the id under which the string was observed as a take key;
// 7000+x for the unobserved spelling of table address x; 8000 otherwise.
func (k *IPKeys) KeyID(key string) int {
	k.Probe()
	if id, ok := k.byStr[key]; ok {
		return id
	}
	if ip := net.ParseIP(key); ip != nil {
		if id := k.AddrID(ip); id >= 0 {
			return 7000 + id
		}
	}
	return 8000
}

// Tokens: the k.<addr>.<take>.<undo>.<rel> tokens for the addresses (only where not the identity), sorted.
func (k *IPKeys) Tokens(ids []int) []string {
	k.Probe()
	ids = append([]int{}, ids...)
	sort.Ints(ids)
	var out []string
	last := -1
	for _, id := range ids {
		if id == last {
			continue
		}
		last = id
		t, u, r := k.Entry(id)
		if t != id || u != id || r != id {
			out = append(out, fmt.Sprintf("k.%d.%d.%d.%d", id, t, u, r))
		}
	}
	return out
}

// StripKeyTokens removes k. tokens (they are re-observed on every run).
func StripKeyTokens(ops []string) []string {
	var out []string
	for _, o := range ops {
		if !strings.HasPrefix(o, "k.") {
			out = append(out, o)
		}
	}
	return out
}

// ---- domain spellings (strengthening round 7) ----
//
// Op lines of the remote-target harness name DOMAIN SPELLINGS by id (sender domain of Start, recipient domain of
// AddRcpt). One domain has many spellings; which string the code hands to the limits at each place is NOT assumed
// (the harness observes it, see c11DomKeys in the remote harness, and hands it to the model as j. tokens).
//
//	0            the empty sender
//	1..99        d<n>.example (as before)
//	100b+v       variant v of base domain b (1 bücher.example, 2 почта.испытание, 3 shop.example, 4 例え.jp):
//	             v = 0 U-label, lower case, NFC (the form endpoint/smtp hands over: address.CleanDomain)
//	                 1 A-label, lower case            2 U-label, other case       3 U-label with a trailing dot
//	                 4 A-label, upper case            5 U-label in NFD            6 A-label with a trailing dot
//	             (variants that would repeat another spelling of the base do not exist)
//	500..512     domains without a reachable MX: bad<n>.example; 508 = bäd508.example, 509 = its A-label
var domBases = map[int][3]string{
	1: {"b\u00fccher.example", "B\u00fccher.Example", "bu\u0308cher.example"},
	2: {"\u043f\u043e\u0447\u0442\u0430.\u0438\u0441\u043f\u044b\u0442\u0430\u043d\u0438\u0435", "\u041f\u043e\u0447\u0442\u0430.\u0418\u0441\u043f\u044b\u0442\u0430\u043d\u0438\u0435", ""},
	3: {"shop.example", "Shop.EXAMPLE", ""},
	4: {"\u4f8b\u3048.jp", "", ""},
}

func toA(s string) string {
	a, err := idna.ToASCII(s)
	if err != nil {
		return s
	}
	return a
}

// Dom is the spelling with the given id ("" also for ids that do not exist, see DomOK).
func Dom(id int) string {
	switch {
	case id <= 0:
		return ""
	case id < 100:
		return "d" + strconv.Itoa(id) + ".example"
	case id == 508:
		return "b\u00e4d508.example"
	case id == 509:
		return toA("b\u00e4d508.example")
	case id >= 500 && id < 600:
		return "bad" + strconv.Itoa(id) + ".example"
	}
	b, ok := domBases[id/100]
	if !ok {
		return ""
	}
	u := b[0]
	a := toA(u)
	switch id % 100 {
	case 0:
		return u
	case 1:
		if a != u {
			return a
		}
	case 2:
		return b[1]
	case 3:
		return u + "."
	case 4:
		if up := strings.ToUpper(a); up != a {
			return up
		}
	case 5:
		return b[2]
	case 6:
		if a != u {
			return a + "."
		}
	}
	return ""
}

// DomOK: the id names a spelling of the table.
func DomOK(id int) bool { return id == 0 || Dom(id) != "" }

// DomReachable: the harness's DNS has an MX for (every form of) the spelling.
func DomReachable(id int) bool { return DomOK(id) && id > 0 && !(id >= 500 && id < 600) }

// AllDomIDs lists the spelling ids of the table in ascending order (reachable ones, then 500..502, 508, 509).
func AllDomIDs() []int {
	var ids []int
	for i := 1; i <= 12; i++ {
		ids = append(ids, i)
	}
	for b := 1; b <= 4; b++ {
		for v := 0; v <= 6; v++ {
			if Dom(100*b+v) != "" {
				ids = append(ids, 100*b+v)
			}
		}
	}
	return append(ids, 500, 501, 502, 508, 509)
}

// DomClass names the kind of spelling (for the recorded distribution).
func DomClass(id int) string {
	switch {
	case id == 0:
		return "empty"
	case id == 508:
		return "bad-u"
	case id == 509:
		return "bad-a"
	case id < 100 || id >= 500:
		return "ascii"
	}
	ascii := toA(domBases[id/100][0]) == domBases[id/100][0]
	n := [...]string{"u", "a", "ucase", "udot", "acase", "nfd", "adot"}[id%100]
	if ascii {
		n = "ascii-" + n
	}
	return n
}

// DomForms: the spelling and the results of the usual normalisations of it (A-label, U-label, lower case, NFC,
// with and without the trailing dot) - what a DNS zone table must know so that a look-up succeeds whichever
// form the code asks for, and the candidate keys the key observation watches.
func DomForms(id int) []string {
	s := Dom(id)
	if s == "" {
		return nil
	}
	seen := map[string]bool{}
	var out []string
	add := func(x string) {
		for _, y := range []string{x, strings.TrimSuffix(x, "."), strings.TrimSuffix(x, ".") + "."} {
			if y != "" && y != "." && !seen[y] {
				seen[y] = true
				out = append(out, y)
			}
		}
	}
	add(s)
	for i := 0; i < len(out) && i < 64; i++ {
		x := out[i]
		add(strings.ToLower(x))
		add(norm.NFC.String(x))
		if a, err := idna.ToASCII(x); err == nil {
			add(a)
		}
		if a, err := idna.Lookup.ToASCII(x); err == nil {
			add(a)
		}
		if u, err := idna.ToUnicode(x); err == nil {
			add(u)
		}
		if u, err := idna.ToUnicode(strings.ToLower(x)); err == nil {
			add(u)
		}
	}
	return out
}

// DomPool draws n spelling ids: sometimes plain ASCII only (1..n, as before round 7), otherwise a mixture in
// which the U-label form of an internationalised domain, other spellings of the same domain (A-label, case,
// trailing dot, NFD), a second domain and a plain ASCII one occur.
func DomPool(intn func(int) int, n int) []int {
	pool := make([]int, 0, n)
	if intn(100) < 35 {
		for i := 1; i <= n; i++ {
			pool = append(pool, i)
		}
		return pool
	}
	has := func(x int) bool {
		for _, y := range pool {
			if y == x {
				return true
			}
		}
		return false
	}
	b1 := 1 + intn(4)
	b2 := 1 + (b1+intn(3))%4
	for tries := 0; len(pool) < n && tries < 200; tries++ {
		var x int
		switch c := intn(100); {
		case c < 30:
			x = 100 * b1 // the form the endpoint hands over
		case c < 60:
			x = 100*b1 + 1 + intn(6)
		case c < 75:
			x = 100*b2 + intn(7)
		default:
			x = 1 + intn(3)
		}
		if Dom(x) != "" && !has(x) {
			pool = append(pool, x)
		}
	}
	for i := 1; len(pool) < n; i++ {
		if !has(i) {
			pool = append(pool, i)
		}
	}
	return pool
}

// DomSiblings: every spelling of base domain b (1..4).
func DomSiblings(b int) []int {
	var ids []int
	for v := 0; v <= 6; v++ {
		if Dom(100*b+v) != "" {
			ids = append(ids, 100*b+v)
		}
	}
	return ids
}

// SetUsers reads key -> users of one bucket table of the group ("ip", "source", "dest"); nil when the scope is off.
func SetUsers(g *limits.Group, set string) map[string]int {
	p := field(reflect.ValueOf(g).Elem(), set)
	if p.IsNil() {
		return nil
	}
	out := map[string]int{}
	bs := p.Elem()
	lck := field(bs, "mLck").Addr().Interface().(interface {
		Lock()
		Unlock()
	})
	lck.Lock()
	defer lck.Unlock()
	it := bs.FieldByName("m").MapRange()
	for it.Next() {
		n := 0
		if u := it.Value().Elem().FieldByName("users"); u.IsValid() {
			n = int(u.Int())
		}
		out[it.Key().String()] = n
	}
	return out
}

// StripTokens removes the observed-key tokens (k. and j.: they are re-observed on every run).
func StripTokens(ops []string) []string {
	var out []string
	for _, o := range ops {
		if !strings.HasPrefix(o, "k.") && !strings.HasPrefix(o, "j.") {
			out = append(out, o)
		}
	}
	return out
}
