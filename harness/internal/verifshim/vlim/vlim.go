// Package vlim holds the helpers shared by the C11 harnesses (limits): building a
// limits.Group from the compact configuration token of the op lines, reading the
// occupancy of its limiters by reflection, and running a call under a context that
// is cancelled exactly when the calling goroutine is parked in a limiter wait.
// It exists only inside the test overlay.
package vlim

import (
	"context"
	"fmt"
	"reflect"
	"runtime"
	"sort"
	"strconv"
	"strings"
	"time"
	"unsafe"

	"github.com/foxcpp/maddy/framework/config"
	"github.com/foxcpp/maddy/internal/limits"
	"github.com/foxcpp/maddy/internal/limits/limiters"
)

// Lim is one directive: concurrency N (Sem) or rate N <1h>.
type Lim struct {
	Sem bool
	N   int
}

type Cfg struct {
	Scopes [4][]Lim // all, ip, source, destination
	Reap   int      // model units: <0 = every idle bucket is stale, otherwise never within a run
	MaxB   int
}

var ScopeNames = [4]string{"all", "ip", "source", "destination"}

func (c Cfg) String() string {
	var parts []string
	for _, sc := range c.Scopes {
		if len(sc) == 0 {
			parts = append(parts, "-")
			continue
		}
		var l []string
		for _, x := range sc {
			if x.Sem {
				l = append(l, "s"+strconv.Itoa(x.N))
			} else {
				l = append(l, "r"+strconv.Itoa(x.N))
			}
		}
		parts = append(parts, strings.Join(l, ","))
	}
	parts = append(parts, strconv.Itoa(c.Reap), strconv.Itoa(c.MaxB))
	return strings.Join(parts, "/")
}

func ParseCfg(s string) (Cfg, error) {
	var c Cfg
	f := strings.Split(s, "/")
	if len(f) != 6 {
		return c, fmt.Errorf("bad cfg %q", s)
	}
	for i := 0; i < 4; i++ {
		if f[i] == "-" {
			continue
		}
		for _, x := range strings.Split(f[i], ",") {
			if len(x) < 2 {
				return c, fmt.Errorf("bad lim %q", x)
			}
			n, err := strconv.Atoi(x[1:])
			if err != nil {
				return c, err
			}
			c.Scopes[i] = append(c.Scopes[i], Lim{Sem: x[0] == 's', N: n})
		}
	}
	var err error
	if c.Reap, err = strconv.Atoi(f[4]); err != nil {
		return c, err
	}
	if c.MaxB, err = strconv.Atoi(f[5]); err != nil {
		return c, err
	}
	return c, nil
}

// Bound returns the smallest positive concurrency configured for the scope (0 = unlimited).
func (c Cfg) Bound(scope int) int {
	b := 0
	for _, l := range c.Scopes[scope] {
		if l.Sem && l.N > 0 && (b == 0 || l.N < b) {
			b = l.N
		}
	}
	return b
}

// HasRate reports whether the scope has a rate limiter that can block.
func (c Cfg) HasRate(scope int) bool {
	for _, l := range c.Scopes[scope] {
		if !l.Sem && l.N > 0 {
			return true
		}
	}
	return false
}

// Nodes is the limits block as configuration nodes (rate interval 1h: no refill within a run).
func (c Cfg) Nodes() []config.Node {
	var out []config.Node
	// directives of the scopes interleaved the way a file could have them: order inside a scope is what matters
	for i, sc := range c.Scopes {
		for _, l := range sc {
			if l.Sem {
				out = append(out, config.Node{Name: ScopeNames[i], Args: []string{"concurrency", strconv.Itoa(l.N)}})
			} else {
				out = append(out, config.Node{Name: ScopeNames[i], Args: []string{"rate", strconv.Itoa(l.N), "1h"}})
			}
		}
	}
	return out
}

// NewGroup runs the real Group.Init on the configuration and applies Reap/MaxB to the bucket sets.
// A panic of Init is returned as an error with Panicked set.
func NewGroup(c Cfg) (g *limits.Group, panicked interface{}, err error) {
	defer func() {
		if r := recover(); r != nil {
			panicked = r
		}
	}()
	m, err := limits.New("limits", "verif", nil, nil)
	if err != nil {
		return nil, nil, err
	}
	g = m.(*limits.Group)
	if err := g.Init(config.NewMap(nil, config.Node{Children: c.Nodes()})); err != nil {
		return nil, nil, err
	}
	Tune(g, c.Reap, c.MaxB)
	return g, nil, nil
}

func field(v reflect.Value, name string) reflect.Value {
	f := v.FieldByName(name)
	if !f.IsValid() {
		return f
	}
	return reflect.NewAt(f.Type(), unsafe.Pointer(f.UnsafeAddr())).Elem()
}

// Tune sets ReapInterval / MaxBuckets of the three bucket sets.
func Tune(g *limits.Group, reap int, maxB int) {
	gv := reflect.ValueOf(g).Elem()
	for _, n := range []string{"ip", "source", "dest"} {
		p := field(gv, n)
		if p.IsNil() {
			continue
		}
		bs := p.Elem()
		d := time.Duration(reap) * time.Hour
		if reap < 0 {
			d = -1
		}
		bs.FieldByName("ReapInterval").Set(reflect.ValueOf(d))
		bs.FieldByName("MaxBuckets").Set(reflect.ValueOf(maxB))
	}
}

// AdvanceClock makes every bucket of the set look d older (the stand-in for the passage of time:
// BucketSet reads time.Now() itself).
func AdvanceClock(bs *limiters.BucketSet, d time.Duration) {
	v := reflect.ValueOf(bs).Elem()
	lck := field(v, "mLck").Addr().Interface().(interface {
		Lock()
		Unlock()
	})
	lck.Lock()
	defer lck.Unlock()
	it := v.FieldByName("m").MapRange()
	for it.Next() {
		b := it.Value().Elem()
		lu := b.FieldByName("lastUse")
		w := reflect.NewAt(lu.Type(), unsafe.Pointer(lu.UnsafeAddr())).Elem()
		w.Set(reflect.ValueOf(w.Interface().(time.Time).Add(-d)))
	}
}

// CloseGroup stops the refill goroutines of the group's rate limiters.
func CloseGroup(g *limits.Group) {
	defer func() { recover() }()
	gv := reflect.ValueOf(g).Elem()
	field(gv, "global").Addr().MethodByName("Close").Call(nil)
	for _, n := range []string{"ip", "source", "dest"} {
		p := field(gv, n)
		if !p.IsNil() {
			p.MethodByName("Close").Call(nil)
		}
	}
}

func chanLen(l reflect.Value) string {
	// l: interface value holding Semaphore, Rate or *MultiLimit
	for l.Kind() == reflect.Interface || l.Kind() == reflect.Ptr {
		if l.IsNil() {
			return "nil"
		}
		l = l.Elem()
	}
	switch l.Type().Name() {
	case "Semaphore":
		return strconv.Itoa(l.FieldByName("c").Len())
	case "Rate":
		return strconv.Itoa(l.FieldByName("bucket").Len())
	case "MultiLimit":
		return multi(l)
	}
	return "?" + l.Type().Name()
}

func multi(ml reflect.Value) string {
	w := ml.FieldByName("Wrapped")
	var out []string
	for i := 0; i < w.Len(); i++ {
		out = append(out, chanLen(w.Index(i)))
	}
	return strings.Join(out, ",")
}

// Snapshot prints the channel lengths of every limiter of the group in the canonical form of
// the Lean driver: A=<global>|I=<ip buckets>|S=<source>|D=<dest>, buckets as id:users:lens sorted by id.
// keyID maps (scope index, map key) to the numeric id used in op lines.
func Snapshot(g *limits.Group, keyID func(scope int, key string) int) string {
	gv := reflect.ValueOf(g).Elem()
	out := "A=" + multi(field(gv, "global"))
	for i, n := range []string{"ip", "source", "dest"} {
		out += "|" + string("ISD"[i]) + "=" + BucketSetString(field(gv, n), func(k string) int { return keyID(i+1, k) })
	}
	return out
}

// BucketSetString prints a *limiters.BucketSet (reflect value of the pointer).
func BucketSetString(p reflect.Value, keyID func(key string) int) string {
	if p.Kind() == reflect.Ptr && p.IsNil() {
		return "off"
	}
	bs := p
	if bs.Kind() == reflect.Ptr {
		bs = bs.Elem()
	}
	lck := field(bs, "mLck").Addr().Interface().(interface {
		Lock()
		Unlock()
	})
	lck.Lock()
	defer lck.Unlock()
	type ent struct {
		id int
		s  string
	}
	var ents []ent
	it := bs.FieldByName("m").MapRange()
	for it.Next() {
		k := it.Key().String()
		b := it.Value().Elem()
		users := "0"
		if u := b.FieldByName("users"); u.IsValid() {
			users = strconv.FormatInt(u.Int(), 10)
		}
		id := keyID(k)
		ents = append(ents, ent{id, fmt.Sprintf("%d:%s:%s", id, users, chanLen(b.FieldByName("r")))})
	}
	sort.Slice(ents, func(i, j int) bool { return ents[i].id < ents[j].id })
	var l []string
	for _, e := range ents {
		l = append(l, e.s)
	}
	return strings.Join(l, ";")
}

// Idle reports whether a snapshot shows no semaphore permit in use and no bucket user.
// Rate limiters (whose channel length is the number of tokens left) are skipped using the configuration.
func Idle(c Cfg, snap string) bool {
	parts := strings.Split(snap, "|")
	if len(parts) != 4 {
		return false
	}
	check := func(scope int, lens string) bool {
		if lens == "" {
			return true
		}
		f := strings.Split(lens, ",")
		for i, l := range c.Scopes[scope] {
			if i < len(f) && l.Sem && f[i] != "0" {
				return false
			}
		}
		return true
	}
	if !check(0, strings.TrimPrefix(parts[0], "A=")) {
		return false
	}
	for sc := 1; sc < 4; sc++ {
		body := parts[sc][2:]
		if body == "off" || body == "" {
			continue
		}
		for _, b := range strings.Split(body, ";") {
			f := strings.SplitN(b, ":", 3)
			if len(f) != 3 || f[1] != "0" || !check(sc, f[2]) {
				return false
			}
		}
	}
	return true
}

func goid() string {
	buf := make([]byte, 64)
	n := runtime.Stack(buf, false)
	f := strings.Fields(string(buf[:n]))
	if len(f) < 2 {
		return ""
	}
	return f[1]
}

// parkedInLimiter reports whether goroutine id is parked in a channel wait inside package limiters.
func parkedInLimiter(id string) bool {
	buf := make([]byte, 1<<16)
	for {
		n := runtime.Stack(buf, true)
		if n < len(buf) {
			buf = buf[:n]
			break
		}
		buf = make([]byte, 2*len(buf))
	}
	s := string(buf)
	hdr := "goroutine " + id + " ["
	i := strings.Index(s, hdr)
	if i < 0 {
		return false
	}
	sec := s[i:]
	if j := strings.Index(sec, "\n\n"); j >= 0 {
		sec = sec[:j]
	}
	state := sec[len(hdr):]
	if j := strings.Index(state, "]"); j >= 0 {
		state = state[:j]
	}
	if !(strings.HasPrefix(state, "select") || strings.HasPrefix(state, "chan send") || strings.HasPrefix(state, "chan receive")) {
		return false
	}
	// the innermost user frame must be a limiter method
	lines := strings.Split(sec, "\n")
	for _, l := range lines[1:] {
		if strings.HasPrefix(l, "\t") {
			continue
		}
		if strings.HasPrefix(l, "runtime.") {
			continue
		}
		return strings.Contains(l, "internal/limits/limiters.")
	}
	return false
}

// RunCtx runs fn on a new goroutine with a context that is cancelled as soon as (and only when)
// that goroutine is parked in a limiter wait: the deterministic stand-in for "the limit timed out".
func RunCtx(parent context.Context, fn func(ctx context.Context) error) (err error, cancelled bool, panicked interface{}) {
	ctx, cancel := context.WithCancel(parent)
	defer cancel()
	type res struct {
		err error
		p   interface{}
	}
	done := make(chan res, 1)
	idc := make(chan string, 1)
	go func() {
		idc <- goid()
		var r res
		defer func() {
			if p := recover(); p != nil {
				r.p = p
			}
			done <- r
		}()
		r.err = fn(ctx)
	}()
	id := <-idc
	wait := 50 * time.Microsecond
	deadline := time.Now().Add(120 * time.Second)
	for {
		select {
		case r := <-done:
			return r.err, cancelled, r.p
		case <-time.After(wait):
		}
		if !cancelled && parkedInLimiter(id) {
			cancelled = true
			cancel()
		}
		if wait < 2*time.Millisecond {
			wait *= 2
		}
		if time.Now().After(deadline) {
			return fmt.Errorf("vlim.RunCtx: call did not finish"), cancelled, nil
		}
	}
}
