package vc03

// Reading the REAL state of a limits.Group (C03: "every rate or concurrency permit taken for the
// transaction is returned").  The group's scopes and the bucket maps are unexported: they are read by
// reflection, so that every bucket that exists is seen, whatever key it was created under (the public
// API can only probe keys the prober already knows).  A change of the layout makes these helpers panic
// with a message naming the missing field: the harness then fails loudly instead of seeing nothing.

import (
	"fmt"
	"reflect"
	"sort"
	"strings"
	"sync"
	"time"
	"unsafe"

	"github.com/foxcpp/maddy/internal/limits"
	"github.com/foxcpp/maddy/internal/limits/limiters"
)

// LimBucket is one limiter set: the global one (Scope "all", Key "") or one bucket of a keyed scope.
type LimBucket struct {
	Scope string // all, ip, source, destination
	Key   string
	Users int   // BucketSet bookkeeping: Take calls waiting or successful and not yet released
	Sems  []int // permits in use, per concurrency limiter of the scope (configuration order)
	Rates []int // tokens left, per rate limiter of the scope
}

// InUse is the number of permits of the bucket that are still out.
func (b LimBucket) InUse() int {
	n := b.Users
	for _, s := range b.Sems {
		if s > n {
			n = s
		}
	}
	return n
}

func (b LimBucket) String() string {
	return fmt.Sprintf("%s[%q]: users=%d semaphores=%v", b.Scope, b.Key, b.Users, b.Sems)
}

func limField(v reflect.Value, name string) reflect.Value {
	f := v.FieldByName(name)
	if !f.IsValid() {
		panic("vc03: no field " + name + " in " + v.Type().String() + " (the layout of the limiters changed: update harness/internal/verifshim/vc03/limits.go)")
	}
	return reflect.NewAt(f.Type(), unsafe.Pointer(f.UnsafeAddr())).Elem()
}

var limScopes = [3][2]string{{"ip", "ip"}, {"source", "source"}, {"dest", "destination"}}

// LimSnapshot reads every limiter set of the group: the global one first, then the buckets of the keyed
// scopes sorted by key.  Scopes that are not configured contribute nothing.
func LimSnapshot(g *limits.Group) []LimBucket {
	gv := reflect.ValueOf(g).Elem()
	var out []LimBucket
	gl := LimBucket{Scope: "all"}
	limLensRO(limField(gv, "global"), &gl)
	out = append(out, gl)
	for _, sc := range limScopes {
		bs := limField(gv, sc[0]).Interface().(*limiters.BucketSet)
		if bs == nil {
			continue
		}
		bv := reflect.ValueOf(bs).Elem()
		lck := limField(bv, "mLck").Addr().Interface().(sync.Locker)
		lck.Lock()
		var bl []LimBucket
		it := bv.FieldByName("m").MapRange()
		for it.Next() {
			b := LimBucket{Scope: sc[1], Key: it.Key().String()}
			e := it.Value()
			for e.Kind() == reflect.Ptr {
				e = e.Elem()
			}
			b.Users = int(limField2(e, "users").Int())
			r := limField2(e, "r")
			if !r.IsNil() {
				// the limiter itself is only read
				limLensRO(r.Elem(), &b)
			}
			bl = append(bl, b)
		}
		lck.Unlock()
		sort.Slice(bl, func(i, j int) bool { return bl[i].Key < bl[j].Key })
		out = append(out, bl...)
	}
	return out
}

// limField2 reads a field of a value that is not addressable (map elements): read-only access.
func limField2(v reflect.Value, name string) reflect.Value {
	f := v.FieldByName(name)
	if !f.IsValid() {
		panic("vc03: no field " + name + " in " + v.Type().String() + " (the layout of the limiters changed: update harness/internal/verifshim/vc03/limits.go)")
	}
	return f
}

// limLensRO reads the occupancy of a limiter through a (possibly read-only) reflect value.
func limLensRO(v reflect.Value, b *LimBucket) {
	for v.Kind() == reflect.Ptr || v.Kind() == reflect.Interface {
		if v.IsNil() {
			return
		}
		v = v.Elem()
	}
	switch v.Type().Name() {
	case "MultiLimit":
		w := limField2(v, "Wrapped")
		for i := 0; i < w.Len(); i++ {
			limLensRO(w.Index(i), b)
		}
	case "Semaphore":
		c := limField2(v, "c")
		if c.Cap() > 0 {
			b.Sems = append(b.Sems, c.Len())
		}
	case "Rate":
		c := limField2(v, "bucket")
		if c.Cap() > 0 {
			b.Rates = append(b.Rates, c.Len())
		}
	default:
		panic("vc03: unknown limiter type " + v.Type().String())
	}
}

// LimHeld sums the permits still out per scope: all, ip, source.
func LimHeld(snap []LimBucket) (all, ip, source int) {
	for _, b := range snap {
		switch b.Scope {
		case "all":
			all += b.InUse()
		case "ip":
			ip += b.InUse()
		case "source":
			source += b.InUse()
		}
	}
	return
}

// LimBusy lists the limiter sets that still have a permit out.
func LimBusy(snap []LimBucket) []LimBucket {
	var out []LimBucket
	for _, b := range snap {
		if b.InUse() != 0 {
			out = append(out, b)
		}
	}
	return out
}

func LimString(snap []LimBucket) string {
	var p []string
	for _, b := range snap {
		p = append(p, b.String())
	}
	return strings.Join(p, "; ")
}

// LimClose stops the refill goroutines of the group's rate limiters (Group has no Close of its own).
func LimClose(g *limits.Group) {
	defer func() { recover() }()
	gv := reflect.ValueOf(g).Elem()
	limField(gv, "global").Addr().Interface().(*limiters.MultiLimit).Close()
	for _, sc := range limScopes {
		if bs := limField(gv, sc[0]).Interface().(*limiters.BucketSet); bs != nil {
			bs.Close()
		}
	}
}

// LimTune gives the keyed scopes of the group a small bucket table and the given reap interval (the real
// constructor fixes them at 20010 buckets / 1 minute; both are exported fields of limiters.BucketSet).
func LimTune(g *limits.Group, reap time.Duration, maxBuckets int) {
	gv := reflect.ValueOf(g).Elem()
	for _, sc := range limScopes {
		if bs := limField(gv, sc[0]).Interface().(*limiters.BucketSet); bs != nil {
			bs.ReapInterval = reap
			bs.MaxBuckets = maxBuckets
		}
	}
}

// LimAdvance is the passage of d of (virtual) time for the bucket tables: BucketSet reads time.Now() itself,
// so every bucket is made to look d older instead.
func LimAdvance(g *limits.Group, d time.Duration) {
	gv := reflect.ValueOf(g).Elem()
	for _, sc := range limScopes {
		bs := limField(gv, sc[0]).Interface().(*limiters.BucketSet)
		if bs == nil {
			continue
		}
		bv := reflect.ValueOf(bs).Elem()
		lck := limField(bv, "mLck").Addr().Interface().(sync.Locker)
		lck.Lock()
		it := bv.FieldByName("m").MapRange()
		for it.Next() {
			lu := limField(it.Value().Elem(), "lastUse")
			lu.Set(reflect.ValueOf(lu.Interface().(time.Time).Add(-d)))
		}
		lck.Unlock()
	}
}

// LimBuckets counts the buckets of the ip and source scopes.
func LimBuckets(snap []LimBucket) (ip, source int) {
	for _, b := range snap {
		switch b.Scope {
		case "ip":
			ip++
		case "source":
			source++
		}
	}
	return
}
