package vc03

// Scripted one-to-many recipient modifiers of the fan-out family of the C03 harness (op lines `C03 x`): one
// instance per rewriting stage of msgpipelineDelivery.AddRcpt (global, source block, destination block), each
// with a table address -> list of addresses that is fixed for the whole session (set before the client connects).

import (
	"context"
	"sync"

	"github.com/emersion/go-message/textproto"
	"github.com/foxcpp/maddy/framework/buffer"
	"github.com/foxcpp/maddy/framework/config"
	"github.com/foxcpp/maddy/framework/module"
)

// XTabs holds the tables of the current scenario, per stage ("g", "s", "d").
type XTabs struct {
	mu  sync.Mutex
	tab map[string]map[string][]string
	// Calls counts RewriteRcpt calls per stage
	Calls map[string]int
}

func (x *XTabs) Set(tab map[string]map[string][]string) {
	x.mu.Lock()
	x.tab = tab
	x.Calls = map[string]int{}
	x.mu.Unlock()
}

func (x *XTabs) lookup(stage, addr string) []string {
	x.mu.Lock()
	defer x.mu.Unlock()
	if x.Calls != nil {
		x.Calls[stage]++
	}
	res, ok := x.tab[stage][addr]
	if !ok {
		return []string{addr}
	}
	if stage == "s" {
		// the stored slice itself, like a static table hands out: nobody may write to it
		return res
	}
	// a fresh slice per call, like a table look-up makes; spare capacity varies with the address
	out := make([]string, len(res), len(res)+len(addr)%3)
	copy(out, res)
	return out
}

type XMod struct {
	Stage string
	T     *XTabs
}

func (m *XMod) Init(*config.Map) error { return nil }
func (m *XMod) Name() string           { return "vc03x" }
func (m *XMod) InstanceName() string   { return "vc03x_" + m.Stage }

type xState struct{ m *XMod }

func (m *XMod) ModStateForMsg(ctx context.Context, msgMeta *module.MsgMetadata) (module.ModifierState, error) {
	return xState{m}, nil
}

func (s xState) RewriteSender(ctx context.Context, from string) (string, error) { return from, nil }
func (s xState) RewriteRcpt(ctx context.Context, to string) ([]string, error) {
	return s.m.T.lookup(s.m.Stage, to), nil
}
func (s xState) RewriteBody(ctx context.Context, h *textproto.Header, b buffer.Buffer) error {
	return nil
}
func (s xState) Close() error { return nil }
