// Package vc03 holds the scripted pipeline members of the C03 harness: delivery targets wrapped in a
// typestate monitor, a scripted check, a scripted modifier and a fixed-credential auth provider.
//
// Every member derives its behaviour from the arguments it is called with (faults are encoded in the
// MAIL FROM / RCPT TO local parts and in the X-Vc03 header field), never from harness-side state, so
// pipelined commands cannot race with the fault plan.
//
//	sender     s-<cls>-<flags>-<S><C><A>-<n>@<domain>      cls t|p; flags subset of "csiw" or "0";
//	                                                       S/C/A = bit masks (targets whose Start / Commit / Abort fails)
//	recipient  r<id>-<cls>-<flags>-<mask>-<n>@d<j>.example flags subset of "cm" or "0"; mask = targets whose AddRcpt fails
//	alias      r<id>-<cls>-<flags>-<mask>-<n>-<a1|a2|b1>@d<j>.example   rewritten by the modifier (see Rewrite): a2 -> a1,
//	                                                       a1 -> the mailbox, b1 -> the mailbox, each step into the NEXT domain
//	header     X-Vc03: <cls>-<flags>-<B>-P<ids>            flags subset of "cm" or "0"; B = targets whose Body fails;
//	                                                       ids = recipient ids refused by partial targets (LMTP)
package vc03

import (
	"context"
	"errors"
	"fmt"
	"strconv"
	"strings"
	"sync"

	"github.com/emersion/go-message/textproto"
	"github.com/emersion/go-smtp"
	"github.com/foxcpp/maddy/framework/buffer"
	"github.com/foxcpp/maddy/framework/config"
	"github.com/foxcpp/maddy/framework/exterrors"
	"github.com/foxcpp/maddy/framework/module"
)

// Stage numbers: the reply code of an injected failure is <4|5><stage>, so replies identify the failing stage.
const (
	StCheckConn   = 11
	StCheckSender = 12
	StModInit     = 13
	StModSender   = 14
	StCheckRcpt   = 21
	StModRcpt     = 22
	StTgtStart    = 30 // + target
	StTgtRcpt     = 40 // + target
	StCheckBody   = 81
	StModBody     = 82
	StTgtBody     = 60 // + target
	StTgtCommit   = 70 // + target
	StTgtAbort    = 90 // + target
	StTgtPartial  = 64 // + target (per-recipient status of a partial target)
)

func Err(cls byte, stage int) error {
	c := 5
	if cls == 't' {
		c = 4
	}
	return &exterrors.SMTPError{
		Code:         c*100 + stage,
		EnhancedCode: exterrors.EnhancedCode{c, 0, 0},
		Message:      "injected failure",
	}
}

// ---------------------------------------------------------------- fault decoding

type SenderF struct {
	Cls     byte
	Flags   string
	S, C, A int
}

func ParseSender(addr string) SenderF {
	f := SenderF{Cls: 'p'}
	at := strings.IndexByte(addr, '@')
	if at < 0 {
		return f
	}
	p := strings.Split(addr[:at], "-")
	if len(p) < 4 || p[0] != "s" || len(p[1]) != 1 || len(p[3]) != 3 {
		return f
	}
	f.Cls = p[1][0]
	if p[2] != "0" {
		f.Flags = p[2]
	}
	f.S, f.C, f.A = int(p[3][0]-'0'), int(p[3][1]-'0'), int(p[3][2]-'0')
	return f
}

type RcptF struct {
	ID    int
	Cls   byte
	Flags string
	Mask  int
}

func ParseRcpt(addr string) RcptF {
	f := RcptF{ID: -1, Cls: 'p'}
	at := strings.IndexByte(addr, '@')
	if at < 0 {
		return f
	}
	// the fault fields are read from the local part as the client spelled it; the spelling suffix of the <n> field
	// (upper case, NFD, a space, ...) is not looked at
	p := strings.Split(addr[:at], "-")
	if len(p) < 4 || len(p[0]) < 2 || p[0][0] != 'r' || len(p[1]) != 1 {
		return f
	}
	id, err := strconv.Atoi(p[0][1:])
	if err != nil {
		return f
	}
	f.ID = id
	f.Cls = p[1][0]
	if p[2] != "0" {
		f.Flags = p[2]
	}
	f.Mask, _ = strconv.Atoi(p[3])
	return f
}

type BodyF struct {
	Cls   byte
	Flags string
	B     int
	P     map[int]bool
}

func ParseBody(h textproto.Header) BodyF {
	f := BodyF{Cls: 'p', P: map[int]bool{}}
	p := strings.Split(strings.TrimSpace(h.Get("X-Vc03")), "-")
	if len(p) != 4 || len(p[0]) != 1 || !strings.HasPrefix(p[3], "P") {
		return f
	}
	f.Cls = p[0][0]
	if p[1] != "0" {
		f.Flags = p[1]
	}
	f.B, _ = strconv.Atoi(p[2])
	for _, c := range p[3][1:] {
		f.P[int(c-'0')] = true
	}
	return f
}

// ---------------------------------------------------------------- event log

// Log collects what the pipeline members saw, in call order, for one session.
type Log struct {
	mu      sync.Mutex
	seq     int
	Dels    []*Del   // every delivery object ever started, in Start order
	Fan     []FanEv  // global order of Body / Commit / Abort calls (the map iteration order of the fan-outs)
	Global  []string // check / modifier stage failures, in order
	Started [3]int   // Start calls per target (including failed ones)
}

type FanEv struct {
	Kind byte // B, N, C, A
	Tgt  int
	Del  *Del
}

// Ev is one call on a delivery.
type Ev struct {
	Op   byte   // R AddRcpt, B Body, N BodyNonAtomic, C Commit, A Abort
	OK   bool   // result
	Addr string // R: the address; N: "id=0|1,..." statuses
	Seq  int
}

// Del is one delivery object of a scripted target together with its typestate.
type Del struct {
	Meta     *module.MsgMetadata // identifies the pipeline delivery (transaction) this one belongs to
	Tgt      int
	From     string
	Partial  bool
	Evs      []Ev
	Closes   int  // Commit + Abort calls
	UseAfter int  // calls after the first closing call
	BodyOK   bool // body stage completed successfully (atomic)
	BodySeen bool
	Status   map[string]bool // partial: per address result of BodyNonAtomic
	Commit   int             // 0 not called, 1 ok, 2 failed
}

func (l *Log) Reset() {
	l.mu.Lock()
	defer l.mu.Unlock()
	l.seq = 0
	l.Dels = nil
	l.Fan = nil
	l.Global = nil
	l.Started = [3]int{}
}

func (l *Log) global(s string) {
	l.mu.Lock()
	l.Global = append(l.Global, s)
	l.mu.Unlock()
}

// ---------------------------------------------------------------- target

type Target struct {
	Idx     int
	Partial bool
	L       *Log
	Inst    string // instance name (default vc03t<Idx>): a second family of targets with a log of its own
}

func (t *Target) Init(*config.Map) error { return nil }
func (t *Target) Name() string           { return "vc03_target" }
func (t *Target) InstanceName() string {
	if t.Inst != "" {
		return t.Inst
	}
	return fmt.Sprintf("vc03t%d", t.Idx)
}

type delivery struct {
	t *Target
	d *Del
	f SenderF
}

type partialDelivery struct{ *delivery }

func (t *Target) Start(ctx context.Context, msgMeta *module.MsgMetadata, mailFrom string) (module.Delivery, error) {
	f := ParseSender(msgMeta.OriginalFrom)
	t.L.mu.Lock()
	defer t.L.mu.Unlock()
	t.L.Started[t.Idx]++
	if f.S&(1<<t.Idx) != 0 {
		return nil, Err(f.Cls, StTgtStart+t.Idx)
	}
	d := &Del{Meta: msgMeta, Tgt: t.Idx, From: mailFrom, Partial: t.Partial, Status: map[string]bool{}}
	t.L.Dels = append(t.L.Dels, d)
	dl := &delivery{t: t, d: d, f: f}
	if t.Partial {
		return partialDelivery{dl}, nil
	}
	return dl, nil
}

func (dl *delivery) ev(op byte, ok bool, addr string) {
	l := dl.t.L
	l.seq++
	if dl.d.Closes > 0 {
		dl.d.UseAfter++
	}
	dl.d.Evs = append(dl.d.Evs, Ev{Op: op, OK: ok, Addr: addr, Seq: l.seq})
	if op == 'C' || op == 'A' {
		dl.d.Closes++
	}
	if op != 'R' {
		l.Fan = append(l.Fan, FanEv{Kind: op, Tgt: dl.t.Idx, Del: dl.d})
	}
}

func (dl *delivery) AddRcpt(ctx context.Context, to string, _ smtp.RcptOptions) error {
	f := ParseRcpt(to)
	dl.t.L.mu.Lock()
	defer dl.t.L.mu.Unlock()
	if f.Mask&(1<<dl.t.Idx) != 0 {
		dl.ev('R', false, to)
		return Err(f.Cls, StTgtRcpt+dl.t.Idx)
	}
	dl.ev('R', true, to)
	return nil
}

func (dl *delivery) rcpts() []string {
	var out []string
	for _, e := range dl.d.Evs {
		if e.Op == 'R' && e.OK {
			out = append(out, e.Addr)
		}
	}
	return out
}

func (dl *delivery) Body(ctx context.Context, header textproto.Header, body buffer.Buffer) error {
	f := ParseBody(header)
	dl.t.L.mu.Lock()
	defer dl.t.L.mu.Unlock()
	dl.d.BodySeen = true
	if f.B&(1<<dl.t.Idx) != 0 {
		dl.ev('B', false, "")
		return Err(f.Cls, StTgtBody+dl.t.Idx)
	}
	dl.d.BodyOK = true
	dl.ev('B', true, "")
	return nil
}

func (dl partialDelivery) BodyNonAtomic(ctx context.Context, sc module.StatusCollector, header textproto.Header, body buffer.Buffer) {
	f := ParseBody(header)
	dl.t.L.mu.Lock()
	rc := dl.rcpts()
	var st []string
	res := make([]error, len(rc))
	allOK := true
	for i, a := range rc {
		rf := ParseRcpt(a)
		if f.B&(1<<dl.t.Idx) != 0 || f.P[rf.ID] {
			res[i] = Err(f.Cls, StTgtPartial+dl.t.Idx)
			allOK = false
			st = append(st, fmt.Sprintf("%d=0", rf.ID))
			if _, seen := dl.d.Status[a]; !seen {
				dl.d.Status[a] = false
			}
		} else {
			st = append(st, fmt.Sprintf("%d=1", rf.ID))
			dl.d.Status[a] = true
		}
	}
	dl.d.BodySeen = true
	dl.d.BodyOK = allOK
	dl.ev('N', allOK, strings.Join(st, ","))
	dl.t.L.mu.Unlock()
	// outside the lock: the collector of the endpoint may panic
	for i, a := range rc {
		sc.SetStatus(a, res[i])
	}
}

func (dl *delivery) Commit(ctx context.Context) error {
	dl.t.L.mu.Lock()
	defer dl.t.L.mu.Unlock()
	if dl.f.C&(1<<dl.t.Idx) != 0 {
		dl.d.Commit = 2
		dl.ev('C', false, "")
		return Err(dl.f.Cls, StTgtCommit+dl.t.Idx)
	}
	if dl.d.Commit == 0 {
		dl.d.Commit = 1
	}
	dl.ev('C', true, "")
	return nil
}

func (dl *delivery) Abort(ctx context.Context) error {
	dl.t.L.mu.Lock()
	defer dl.t.L.mu.Unlock()
	if dl.f.A&(1<<dl.t.Idx) != 0 {
		dl.ev('A', false, "")
		return Err(dl.f.Cls, StTgtAbort+dl.t.Idx)
	}
	dl.ev('A', true, "")
	return nil
}

// ---------------------------------------------------------------- check

type Check struct{ L *Log }

func (c *Check) Init(*config.Map) error { return nil }
func (c *Check) Name() string           { return "vc03_check" }
func (c *Check) InstanceName() string   { return "vc03chk" }

type checkState struct {
	c *Check
	f SenderF
}

func (c *Check) CheckStateForMsg(ctx context.Context, msgMeta *module.MsgMetadata) (module.CheckState, error) {
	return &checkState{c: c, f: ParseSender(msgMeta.OriginalFrom)}, nil
}

func rej(err error) module.CheckResult { return module.CheckResult{Reason: err, Reject: true} }

func (s *checkState) CheckConnection(ctx context.Context) module.CheckResult {
	if strings.Contains(s.f.Flags, "c") {
		s.c.L.global("check-conn")
		return rej(Err(s.f.Cls, StCheckConn))
	}
	return module.CheckResult{}
}

func (s *checkState) CheckSender(ctx context.Context, from string) module.CheckResult {
	if strings.Contains(s.f.Flags, "s") {
		s.c.L.global("check-sender")
		return rej(Err(s.f.Cls, StCheckSender))
	}
	return module.CheckResult{}
}

func (s *checkState) CheckRcpt(ctx context.Context, to string) module.CheckResult {
	f := ParseRcpt(to)
	if strings.Contains(f.Flags, "c") {
		s.c.L.global("check-rcpt")
		return rej(Err(f.Cls, StCheckRcpt))
	}
	return module.CheckResult{}
}

func (s *checkState) CheckBody(ctx context.Context, h textproto.Header, b buffer.Buffer) module.CheckResult {
	f := ParseBody(h)
	if strings.Contains(f.Flags, "c") {
		s.c.L.global("check-body")
		return rej(Err(f.Cls, StCheckBody))
	}
	return module.CheckResult{}
}

func (s *checkState) Close() error { return nil }

// ---------------------------------------------------------------- modifier

type Modifier struct{ L *Log }

func (m *Modifier) Init(*config.Map) error { return nil }
func (m *Modifier) Name() string           { return "vc03_modifier" }
func (m *Modifier) InstanceName() string   { return "vc03mod" }

type modState struct {
	m *Modifier
	f SenderF
}

func (m *Modifier) ModStateForMsg(ctx context.Context, msgMeta *module.MsgMetadata) (module.ModifierState, error) {
	f := ParseSender(msgMeta.OriginalFrom)
	if strings.Contains(f.Flags, "i") {
		m.L.global("mod-init")
		return nil, Err(f.Cls, StModInit)
	}
	return &modState{m: m, f: f}, nil
}

func (s *modState) RewriteSender(ctx context.Context, from string) (string, error) {
	if strings.Contains(s.f.Flags, "w") {
		s.m.L.global("mod-sender")
		return "", Err(s.f.Cls, StModSender)
	}
	return from, nil
}

func (s *modState) RewriteRcpt(ctx context.Context, to string) ([]string, error) {
	f := ParseRcpt(to)
	if strings.Contains(f.Flags, "m") {
		s.m.L.global("mod-rcpt")
		return nil, Err(f.Cls, StModRcpt)
	}
	return []string{Rewrite(to)}, nil
}

// Rewrite is the rewrite table of the scripted modifier, a function of the address alone: an alias form
// r…-<n>-a2@d<j> is rewritten to r…-<n>-a1@d<j+1>, r…-<n>-a1@d<j> and r…-<n>-b1@d<j> to the mailbox r…-<n>@d<j+1>
// (domains d0..d2, cyclically); everything else stays as it is.  The fault fields are kept, so a target sees
// the same faults under the effective address; the destination block is the one of the effective domain.
func Rewrite(addr string) string {
	at := strings.LastIndexByte(addr, '@')
	if at < 0 {
		return addr
	}
	p := strings.Split(addr[:at], "-")
	j := DomIdx(addr[at+1:])
	if len(p) != 6 || len(p[0]) < 2 || p[0][0] != 'r' || j < 0 {
		return addr
	}
	lp := strings.Join(p[:5], "-")
	switch p[5] {
	case "a2":
		lp += "-a1"
	case "a1", "b1":
	default:
		return addr
	}
	return fmt.Sprintf("%s@d%d.example", lp, (j+1)%3)
}

// DomIdx is the index j of a routed domain in the form the endpoint hands to the pipeline (lower case, U-label):
// d<j>.example or its second name dé<j>.example, with or without the trailing dot of an absolute name; -1 otherwise.
func DomIdx(dom string) int {
	dom = strings.TrimSuffix(dom, ".")
	for j := 0; j < 3; j++ {
		if dom == fmt.Sprintf("d%d.example", j) || dom == fmt.Sprintf("d\u00e9%d.example", j) {
			return j
		}
	}
	return -1
}

func (s *modState) RewriteBody(ctx context.Context, h *textproto.Header, b buffer.Buffer) error {
	f := ParseBody(*h)
	if strings.Contains(f.Flags, "m") {
		s.m.L.global("mod-body")
		return Err(f.Cls, StModBody)
	}
	return nil
}

func (s *modState) Close() error { return nil }

// ---------------------------------------------------------------- auth

type Auth struct{ User, Pass string }

func (a Auth) Init(*config.Map) error { return nil }
func (a Auth) Name() string           { return "vc03_auth" }
func (a Auth) InstanceName() string   { return "vc03auth" }
func (a Auth) AuthPlain(u, p string) error {
	if u == a.User && p == a.Pass {
		return nil
	}
	return errors.New("vc03: wrong credentials")
}

func (l *Log) Lock()   { l.mu.Lock() }
func (l *Log) Unlock() { l.mu.Unlock() }
