// Package vdsn holds what the two C18 harnesses (internal/dsn and internal/target/queue) share:
// an independent parser of failure reports built on Go's stdlib (net/mail, mime, mime/multipart,
// net/textproto — no go-message), the canonical rendering of a parsed report for the
// correspondence with the Lean model, the well-formedness evaluation of the property, the
// library of original headers and address spellings, and the table of IDNA conversions shipped
// to the model.
package vdsn

import (
	"bufio"
	"bytes"
	"fmt"
	"io"
	"mime"
	"mime/multipart"
	"net/mail"
	"net/textproto"
	"regexp"
	"sort"
	"strings"

	gmtextproto "github.com/emersion/go-message/textproto"
	"github.com/foxcpp/maddy/framework/dns"
	"github.com/foxcpp/maddy/internal/verifshim/vh"
	"golang.org/x/net/idna"
	"golang.org/x/text/unicode/norm"
)

// ---------------------------------------------------------------- text canonicalisation

// CanonWs collapses runs of space/tab and trims: header folding and unfolding preserve exactly that.
func CanonWs(s string) string {
	return strings.Join(strings.FieldsFunc(s, func(r rune) bool { return r == ' ' || r == '\t' }), " ")
}

func hx(s string) string { return vh.HexRunes(CanonWs(s)) }

// ---------------------------------------------------------------- parsed report

type Group = textproto.MIMEHeader

type Parsed struct {
	Top        mail.Header
	MediaType  string
	Params     map[string]string
	PartTypes  []string // media types of the parts, in order
	PartHdrs   []textproto.MIMEHeader
	PartBodies [][]byte
	HumanTail  string
	Mta        Group
	Rcpts      []Group
	OrigHdr    []byte // content of the third part
	Problems   []string
}

func (p *Parsed) problem(f string, a ...interface{}) {
	p.Problems = append(p.Problems, fmt.Sprintf(f, a...))
}

var statusRe = regexp.MustCompile(`^[0-9]\.[0-9]{1,3}\.[0-9]{1,3}$`)

// Parse parses the complete message (header + body) of a failure report and evaluates its
// well-formedness as a multipart/report (RFC 6522) carrying a delivery status (RFC 3464 / 6533).
// utf8 says whether the failed message was an SMTPUTF8 one.
func Parse(msg []byte, utf8 bool) *Parsed {
	p := &Parsed{}
	m, err := mail.ReadMessage(bytes.NewReader(msg))
	if err != nil {
		p.problem("top-level header does not parse: %v", err)
		return p
	}
	p.Top = m.Header
	if v := m.Header.Get("Mime-Version"); strings.TrimSpace(v) != "1.0" {
		p.problem("MIME-Version is %q", v)
	}
	if _, err := m.Header.Date(); err != nil {
		p.problem("Date: %v", err)
	}
	if v := m.Header.Get("Message-Id"); !strings.HasPrefix(v, "<") || !strings.HasSuffix(v, ">") || !strings.Contains(v, "@") {
		p.problem("Message-Id is %q", v)
	}
	if m.Header.Get("From") == "" {
		p.problem("no From")
	}
	if len(m.Header["To"]) != 1 {
		p.problem("%d To fields", len(m.Header["To"]))
	}
	if v := strings.ToLower(m.Header.Get("Auto-Submitted")); v == "" || v == "no" {
		p.problem("Auto-Submitted is %q", v)
	}
	mt, params, err := mime.ParseMediaType(m.Header.Get("Content-Type"))
	if err != nil {
		p.problem("Content-Type does not parse: %v", err)
		return p
	}
	p.MediaType, p.Params = mt, params
	if mt != "multipart/report" {
		p.problem("top-level media type is %q", mt)
	}
	if params["report-type"] != "delivery-status" {
		p.problem("report-type is %q", params["report-type"])
	}
	if params["boundary"] == "" {
		p.problem("no boundary")
		return p
	}
	if cte := strings.ToLower(m.Header.Get("Content-Transfer-Encoding")); cte != "" && cte != "7bit" && cte != "8bit" && cte != "binary" {
		p.problem("multipart with Content-Transfer-Encoding %q", cte)
	}
	mr := multipart.NewReader(m.Body, params["boundary"])
	for {
		part, err := mr.NextRawPart()
		if err == io.EOF {
			break
		}
		if err != nil {
			p.problem("multipart structure: %v", err)
			return p
		}
		b, err := io.ReadAll(part)
		if err != nil {
			p.problem("multipart structure (part body): %v", err)
			return p
		}
		pt, _, err := mime.ParseMediaType(part.Header.Get("Content-Type"))
		if err != nil {
			p.problem("part %d Content-Type: %v", len(p.PartTypes)+1, err)
			pt = "?"
		}
		p.PartTypes = append(p.PartTypes, pt)
		p.PartHdrs = append(p.PartHdrs, part.Header)
		p.PartBodies = append(p.PartBodies, b)
	}
	if len(p.PartTypes) != 3 {
		p.problem("%d body parts", len(p.PartTypes))
		if len(p.PartTypes) < 2 {
			return p
		}
	}
	// part 1: human-readable
	if !strings.HasPrefix(p.PartTypes[0], "text/") {
		p.problem("first part is %q", p.PartTypes[0])
	}
	h := string(p.PartBodies[0])
	if i := strings.Index(h, "Last delivery attempt: "); i >= 0 {
		if j := strings.Index(h[i:], "\n\n"); j >= 0 {
			p.HumanTail = h[i+j+2:]
		}
	}
	// part 2: delivery status
	wantStatus := "message/delivery-status"
	wantHdrs := "text/rfc822-headers"
	wantAT := "rfc822"
	if utf8 {
		wantStatus, wantHdrs, wantAT = "message/global-delivery-status", "message/global-headers", "utf8"
	}
	if p.PartTypes[1] != wantStatus {
		p.problem("second part is %q, want %q", p.PartTypes[1], wantStatus)
	}
	if !utf8 {
		for _, c := range p.PartBodies[1] {
			if c >= 0x80 {
				p.problem("message/delivery-status carries non-ASCII bytes")
				break
			}
		}
	}
	tr := textproto.NewReader(bufio.NewReader(bytes.NewReader(p.PartBodies[1])))
	first := true
	for {
		g, err := tr.ReadMIMEHeader()
		if err != nil && len(g) == 0 {
			if err != io.EOF {
				p.problem("delivery-status fields: %v", err)
			}
			break
		}
		if first {
			p.Mta = g
			first = false
		} else {
			p.Rcpts = append(p.Rcpts, g)
		}
		if err != nil {
			if err != io.EOF {
				p.problem("delivery-status fields: %v", err)
			}
			break
		}
	}
	if p.Mta == nil {
		p.problem("no per-message fields")
	} else {
		if v := p.Mta["Reporting-Mta"]; len(v) != 1 || !strings.HasPrefix(v[0], "dns;") || strings.TrimSpace(v[0][4:]) == "" {
			p.problem("Reporting-MTA is %q", v)
		}
	}
	if len(p.Rcpts) == 0 {
		p.problem("no per-recipient group")
	}
	for i, g := range p.Rcpts {
		if v := g["Final-Recipient"]; len(v) != 1 {
			p.problem("recipient group %d: %d Final-Recipient fields", i+1, len(v))
		} else if t, a := SplitTyped(v[0]); t != wantAT || a == "" {
			p.problem("recipient group %d: Final-Recipient %q (want type %s)", i+1, v[0], wantAT)
		}
		if v := g["Action"]; len(v) != 1 {
			p.problem("recipient group %d: %d Action fields", i+1, len(v))
		} else {
			switch strings.ToLower(strings.TrimSpace(v[0])) {
			case "failed", "delayed", "delivered", "relayed", "expanded":
			default:
				p.problem("recipient group %d: Action %q", i+1, v[0])
			}
		}
		if v := g["Status"]; len(v) != 1 {
			p.problem("recipient group %d: %d Status fields", i+1, len(v))
		} else if !statusRe.MatchString(strings.TrimSpace(v[0])) {
			p.problem("recipient group %d: Status %q", i+1, v[0])
		}
		if v := g["Diagnostic-Code"]; len(v) > 1 {
			p.problem("recipient group %d: %d Diagnostic-Code fields", i+1, len(v))
		} else if len(v) == 1 && !strings.Contains(v[0], ";") {
			p.problem("recipient group %d: Diagnostic-Code %q has no type", i+1, v[0])
		}
	}
	// part 3: original header
	if len(p.PartTypes) >= 3 {
		if p.PartTypes[2] != wantHdrs {
			p.problem("third part is %q, want %q", p.PartTypes[2], wantHdrs)
		}
		p.OrigHdr = p.PartBodies[2]
		if _, err := ParseHeaderBytes(p.OrigHdr); err != nil {
			p.problem("third part does not parse as a header: %v", err)
		}
	}
	// line lengths
	for _, l := range bytes.Split(msg, []byte("\n")) {
		if len(l) > 999 {
			p.problem("line of %d bytes", len(l))
			break
		}
	}
	return p
}

// SplitTyped splits "type; value".
func SplitTyped(v string) (string, string) {
	i := strings.Index(v, ";")
	if i < 0 {
		return "", strings.TrimSpace(v)
	}
	return strings.ToLower(strings.TrimSpace(v[:i])), strings.TrimSpace(v[i+1:])
}

// ParseHeaderBytes parses header bytes (fields, then an optional empty line) with net/textproto;
// returns the sorted list of "Key: value" (values unfolded, whitespace-canonical).
func ParseHeaderBytes(b []byte) ([]string, error) {
	if len(bytes.TrimSpace(b)) == 0 {
		return nil, nil
	}
	if !bytes.HasSuffix(b, []byte("\r\n\r\n")) {
		b = append(append([]byte{}, b...), []byte("\r\n\r\n")...)
	}
	h, err := textproto.NewReader(bufio.NewReader(bytes.NewReader(b))).ReadMIMEHeader()
	if err != nil && err != io.EOF {
		return nil, err
	}
	var out []string
	for k, vs := range h {
		for _, v := range vs {
			out = append(out, k+": "+CanonWs(v))
		}
	}
	sort.Strings(out)
	return out, nil
}

func one(g Group, k string) (string, bool) {
	v := g[textproto.CanonicalMIMEHeaderKey(k)]
	if len(v) == 0 {
		return "", false
	}
	return strings.Join(v, "\x00"), true
}

func opt(g Group, k string) string {
	v, ok := one(g, k)
	if !ok {
		return "_"
	}
	_, val := SplitTyped(v)
	if !strings.Contains(v, ";") {
		val = v
	}
	return hx(val)
}

// DiagCanon renders a Diagnostic-Code value: smtp:<code>:<a.b.c>:<hex text> | xmaddy:<hex> | other:<hex>.
func DiagCanon(v string) string {
	t, rest := SplitTyped(v)
	switch t {
	case "smtp":
		f := strings.SplitN(CanonWs(rest), " ", 3)
		for len(f) < 3 {
			f = append(f, "")
		}
		return "smtp:" + f[0] + ":" + f[1] + ":" + vh.HexRunes(f[2])
	case "x-maddy":
		return "xmaddy:" + hx(rest)
	}
	return "other:" + hx(v)
}

// Canon renders the parsed report the way the Lean driver prints the model's report.
// mid is the message-id as the caller wants it compared; hdrID the identifier of the original
// header the third part was recognised as ("?" if none).
func (p *Parsed) Canon(utf8 bool, mid string, hdrID string) string {
	var b strings.Builder
	u := "0"
	if utf8 {
		u = "1"
	}
	fmt.Fprintf(&b, "rep utf8=%s mid=%s to=%s from=%s parts=%s", u, hx(mid), hx(p.Top.Get("To")), hx(p.Top.Get("From")), strings.Join(p.PartTypes, "|"))
	if p.Mta != nil {
		xs := "_"
		if v, ok := one(p.Mta, "X-Maddy-Sender"); ok {
			t, a := SplitTyped(v)
			xs = t + ":" + hx(a)
		}
		dates := "0"
		_, a := one(p.Mta, "Arrival-Date")
		_, l := one(p.Mta, "Last-Attempt-Date")
		if a && l {
			dates = "1"
		} else if a || l {
			dates = "half"
		}
		xid := "_"
		if v, ok := one(p.Mta, "X-Maddy-MsgID"); ok {
			xid = hx(v)
		}
		fmt.Fprintf(&b, " mta=rm:%s,rcvd:%s,xs:%s,xid:%s,dates:%s", opt(p.Mta, "Reporting-MTA"), opt(p.Mta, "Received-From-MTA"), xs, xid, dates)
	} else {
		b.WriteString(" mta=NONE")
	}
	fmt.Fprintf(&b, " n=%d", len(p.Rcpts))
	for _, g := range p.Rcpts {
		fr, _ := one(g, "Final-Recipient")
		t, a := SplitTyped(fr)
		act, _ := one(g, "Action")
		st, _ := one(g, "Status")
		dg := "_"
		if v, ok := one(g, "Diagnostic-Code"); ok {
			dg = DiagCanon(v)
		}
		fmt.Fprintf(&b, " r=%s;%s;%s;%s;%s;%s", t, hx(a), hx(act), strings.TrimSpace(st), dg, opt(g, "Remote-MTA"))
	}
	fmt.Fprintf(&b, " human=%s hdr=%s", vh.HexRunes(p.HumanTail), hdrID)
	return b.String()
}

// ---------------------------------------------------------------- original headers

// rawHeaders: as received from the wire (parsed by go-message, so written back byte for byte).
var rawHeaders = []string{
	"",
	"Subject: hello\r\n",
	"From: Sender <sender@example.com>\r\nTo: a@example.org, b@example.org\r\nSubject: test message\r\nDate: Tue, 29 Sep 2026 10:00:00 +0000\r\nMessage-Id: <abc@example.com>\r\n",
	"Received: from a.example (a.example [192.0.2.1])\r\n\tby mx.example.org with ESMTP id 12345\r\n\tfor <x@example.org>; Tue, 29 Sep 2026 10:00:00 +0000\r\nReceived: from b.example by a.example; Tue, 29 Sep 2026 09:59:00 +0000\r\nSubject: folded\r\n subject line\r\n",
	"Subject: =?utf-8?q?caf=C3=A9?=\r\nX-Long: " + strings.Repeat("word ", 60) + "end\r\n",
	"Subject: Привет, мир\r\nFrom: Отправитель <юзер@пример.example>\r\n",
	"X-Dup: one\r\nX-Dup: two\r\nX-Empty:\r\nsubject: lower-case key\r\n",
	"DKIM-Signature: v=1; a=rsa-sha256; d=example.com; s=sel;\r\n\tbh=47DEQpj8HBSa+/TImW+5JCeuQeRkm5NMpJWZG3hSuFU=;\r\n\th=From:To:Subject; b=" + strings.Repeat("QUJD", 40) + "\r\nFrom: a@example.com\r\n",
}

// NumHeaders is the number of distinct original headers; ids 0..NumHeaders-1.
// Headers with id ≥ len(rawHeaders) have fields added through Header.Add on top of a raw one
// (what the pipeline does with Received / Authentication-Results).
func NumHeaders() int { return len(rawHeaders) + 3 }

// Header builds original header number id.
func Header(id int) gmtextproto.Header {
	base := id
	if id >= len(rawHeaders) {
		base = (id - len(rawHeaders)) + 1
	}
	h, err := gmtextproto.ReadHeader(bufio.NewReader(strings.NewReader(rawHeaders[base] + "\r\n")))
	if err != nil {
		panic(err)
	}
	if id >= len(rawHeaders) {
		h.Add("Authentication-Results", "mx.example.org; spf=pass smtp.mailfrom=example.com; dkim=none")
		h.Add("Received", "from client.example (client.example [198.51.100.7]) by mx.example.org (envelope-sender <sender@example.com>) with ESMTPS id abcdef; Tue, 29 Sep 2026 10:00:00 +0000")
		if id == len(rawHeaders)+2 {
			h.Add("X-Long-Added", strings.Repeat("x", 200)+" "+strings.Repeat("y", 90))
		}
	}
	return h
}

// HeaderFields is the independent view of original header id: it is serialised by go-message (the
// only way to get at it) and parsed back with net/textproto.
func HeaderFields(id int) []string {
	var buf bytes.Buffer
	if err := gmtextproto.WriteHeader(&buf, Header(id)); err != nil {
		panic(err)
	}
	f, err := ParseHeaderBytes(buf.Bytes())
	if err != nil {
		panic(fmt.Sprintf("header %d: %v", id, err))
	}
	return f
}

// RecogniseHeader returns the id of the original header whose fields equal those in part ("?" if none).
func RecogniseHeader(part []byte, candidates ...int) string {
	got, err := ParseHeaderBytes(part)
	if err != nil {
		return "?"
	}
	if len(candidates) == 0 {
		for i := 0; i < NumHeaders(); i++ {
			candidates = append(candidates, i)
		}
	}
	for _, id := range candidates {
		want := HeaderFields(id)
		if len(want) == len(got) {
			eq := true
			for i := range want {
				if want[i] != got[i] {
					eq = false
				}
			}
			if eq {
				return fmt.Sprint(id)
			}
		}
	}
	return "?"
}

// ---------------------------------------------------------------- addresses

// Address spellings, in three groups: forms a client can use without SMTPUTF8 (ASCII local part),
// forms only an SMTPUTF8 client can use (non-ASCII local part), strings that do not convert.
//
//	 0 ASCII                      1 upper-case ASCII            2 A-label domain
//	 3 U-label domain             4 quoted local part           5 long local part
//	 6 mixed-case local part and domain
//	 7 non-ASCII local part       8 non-ASCII local part and U-label domain
//	 9 local part NOT in NFC: combining sequence (e + U+0301)
//	10 local part NOT in NFC: singleton U+212B ANGSTROM SIGN
//	11 compatibility character (U+FB03 ligature; NFC keeps it, NFKC would not)
//	12 full-width letter + U-label domain
//	13 quoted, mixed-case, decomposed local part
//	14 conjoining Hangul jamo (NFC composes a syllable) + A-label domain
//	15 mixed case with U+00DF, U+0130 (case folding is not 1:1) + upper-case domain
//	16 no at-sign (malformed)     17 bad A-label
//
// The local part is opaque (RFC 5321 2.3.11, RFC 6531 3.2): whatever the report type does to the
// domain, every one of these local parts has to come back byte for byte.
var addrForms = []string{
	"u%d@example.org", "U%d@EXAMPLE.ORG", "user%d@xn--e1afmkfd.example", "user%d@пример.example",
	"\"a b%d\"@example.org", "very.long.local.part.that.goes.on.and.on.and.on.for.quite.a.while.%d@a-rather-long-domain-name.example.org",
	"Mixed.Case%d@Example.ORG",
	"юзер%d@example.org", "üser%d@пример.example",
	"e\u0301milie%d@example.com", "\u212bngstrom%d@example.org", "o\ufb03ce%d@example.org",
	"\uff55ser%d@пример.example", "\"Zoe\u0308 Q%d\"@example.org", "\u1112\u1161\u11abgul%d@xn--e1afmkfd.example",
	"Stra\u00dfe.\u0130MiXed%d@EXAMPLE.ORG",
	"noat%d", "u%d@xn--0.example",
}

const (
	NumASCIILocalForms = 7  // forms 0..6 can be used by a client without SMTPUTF8
	NumDeliverable     = 16 // forms 0..15 are proper addresses
	NumForms           = 18 // 16, 17 do not convert
)

// NonNFCLocal: the local part of the form changes under Unicode normalisation (NFC).
func NonNFCLocal(addr string) bool {
	i := strings.LastIndex(addr, "@")
	if i < 0 {
		return false
	}
	return norm.NFC.String(addr[:i]) != addr[:i]
}

// LocalPartKept: shown (an address as a report prints it) has exactly the local part of used (the
// address as the sender wrote it) — byte for byte; the domain is not looked at.  The domain-less
// postmaster is its own local part.
func LocalPartKept(shown, used string) bool {
	i, j := strings.LastIndex(shown, "@"), strings.LastIndex(used, "@")
	if i < 0 || j < 0 {
		return shown == used
	}
	return shown[:i] == used[:j]
}

func Addr(form, n int) string { return fmt.Sprintf(addrForms[form], n) }

// SameMailbox: the two spellings name the same mailbox — equal local parts and domains that are
// equal after conversion to Unicode, NFC and case folding (independent of maddy's address package).
func SameMailbox(a, b string) bool {
	if a == b {
		return true
	}
	i, j := strings.LastIndex(a, "@"), strings.LastIndex(b, "@")
	if i < 0 || j < 0 {
		return false
	}
	if a[:i] != b[:j] {
		return false
	}
	da, _ := idna.ToUnicode(strings.ToLower(a[i+1:]))
	db, _ := idna.ToUnicode(strings.ToLower(b[j+1:]))
	return strings.ToLower(norm.NFC.String(da)) == strings.ToLower(norm.NFC.String(db))
}

// ---------------------------------------------------------------- IDNA table for the model

// Table renders what the LIBRARY would answer for the strings of the case (hex runes, ! = error):
//
//	pa:<domain>:<out|!>  idna.ToASCII(domain)                       (non-SMTPUTF8 flavour)
//	pu:<domain>:<out|!>  norm.NFC.String(idna.ToUnicode(domain))    (SMTPUTF8 flavour)
//	d:<in>:<out|!>       dns.SelectIDNA(utf8, in)
//
// for the domain (everything after the last at-sign) of every address.  The address conversion
// itself (address.Split / ToASCII / ToUnicode / SelectIDNA) is NOT asked of the real code: the
// model mirrors it, so a change of what it does to the local part shows as a divergence.
func Table(utf8 bool, addrs []string, doms []string) string {
	seen := map[string]bool{}
	var out []string
	for _, a := range addrs {
		i := strings.LastIndex(a, "@")
		if i < 0 || i == len(a)-1 {
			continue
		}
		dom := a[i+1:]
		if seen["p"+dom] {
			continue
		}
		seen["p"+dom] = true
		var r string
		var err error
		k := "pa:"
		if utf8 {
			k = "pu:"
			r, err = idna.ToUnicode(dom)
			r = norm.NFC.String(r)
		} else {
			r, err = idna.ToASCII(dom)
		}
		o := vh.HexRunes(r)
		if err != nil {
			o = "!"
		}
		out = append(out, k+vh.HexRunes(dom)+":"+o)
	}
	for _, d := range doms {
		if d == "" || seen["d"+d] {
			continue
		}
		seen["d"+d] = true
		r, err := dns.SelectIDNA(utf8, d)
		o := vh.HexRunes(r)
		if err != nil {
			o = "!"
		}
		out = append(out, "d:"+vh.HexRunes(d)+":"+o)
	}
	if len(out) == 0 {
		return "-"
	}
	return strings.Join(out, ",")
}

// GenErrName maps the error text of dsn.GenerateDSN to the model's GenErr constructor.
func GenErrName(msg string) string {
	switch {
	case strings.Contains(msg, "Reporting-MTA field is mandatory"):
		return "mtaMissing"
	case strings.Contains(msg, "cannot convert Reporting-MTA"):
		return "mtaConv"
	// (no case for "cannot convert Received-From-MTA": since the fix "a client HELO name that cannot
	// be converted ..." the optional field is left out, it is not a refusal any more - such an
	// error text would be an "other(...)" one: a report lost on complete input)
	case strings.Contains(msg, "cannot convert X-Maddy-Sender"):
		return "senderConv"
	case strings.Contains(msg, "Final-Recipient is required"):
		return "rcptMissing"
	case strings.Contains(msg, "cannot convert Final-Recipient"):
		return "rcptConv"
	case strings.Contains(msg, "Action is required"):
		return "actionMissing"
	case strings.Contains(msg, "Status is required"):
		return "statusMissing"
	case strings.Contains(msg, "cannot convert Remote-MTA"):
		return "remoteConv"
	}
	return "other(" + msg + ")"
}

// ---------------------------------------------------------------- spellings of one mailbox (round 9)

// NumRespell is the number of spelling transformations Respell knows.
const NumRespell = 11

func cutAddr(addr string) (string, string, bool) {
	i := strings.LastIndex(addr, "@")
	if i <= 0 || i == len(addr)-1 {
		return "", "", false
	}
	return addr[:i], addr[i+1:], true
}

// Respell returns another SPELLING of the same mailbox (what a canonicalising table, an alias file
// storing lower-case addresses, a normalising modifier hands back): transformation k, or - when it
// leaves the string as it is - the next one that changes it.  The result differs byte-wise from
// addr; "" if addr is not of the form local@domain.
//
//	0 lower-case local part      1 upper-case local part     2 lower-case domain
//	3 upper-case domain          4 local part NFC            5 local part NFD
//	6 domain as A-labels         7 domain as U-labels        8 trailing dot added / removed
//	9 whole address lower-case  10 whole address upper-case
func Respell(addr string, k int) string {
	l, d, ok := cutAddr(addr)
	if !ok {
		return ""
	}
	for i := 0; i < NumRespell; i++ {
		var out string
		switch (k + i) % NumRespell {
		case 0:
			out = strings.ToLower(l) + "@" + d
		case 1:
			out = strings.ToUpper(l) + "@" + d
		case 2:
			out = l + "@" + strings.ToLower(d)
		case 3:
			out = l + "@" + strings.ToUpper(d)
		case 4:
			out = norm.NFC.String(l) + "@" + d
		case 5:
			out = norm.NFD.String(l) + "@" + d
		case 6:
			if a, err := idna.ToASCII(d); err == nil {
				out = l + "@" + a
			}
		case 7:
			if u, err := idna.ToUnicode(d); err == nil {
				out = l + "@" + norm.NFC.String(u)
			}
		case 8:
			if strings.HasSuffix(d, ".") {
				out = l + "@" + strings.TrimSuffix(d, ".")
			} else {
				out = l + "@" + d + "."
			}
		case 9:
			out = strings.ToLower(addr)
		case 10:
			out = strings.ToUpper(addr)
		}
		if _, d2, ok2 := cutAddr(out); out != "" && out != addr && ok2 && d2 != "" {
			return out
		}
	}
	return ""
}

// ShownAs: addr as a report of the given flavour legitimately shows it in an address field: the
// local part as it is, the domain in the form the report type requires (library conversion,
// independent of maddy's address package); "" if it cannot be shown.
func ShownAs(utf8 bool, addr string) string {
	l, d, ok := cutAddr(addr)
	if !ok {
		return ""
	}
	if utf8 {
		u, err := idna.ToUnicode(d)
		if err != nil {
			return ""
		}
		return l + "@" + norm.NFC.String(u)
	}
	a, err := idna.ToASCII(d)
	if err != nil {
		return ""
	}
	return l + "@" + a
}

// MentionsOutside: msg contains needle at a place that is not (part of) an occurrence of one of
// the strings in allowed.
func MentionsOutside(msg []byte, needle string, allowed []string) bool {
	if needle == "" || !bytes.Contains(msg, []byte(needle)) {
		return false
	}
	covered := make([]bool, len(msg))
	for _, a := range allowed {
		if a == "" {
			continue
		}
		for off := 0; ; {
			i := bytes.Index(msg[off:], []byte(a))
			if i < 0 {
				break
			}
			for j := off + i; j < off+i+len(a); j++ {
				covered[j] = true
			}
			off += i + 1
		}
	}
	for off := 0; ; {
		i := bytes.Index(msg[off:], []byte(needle))
		if i < 0 {
			return false
		}
		for j := off + i; j < off+i+len(needle); j++ {
			if !covered[j] {
				return true
			}
		}
		off += i + 1
	}
}

// ---------------------------------------------------------------- error texts (round 9)

// NastyTexts: texts a remote server's reply (or a wrapped Go error) can carry: bare CR, CR CR LF,
// LF CR, NUL and the other C0 controls, DEL, C1 / Unicode line separators, leading / trailing
// white space, white space only, long single lines, long multi-line replies.  (A single line stays
// below 900 octets: the human-readable part copies the text raw, RFC 5322's 998 limit is another
// matter.)
var NastyTexts = []string{
	"bare\rCR", "CR CR LF\r\r\nnext line", "LF CR\n\rnext line", "\rleading CR", "trailing CR\r", "\r", "\n", "\r\n", "\n\n\n", "\r\r",
	"a\rb\rc\rd", "mixed\r\n\r\n\rend\n",
	"NUL\x00inside", "\x00", "bell\x07 backspace\x08 vt\x0b ff\x0c esc\x1b[31m us\x1f soh\x01", "DEL\x7f here", "\x7f",
	"  leading blanks", "trailing blanks   ", "\tleading tab", "trailing tab\t", " ", "   ", " \t ",
	"C1 NEL\u0085 and LS\u2028 and PS\u2029 stay", "много\rстрок\nтекста\x00 и ещё",
	strings.Repeat("one long line of an error text ", 22) + "end",
	"word of 300 octets " + strings.Repeat("x", 300) + " end",
	strings.Repeat(strings.Repeat("reply line ", 40)+"\r\n", 6) + "last",
	"421-style\r\n continuation with leading blank\r\n\tand tab",
}

// FlatText: the text of an error as a field value can carry it: line breaks - CR and LF in any
// combination - and every other control character except the horizontal tab shown as a space.
// (Compare modulo white space runs: CanonWs.)
func FlatText(s string) string {
	return strings.Map(func(c rune) rune {
		if (c < 0x20 && c != '\t') || c == 0x7f {
			return ' '
		}
		return c
	}, s)
}

// ASCIIText: FlatText for a report that is limited to US-ASCII.
func ASCIIText(s string) string {
	return strings.Map(func(c rune) rune {
		if c >= 0x80 {
			return '?'
		}
		return c
	}, FlatText(s))
}

// HasCtl: s has a control character other than CR, LF, HT.
func HasCtl(s string) bool {
	for _, c := range s {
		if (c < 0x20 && c != '\t' && c != '\r' && c != '\n') || c == 0x7f {
			return true
		}
	}
	return false
}

// BareCR: s has a CR that is not directly followed by LF.
func BareCR(s string) bool {
	for i := 0; i < len(s); i++ {
		if s[i] == '\r' && (i+1 >= len(s) || s[i+1] != '\n') {
			return true
		}
	}
	return false
}

// LooseEqual: two spellings of one mailbox in the widest sense (letter case and normalisation form
// of the local part, letter case / label form / trailing dot of the domain ignored).  Statistics only.
func LooseEqual(a, b string) bool {
	la, da, ok1 := cutAddr(a)
	lb, db, ok2 := cutAddr(b)
	if !ok1 || !ok2 {
		return false
	}
	fold := func(d string) string {
		u, _ := idna.ToUnicode(strings.ToLower(d))
		return strings.TrimSuffix(strings.ToLower(norm.NFC.String(u)), ".")
	}
	return strings.ToLower(norm.NFC.String(la)) == strings.ToLower(norm.NFC.String(lb)) && fold(da) == fold(db)
}
