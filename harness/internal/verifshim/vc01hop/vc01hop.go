// Package vc01hop is the misbehaving next hop of the C01 composition harness: a hand-written
// SMTP/LMTP responder that can fail in the middle of a session (at MAIL, in the RCPT phase after k
// accepted recipients, at DATA / after the final dot, at RSET/QUIT) by answering 4xx/5xx, by
// answering 421 and closing, by closing or resetting the connection without an answer, or by
// going silent.  It records, as ground truth, the recipients of every transaction it acknowledged
// with 250 after the final dot.
//
// "Going silent" is made independent of the wall clock: the client side dials through
// Registry.Dialer, and the responder expires the read deadline of the client's end of the
// connection at the moment it decides to stall, so the client sees a genuine time-out error
// (net.Error, Timeout() == true) at once instead of after CommandTimeout.
package vc01hop

import (
	"bufio"
	"context"
	"errors"
	"fmt"
	"io"
	"net"
	"strings"
	"sync"
	"time"
)

// Script is the behaviour of the hop during one delivery attempt.  Action letters:
//
//	o  no fault
//	t  4xx reply, session continues        p  5xx reply, session continues
//	x  552 reply, session continues (RFC 5321 4.5.3.1.10: clients treat it as 452)
//	c  421 reply, then the connection is closed
//	d  connection closed without a reply   r  connection reset without a reply
//	s  no reply ever again on this connection (stall until the client times out)
//	T/P (DATA only) 4xx/5xx reply to the DATA command itself instead of 354
type Script struct {
	MailN    int            // the first MailN MAIL commands of the attempt get MailAct
	MailAct  byte           //
	Limit    int            // per-transaction recipient limit (-1 = none) ...
	LimitAct byte           // ... and what RCPT gets once Limit recipients were accepted
	Rej      map[string]int // recipient as it appears on the wire -> reply code of its RCPT
	DataAct  byte           // after the final dot (SMTP) / T,P: to the DATA command
	Status   map[string]int // LMTP: recipient as on the wire -> per-recipient reply code after the final dot
	Drop     int            // LMTP: number of per-recipient replies sent before the connection is dropped (-1 = all)
	QuitAct  byte           // reply to RSET and QUIT

	// Not the hop's doing, but part of the attempt: what is wrong with the spooled body the target
	// is given (the harness wraps the buffer, see FaultBuffer).
	// Enh: how the enhanced status code of every 4xx/5xx reply of this attempt reads (the basic code
	// stays what the action letter says): 0 or 'a' agreeing with the basic code (as written in the
	// reply tables), 'n' absent, '2' '4' '5' that class (2.0.0 4.2.2 5.1.1), '0' 0.1.1, '1' 1.1.1,
	// '9' 9.0.0, 'm' -1.-1.-1, 'k' <class>.1000.1
	Enh byte

	BodyOpen     bool // Open fails
	BodyK        int  // the reader fails after BodyK octets (-1 = it does not fail)
	BodyTogether bool // the error is returned together with the last octets
}

func NewScript() *Script {
	return &Script{MailAct: 'o', Limit: -1, LimitAct: 'o', Rej: map[string]int{}, DataAct: 'o', Status: map[string]int{}, Drop: -1, QuitAct: 'o', BodyK: -1}
}

// HasBodyFault: is the body of this attempt disturbed?
func (s *Script) HasBodyFault() bool { return s.BodyOpen || s.BodyK >= 0 }

// ErrInjected is the I/O error of a disturbed body.
var ErrInjected = errors.New("c01: injected spool read error")

// FaultBuffer is a message body that cannot be read to the end (buffer.Buffer).
type FaultBuffer struct {
	Data     []byte
	OpenErr  bool
	K        int
	Together bool
}

func (b FaultBuffer) Open() (io.ReadCloser, error) {
	if b.OpenErr {
		return nil, ErrInjected
	}
	k := b.K
	if k > len(b.Data) {
		k = len(b.Data)
	}
	return &faultReader{data: b.Data[:k], together: b.Together}, nil
}
func (b FaultBuffer) Len() int      { return len(b.Data) }
func (b FaultBuffer) Remove() error { return nil }

type faultReader struct {
	data     []byte
	together bool
	off      int
}

func (f *faultReader) Read(p []byte) (int, error) {
	if f.off >= len(f.data) {
		return 0, ErrInjected
	}
	n := copy(p, f.data[f.off:])
	f.off += n
	if f.together && f.off >= len(f.data) {
		return n, ErrInjected
	}
	return n, nil
}

func (f *faultReader) Close() error { return nil }

// Restyle rewrites the enhanced status code of a reply line "<code> <x.y.z> text".
func Restyle(reply string, style byte) string {
	f := strings.SplitN(reply, " ", 3)
	if len(f) != 3 || style == 0 || style == 'a' {
		return reply
	}
	var ec string
	switch style {
	case 'n':
		return f[0] + " " + f[2]
	case '2':
		ec = "2.0.0"
	case '4':
		ec = "4.2.2"
	case '5':
		ec = "5.1.1"
	case '0':
		ec = "0.1.1"
	case '1':
		ec = "1.1.1"
	case '9':
		ec = "9.0.0"
	case 'm':
		ec = "-1.-1.-1"
	case 'k':
		ec = f[0][:1] + ".1000.1"
	default:
		return reply
	}
	return f[0] + " " + ec + " " + f[2]
}

// Event: a reply of the hop that concerns one recipient (ground truth for "never re-attempted
// after a permanent failure"): Stage "rcpt" (the reply to its RCPT command, 250 included), "data"
// (the reply to DATA / after the final dot of a transaction it was accepted in), "status" (its LMTP
// status).  Code 0 = the hop did not answer (connection closed, reset, silence).  Epoch = number of
// the attempt (Install calls so far, 1-based).
type Event struct {
	Epoch int
	Rcpt  string
	Stage string
	Code  int
}

// Shared is what the listeners of one case have in common.
type Shared struct {
	mu     sync.Mutex
	epoch  int
	Events []Event
	script *Script
	Acked  [][]string // recipients (as received) of each acknowledged transaction; LMTP: one entry per 250
	// AckedTx[i] = number of the message transfer (one per final dot, over all hops) Acked[i] belongs to:
	// an address listed twice in ONE transfer (two RCPT commands, LMTP: two 250 replies) got the message once
	AckedTx []int
	dataSeq int
	Cmds    map[string]int
	Reg     *Registry
}

func NewShared() *Shared {
	return &Shared{script: NewScript(), Cmds: map[string]int{}, Reg: NewRegistry()}
}

type Hop struct {
	sh    *Shared
	l     net.Listener
	lmtp  bool
	utf8  bool
	mails int
	wg    sync.WaitGroup
	conns map[net.Conn]bool
}

// Install sets the script of the next attempt and restarts the per-attempt MAIL counters.
func (sh *Shared) Install(s *Script, hops ...*Hop) {
	sh.mu.Lock()
	defer sh.mu.Unlock()
	sh.script = s
	sh.epoch++
	for _, h := range hops {
		h.mails = 0
	}
}

// EventLog returns the per-recipient replies so far.
func (sh *Shared) EventLog() []Event {
	sh.mu.Lock()
	defer sh.mu.Unlock()
	return append([]Event{}, sh.Events...)
}

func (sh *Shared) event(rcpt, stage string, code int) {
	sh.mu.Lock()
	sh.Events = append(sh.Events, Event{sh.epoch, rcpt, stage, code})
	sh.mu.Unlock()
}

func replyCode(reply string) int {
	n := 0
	for i := 0; i < 3 && i < len(reply); i++ {
		n = n*10 + int(reply[i]-'0')
	}
	return n
}

func (sh *Shared) Snapshot() (acked [][]string, cmds map[string]int) {
	sh.mu.Lock()
	defer sh.mu.Unlock()
	cmds = map[string]int{}
	for k, v := range sh.Cmds {
		cmds[k] = v
	}
	return append([][]string{}, sh.Acked...), cmds
}

// Transfers: per recipient (as received) the number of distinct message transfers acknowledged for it.
func (sh *Shared) Transfers() map[string]int {
	sh.mu.Lock()
	defer sh.mu.Unlock()
	seen := map[string]map[int]bool{}
	for i, tx := range sh.Acked {
		for _, a := range tx {
			if seen[a] == nil {
				seen[a] = map[int]bool{}
			}
			seen[a][sh.AckedTx[i]] = true
		}
	}
	out := map[string]int{}
	for a, m := range seen {
		out[a] = len(m)
	}
	return out
}

// Key identifies a recipient at the hop: the address exactly as it came over the wire.  (Two
// spellings of one mailbox are two recipients.)
func Key(a string) string { return a }

// Listen starts a responder on addr ("ip:port", port may be 0).
func Listen(sh *Shared, addr string, lmtp, utf8 bool) (*Hop, error) {
	l, err := net.Listen("tcp", addr)
	if err != nil {
		return nil, err
	}
	h := &Hop{sh: sh, l: l, lmtp: lmtp, utf8: utf8, conns: map[net.Conn]bool{}}
	go h.serve()
	return h, nil
}

func (h *Hop) Port() string {
	_, p, _ := net.SplitHostPort(h.l.Addr().String())
	return p
}

func (h *Hop) IP() string {
	ip, _, _ := net.SplitHostPort(h.l.Addr().String())
	return ip
}

func (h *Hop) Close() {
	h.l.Close()
	h.sh.mu.Lock()
	for c := range h.conns {
		c.Close()
	}
	h.sh.mu.Unlock()
	h.wg.Wait()
}

func (h *Hop) serve() {
	for {
		c, err := h.l.Accept()
		if err != nil {
			return
		}
		h.sh.mu.Lock()
		h.conns[c] = true
		h.sh.mu.Unlock()
		h.wg.Add(1)
		go func() {
			defer h.wg.Done()
			h.session(c)
			c.Close()
			h.sh.mu.Lock()
			delete(h.conns, c)
			h.sh.mu.Unlock()
		}()
	}
}

var replies = map[string]map[byte]string{
	"mail":  {'t': "451 4.3.0 try again later", 'p': "550 5.7.1 sender refused", 'x': "552 5.3.4 too much", 'c': "421 4.4.2 closing transmission channel"},
	"limit": {'t': "452 4.5.3 too many recipients", 'p': "550 5.5.3 too many recipients", 'x': "552 5.5.3 too many recipients", 'c': "421 4.7.0 too many recipients in this session, closing connection"},
	"data":  {'t': "451 4.3.0 local error in processing", 'p': "554 5.6.0 message refused", 'x': "552 5.3.4 message too big", 'c': "421 4.3.2 shutting down", 'T': "451 4.3.0 not now", 'P': "554 5.5.1 no"},
	"quit":  {'t': "451 4.3.0 cannot", 'p': "554 5.5.1 refused", 'x': "552 5.3.4 what", 'c': "421 4.4.2 timeout, closing"},
}

// session returns when the connection is to be closed.
func (h *Hop) session(c net.Conn) {
	br := bufio.NewReader(c)
	w := func(s string) { c.Write([]byte(s + "\r\n")) }
	count := func(k string) {
		h.sh.mu.Lock()
		h.sh.Cmds[k]++
		h.sh.mu.Unlock()
	}
	// fault performs action act at stage; it reports whether the session is over.
	lastCode := 0 // basic code of the reply the last fault() sent (0 = none)
	style := func() byte {
		h.sh.mu.Lock()
		defer h.sh.mu.Unlock()
		return h.sh.script.Enh
	}
	fault := func(stage string, act byte) bool {
		count(stage + "." + string(act))
		lastCode = 0
		switch act {
		case 't', 'p', 'x', 'T', 'P':
			lastCode = replyCode(replies[stage][act])
			w(Restyle(replies[stage][act], style()))
			return false
		case 'c':
			lastCode = replyCode(replies[stage][act])
			w(Restyle(replies[stage][act], style()))
			return true
		case 'd':
			return true
		case 'r':
			if tc, ok := c.(*net.TCPConn); ok {
				tc.SetLinger(0)
			}
			return true
		case 's':
			h.sh.Reg.Stall(c.RemoteAddr().String())
			// swallow whatever the client still sends, never answer
			buf := make([]byte, 4096)
			for {
				if _, err := c.Read(buf); err != nil {
					return true
				}
			}
		}
		return false
	}
	if h.lmtp {
		w("220 hop.example.invalid LMTP ready")
	} else {
		w("220 hop.example.invalid ESMTP ready")
	}
	var accepted []string
	inTx := false
	for {
		line, err := br.ReadString('\n')
		if err != nil {
			return
		}
		cmd := strings.ToUpper(strings.TrimSpace(line))
		h.sh.mu.Lock()
		sc := h.sh.script
		h.sh.mu.Unlock()
		switch {
		case strings.HasPrefix(cmd, "EHLO"), strings.HasPrefix(cmd, "LHLO"), strings.HasPrefix(cmd, "HELO"):
			w("250-hop.example.invalid")
			if h.utf8 {
				w("250-SMTPUTF8")
			}
			w("250-ENHANCEDSTATUSCODES")
			w("250 8BITMIME")
		case strings.HasPrefix(cmd, "MAIL"):
			h.sh.mu.Lock()
			n := h.mails
			h.mails++
			h.sh.mu.Unlock()
			accepted = nil
			inTx = false
			if n < sc.MailN && sc.MailAct != 'o' {
				if fault("mail", sc.MailAct) {
					return
				}
				continue
			}
			inTx = true
			w("250 2.1.0 ok")
		case strings.HasPrefix(cmd, "RCPT"):
			if !inTx {
				w("503 5.5.1 MAIL first")
				continue
			}
			a := strings.TrimSpace(line)
			if i := strings.Index(a, "<"); i >= 0 {
				a = a[i+1:]
				if j := strings.Index(a, ">"); j >= 0 {
					a = a[:j]
				}
			}
			if sc.Limit >= 0 && len(accepted) >= sc.Limit && sc.LimitAct != 'o' {
				over := fault("limit", sc.LimitAct)
				h.sh.event(Key(a), "rcpt", lastCode)
				if over {
					return
				}
				continue
			}
			if code := sc.Rej[Key(a)]; code != 0 {
				h.sh.event(Key(a), "rcpt", code)
				w(Restyle(fmt.Sprintf("%d %d.1.1 recipient refused", code, code/100), sc.Enh))
				continue
			}
			accepted = append(accepted, a)
			h.sh.event(Key(a), "rcpt", 250)
			w("250 2.1.5 ok")
		case strings.HasPrefix(cmd, "DATA"):
			if !inTx || len(accepted) == 0 {
				w("503 5.5.1 no valid recipients")
				continue
			}
			if sc.DataAct == 'T' || sc.DataAct == 'P' {
				fault("data", sc.DataAct)
				for _, a := range accepted {
					h.sh.event(Key(a), "data", lastCode)
				}
				continue
			}
			w("354 go ahead")
			for {
				l, err := br.ReadString('\n')
				if err != nil {
					return
				}
				if l == ".\r\n" || l == ".\n" {
					break
				}
			}
			rcpts := accepted
			accepted = nil
			inTx = false
			h.sh.mu.Lock()
			h.sh.dataSeq++
			txNo := h.sh.dataSeq
			h.sh.mu.Unlock()
			if h.lmtp {
				n := sc.Drop
				if n < 0 || n > len(rcpts) {
					n = len(rcpts)
				}
				for i := 0; i < n; i++ {
					code := sc.Status[Key(rcpts[i])]
					if code == 0 || code == 250 {
						h.sh.mu.Lock()
						h.sh.Acked = append(h.sh.Acked, []string{rcpts[i]})
						h.sh.AckedTx = append(h.sh.AckedTx, txNo)
						h.sh.mu.Unlock()
						h.sh.event(Key(rcpts[i]), "status", 250)
						w("250 2.0.0 delivered")
					} else {
						h.sh.event(Key(rcpts[i]), "status", code)
						w(Restyle(fmt.Sprintf("%d %d.2.0 mailbox problem", code, code/100), sc.Enh))
					}
				}
				if n < len(rcpts) {
					for _, a := range rcpts[n:] {
						h.sh.event(Key(a), "status", 0)
					}
					count("data.lmtpdrop")
					return
				}
				continue
			}
			if sc.DataAct != 'o' {
				over := fault("data", sc.DataAct)
				for _, a := range rcpts {
					h.sh.event(Key(a), "data", lastCode)
				}
				if over {
					return
				}
				continue
			}
			h.sh.mu.Lock()
			h.sh.Acked = append(h.sh.Acked, append([]string{}, rcpts...))
			h.sh.AckedTx = append(h.sh.AckedTx, txNo)
			h.sh.mu.Unlock()
			for _, a := range rcpts {
				h.sh.event(Key(a), "data", 250)
			}
			w("250 2.0.0 queued")
		case strings.HasPrefix(cmd, "RSET"), strings.HasPrefix(cmd, "QUIT"):
			isQuit := strings.HasPrefix(cmd, "QUIT")
			accepted = nil
			inTx = false
			if sc.QuitAct != 'o' {
				if fault("quit", sc.QuitAct) || isQuit {
					return
				}
				continue
			}
			if isQuit {
				w("221 2.0.0 bye")
				return
			}
			w("250 2.0.0 ok")
		case strings.HasPrefix(cmd, "NOOP"):
			w("250 2.0.0 ok")
		default:
			w("500 5.5.1 what")
		}
	}
}

// ---- wall-clock independent stalls ----

type Registry struct {
	mu    sync.Mutex
	conns map[string]*stallConn
}

func NewRegistry() *Registry { return &Registry{conns: map[string]*stallConn{}} }

type stallConn struct {
	net.Conn
	mu      sync.Mutex
	stalled bool
}

var past = time.Unix(1, 0)

func (c *stallConn) SetDeadline(t time.Time) error {
	c.mu.Lock()
	defer c.mu.Unlock()
	if c.stalled {
		return c.Conn.SetWriteDeadline(t)
	}
	return c.Conn.SetDeadline(t)
}

func (c *stallConn) SetReadDeadline(t time.Time) error {
	c.mu.Lock()
	defer c.mu.Unlock()
	if c.stalled {
		return nil
	}
	return c.Conn.SetReadDeadline(t)
}

// Dialer wraps a dial function so that the connections it returns can be stalled.
func (r *Registry) Dialer(inner func(ctx context.Context, network, addr string) (net.Conn, error)) func(ctx context.Context, network, addr string) (net.Conn, error) {
	return func(ctx context.Context, network, addr string) (net.Conn, error) {
		c, err := inner(ctx, network, addr)
		if err != nil {
			return nil, err
		}
		sc := &stallConn{Conn: c}
		r.mu.Lock()
		r.conns[c.LocalAddr().String()] = sc
		r.mu.Unlock()
		return sc, nil
	}
}

// Stall makes every pending and future read of the client end with local address addr time out.
// Without a registered client end (the client did not dial through Dialer) it does nothing: the
// client then waits for its own command time-out.
func (r *Registry) Stall(addr string) {
	r.mu.Lock()
	sc := r.conns[addr]
	r.mu.Unlock()
	if sc == nil {
		return
	}
	sc.mu.Lock()
	sc.stalled = true
	sc.Conn.SetReadDeadline(past)
	sc.mu.Unlock()
}
