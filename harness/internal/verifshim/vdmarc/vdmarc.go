// Package vdmarc is the part of the C07 (DMARC verdict and action) harness shared by the
// injected tests of internal/dmarc and internal/msgpipeline: the fixed domain set with its
// hand-written organizational domains, the case generator, the op-line encoding (with the tables
// of library answers the Lean model needs) and the oracle that evaluates the PROPERTY on a case
// (written from the property text / RFC 7489, not from maddy's code and not from the Lean model).
// It exists only inside the go test overlay.
package vdmarc

import (
	"errors"
	"fmt"
	"net"
	"net/mail"
	"strconv"
	"strings"

	"github.com/emersion/go-msgauth/authres"
	mdmarc "github.com/emersion/go-msgauth/dmarc"
	"github.com/foxcpp/go-mockdns"
	"github.com/foxcpp/maddy/framework/address"
	"github.com/foxcpp/maddy/internal/verifshim/vh"
	"golang.org/x/net/publicsuffix"
)

// ---------------------------------------------------------------------------------------------
// The fixed domain set.  Org is the KNOWN organizational domain, written by hand from the public
// suffix list rules (com, org, net, uk, co.uk, org.uk, github.io (private), *.ck with !www.ck, s3.amazonaws.com (private),
// *.kawasaki.jp with !city.kawasaki.jp);
// a public suffix is its own organizational domain.  Nothing here is computed by a library.

type Dom struct {
	Name   string
	Org    string
	Family int
}

var Doms = []Dom{
	// family 0: single-label suffix
	{"example.com", "example.com", 0},
	{"sub.example.com", "example.com", 0},
	{"deep.sub.example.com", "example.com", 0},
	{"other.example.com", "example.com", 0},
	{"EXAMPLE.COM", "example.com", 0},
	{"Sub.Example.Com", "example.com", 0},
	{"evil.com", "evil.com", 0},
	{"mail.evil.com", "evil.com", 0},
	{"com", "com", 0},
	{"COM", "com", 0},
	// family 1: two-label suffix
	{"example.co.uk", "example.co.uk", 1},
	{"sub.example.co.uk", "example.co.uk", 1},
	{"EXAMPLE.CO.UK", "example.co.uk", 1},
	{"Mail.Example.Co.UK", "example.co.uk", 1},
	{"evil.co.uk", "evil.co.uk", 1},
	{"EVIL.CO.UK", "evil.co.uk", 1},
	{"www.evil.co.uk", "evil.co.uk", 1},
	{"example.org.uk", "example.org.uk", 1},
	{"co.uk", "co.uk", 1},
	{"CO.UK", "co.uk", 1},
	{"uk", "uk", 1},
	// family 2: unrelated names
	{"example.org", "example.org", 2},
	{"mx.example.org", "example.org", 2},
	{"example.net", "example.net", 2},
	// family 3: private suffix, wildcard and exception rules
	{"github.io", "github.io", 3},
	{"alice.github.io", "alice.github.io", 3},
	{"www.alice.github.io", "alice.github.io", 3},
	{"bob.github.io", "bob.github.io", 3},
	{"ALICE.GITHUB.IO", "alice.github.io", 3},
	{"foo.bar.ck", "foo.bar.ck", 3},
	{"a.foo.bar.ck", "foo.bar.ck", 3},
	{"bar.ck", "bar.ck", 3},
	{"www.ck", "www.ck", 3},
	{"sub.www.ck", "www.ck", 3},
	// family 5: suffix rules BELOW a registrable name (private suffix s3.amazonaws.com under amazonaws.com;
	// *.kawasaki.jp with !city.kawasaki.jp under kawasaki.jp): a name under such a rule is not in the
	// organizational domain it is textually a sub-domain of
	{"amazonaws.com", "amazonaws.com", 5},
	{"mail.amazonaws.com", "amazonaws.com", 5},
	{"s3.amazonaws.com", "s3.amazonaws.com", 5},
	{"mallory.s3.amazonaws.com", "mallory.s3.amazonaws.com", 5},
	{"x.mallory.s3.amazonaws.com", "mallory.s3.amazonaws.com", 5},
	{"Mallory.S3.AmazonAWS.com", "mallory.s3.amazonaws.com", 5},
	{"kawasaki.jp", "kawasaki.jp", 5},
	{"foo.kawasaki.jp", "foo.kawasaki.jp", 5},
	{"evil.foo.kawasaki.jp", "evil.foo.kawasaki.jp", 5},
	{"city.kawasaki.jp", "city.kawasaki.jp", 5},
	{"www.city.kawasaki.jp", "city.kawasaki.jp", 5},
	// the domain of a DKIM 'none' result / of an empty MAIL FROM
	{"", "", 4},
}

var domIdx = func() map[string]int {
	m := map[string]int{}
	for i, d := range Doms {
		m[d.Name] = i
	}
	return m
}()

func asciiLower(s string) string {
	b := []byte(s)
	for i, c := range b {
		if c >= 'A' && c <= 'Z' {
			b[i] = c + 32
		}
	}
	return string(b)
}

// KnownOrg returns the hand-written organizational domain of a name of the fixed set.
func KnownOrg(name string) (string, bool) {
	i, ok := domIdx[name]
	if !ok {
		return "", false
	}
	return Doms[i].Org, true
}

// KnownAligned is the property's alignment relation over the fixed set: identical names in strict
// mode, same organizational domain in relaxed mode (names compare case-insensitively).
func KnownAligned(from, auth string, strict bool) bool {
	if strict {
		return asciiLower(from) == asciiLower(auth)
	}
	of, ok1 := KnownOrg(from)
	oa, ok2 := KnownOrg(auth)
	if !ok1 || !ok2 {
		panic("vdmarc: domain outside the fixed set: " + from + " / " + auth)
	}
	return of == oa
}

// ---------------------------------------------------------------------------------------------
// Cases

type Res struct {
	Kind byte   // 'd' DKIM, 's' SPF, 'o' other (which one: Other)
	Val  string // authres value ("" encoded as "empty")
	Dom  string // DKIM d=
	// DKIM i= (the signing identity, header.i of the authentication result); "" = the result carries
	// none.  DMARC aligns on d= only: the oracle never looks at it.
	Ident string
	From  string // SPF MAIL FROM domain
	// Other: which result that is neither DKIM nor SPF (OtherKinds); they all carry "pass" and name the
	// author domain, and none of them is an input of DMARC
	Other int
	Helo  string // SPF HELO
}

type Zone struct {
	Kind string   // ok nx nx2 temp temp2 other other2
	TXT  []string // raw TXT strings when Kind == ok
}

type Case struct {
	HdrRaw string // raw header block, CRLF line ends, terminated by an empty line
	Shape  string // ground truth of the generator: address count per From field ("-": no field, "m": no address list, "m<n>": n addresses written but a display name the address parser refuses)
	Author string // ground truth: the author domain when Shape == "1"
	Zones  map[string]Zone
	Names  []string // zone names in generation order (lower case, without the _dmarc. label)
	Res    []Res
	Seed   int64 // math/rand seed used for the pct draw
	Rnd    int   // the value rand.Int31n(100) yields after rand.Seed(Seed)
	PriorQ bool

	// Timing of the pipeline run (`reply` ops only; Blocks == nil: one global check, the resolver
	// answers at once).  Blocks[k] is the number of consecutive elements of Res the check of block k
	// (0 global, 1 source, 2 recipient) reports, -1: the block has no check.  Arrive gives, per zone
	// name, the stage at which the resolver's answer for _dmarc.<name> arrives: 0 at once, k = 1..3
	// while the body checks of block k run, 4 after all body checks (while Apply waits); names
	// without an entry answer at ArriveDefault.  QBlock: the block the quarantining check sits in.
	Blocks        []int
	Arrive        map[string]int
	ArriveDefault int
	QBlock        int
	NonAtomic     bool // the message body goes through BodyNonAtomic (LMTP) instead of Body

	// Wraps: how the check of each block hands its results to the pipeline (`reply` ops only; nil:
	// every check reports at the body stage a CheckResult that holds the results and nothing else).
	// One token per entry of Blocks ("-": no check), or a single token for the one global check of
	// a run without timing.  A token is the stage at which the check reports - c CheckConnection,
	// s CheckSender, r CheckRcpt, b CheckBody - followed by any of: i a Reason is attached while
	// neither Reject nor Quarantine is set (the check's own action is "ignore", or it leaves the
	// decision to DMARC as check.spf does), q Reason and Quarantine (the check's own action is
	// "quarantine"), h the check adds header fields of its own (Received-SPF and the like), d the same
	// check is referenced again by every later block of the configuration (the message passes it
	// several times; it is asked once).
	Wraps []string

	// Hops: the routing blocks between the pipeline that evaluates DMARC and the storage target
	// (`reply` ops only; nil: the target is attached directly).  The stock configuration delivers
	// through `deliver_to &local_routing`: the target of the endpoint's pipeline is another
	// msgpipeline sharing the message's metadata; its own applyResults runs after the outer one.
	// One token per nested pipeline, outermost first: p no checks of its own, c a check that has
	// nothing to say, m the same and a recipient-block check too, f a check of the routing block
	// flags the message itself (own action quarantine).
	Hops []string
}

func hopOK(h string) bool { return h == "p" || h == "c" || h == "m" || h == "f" }

// AddHops draws the routing blocks the message passes after the DMARC-evaluating pipeline.
func AddHops(r *vh.Rng, c *Case) {
	n := 1
	if r.Chance(25) {
		n = 2 + r.Intn(2)
	}
	c.Hops = make([]string, n)
	for i := range c.Hops {
		switch x := r.Intn(100); {
		case x < 45:
			c.Hops[i] = "p"
		case x < 70:
			c.Hops[i] = "c"
		case x < 90:
			c.Hops[i] = "m"
		default:
			c.Hops[i] = "f"
		}
	}
}

// WrapOf is the wrap token of the check of block k ("b" when the case has none).
func (c *Case) WrapOf(k int) string {
	if k >= 0 && k < len(c.Wraps) && c.Wraps[k] != "-" && c.Wraps[k] != "" {
		return c.Wraps[k]
	}
	return "b"
}

func WrapStage(w string) byte          { return w[0] }
func WrapHas(w string, flag byte) bool { return strings.IndexByte(w[1:], flag) >= 0 }

// EarlierQ: some check other than DMARC has flagged the message (the flagger check, or a
// result-reporting check whose own action is quarantine).
func (c *Case) EarlierQ() bool {
	if c.PriorQ {
		return true
	}
	for k, w := range c.Wraps {
		if w == "-" || w == "" {
			continue
		}
		if c.Blocks != nil && (k >= len(c.Blocks) || c.Blocks[k] < 0) {
			continue
		}
		if WrapHas(w, 'q') {
			return true
		}
	}
	for _, h := range c.Hops {
		if h == "f" {
			return true
		}
	}
	return false
}

func wrapOK(w string) bool {
	if w == "-" {
		return true
	}
	if len(w) == 0 || strings.IndexByte("csrb", w[0]) < 0 {
		return false
	}
	for i := 1; i < len(w); i++ {
		if strings.IndexByte("iqhd", w[i]) < 0 || strings.IndexByte(w[1:i], w[i]) >= 0 {
			return false
		}
	}
	return !(WrapHas(w, 'i') && WrapHas(w, 'q'))
}

// AddWraps draws, for every check of the case, the stage at which it reports and what else its
// CheckResult carries (after AddTiming, if the case gets a timing).
func AddWraps(r *vh.Rng, c *Case) {
	n := 1
	if c.Blocks != nil {
		n = len(c.Blocks)
	}
	c.Wraps = make([]string, n)
	for k := range c.Wraps {
		if c.Blocks != nil && c.Blocks[k] < 0 {
			c.Wraps[k] = "-"
			continue
		}
		w := "b"
		if r.Chance(30) {
			w = string("csr"[r.Intn(3)])
		}
		switch x := r.Intn(100); {
		case x < 45:
			w += "i"
		case x < 60:
			w += "q"
		}
		if r.Chance(30) {
			w += "h"
		}
		if k < 2 && r.Chance(15) {
			w += "d"
		}
		c.Wraps[k] = w
	}
}

// ArriveAt is the arrival stage of the answer for a zone name (compared case-insensitively).
func (c *Case) ArriveAt(name string) int {
	if s, ok := c.Arrive[asciiLower(name)]; ok {
		return s
	}
	return c.ArriveDefault
}

// ---------------------------------------------------------------------------------------------
// Token encoding

func okAscii(s string) bool {
	for i := 0; i < len(s); i++ {
		c := s[i]
		if c <= 32 || c >= 127 || c == '|' {
			return false
		}
	}
	return true
}

func Tok(s string) string {
	if okAscii(s) {
		return "=" + s
	}
	return "~" + vh.HexRunes(s)
}

func Untok(t string) string {
	if strings.HasPrefix(t, "=") {
		return t[1:]
	}
	if strings.HasPrefix(t, "~") {
		return vh.UnhexRunes(t[1:])
	}
	panic("vdmarc: bad domain token " + t)
}

func valTok(v string) string {
	if v == "" {
		return "empty"
	}
	return v
}

func tokVal(t string) string {
	if t == "empty" {
		return ""
	}
	return t
}

// ---------------------------------------------------------------------------------------------
// Library answers shipped to the model

func polLetter(p mdmarc.Policy) string {
	switch p {
	case mdmarc.PolicyNone:
		return "n"
	case mdmarc.PolicyQuarantine:
		return "q"
	case mdmarc.PolicyReject:
		return "r"
	case "":
		return "-"
	}
	return "?"
}

// txtTok classifies one TXT string the way the code's library calls do: HasPrefix "v=DMARC1",
// then go-msgauth dmarc.Parse.  The raw text follows '#' (for replay; ignored by the model).
func txtTok(txt string) string {
	raw := "#" + vh.HexBytes([]byte(txt))
	if !strings.HasPrefix(txt, "v=DMARC1") {
		return "j" + raw
	}
	rec, err := mdmarc.Parse(txt)
	if err != nil {
		return "x" + raw
	}
	pct := "-"
	if rec.Percent != nil {
		pct = strconv.Itoa(*rec.Percent)
	}
	return fmt.Sprintf("r,%s,%s,%s,%s,%s%s", string(rec.DKIMAlignment), string(rec.SPFAlignment), polLetter(rec.Policy), polLetter(rec.SubdomainPolicy), pct, raw)
}

// FieldToks gives, for every From field of the header (in header order), what
// mail.ParseAddressList and address.Split make of it.
func FieldToks(values []string) []string {
	var out []string
	for _, v := range values {
		l, err := mail.ParseAddressList(v)
		if err != nil {
			out = append(out, "F m")
			continue
		}
		s := "F a"
		for _, a := range l {
			_, d, err := address.Split(a.Address)
			if err != nil {
				s += " !"
			} else {
				s += " " + Tok(d)
			}
		}
		out = append(out, s)
	}
	return out
}

type tables struct {
	rows    []string
	strs    []string
	seen    map[string]bool
	rowSeen map[string]bool
}

func (t *tables) str(s string) {
	if !t.seen[s] {
		t.seen[s] = true
		t.strs = append(t.strs, s)
	}
}

// dom adds the library row of a subject domain: lower, publicSuffix(lower), etld1(lower).
func (t *tables) dom(d string) (etld1 string, ok bool) {
	l := strings.ToLower(d)
	ps, _ := publicsuffix.PublicSuffix(l)
	e, err := publicsuffix.EffectiveTLDPlusOne(l)
	if !t.rowSeen[d] {
		t.rowSeen[d] = true
		et := "!"
		if err == nil {
			et = Tok(e)
			t.str(e)
		}
		t.rows = append(t.rows, "t "+Tok(d)+" "+Tok(l)+" "+Tok(ps)+" "+et)
		t.str(d)
		t.str(l)
		t.str(ps)
	}
	return e, err == nil
}

// classes assigns strings.EqualFold classes to all collected strings.
func (t *tables) classes(out *vh.Out) []string {
	var reps []string
	var rows []string
	for _, s := range t.strs {
		k := -1
		for i, r := range reps {
			if strings.EqualFold(r, s) {
				if k < 0 {
					k = i
				} else if out != nil {
					out.Note("strings.EqualFold is not transitive around " + strconv.Quote(s))
				}
			}
		}
		if k < 0 {
			reps = append(reps, s)
			k = len(reps) - 1
		}
		rows = append(rows, "c "+Tok(s)+" "+strconv.Itoa(k))
	}
	return rows
}

func newTables() *tables { return &tables{seen: map[string]bool{}, rowSeen: map[string]bool{}} }

// Op renders the op line of the case (kind: "verify" or "reply").  fieldVals are the From field
// values as the real header parser reports them (fields.Value() in header order).
func (c *Case) Op(kind string, fieldVals []string, out *vh.Out) string {
	var g []string
	q := "0"
	if c.PriorQ {
		q = "1"
	}
	g = append(g, fmt.Sprintf("C07 %s %d %s", kind, c.Rnd, q))
	au := "-"
	if c.Shape == "1" {
		au = Tok(c.Author)
	}
	g = append(g, fmt.Sprintf("I %s %s %d", c.Shape, au, c.Seed))
	g = append(g, "H "+vh.HexBytes([]byte(c.HdrRaw)))
	ftoks := FieldToks(fieldVals)
	g = append(g, ftoks...)
	t := newTables()
	// subject domains: every domain in the header, every identifier
	for _, ft := range ftoks {
		for _, tok := range strings.Fields(ft)[1:] {
			if strings.HasPrefix(tok, "=") || strings.HasPrefix(tok, "~") {
				d := Untok(tok)
				if e, ok := t.dom(d); ok {
					t.str(e)
				}
			}
		}
	}
	// names the code may ask that have no zone: NXDOMAIN, said explicitly
	for _, ft := range ftoks {
		for _, tok := range strings.Fields(ft)[1:] {
			if !(strings.HasPrefix(tok, "=") || strings.HasPrefix(tok, "~")) {
				continue
			}
			names := []string{strings.ToLower(Untok(tok))}
			if e, err := publicsuffix.EffectiveTLDPlusOne(names[0]); err == nil {
				names = append(names, e)
			}
			for _, n := range names {
				if _, ok := c.Zones[n]; !ok {
					c.Zones[n] = Zone{Kind: "nx"}
					c.Names = append(c.Names, n)
				}
			}
		}
	}
	for _, n := range c.Names {
		z := c.Zones[n]
		s := "D " + Tok(n) + " " + z.Kind
		for _, txt := range z.TXT {
			s += " " + txtTok(txt)
		}
		g = append(g, s)
		t.str(n)
	}
	if kind == "reply" && c.Blocks != nil {
		b := "B"
		for _, n := range c.Blocks {
			if n < 0 {
				b += " -"
			} else {
				b += " " + strconv.Itoa(n)
			}
		}
		b += " q" + strconv.Itoa(c.QBlock)
		if c.NonAtomic {
			b += " lmtp"
		} else {
			b += " smtp"
		}
		g = append(g, b)
		for _, n := range c.Names {
			g = append(g, "A "+Tok(n)+" "+strconv.Itoa(c.ArriveAt(n)))
		}
	}
	if kind == "reply" && c.Wraps != nil {
		g = append(g, "W "+strings.Join(c.Wraps, " "))
	}
	if kind == "reply" && c.Hops != nil {
		g = append(g, "N "+strings.Join(c.Hops, " "))
	}
	for _, r := range c.Res {
		switch r.Kind {
		case 'd':
			g = append(g, "R d "+valTok(r.Val)+" "+Tok(r.Dom)+" "+Tok(r.Ident))
			t.dom(r.Dom)
		case 's':
			g = append(g, "R s "+valTok(r.Val)+" "+Tok(r.From)+" "+Tok(r.Helo))
			t.dom(r.From)
			t.dom(r.Helo)
		default:
			if r.Other == 0 {
				g = append(g, "R o")
			} else {
				g = append(g, "R o "+strconv.Itoa(r.Other))
			}
		}
	}
	g = append(g, t.rows...)
	g = append(g, t.classes(out)...)
	return strings.Join(g, " | ")
}

// ParseOp rebuilds a case from an op line (replay).
func ParseOp(op string) (kind string, c *Case, err error) {
	defer func() {
		if r := recover(); r != nil {
			err = fmt.Errorf("bad op line: %v", r)
		}
	}()
	c = &Case{Zones: map[string]Zone{}}
	for gi, g := range strings.Split(op, " | ") {
		f := strings.Fields(g)
		if len(f) == 0 {
			continue
		}
		if gi == 0 {
			kind = f[1]
			if len(f) >= 4 {
				c.Rnd, _ = strconv.Atoi(f[2])
				c.PriorQ = f[3] == "1"
			}
			continue
		}
		switch f[0] {
		case "I":
			c.Shape = f[1]
			if f[2] != "-" {
				c.Author = Untok(f[2])
			}
			c.Seed, _ = strconv.ParseInt(f[3], 10, 64)
		case "H":
			c.HdrRaw = string(vh.UnhexBytes(f[1]))
		case "D":
			n := Untok(f[1])
			z := Zone{Kind: f[2]}
			for _, tt := range f[3:] {
				i := strings.IndexByte(tt, '#')
				z.TXT = append(z.TXT, string(vh.UnhexBytes(tt[i+1:])))
			}
			c.Zones[n] = z
			c.Names = append(c.Names, n)
		case "B":
			for _, x := range f[1:] {
				switch {
				case x == "-":
					c.Blocks = append(c.Blocks, -1)
				case strings.HasPrefix(x, "q"):
					c.QBlock, _ = strconv.Atoi(x[1:])
				case x == "lmtp":
					c.NonAtomic = true
				case x == "smtp":
				default:
					n, _ := strconv.Atoi(x)
					c.Blocks = append(c.Blocks, n)
				}
			}
		case "W":
			for _, w := range f[1:] {
				if !wrapOK(w) {
					panic("wrap token " + w)
				}
				c.Wraps = append(c.Wraps, w)
			}
		case "N":
			for _, h := range f[1:] {
				if !hopOK(h) {
					panic("hop token " + h)
				}
				c.Hops = append(c.Hops, h)
			}
		case "A":
			if c.Arrive == nil {
				c.Arrive = map[string]int{}
			}
			c.Arrive[asciiLower(Untok(f[1]))], _ = strconv.Atoi(f[2])
		case "R":
			switch f[1] {
			case "d":
				// op lines written before the identity travelled in the op line: the default identity @<d>
				d := Res{Kind: 'd', Val: tokVal(f[2]), Dom: Untok(f[3])}
				d.Ident = "@" + d.Dom
				if len(f) >= 5 {
					d.Ident = Untok(f[4])
				}
				c.Res = append(c.Res, d)
			case "s":
				c.Res = append(c.Res, Res{Kind: 's', Val: tokVal(f[2]), From: Untok(f[3]), Helo: Untok(f[4])})
			default:
				o := Res{Kind: 'o'}
				if len(f) >= 3 {
					o.Other, _ = strconv.Atoi(f[2])
				}
				c.Res = append(c.Res, o)
			}
		}
	}
	return kind, c, nil
}

// ---------------------------------------------------------------------------------------------
// Real inputs

func (z Zone) err() error {
	switch z.Kind {
	case "temp":
		return &net.DNSError{Err: "server misbehaving", IsTemporary: true}
	case "temp2":
		return &net.DNSError{Err: "i/o timeout", IsTimeout: true}
	case "nx2":
		return &net.DNSError{Err: "no such host", IsNotFound: true, IsTemporary: true}
	case "other":
		return errors.New("resolver is broken")
	case "other2":
		return &net.DNSError{Err: "refused"}
	}
	return nil
}

// MockZones renders the zones for a mockdns.Resolver ("nx" = the zone does not exist).
func (c *Case) MockZones() map[string]mockdns.Zone {
	m := map[string]mockdns.Zone{}
	for n, z := range c.Zones {
		if z.Kind == "nx" {
			continue
		}
		m["_dmarc."+n+"."] = mockdns.Zone{Err: z.err(), TXT: z.TXT}
	}
	return m
}

// resultReasons: the free-text reason of a result (a function of the result's position and content,
// so that an op line determines it); the words of other outcomes on purpose - the value decides.
var resultReasons = []string{"", "", "bad signature", "pass", "temperror: key query timed out", "no key for signature", "fail (body hash did not verify)", "aligned", "best guess record for domain"}

func (c *Case) AuthResults() []authres.Result {
	var out []authres.Result
	for i, r := range c.Res {
		reason := resultReasons[(i+len(r.Dom)+len(r.Ident)+len(r.From)+2*len(r.Val))%len(resultReasons)]
		switch r.Kind {
		case 'd':
			out = append(out, &authres.DKIMResult{Value: authres.ResultValue(r.Val), Reason: reason, Domain: r.Dom, Identifier: r.Ident})
		case 's':
			out = append(out, &authres.SPFResult{Value: authres.ResultValue(r.Val), Reason: reason, From: r.From, Helo: r.Helo})
		default:
			out = append(out, otherResult(r.Other, c.Author))
		}
	}
	return out
}

// OtherKinds: results of other methods a check may report next to SPF and DKIM.  Each says "pass"
// for the author domain; DMARC takes its identifiers from SPF and DKIM results only.
const OtherKinds = 9

func otherResult(k int, author string) authres.Result {
	if author == "" {
		author = "example.com"
	}
	switch k {
	case 1:
		return &authres.DomainKeysResult{Value: authres.ResultPass, Domain: author, From: "user@" + author}
	case 2:
		return &authres.SenderIDResult{Value: authres.ResultPass, HeaderKey: "from", HeaderValue: "user@" + author}
	case 3:
		return &authres.AuthResult{Value: authres.ResultPass, Auth: "user@" + author}
	case 4:
		// the verdict of somebody else's DMARC evaluation
		return &authres.DMARCResult{Value: authres.ResultPass, From: author}
	case 5:
		return &authres.GenericResult{Method: "dkim", Value: authres.ResultPass, Params: map[string]string{"header.d": author, "header.i": "@" + author}}
	case 6:
		return &authres.GenericResult{Method: "spf", Value: authres.ResultPass, Params: map[string]string{"smtp.mailfrom": author, "smtp.helo": author}}
	case 7:
		return &authres.GenericResult{Method: "arc", Value: authres.ResultPass, Params: map[string]string{"header.d": author}}
	case 8:
		return &authres.GenericResult{Method: "dkim-atps", Value: authres.ResultPass, Params: map[string]string{"header.d": author, "header.from": author}}
	}
	return &authres.IPRevResult{Value: authres.ResultPass, IP: "192.0.2.1"}
}

// ---------------------------------------------------------------------------------------------
// The oracle: what the PROPERTY demands for a case.

type Expect struct {
	// Checked says which parts the property determines for this case.
	CheckPass bool // Pass is determined
	Pass      bool
	CheckFate bool   // Fate is determined
	Fate      string // "perm", "temp", "accept", "quarantine" ("accept": quarantine flag untouched)
	Why       string
}

// own tiny reader of a DMARC record (RFC 7489 §6.3 tag list), independent of go-msgauth
type pubRec struct {
	valid      bool // v=DMARC1 and a valid p (and sp, when present)
	outside    bool // a spelling the property does not speak about (unknown mode values, bad pct, odd version tag, tags without '=')
	p, sp      string
	adkimS     bool
	aspfS      bool
	pctPartial bool
}

func readRecord(txt string) pubRec {
	r := pubRec{valid: true}
	tags := map[string]string{}
	for _, part := range strings.Split(txt, ";") {
		part = strings.TrimSpace(part)
		if part == "" {
			continue
		}
		kv := strings.SplitN(part, "=", 2)
		if len(kv) != 2 {
			r.outside = true
			continue
		}
		tags[strings.TrimSpace(kv[0])] = strings.TrimSpace(kv[1])
	}
	if tags["v"] != "DMARC1" {
		r.outside = true
	}
	okPol := func(s string) bool { return s == "none" || s == "quarantine" || s == "reject" }
	r.p = tags["p"]
	if !okPol(r.p) {
		r.valid = false
	}
	if sp, ok := tags["sp"]; ok {
		r.sp = sp
		if !okPol(sp) {
			r.valid = false
		}
	}
	for _, k := range []string{"adkim", "aspf"} {
		if v, ok := tags[k]; ok {
			if v != "r" && v != "s" {
				r.outside = true
			}
			if k == "adkim" {
				r.adkimS = v == "s"
			} else {
				r.aspfS = v == "s"
			}
		}
	}
	if v, ok := tags["pct"]; ok && v != "100" {
		r.pctPartial = true
		if n, err := strconv.Atoi(v); err != nil || n < 0 || n > 100 {
			r.outside = true
		}
	}
	return r
}

type pubAt int

const (
	atNothing  pubAt = iota // no DMARC record: no TXT, only other TXT strings, NXDOMAIN
	atOne                   // exactly one, valid
	atInvalid               // exactly one, without a valid p / with an invalid sp
	atMultiple              // several DMARC records
	atTemp                  // temporary DNS failure (SERVFAIL, timeout)
	atOutside               // an outcome the property does not list (other lookup errors, odd record spellings)
)

func (c *Case) publishedAt(name string) (pubAt, pubRec) {
	z, ok := c.Zones[asciiLower(name)]
	if !ok {
		return atNothing, pubRec{}
	}
	switch z.Kind {
	case "nx":
		return atNothing, pubRec{}
	case "temp", "temp2":
		return atTemp, pubRec{}
	case "other", "other2", "nx2":
		return atOutside, pubRec{}
	}
	var recs []string
	for _, t := range z.TXT {
		if strings.HasPrefix(t, "v=DMARC1") {
			recs = append(recs, t)
		}
	}
	switch {
	case len(recs) == 0:
		return atNothing, pubRec{}
	case len(recs) > 1:
		for _, t := range recs {
			if readRecord(t).outside {
				return atOutside, pubRec{}
			}
		}
		return atMultiple, pubRec{}
	}
	r := readRecord(recs[0])
	if r.outside {
		return atOutside, r
	}
	if !r.valid {
		return atInvalid, r
	}
	return atOne, r
}

// Expectation evaluates the property text on the case.
func (c *Case) Expectation() Expect {
	if c.Shape != "1" {
		// "a header with no or several author addresses never obtains a pass"
		return Expect{CheckPass: true, Pass: false, Why: "no single author (shape " + c.Shape + ")"}
	}
	from := c.Author
	if _, ok := KnownOrg(from); !ok {
		return Expect{Why: "author domain outside the fixed set"}
	}
	accept := "accept"
	at, rec := c.publishedAt(from)
	sub := false
	switch at {
	case atTemp:
		return Expect{CheckPass: true, CheckFate: true, Fate: "temp", Why: "temporary DNS failure at the author domain"}
	case atOutside:
		return Expect{Why: "lookup outcome outside the property's list"}
	case atMultiple, atInvalid:
		return Expect{CheckPass: true, CheckFate: true, Fate: accept, Why: "multiple/invalid records at the author domain: no policy"}
	case atNothing:
		org, _ := KnownOrg(from)
		at2, rec2 := c.publishedAt(org)
		switch at2 {
		case atTemp:
			return Expect{CheckPass: true, CheckFate: true, Fate: "temp", Why: "temporary DNS failure at the organizational domain"}
		case atOutside:
			return Expect{Why: "lookup outcome outside the property's list"}
		case atOne:
			rec = rec2
			sub = asciiLower(from) != org
		default:
			return Expect{CheckPass: true, CheckFate: true, Fate: accept, Why: "no policy published"}
		}
	}
	// one valid record applies
	nd, ns := 0, 0
	for _, r := range c.Res {
		switch r.Kind {
		case 'd':
			nd++
		case 's':
			ns++
			if r.Val == "" {
				ns += 100
			}
		}
	}
	if nd == 0 || ns != 1 {
		// the property speaks about "both evaluated", one SPF result
		return Expect{Why: "SPF/DKIM not both evaluated exactly as quantified"}
	}
	pass, undecided := false, false
	for _, r := range c.Res {
		var al bool
		switch r.Kind {
		case 'd':
			al = KnownAligned(from, r.Dom, rec.adkimS)
		case 's':
			id := r.From
			if id == "" {
				id = r.Helo
			}
			al = KnownAligned(from, id, rec.aspfS)
		default:
			continue
		}
		if al && r.Val == "pass" {
			pass = true
		}
		if al && r.Val == "temperror" {
			undecided = true
		}
	}
	if pass {
		return Expect{CheckPass: true, Pass: true, CheckFate: true, Fate: accept, Why: "aligned pass"}
	}
	if rec.pctPartial {
		return Expect{CheckPass: true, Why: "pct is neither absent nor 100"}
	}
	action := rec.p
	if sub && rec.sp != "" {
		action = rec.sp
	}
	e := Expect{CheckPass: true, CheckFate: true, Why: fmt.Sprintf("no aligned pass; published action %s (subdomain=%v, undecided=%v)", action, sub, undecided)}
	switch action {
	case "none":
		e.Fate = accept
	case "quarantine":
		e.Fate = "quarantine"
	case "reject":
		e.Fate = "perm"
		if undecided {
			e.Fate = "temp"
		}
	}
	return e
}

// ---------------------------------------------------------------------------------------------
// Generators

type addrForm struct {
	render func(local, dom string) string
	name   string
}

var addrForms = []addrForm{
	{func(l, d string) string { return l + "@" + d }, "bare"},
	{func(l, d string) string { return "<" + l + "@" + d + ">" }, "angle"},
	{func(l, d string) string { return "Some Body <" + l + "@" + d + ">" }, "name"},
	{func(l, d string) string { return "\"Body, Some\" <" + l + "@" + d + ">" }, "qname"},
	{func(l, d string) string { return l + "@" + d + " (a comment)" }, "comment"},
	{func(l, d string) string { return "=?utf-8?q?N=C3=A4me?= <" + l + "@" + d + ">" }, "encoded"},
	{func(l, d string) string { return "\"" + l + "@fake.example\"@" + d }, "quotedlocal"},
	{func(l, d string) string { return "Team: " + l + "@" + d + ";" }, "group1"},
}

// related picks an identifier domain for author domain `from`: mostly names of the same family.
func related(r *vh.Rng, from string, allowEmpty bool) string {
	fam := Doms[domIdx[from]].Family
	for {
		var d Dom
		switch {
		case r.Chance(20):
			return from
		case r.Chance(75):
			d = Doms[r.Intn(len(Doms))]
			if d.Family != fam {
				continue
			}
		default:
			d = Doms[r.Intn(len(Doms))]
		}
		if d.Name == "" && !allowEmpty {
			continue
		}
		return d.Name
	}
}

// ---------------------------------------------------------------------------------------------
// The DKIM signing identity (i= of the signature, header.i of the authentication result).  RFC 6376
// wants its domain to be d= or a subdomain of d=; a result handed to the verifier can carry
// anything.  The property (RFC 7489 3.1.1) aligns on d= only, so every form below must leave
// verdict and action untouched.

// properSub: is name a proper subdomain of parent (labels compared case-insensitively)?
func properSub(name, parent string) bool {
	return parent != "" && len(name) > len(parent)+1 && strings.HasSuffix(asciiLower(name), "."+asciiLower(parent))
}

// subsOf: names of the fixed set that are proper subdomains of d.
func subsOf(d string) []string {
	var out []string
	for _, x := range Doms {
		if properSub(x.Name, d) {
			out = append(out, x.Name)
		}
	}
	return out
}

func upper(s string) string { return strings.ToUpper(s) }

// parentOf drops the first label ("" for a single label).
func parentOf(d string) string {
	if i := strings.IndexByte(d, '.'); i >= 0 {
		return d[i+1:]
	}
	return ""
}

var identLocals = []string{"user", "bulk", "no-reply", "first.last", "\"quoted local\"", "a+tag"}

// identForm renders form k (0 <= k < IdentForms) of the signing identity for a signature with d=d
// on a message whose author domain is from; pick(n) chooses among n alternatives.
const IdentForms = 24

func identForm(k int, d, from string, pick func(n int) int) string {
	local := identLocals[pick(len(identLocals))]
	// a subdomain of d=: the author domain itself when it is one (the case in which "the domain of i="
	// and d= fall on different sides of the alignment test), else another name of the set, else made up
	sub := func() string {
		if properSub(from, d) && pick(3) != 0 {
			return from
		}
		if subs := subsOf(d); len(subs) > 0 && pick(2) == 0 {
			return subs[pick(len(subs))]
		}
		return []string{"mail.", "news.", "a.b.", "x--y.", "_domainkey."}[pick(5)] + d
	}
	switch k {
	case 0:
		return "" // no header.i
	case 1:
		return "@" + d // the default of RFC 6376
	case 2:
		return local + "@" + d
	case 3:
		return "@" + sub()
	case 4:
		return local + "@" + sub()
	case 5:
		return local + "@deep." + sub() // user@sub.sub.d
	case 6:
		return "@" + from // the author domain, whatever d= is
	case 7:
		return local + "@" + from
	case 8:
		// a different domain entirely
		return local + "@" + []string{"evil.com", "example.net", "mail.evil.com", "evil.co.uk"}[pick(4)]
	case 9:
		// d= is a textual suffix of the domain, but not at a label boundary; d= as a label prefix
		return []string{"@not" + d, "@" + d + ".evil.com", local + "@" + d + "." + d}[pick(3)]
	case 10:
		// the parent of d= / a sibling
		if p := parentOf(d); p != "" {
			return []string{"@" + p, local + "@sibling." + p}[pick(2)]
		}
		return "@"
	case 11:
		return upper(local + "@" + sub())
	case 12:
		return "@" + upper(d)
	case 13:
		return local + "@" + upper(from)
	case 14:
		// IDN: U-label and A-label below d=, non-ASCII local part, full-width spelling of d=
		return []string{local + "@b\u00fccher." + d, "@xn--bcher-kva." + d, "\u00fcser@" + d, "@\uff45\uff58\uff41\uff4d\uff50\uff4c\uff45.com", local + "@\u4f8b\u3048." + from}[pick(5)]
	case 15:
		// malformed: no '@', no domain, several '@'
		return []string{"user", "@", local + "@", "@@" + d, d, "@" + from + "@" + d, "@" + d + "@" + from, local + "@" + from + "@"}[pick(8)]
	case 16:
		// malformed: dots, spaces, brackets
		return []string{"@." + d, "@" + d + ".", local + "@ " + d, "<" + local + "@" + d + ">", "@." + from, "@" + from + ".", "@mail.." + d, local + "@[192.0.2.1]"}[pick(8)]
	case 17:
		return "@" + sub() + "." // trailing dot on a subdomain
	case 18:
		return "@" + asciiLower(from)
	case 19:
		if subs := subsOf(from); len(subs) > 0 {
			return "@" + subs[pick(len(subs))] // below the author domain
		}
		return "@mail." + from
	case 20:
		return local + "@" + asciiLower(sub())
	case 21:
		return "@" + Doms[pick(len(Doms)-1)].Name // any name of the set
	case 22:
		return strings.Repeat("l", 64) + "@" + strings.Repeat("sub.", 40) + d // long
	default:
		return "@" + d
	}
}

// GenIdent draws the signing identity of a DKIM result with d=d.
func GenIdent(r *vh.Rng, d, from string) string {
	var k int
	switch x := r.Intn(100); {
	case x < 12:
		k = 0
	case x < 27:
		k = 1
	case x < 35:
		k = 2
	case x < 60:
		k = 3 + r.Intn(3) // below d=
	default:
		k = 6 + r.Intn(IdentForms-6)
	}
	if d == "" {
		// the result of a message without signature, or a result that names its signer in i= only
		switch x := r.Intn(100); {
		case x < 50:
			return ""
		case x < 75:
			k = 6 + r.Intn(2)
		}
	}
	return identForm(k, d, from, r.Intn)
}

func mix(n int) int { return int((uint32(n) * 2654435761) >> 12) }

// IdentByIndex: the identity of the n-th point of the sweep (all forms in turn, deterministic).
func IdentByIndex(n int, d, from string) string {
	h := mix(n)
	k := h % IdentForms
	h /= IdentForms
	return identForm(k, d, from, func(m int) int { h = mix(h + 1); return h % m })
}

// IdentClass classifies an identity relative to d= and the author domain (for the distribution).
func IdentClass(ident, d, from string) string {
	if ident == "" {
		return "absent"
	}
	at := strings.LastIndexByte(ident, '@')
	if at < 0 || at == len(ident)-1 || strings.Count(ident, "@") > 1 || strings.ContainsAny(ident, " <>[]") ||
		strings.Contains(ident, "..") || strings.HasSuffix(ident, ".") || strings.Contains(ident, "@.") {
		return "malformed"
	}
	dm := ident[at+1:]
	for i := 0; i < len(dm); i++ {
		if dm[i] >= 0x80 {
			return "idn"
		}
	}
	if strings.Contains(asciiLower(dm), "xn--") || strings.IndexFunc(ident[:at], func(c rune) bool { return c >= 0x80 }) >= 0 {
		return "idn"
	}
	cs := ""
	if dm != asciiLower(dm) {
		cs = ".uppercase"
	}
	switch {
	case dm == d && at == 0:
		return "default"
	case dm == d:
		return "user-at-d"
	case asciiLower(dm) == asciiLower(d):
		return "d-other-spelling"
	case properSub(dm, d) && asciiLower(dm) == asciiLower(from):
		return "subdomain-of-d.author" + cs
	case properSub(dm, d):
		return "subdomain-of-d" + cs
	case asciiLower(dm) == asciiLower(from):
		return "other-domain.author" + cs
	}
	return "other-domain" + cs
}

var keyForms = []string{"From", "from", "FROM", "fRoM"}

// Display names net/mail refuses (the whole field then fails to parse): encoded-words in charsets
// net/mail has no decoder for, unquoted specials, unterminated comments and quoted strings, bytes
// that are not UTF-8.  Candidates the installed net/mail accepts after all are dropped at start-up
// (BadNames), so that the list follows the library.
var badNameCandidates = []string{
	"=?iso-2022-jp?B?GyRCRnxLXBsoQg==?=",
	"=?ISO-2022-JP?b?GyRCRnxLXBsoQg==?=",
	"=?gb2312?B?1tC5+g==?=",
	"=?koi8-r?Q?=F0=D2=C9=D7=C5=D4?=",
	"=?windows-1252?Q?Caf=E9?=",
	"=?shift_jis?B?k/qWew==?=",
	"=?utf-8?q?Accounts?= =?euc-kr?B?x9GxuQ==?=",
	"=?iso-2022-jp?B?" + strings.Repeat("GyRCRnxLXBsoQg", 12) + "==?=",
	"Dr. Who [CEO]",
	"[x]",
	"Support (billing",
	"a:b",
	"sales; marketing",
	"Bob \\ Ross",
	"Name \"unterminated",
	"J@ne Doe",
	"Company, Inc.",
	"a<b",
	"a>b",
	"caf\xe9",
	"ctl\x01x",
	strings.Repeat("x", 400) + " [" + strings.Repeat("y", 400) + "]",
}

var badNames []string

// BadNames: the candidates net/mail refuses in front of an angle-addr.
func BadNames() []string {
	if badNames == nil {
		for _, n := range badNameCandidates {
			if _, err := mail.ParseAddressList(n + " <user@example.com>"); err != nil {
				badNames = append(badNames, n)
			}
		}
	}
	return badNames
}

// FieldSpec says what one From field of a generated header holds: N >= 1 addresses, 0: an empty
// value, -1: a value that is not an address list.  Bad: one (sometimes every) address carries a
// display name net/mail refuses.
type FieldSpec struct {
	N   int
	Bad bool
}

func plain(counts ...int) []FieldSpec {
	var fs []FieldSpec
	for _, n := range counts {
		fs = append(fs, FieldSpec{N: n})
	}
	return fs
}

// angle-addr forms a display name can stand in front of
var angleForms = []func(l, d string) string{
	func(l, d string) string { return "<" + l + "@" + d + ">" },
	func(l, d string) string { return " <" + l + "@" + d + ">" },
	func(l, d string) string { return "\r\n <" + l + "@" + d + ">" },
}

// genHeader builds a header block holding one From field per entry of fields, in that order.  The
// address at position `focus` of the first field with addresses (-1: the last one) carries the
// domain `author` - the domain the zones and identifiers of the case are drawn for; in a field
// with one address that is the author domain of the header.  The returned shape is the
// generator's ground truth: the number of addresses per field, "m" for a field that is no address
// list by construction, "m<n>" for n addresses of which at least one stands behind a display name
// net/mail refuses (the property's "author addresses" are what the address parser makes of the
// field: none).
func genHeader(r *vh.Rng, author string, fields []FieldSpec, focus int) (raw string, shape string) {
	var froms, sh []string
	focusDone := false
	for _, fs := range fields {
		n := fs.N
		var v string
		switch {
		case n < 0:
			v = r.Pick("nobody", "<>", "a b c", "user@", "@"+author, "user@"+author+" user@"+author, "<user@"+author)
			sh = append(sh, "m")
		case n == 0:
			v = r.Pick("", " ", "\t")
			sh = append(sh, "0")
		default:
			fpos := -2
			if !focusDone {
				focusDone = true
				fpos = focus
				if fpos < 0 || fpos >= n {
					fpos = n - 1
				}
			}
			for {
				var as []string
				if n > 1 && !fs.Bad && r.Chance(15) {
					// a group holding all n addresses
					var m []string
					for k := 0; k < n; k++ {
						m = append(m, fmt.Sprintf("u%d@%s", k, author))
					}
					as = []string{"Team: " + strings.Join(m, ", ") + ";"}
				} else {
					badAt := -1
					if fs.Bad {
						badAt = r.Intn(n)
					}
					allBad := fs.Bad && r.Chance(15)
					for i := 0; i < n; i++ {
						d := author
						if i != fpos {
							pct := 65
							if fpos == -2 {
								pct = 50
							}
							if r.Chance(pct) {
								d = Doms[r.Intn(len(Doms)-1)].Name
							}
						}
						local := r.Pick("user", "alice", "first.last")
						if i == badAt || allBad {
							bn := BadNames()
							as = append(as, bn[r.Intn(len(bn))]+angleForms[r.Intn(len(angleForms))](local, d))
							continue
						}
						f := addrForms[r.Intn(len(addrForms))]
						as = append(as, f.render(local, d))
					}
					if fs.Bad && r.Chance(12) {
						// a group around the addresses
						as = []string{"Team: " + strings.Join(as, ", ") + ";"}
					}
				}
				if !fs.Bad {
					v = strings.Join(as, ", ")
					sh = append(sh, strconv.Itoa(n))
					break
				}
				v = strings.Join(as, r.Pick(", ", ", ", ",", ",\r\n "))
				// what the address parser makes of it decides; a value it reads as a list of another
				// length than the one built here has no ground truth and is drawn again
				l, err := mail.ParseAddressList(strings.ReplaceAll(v, "\r\n", ""))
				if err != nil {
					sh = append(sh, "m"+strconv.Itoa(n)) // n addresses were written, the parser reads none
					break
				}
				if len(l) == n {
					sh = append(sh, strconv.Itoa(n))
					break
				}
			}
		}
		key := keyForms[r.Intn(len(keyForms))]
		line := key + ": " + v
		if strings.TrimSpace(v) != "" && r.Chance(15) {
			line = key + ":\r\n " + v
		}
		froms = append(froms, line)
	}
	others := []string{"Subject: hello", "To: rcpt@example.net", "Date: Thu, 01 Jan 2026 00:00:00 +0000"}
	// merge, keeping the order of the From fields
	var lines []string
	for len(froms) > 0 || len(others) > 0 {
		if len(others) == 0 || (len(froms) > 0 && r.Bool()) {
			lines = append(lines, froms[0])
			froms = froms[1:]
		} else {
			lines = append(lines, others[0])
			others = others[1:]
		}
	}
	shape = strings.Join(sh, ",")
	if len(fields) == 0 {
		shape = "-"
	}
	return strings.Join(lines, "\r\n") + "\r\n\r\n", shape
}

var junkTXT = []string{"v=spf1 -all", "google-site-verification=abc", "V=DMARC1; p=reject", " v=DMARC1; p=reject", "v=DKIM1; p=", ""}

// genRecord renders a DMARC record with the given tags in one of several spellings.
func genRecord(r *vh.Rng, p, sp, adkim, aspf, pct string) string {
	tags := []string{}
	if p != "" {
		tags = append(tags, "p="+p)
	}
	rest := []string{}
	if sp != "" {
		rest = append(rest, "sp="+sp)
	}
	if adkim != "" {
		rest = append(rest, "adkim="+adkim)
	}
	if aspf != "" {
		rest = append(rest, "aspf="+aspf)
	}
	if pct != "" {
		rest = append(rest, "pct="+pct)
	}
	if r.Chance(25) {
		rest = append(rest, "rua=mailto:agg@example.net")
	}
	if r.Chance(10) {
		rest = append(rest, "fo=1")
	}
	// p first (RFC) or shuffled
	for i := len(rest) - 1; i > 0; i-- {
		j := r.Intn(i + 1)
		rest[i], rest[j] = rest[j], rest[i]
	}
	if r.Chance(20) {
		tags = append(rest, tags...)
	} else {
		tags = append(tags, rest...)
	}
	sep := r.Pick("; ", ";", " ; ", ";  ")
	s := "v=DMARC1" + sep + strings.Join(tags, sep)
	if r.Chance(30) {
		s += ";"
	}
	return s
}

var (
	polValues  = []string{"none", "quarantine", "reject", ""}
	modeValues = []string{"r", "s", ""}
	spfValues  = []string{"pass", "fail", "none", "neutral", "softfail", "temperror", "permerror"}
	dkimValues = []string{"pass", "fail", "none", "neutral", "temperror", "permerror", "policy"}
)

// genZone draws what one name publishes.  outcome classes of the property: record, none,
// multiple, NXDOMAIN, SERVFAIL; extras: junk-only, junk+record, invalid record, other errors.
func genZone(r *vh.Rng, wantRecord bool) Zone {
	rec := func() string {
		p := polValues[r.Intn(3)]
		if r.Chance(8) {
			p = ""
		}
		pct := ""
		switch {
		case r.Chance(20):
			pct = "100"
		case r.Chance(8):
			pct = r.Pick("0", "1", "50", "99")
		}
		return genRecord(r, p, polValues[r.Intn(4)], modeValues[r.Intn(3)], modeValues[r.Intn(3)], pct)
	}
	if wantRecord {
		z := Zone{Kind: "ok", TXT: []string{rec()}}
		if r.Chance(25) {
			z.TXT = append(z.TXT, junkTXT[r.Intn(len(junkTXT))])
			if r.Bool() {
				z.TXT[0], z.TXT[1] = z.TXT[1], z.TXT[0]
			}
		}
		return z
	}
	switch k := r.Intn(100); {
	case k < 30:
		return Zone{Kind: "nx"}
	case k < 42:
		return Zone{Kind: "ok"}
	case k < 57:
		z := Zone{Kind: "ok", TXT: []string{junkTXT[r.Intn(len(junkTXT))]}}
		if r.Bool() {
			z.TXT = append(z.TXT, junkTXT[r.Intn(len(junkTXT))])
		}
		return z
	case k < 69:
		z := Zone{Kind: "ok", TXT: []string{rec(), rec()}}
		if r.Chance(30) {
			z.TXT = append(z.TXT, junkTXT[0])
		}
		return z
	case k < 83:
		return Zone{Kind: r.Pick("temp", "temp", "temp2")}
	case k < 89:
		return Zone{Kind: r.Pick("other", "other2")}
	case k < 92:
		return Zone{Kind: "nx2"}
	default:
		return Zone{Kind: "ok", TXT: []string{r.Pick("v=DMARC1; p=bogus", "v=DMARC1; p=reject; adkim=x", "v=DMARC1; p=reject; sp=no", "v=DMARC1 p=reject", "v=DMARC1; p=reject; pct=200", "v=DMARC10; p=reject")}}
	}
}

// Random draws one case.
func Random(r *vh.Rng) *Case {
	c := &Case{Zones: map[string]Zone{}}
	// author domain: any name of the set except ""; public suffixes themselves are rare authors
	from := Doms[r.Intn(len(Doms)-1)].Name
	for from == asciiLower(Doms[domIdx[from]].Org) && asciiLower(from) != "example.com" && r.Chance(60) {
		from = Doms[r.Intn(len(Doms)-1)].Name
	}
	// header shape
	var fields []FieldSpec
	switch k := r.Intn(100); {
	case k < 71:
		fields = plain(1)
	case k < 74:
		fields = nil
	case k < 78:
		fields = plain(2 + r.Intn(2))
	case k < 81:
		fields = plain(1, 1)
	case k < 84:
		fields = plain(0, 1)
	case k < 85:
		fields = plain(1, 0)
	case k < 86:
		fields = plain(0)
	case k < 87:
		fields = plain(0, 0, 1)
	case k < 89:
		fields = plain(-1)
	case k < 90:
		fields = plain(-1, 1)
	case k < 91:
		fields = plain(1, 1, 1)
	case k < 94:
		// one address behind a display name the address parser refuses
		fields = []FieldSpec{{N: 1, Bad: true}}
	case k < 99:
		// several addresses, at least one of them behind such a display name
		fields = []FieldSpec{{N: 2 + r.Intn(3), Bad: true}}
	default:
		fields = []FieldSpec{{N: 1 + r.Intn(2), Bad: true}, {N: 1}}
	}
	// which address of a field with several carries the domain the case is built around
	focus := 0
	switch k := r.Intn(100); {
	case k < 40:
		focus = 0
	case k < 80:
		focus = -1
	default:
		focus = r.Intn(4)
	}
	hdrFrom := from
	c.HdrRaw, c.Shape = genHeader(r, hdrFrom, fields, focus)
	c.Author = hdrFrom
	// zones
	org, _ := KnownOrg(from)
	lf := asciiLower(from)
	setZone := func(n string, z Zone) {
		if _, ok := c.Zones[n]; !ok {
			c.Names = append(c.Names, n)
		}
		c.Zones[n] = z
	}
	switch k := r.Intn(100); {
	case k < 35: // record at the author domain
		setZone(lf, genZone(r, true))
		if org != lf {
			setZone(org, genZone(r, r.Bool()))
		}
	case k < 70: // nothing usable at the author domain, record at the organizational domain
		if org != lf {
			z := Zone{Kind: r.Pick("nx", "nx", "ok", "nx2")}
			if z.Kind == "ok" && r.Bool() {
				z.TXT = []string{junkTXT[r.Intn(len(junkTXT))]}
			}
			setZone(lf, z)
		}
		setZone(org, genZone(r, true))
	default:
		setZone(lf, genZone(r, false))
		if org != lf {
			setZone(org, genZone(r, r.Chance(40)))
		}
	}
	if r.Chance(10) {
		// an unrelated name publishes something, it must not matter
		setZone(r.Pick("example.net", "uk", "com"), genZone(r, true))
	}
	// results
	nd := 1 + r.Intn(3)
	if r.Chance(5) {
		nd = 4 + r.Intn(4)
	}
	if r.Chance(3) {
		nd = 0
	}
	for i := 0; i < nd; i++ {
		v := dkimValues[r.Intn(len(dkimValues))]
		if r.Chance(30) {
			v = "pass"
		}
		d := related(r, from, true)
		if v == "none" && r.Chance(70) {
			d = ""
		}
		c.Res = append(c.Res, Res{Kind: 'd', Val: v, Dom: d, Ident: GenIdent(r, d, from)})
	}
	ns := 1
	if r.Chance(3) {
		ns = 0
	} else if r.Chance(3) {
		ns = 2
	}
	for i := 0; i < ns; i++ {
		v := spfValues[r.Intn(len(spfValues))]
		if r.Chance(25) {
			v = "pass"
		}
		if r.Chance(1) {
			v = ""
		}
		s := Res{Kind: 's', Val: v, From: related(r, from, false), Helo: related(r, from, false)}
		if r.Chance(15) {
			s.From = ""
		}
		pos := r.Intn(len(c.Res) + 1)
		c.Res = append(c.Res[:pos], append([]Res{s}, c.Res[pos:]...)...)
	}
	for no := 2; no > 0 && r.Chance(14); no-- {
		pos := r.Intn(len(c.Res) + 1)
		c.Res = append(c.Res[:pos], append([]Res{{Kind: 'o', Other: r.Intn(OtherKinds)}}, c.Res[pos:]...)...)
	}
	c.Seed = int64(r.Intn(1 << 30))
	c.PriorQ = r.Chance(20)
	return c
}

// AddTiming draws the timing of a pipeline run for the case: which of the three check blocks
// (global, source, recipient) exist and how the authentication results are spread over them (in
// order), and for every name the resolver may be asked the stage at which its answer arrives.
func AddTiming(r *vh.Rng, c *Case) {
	exists := []bool{!r.Chance(10), r.Chance(60), r.Chance(60)}
	if !exists[0] && !exists[1] && !exists[2] {
		exists[r.Intn(3)] = true
	}
	var idx []int
	for k, e := range exists {
		if e {
			idx = append(idx, k)
		}
	}
	c.Blocks = []int{-1, -1, -1}
	for _, k := range idx {
		c.Blocks[k] = 0
	}
	// every result goes to one of the existing blocks, order kept
	cur := 0
	for range c.Res {
		for cur < len(idx)-1 && r.Chance(35) {
			cur++
		}
		c.Blocks[idx[cur]]++
	}
	if r.Chance(25) {
		// everything is reported by the last block
		for _, k := range idx {
			c.Blocks[k] = 0
		}
		c.Blocks[idx[len(idx)-1]] = len(c.Res)
	}
	c.QBlock = idx[r.Intn(len(idx))]
	c.NonAtomic = r.Chance(30)
	c.Arrive = map[string]int{}
	stage := func() int {
		switch k := r.Intn(100); {
		case k < 20:
			return 0
		case k < 40:
			return 1
		case k < 60:
			return 2
		case k < 80:
			return 3
		default:
			return 4
		}
	}
	c.ArriveDefault = stage()
	for _, n := range c.Names {
		if r.Chance(70) {
			c.Arrive[n] = stage()
		}
	}
}

// ---------------------------------------------------------------------------------------------
// Corpus: hand-made cases that run first in every tier (the witnesses of the defects this check
// found on the unchanged tree, and one plain case per clause of the property).

func mk(hdr, shape, author string, zones map[string]Zone, res ...Res) *Case {
	c := &Case{HdrRaw: hdr, Shape: shape, Author: author, Zones: map[string]Zone{}, Res: res}
	var names []string
	for n := range zones {
		names = append(names, n)
	}
	// deterministic order
	for i := range names {
		for j := i + 1; j < len(names); j++ {
			if names[j] < names[i] {
				names[i], names[j] = names[j], names[i]
			}
		}
	}
	for _, n := range names {
		c.Zones[n] = zones[n]
		c.Names = append(c.Names, n)
	}
	return c
}

func txt(records ...string) Zone { return Zone{Kind: "ok", TXT: records} }

func Corpus() []*Case {
	dk := func(v, d string) Res { return Res{Kind: 'd', Val: v, Dom: d, Ident: "@" + d} }
	dki := func(v, d, i string) Res { return Res{Kind: 'd', Val: v, Dom: d, Ident: i} }
	spf := func(v, from, helo string) Res { return Res{Kind: 's', Val: v, From: from, Helo: helo} }
	one := func(d string) string { return "From: Some Body <user@" + d + ">\r\nSubject: x\r\n\r\n" }
	return []*Case{
		// upper-case From domain under a two-label suffix: another registrant's signature must not align
		mk(one("EXAMPLE.CO.UK"), "1", "EXAMPLE.CO.UK", map[string]Zone{"example.co.uk": txt("v=DMARC1; p=reject")},
			dk("pass", "EVIL.CO.UK"), spf("fail", "example.org", "mx.example.org")),
		// upper-case subdomain: the organizational domain's policy applies
		mk(one("Mail.Example.Co.UK"), "1", "Mail.Example.Co.UK", map[string]Zone{"example.co.uk": txt("v=DMARC1; p=reject")},
			dk("none", ""), spf("fail", "example.org", "mx.example.org")),
		// the same identifier in another spelling aligns
		mk(one("example.co.uk"), "1", "example.co.uk", map[string]Zone{"example.co.uk": txt("v=DMARC1; p=reject")},
			dk("pass", "EXAMPLE.CO.UK"), spf("fail", "example.org", "mx.example.org")),
		// only a non-DMARC TXT string at the subdomain: the organizational domain's policy applies
		mk(one("sub.example.com"), "1", "sub.example.com", map[string]Zone{"sub.example.com": txt("v=spf1 -all"), "example.com": txt("v=DMARC1; p=reject")},
			dk("none", ""), spf("fail", "example.org", "mx.example.org")),
		// SPF temperror on an identity that is not aligned: alignment is decided, permanent refusal
		mk(one("example.com"), "1", "example.com", map[string]Zone{"example.com": txt("v=DMARC1; p=reject")},
			dk("none", ""), spf("temperror", "example.org", "mx.example.org")),
		// SPF temperror on an aligned identity: undecided, temporary refusal
		mk(one("example.com"), "1", "example.com", map[string]Zone{"example.com": txt("v=DMARC1; p=reject")},
			dk("fail", "example.org"), spf("temperror", "sub.example.com", "mx.example.org")),
		// an empty From field followed by a second one: two fields, no pass
		mk("From: \r\nFrom: user@example.com\r\nSubject: x\r\n\r\n", "0,1", "", map[string]Zone{"example.com": txt("v=DMARC1; p=none")},
			dk("pass", "example.com"), spf("pass", "example.com", "mx.example.com")),
		// plain clauses
		mk(one("sub.example.com"), "1", "sub.example.com", map[string]Zone{"sub.example.com": {Kind: "nx"}, "example.com": txt("v=DMARC1; p=reject; sp=quarantine")},
			dk("pass", "example.org"), spf("softfail", "example.org", "mx.example.org")),
		mk(one("example.com"), "1", "example.com", map[string]Zone{"example.com": {Kind: "temp"}},
			dk("pass", "example.com"), spf("pass", "example.com", "mx.example.com")),
		mk(one("example.com"), "1", "example.com", map[string]Zone{"example.com": txt("v=DMARC1; p=reject", "v=DMARC1; p=none")},
			dk("fail", "example.com"), spf("fail", "example.com", "mx.example.com")),
		mk(one("example.com"), "1", "example.com", map[string]Zone{"example.com": txt("v=DMARC1; p=reject; adkim=s; aspf=s")},
			dk("pass", "sub.example.com"), spf("pass", "sub.example.com", "mx.example.com")),
		mk(one("co.uk"), "1", "co.uk", map[string]Zone{"co.uk": txt("v=DMARC1; p=reject")},
			dk("pass", "example.co.uk"), spf("pass", "", "co.uk")),
		// several addresses, one behind a display name the address parser refuses (encoded-word in a
		// charset it has no decoder for; unquoted specials): no author, no pass - whichever address an
		// authenticated identifier is aligned with
		mk("From: =?iso-2022-jp?B?GyRCRnxLXBsoQg==?= <ceo@example.com>, <x@evil.com>\r\nSubject: x\r\n\r\n", "m2", "",
			map[string]Zone{"example.com": txt("v=DMARC1; p=reject"), "evil.com": txt("v=DMARC1; p=none")},
			dk("pass", "evil.com"), spf("pass", "mail.evil.com", "mail.evil.com")),
		mk("From: <x@evil.com>, Dr. Who [CEO] <ceo@example.com>\r\nSubject: x\r\n\r\n", "m2", "",
			map[string]Zone{"example.com": txt("v=DMARC1; p=reject"), "evil.com": txt("v=DMARC1; p=none")},
			dk("pass", "evil.com"), spf("pass", "mail.evil.com", "mail.evil.com")),
		mk("From: Team: =?koi8-r?Q?=F0=D2=C9=D7=C5=D4?= <ceo@example.com>, x@evil.com;\r\nSubject: x\r\n\r\n", "m2", "",
			map[string]Zone{"example.com": txt("v=DMARC1; p=reject"), "evil.com": txt("v=DMARC1; p=none")},
			dk("pass", "example.com"), spf("pass", "evil.com", "mail.evil.com")),
		// the signing identity (i=) takes no part in alignment.  Strict mode, d= is the author domain, i= lies below it: pass
		mk(one("example.com"), "1", "example.com", map[string]Zone{"example.com": txt("v=DMARC1; p=reject; adkim=s; aspf=s")},
			dki("pass", "example.com", "@mail.example.com"), spf("fail", "example.org", "mx.example.org")),
		// strict mode, d= is the parent of the author domain, i= names the author domain: not aligned
		mk(one("sub.example.com"), "1", "sub.example.com", map[string]Zone{"sub.example.com": txt("v=DMARC1; p=reject; adkim=s")},
			dki("pass", "example.com", "bulk@sub.example.com"), spf("fail", "example.org", "mx.example.org")),
		// relaxed mode, d= in another organizational domain than the author domain that i= names (private suffix below d=)
		mk(one("mallory.s3.amazonaws.com"), "1", "mallory.s3.amazonaws.com", map[string]Zone{"mallory.s3.amazonaws.com": txt("v=DMARC1; p=quarantine")},
			dki("pass", "amazonaws.com", "@mallory.s3.amazonaws.com"), spf("fail", "example.org", "mx.example.org")),
		// i= names the author domain, d= somebody else
		mk(one("example.com"), "1", "example.com", map[string]Zone{"example.com": txt("v=DMARC1; p=reject")},
			dki("pass", "evil.com", "ceo@example.com"), spf("fail", "example.org", "mx.example.org")),
		// no i= at all / a malformed one / upper case below d=: d= decides
		mk(one("example.com"), "1", "example.com", map[string]Zone{"example.com": txt("v=DMARC1; p=reject; adkim=s")},
			dki("pass", "example.com", ""), spf("fail", "example.org", "mx.example.org")),
		mk(one("example.com"), "1", "example.com", map[string]Zone{"example.com": txt("v=DMARC1; p=reject; adkim=s")},
			dki("fail", "example.com", "@"), dki("pass", "example.com", "USER@NEWS.EXAMPLE.COM"), spf("fail", "example.org", "mx.example.org")),
		// a temporary error of a signature whose d= is aligned leaves alignment undecided, whatever its i=
		mk(one("example.com"), "1", "example.com", map[string]Zone{"example.com": txt("v=DMARC1; p=reject; adkim=s")},
			dki("temperror", "example.com", "@mail.example.com"), spf("fail", "example.org", "mx.example.org")),
		// ... and one whose d= is not aligned decides nothing, even when i= names the author domain
		mk(one("sub.example.com"), "1", "sub.example.com", map[string]Zone{"sub.example.com": txt("v=DMARC1; p=reject; adkim=s")},
			dki("temperror", "example.com", "@sub.example.com"), spf("fail", "example.org", "mx.example.org")),
	}
}

// TimedCorpus: pipeline runs with a timing (reply ops only).  A message failing p=reject whose
// policy answer arrives while the second / third block's body checks run, or after all of them.
func TimedCorpus() []*Case {
	dk := func(v, d string) Res { return Res{Kind: 'd', Val: v, Dom: d, Ident: "@" + d} }
	spf := func(v, from, helo string) Res { return Res{Kind: 's', Val: v, From: from, Helo: helo} }
	one := func(d string) string { return "From: Some Body <user@" + d + ">\r\nSubject: x\r\n\r\n" }
	var out []*Case
	for _, blocks := range [][]int{{2, -1, -1}, {1, 1, -1}, {0, 1, 1}, {-1, -1, 2}, {1, 0, 1}} {
		for _, stage := range []int{2, 3, 4, 1, 0} {
			c := mk(one("example.com"), "1", "example.com", map[string]Zone{"example.com": txt("v=DMARC1; p=reject")},
				dk("fail", "example.com"), spf("fail", "example.org", "mx.example.org"))
			c.Blocks, c.ArriveDefault = blocks, stage
			out = append(out, c)
			// organizational-domain fallback: two lookups, the second one late
			c = mk(one("sub.example.com"), "1", "sub.example.com", map[string]Zone{"sub.example.com": {Kind: "nx"}, "example.com": txt("v=DMARC1; p=quarantine; sp=reject")},
				dk("none", ""), spf("softfail", "example.org", "mx.example.org"))
			c.Blocks, c.Arrive, c.ArriveDefault = blocks, map[string]int{"example.com": stage}, 0
			c.NonAtomic = stage%2 == 1
			out = append(out, c)
		}
	}
	return out
}

// WrapCorpus: pipeline runs in which the checks hand their verdicts over the way the stock checks
// do (reply ops only): check.spf leaving the decision to DMARC or with action "ignore" - the
// result together with a Reason and no action flag -, a check whose own action is quarantine, a
// check that evaluates at the MAIL FROM / RCPT TO stage, header fields next to the results.
func WrapCorpus() []*Case {
	dk := func(v, d string) Res { return Res{Kind: 'd', Val: v, Dom: d, Ident: "@" + d} }
	spf := func(v, from, helo string) Res { return Res{Kind: 's', Val: v, From: from, Helo: helo} }
	one := func(d string) string { return "From: Some Body <user@" + d + ">\r\nSubject: x\r\n\r\n" }
	var out []*Case
	for _, pol := range []string{"reject", "quarantine", "none"} {
		for _, v := range []string{"fail", "softfail", "none", "temperror", "pass"} {
			for i, lay := range []struct {
				blocks []int
				wraps  []string
			}{
				{nil, []string{"bi"}},
				{[]int{1, 1, -1}, []string{"b", "bi", "-"}},
				{[]int{1, -1, 1}, []string{"bih", "-", "si"}},
				{[]int{-1, 1, 1}, []string{"-", "ci", "ri"}},
				{[]int{0, 1, 1}, []string{"bi", "rh", "bq"}},
				{nil, []string{"sq"}},
				{[]int{2, -1, -1}, []string{"rih", "-", "-"}},
				{[]int{1, 1, -1}, []string{"bid", "sd", "-"}},
				{nil, []string{"bid"}},
			} {
				// nothing aligned: the only signature is somebody else's, SPF speaks for another domain
				c := mk(one("example.com"), "1", "example.com", map[string]Zone{"example.com": txt("v=DMARC1; p=" + pol)},
					dk("pass", "example.net"), spf(v, "example.net", "mx.example.net"))
				c.Blocks, c.Wraps = lay.blocks, lay.wraps
				c.ArriveDefault = i % 5
				out = append(out, c)
				// the SPF identity is the author's: a pass aligns, whatever comes with the result
				c = mk(one("example.com"), "1", "example.com", map[string]Zone{"example.com": txt("v=DMARC1; p=" + pol + "; aspf=s")},
					dk("fail", "example.com"), spf(v, "example.com", "mx.example.net"))
				c.Blocks, c.Wraps = lay.blocks, lay.wraps
				c.NonAtomic = lay.blocks != nil && i%2 == 1
				out = append(out, c)
			}
		}
	}
	return out
}

// HopCorpus: the message reaches the storage through routing blocks (nested pipelines sharing its
// metadata), the shape of the stock configuration (reply ops only).
func HopCorpus() []*Case {
	dk := func(v, d string) Res { return Res{Kind: 'd', Val: v, Dom: d, Ident: "@" + d} }
	spf := func(v, from, helo string) Res { return Res{Kind: 's', Val: v, From: from, Helo: helo} }
	one := func(d string) string { return "From: Some Body <user@" + d + ">\r\nSubject: x\r\n\r\n" }
	var out []*Case
	for _, rec := range []string{"p=reject", "p=quarantine", "p=none", "p=none; sp=quarantine", "p=quarantine; sp=none", "p=quarantine; pct=100"} {
		for i, lay := range []struct {
			hops   []string
			blocks []int
			wraps  []string
		}{
			{[]string{"p"}, nil, nil},
			{[]string{"c"}, nil, []string{"bi"}},
			{[]string{"p", "p"}, []int{1, 1, -1}, nil},
			{[]string{"m"}, []int{-1, 1, 1}, []string{"-", "ci", "ri"}},
			{[]string{"c", "m", "p"}, nil, []string{"sih"}},
			{[]string{"f"}, nil, nil},
			{[]string{"p", "f"}, nil, []string{"bq"}},
			{[]string{"m", "c"}, []int{2, -1, -1}, nil},
		} {
			for _, sub := range []bool{false, true} {
				author, zone := "example.com", "example.com"
				if sub {
					author = "mail.example.com"
				}
				for _, aligned := range []bool{false, true} {
					zones := map[string]Zone{zone: txt("v=DMARC1; " + rec)}
					if sub {
						zones[author] = Zone{Kind: "nx"}
					}
					c := mk(one(author), "1", author, zones,
						dk("pass", "example.net"), spf("fail", "example.net", "mx.example.net"))
					if aligned {
						c.Res[0] = dk("pass", "example.com")
					}
					c.Hops, c.Blocks, c.Wraps = lay.hops, lay.blocks, lay.wraps
					c.ArriveDefault = i % 5
					c.NonAtomic = lay.blocks != nil && i%2 == 1
					out = append(out, c)
				}
			}
		}
	}
	return out
}

// ---------------------------------------------------------------------------------------------
// Enumeration of the property's stated product (thorough tier).

// Enumerate calls f for a structured sweep: author domains × lookup outcome × policy tags ×
// alignment modes × SPF result/identity × DKIM result sets.  stride thins the sweep
// deterministically (1 = everything).
func Enumerate(stride int, offset int, f func(*Case), total ...*int) int {
	authors := []string{"example.com", "sub.example.com", "EXAMPLE.CO.UK", "sub.example.co.uk", "alice.github.io", "co.uk"}
	lookups := []string{"at-domain", "at-org", "none", "multiple", "nxdomain", "servfail", "junk-then-org", "servfail-at-org"}
	pols := []string{"none", "quarantine", "reject", ""}
	modes := []string{"r", "s"}
	n, emitted := 0, 0
	for _, from := range authors {
		org, _ := KnownOrg(from)
		lf := asciiLower(from)
		idents := identsFor(from)
		// DKIM sets of size 1..2 over (value, identifier) pairs, plus the lone 'none' result
		type dk struct{ v, d string }
		var singles []dk
		for _, v := range []string{"pass", "fail", "temperror"} {
			for _, d := range idents {
				singles = append(singles, dk{v, d})
			}
		}
		var dsets [][]dk
		dsets = append(dsets, []dk{{"none", ""}})
		for _, a := range singles {
			dsets = append(dsets, []dk{a})
		}
		for i, a := range singles {
			for j, b := range singles {
				if i < j && (i*7+j)%11 == 0 {
					dsets = append(dsets, []dk{a, b})
				}
			}
		}
		for _, lk := range lookups {
			for _, p := range pols {
				for _, sp := range pols {
					if (lk != "at-domain" && lk != "at-org" && lk != "junk-then-org") && (p != "reject" || sp != "") {
						continue // the record content is irrelevant when none applies
					}
					for _, adkim := range modes {
						for _, aspf := range modes {
							for _, sv := range spfValues {
								for _, sid := range idents {
									for _, ds := range dsets {
										n++
										if (n+offset)%stride != 0 {
											continue
										}
										c := &Case{Zones: map[string]Zone{}, Shape: "1", Author: from}
										c.HdrRaw = "From: <user@" + from + ">\r\nSubject: x\r\n\r\n"
										rec := "v=DMARC1; "
										if p != "" {
											rec += "p=" + p + "; "
										}
										if sp != "" {
											rec += "sp=" + sp + "; "
										}
										rec += "adkim=" + adkim + "; aspf=" + aspf
										set := func(name string, z Zone) {
											if _, ok := c.Zones[name]; !ok {
												c.Names = append(c.Names, name)
											}
											c.Zones[name] = z
										}
										switch lk {
										case "at-domain":
											set(lf, Zone{Kind: "ok", TXT: []string{rec}})
											if org != lf {
												set(org, Zone{Kind: "ok", TXT: []string{"v=DMARC1; p=none; sp=none"}})
											}
										case "at-org":
											if org != lf {
												set(lf, Zone{Kind: "nx"})
											}
											set(org, Zone{Kind: "ok", TXT: []string{rec}})
										case "junk-then-org":
											if org != lf {
												set(lf, Zone{Kind: "ok", TXT: []string{"v=spf1 -all"}})
											}
											set(org, Zone{Kind: "ok", TXT: []string{"unrelated", rec}})
										case "none":
											set(lf, Zone{Kind: "ok"})
											if org != lf {
												set(org, Zone{Kind: "ok"})
											}
										case "multiple":
											set(lf, Zone{Kind: "ok", TXT: []string{rec, "v=DMARC1; p=none"}})
										case "nxdomain":
											set(lf, Zone{Kind: "nx"})
											if org != lf {
												set(org, Zone{Kind: "nx"})
											}
										case "servfail":
											set(lf, Zone{Kind: "temp"})
											if org != lf {
												set(org, Zone{Kind: "ok", TXT: []string{rec}})
											}
										case "servfail-at-org":
											if org != lf {
												set(lf, Zone{Kind: "nx"})
											}
											set(org, Zone{Kind: "temp"})
										}
										for di, d := range ds {
											c.Res = append(c.Res, Res{Kind: 'd', Val: d.v, Dom: d.d, Ident: IdentByIndex(n*3+di, d.d, from)})
										}
										s := Res{Kind: 's', Val: sv, From: sid, Helo: "mx.example.org"}
										if n%5 == 0 {
											s.From, s.Helo = "", sid
										}
										if n%2 == 0 {
											c.Res = append([]Res{s}, c.Res...)
										} else {
											c.Res = append(c.Res, s)
										}
										c.PriorQ = mix(n+2)%7 == 0
										f(c)
										emitted++
									}
								}
							}
						}
					}
				}
			}
		}
	}
	for _, t := range total {
		*t = n
	}
	return emitted
}

// EnumStride returns the stride that thins the sweep to about target cases.
func EnumStride(target int) int {
	total := 0
	Enumerate(1<<40, 1, func(*Case) {}, &total)
	if target <= 0 || total <= target {
		return 1
	}
	return (total + target - 1) / target
}

// identsFor: the identifier domains that stand in the property's relations to the author domain:
// exact (also in another spelling), subdomain, parent/sibling, public suffix, other registrant
// under the same suffix, unrelated.
func identsFor(from string) []string {
	switch from {
	case "example.com":
		return []string{"example.com", "EXAMPLE.COM", "sub.example.com", "evil.com", "com", "example.org"}
	case "sub.example.com":
		return []string{"sub.example.com", "Sub.Example.Com", "deep.sub.example.com", "example.com", "other.example.com", "mail.evil.com", "com", "example.org"}
	case "EXAMPLE.CO.UK":
		return []string{"EXAMPLE.CO.UK", "example.co.uk", "sub.example.co.uk", "EVIL.CO.UK", "evil.co.uk", "co.uk", "uk", "example.org"}
	case "sub.example.co.uk":
		return []string{"sub.example.co.uk", "example.co.uk", "Mail.Example.Co.UK", "www.evil.co.uk", "example.org.uk", "co.uk", "example.org"}
	case "alice.github.io":
		return []string{"alice.github.io", "ALICE.GITHUB.IO", "www.alice.github.io", "bob.github.io", "github.io", "example.org"}
	case "co.uk":
		return []string{"co.uk", "CO.UK", "example.co.uk", "uk", "example.org"}
	}
	panic("vdmarc: no identifier list for " + from)
}

// LawsOp renders the `laws` op: library rows and EqualFold classes for every name of the fixed
// set, and the hand-written organizational domains.
func LawsOp(out *vh.Out) string {
	t := newTables()
	g := []string{"C07 laws"}
	var o []string
	for _, d := range Doms {
		t.dom(d.Name)
		t.str(d.Org)
		o = append(o, "o "+Tok(d.Name)+" "+Tok(d.Org))
	}
	g = append(g, t.rows...)
	g = append(g, t.classes(out)...)
	g = append(g, o...)
	return strings.Join(g, " | ")
}

// AlignedOp renders one `aligned` op.
func AlignedOp(from, auth, mode string, out *vh.Out) string {
	t := newTables()
	t.dom(from)
	t.dom(auth)
	g := []string{"C07 aligned " + Tok(from) + " " + Tok(auth) + " " + mode}
	g = append(g, t.rows...)
	g = append(g, t.classes(out)...)
	return strings.Join(g, " | ")
}
