// Package vc16 holds what the C16 harnesses need for REAL error values that come out of maddy's
// own conversions (smtpconn.wrapClientErr, remote.newConn, ...): an abstraction of a Go error
// value into the term language of the Lean model (Describe), the canonical rendering of what the
// endpoint answers / the queue records for it, and the C16 monitor on those (Check).
// Used by the C16 check only.
package vc16

import (
	"bufio"
	"context"
	"errors"
	"fmt"
	"io"
	"net"
	"os"
	"strconv"
	"strings"
	"syscall"

	"github.com/emersion/go-smtp"
	"github.com/foxcpp/maddy/framework/exterrors"
	"github.com/foxcpp/maddy/internal/verifshim/verr"
	"github.com/foxcpp/maddy/internal/verifshim/vh"
)

type (
	hasTemporary interface{ Temporary() bool }
	hasFields    interface{ Fields() map[string]interface{} }
	hasUnwrap    interface{ Unwrap() error }
)

// Describe abstracts a real error value into the model's term language: what the functions
// that look at errors (errors.As for Temporary(), exterrors.Fields, errors.Is for the deadline)
// can see of it, node by node of the Unwrap chain.
//
//	*exterrors.SMTPError          S / W        *smtp.SMTPError      R
//	context.DeadlineExceeded      D
//	Fields()                      F (the three smtp_* keys; around it T when it has Temporary() too)
//	Temporary() and Unwrap()      T            Temporary() only     N
//	Unwrap() only                 F - - _      (invisible wrapper: TLSError, SyscallError, %w)
//	anything else                 P
func Describe(err error) *verr.Node {
	if err == nil {
		panic("vc16.Describe(nil)")
	}
	switch e := err.(type) {
	case *exterrors.SMTPError:
		n := &verr.Node{Kind: "S", Code: e.Code, Ench: [3]int(e.EnhancedCode), Msg: e.Message}
		if e.Err != nil {
			n.Kind = "W"
			n.Inner = Describe(e.Err)
		}
		return n
	case *smtp.SMTPError:
		return &verr.Node{Kind: "R", Code: e.Code, Ench: [3]int(e.EnhancedCode), Msg: e.Message}
	}
	if err == context.DeadlineExceeded {
		return &verr.Node{Kind: "D"}
	}
	var inner *verr.Node
	if u, ok := err.(hasUnwrap); ok && u.Unwrap() != nil {
		inner = Describe(u.Unwrap())
	}
	var n *verr.Node
	if f, ok := err.(hasFields); ok {
		n = &verr.Node{Kind: "F", Inner: inner}
		if n.Inner == nil {
			n.Inner = &verr.Node{Kind: "P"}
		}
		m := f.Fields()
		if c, ok := m["smtp_code"].(int); ok {
			n.HasC, n.Code = true, c
		}
		if e, ok := m["smtp_enchcode"].(exterrors.EnhancedCode); ok {
			n.HasE, n.Ench = true, [3]int(e)
		}
		if s, ok := m["smtp_msg"].(string); ok {
			n.HasM, n.Msg = true, s
		}
		if t, ok := err.(hasTemporary); ok {
			return &verr.Node{Kind: "T", Temp: t.Temporary(), Inner: n}
		}
		return n
	}
	if t, ok := err.(hasTemporary); ok {
		if inner != nil {
			return &verr.Node{Kind: "T", Temp: t.Temporary(), Inner: inner}
		}
		return &verr.Node{Kind: "N", Temp: t.Temporary()}
	}
	if inner != nil {
		return &verr.Node{Kind: "F", Inner: inner}
	}
	return &verr.Node{Kind: "P"}
}

// OpErr builds one of the network errors of the menu (the Lean driver has the same menu with
// the descriptions; Describe of the real value is compared with it on every run).
func OpErr(key string) *net.OpError {
	addr := &net.TCPAddr{IP: net.IPv4(192, 0, 2, 1), Port: 25}
	switch key {
	case "refused":
		return &net.OpError{Op: "dial", Net: "tcp", Addr: addr, Err: os.NewSyscallError("connect", syscall.ECONNREFUSED)}
	case "reset":
		return &net.OpError{Op: "read", Net: "tcp", Addr: addr, Err: os.NewSyscallError("read", syscall.ECONNRESET)}
	case "timeout":
		return &net.OpError{Op: "read", Net: "tcp", Addr: addr, Err: os.ErrDeadlineExceeded}
	case "eof":
		return &net.OpError{Op: "read", Net: "tcp", Addr: addr, Err: io.ErrUnexpectedEOF}
	case "ctx":
		return &net.OpError{Op: "dial", Net: "tcp", Addr: addr, Err: context.DeadlineExceeded}
	case "dns0":
		return &net.OpError{Op: "dial", Net: "tcp", Err: &net.DNSError{Err: "no such host", Name: "mx.c16.invalid", IsNotFound: true}}
	case "dns1":
		return &net.OpError{Op: "dial", Net: "tcp", Err: &net.DNSError{Err: "server misbehaving", Name: "mx.c16.invalid", IsTemporary: true}}
	case "dnsc":
		// the lookup of the dial interrupted by the cancellation of its context, as the resolver wraps it
		return &net.OpError{Op: "dial", Net: "tcp", Err: &net.DNSError{Err: "operation was canceled", Name: "mx.c16.invalid", UnwrapErr: context.Canceled}}
	case "cancel":
		return &net.OpError{Op: "dial", Net: "tcp", Addr: addr, Err: context.Canceled}
	}
	panic("vc16: unknown network error " + key)
}

var OpKeys = []string{"refused", "reset", "timeout", "eof", "ctx", "dns0", "dns1", "dnsc", "cancel"}

// Conv are the two real conversions (exported from their packages by the zz_verif_c16_export.go files).
type Conv struct {
	WrapErr   func(mangleUTF8 bool, err error) error
	ToSMTPErr func(err error) *smtp.SMTPError
}

// Seen is what maddy does with one failure value.
type Seen struct {
	Err      error
	Ep0, Ep1 *smtp.SMTPError // reply to a client that negotiated SMTPUTF8 / that did not
	Stored   *smtp.SMTPError // what the queue records and prints into the failure report
	Retried  bool            // the queue's decision (before the attempt bound)
}

func Run(c Conv, e error) Seen {
	s := Seen{Err: e, Stored: c.ToSMTPErr(e), Retried: exterrors.IsTemporaryOrUnspec(e)}
	s.Ep0, _ = c.WrapErr(false, e).(*smtp.SMTPError)
	s.Ep1, _ = c.WrapErr(true, e).(*smtp.SMTPError)
	return s
}

func canonMsg(m string, subst map[string]string) string {
	if s, ok := subst[m]; ok {
		m = s
	}
	switch m {
	case "Internal server error":
		return "generic"
	case "High load, try again later":
		return "highload"
	}
	return "text:" + vh.HexRunes(m)
}

// Canon renders a Seen the way the Lean driver prints it (showGood). subst replaces message
// texts the model does not produce (the Error() text appended by newConn) by their modelled part.
func (s Seen) Canon(subst map[string]string) string {
	if s.Ep0 == nil || s.Ep1 == nil {
		return "wrapErr-did-not-return-an-smtp-error"
	}
	n := Describe(s.Err)
	for x := n; x != nil; x = x.Inner {
		if r, ok := subst[x.Msg]; ok {
			x.Msg = r
		}
	}
	ep := func(r *smtp.SMTPError) string {
		return fmt.Sprintf("%d %s %s", r.Code, verr.WireEnch(r.Code, r.EnhancedCode), canonMsg(r.Message, subst))
	}
	st := fmt.Sprintf("%d %s %s", s.Stored.Code, verr.RawEnch(s.Stored.EnhancedCode), canonMsg(s.Stored.Message, subst))
	b := "0"
	if s.Retried {
		b = "1"
	}
	return n.String() + " => " + ep(s.Ep0) + " | " + ep(s.Ep1) + " | " + st + " retry=" + b
}

// Mangle is what the endpoint does to a text for a client without SMTPUTF8 (for building subst maps).
func Mangle(s string) string {
	var b strings.Builder
	for _, ch := range s {
		if ch >= 0x80 {
			b.WriteRune('?')
		} else {
			b.WriteRune(ch)
		}
	}
	return b.String()
}

// Check evaluates the property itself on what was seen (written from the property text):
// basic code and enhanced code of one class (4 or 5) in the reply and in the record, the queue
// retries exactly the failures it records as 4yz, a failure known to be temporary is answered 4yz
// and one known to be permanent 5yz, no internal text for unannotated failures, ASCII only for
// clients without SMTPUTF8.  inputOk: what maddy was given was itself in order (a relayed reply of
// the next hop is class-coherent); the coherence clauses are demanded only then.
func Check(out *vh.Out, op string, s Seen, inputOk bool) {
	if s.Ep0 == nil || s.Ep1 == nil || s.Stored == nil {
		out.Violation("C16/no-reply", op, "a conversion did not produce an SMTP error")
		return
	}
	for _, ch := range s.Ep1.Message {
		if ch >= 0x80 {
			out.Violation("C16/non-ascii-reply", op, fmt.Sprintf("U+%04X in reply to a non-SMTPUTF8 client", ch))
			break
		}
	}
	annotated := false
	if _, ok := exterrors.Fields(s.Err)["smtp_msg"].(string); ok {
		annotated = true
	}
	if _, ok := s.Err.(*smtp.SMTPError); ok {
		annotated = true
	}
	if !annotated {
		for _, r := range []*smtp.SMTPError{s.Ep0, s.Ep1} {
			if r.Message != "Internal server error" && r.Message != "High load, try again later" {
				out.Violation("C16/endpoint-discloses-detail", op, "message "+strconv.Quote(r.Message))
				break
			}
		}
		if s.Stored.Message != "Internal server error" {
			out.Violation("C16/queue-discloses-detail", op, "message "+strconv.Quote(s.Stored.Message))
		}
	}
	if !inputOk {
		return
	}
	for _, r := range []*smtp.SMTPError{s.Ep0, s.Ep1} {
		cls := r.Code / 100
		we := verr.WireEnch(r.Code, r.EnhancedCode)
		if we == "none" || int(we[0]-'0') != cls || (cls != 4 && cls != 5) {
			out.Violation("C16/endpoint-class-mismatch", op, fmt.Sprintf("reply %d %s", r.Code, we))
			break
		}
	}
	cls := s.Stored.Code / 100
	if s.Stored.EnhancedCode[0] != cls || (cls != 4 && cls != 5) {
		out.Violation("C16/queue-class-mismatch", op, fmt.Sprintf("recorded %d %s", s.Stored.Code, verr.RawEnch(s.Stored.EnhancedCode)))
	}
	if s.Retried != (cls == 4) {
		out.Violation("C16/queue-retry-vs-class", op, fmt.Sprintf("retried=%v recorded %d %s", s.Retried, s.Stored.Code, verr.RawEnch(s.Stored.EnhancedCode)))
	}
	var t hasTemporary
	if errors.As(s.Err, &t) {
		if t.Temporary() && s.Ep0.Code/100 != 4 {
			out.Violation("C16/endpoint-temporary-not-4yz", op, fmt.Sprintf("reply %d", s.Ep0.Code))
		}
		if !t.Temporary() && !errors.Is(s.Err, context.DeadlineExceeded) && s.Ep0.Code/100 != 5 {
			out.Violation("C16/endpoint-permanent-not-5yz", op, fmt.Sprintf("reply %d", s.Ep0.Code))
		}
	}
}

// ReplyOk: a reply of a next hop is class-coherent (or carries no enhanced code and is 4yz/5yz).
func ReplyOk(code int, e [3]int) bool {
	if e == [3]int{0, 0, 0} {
		return code/100 == 4 || code/100 == 5
	}
	return e[0] == code/100 && (e[0] == 4 || e[0] == 5)
}

// ---------------------------------------------------------------- a scripted next hop

// Reply is a reply a scripted server sends (and the op-line form "code a s d msg" of it).
type Reply struct {
	Code int
	Ench [3]int
	Msg  string
}

func (r Reply) String() string {
	return fmt.Sprintf("%d %d %d %d %s", r.Code, r.Ench[0], r.Ench[1], r.Ench[2], vh.HexRunes(r.Msg))
}

func ParseReply(toks []string) (Reply, []string) {
	a := func(s string) int { v, _ := strconv.Atoi(s); return v }
	return Reply{a(toks[0]), [3]int{a(toks[1]), a(toks[2]), a(toks[3])}, vh.UnhexRunes(toks[4])}, toks[5:]
}

// Line is the reply as a server writes it (no enhanced code when it is 0.0.0).
func (r Reply) Line() string {
	if r.Ench == [3]int{0, 0, 0} {
		return fmt.Sprintf("%d %s\r\n", r.Code, r.Msg)
	}
	return fmt.Sprintf("%d %d.%d.%d %s\r\n", r.Code, r.Ench[0], r.Ench[1], r.Ench[2], r.Msg)
}

func (r Reply) Ok() bool { return ReplyOk(r.Code, r.Ench) }

// Script says which command of a session is answered with a failure; nil = answered positively.
type Script struct {
	CloseAtOnce                         bool // the connection is closed before the greeting
	Greet, Hello, Mail, Rcpt, Data, Dot *Reply
	DotStatuses                         []*Reply // LMTP: one status per accepted recipient after the data (nil = 250)
	// AUTH (round 9): answered 235 unless AuthReply is set or AuthMode says otherwise: "drop" the
	// connection is closed, "junk" a line that is no reply, "chal" a challenge no mechanism with an
	// initial response expects.  OnAuth is told the AUTH line the client sent.
	AuthReply *Reply
	AuthMode  string
	OnAuth    func(line string)
}

// Serve plays a script on one connection (SMTP and LMTP: EHLO / LHLO / HELO are the same to it).
func Serve(conn net.Conn, sc Script) {
	defer conn.Close()
	if sc.CloseAtOnce {
		return
	}
	br := bufio.NewReader(conn)
	if sc.Greet != nil {
		conn.Write([]byte(sc.Greet.Line()))
		for {
			if _, err := br.ReadString('\n'); err != nil {
				return
			}
		}
	}
	if _, err := conn.Write([]byte("220 mx.c16.invalid ESMTP\r\n")); err != nil {
		return
	}
	rcpts := 0
	for {
		line, err := br.ReadString('\n')
		if err != nil {
			return
		}
		cmd := strings.ToUpper(line)
		rsp := "250 2.0.0 ok\r\n"
		pick := func(r *Reply) {
			if r != nil {
				rsp = r.Line()
			}
		}
		switch {
		case strings.HasPrefix(cmd, "EHLO"), strings.HasPrefix(cmd, "HELO"), strings.HasPrefix(cmd, "LHLO"):
			rsp = "250-mx.c16.invalid\r\n250-ENHANCEDSTATUSCODES\r\n250-SMTPUTF8\r\n250 8BITMIME\r\n"
			if sc.OnAuth != nil || sc.AuthMode != "" || sc.AuthReply != nil {
				rsp = "250-mx.c16.invalid\r\n250-ENHANCEDSTATUSCODES\r\n250-SMTPUTF8\r\n250-AUTH PLAIN LOGIN EXTERNAL\r\n250 8BITMIME\r\n"
			}
			pick(sc.Hello)
		case strings.HasPrefix(cmd, "AUTH"):
			if sc.OnAuth != nil {
				sc.OnAuth(strings.TrimSpace(line))
			}
			rsp = "235 2.7.0 accepted\r\n"
			switch sc.AuthMode {
			case "drop":
				return
			case "junk":
				rsp = "garbage\r\n"
			case "chal":
				rsp = "334 Z28gb24=\r\n"
			}
			pick(sc.AuthReply)
		case cmd == "*\r\n":
			rsp = "501 5.0.0 cancelled\r\n"
		case strings.HasPrefix(cmd, "MAIL"):
			rcpts = 0
			pick(sc.Mail)
		case strings.HasPrefix(cmd, "RCPT"):
			if sc.Rcpt == nil {
				rcpts++
			}
			pick(sc.Rcpt)
		case strings.HasPrefix(cmd, "DATA"):
			if sc.Data != nil {
				pick(sc.Data)
				break
			}
			if _, err := conn.Write([]byte("354 go ahead\r\n")); err != nil {
				return
			}
			for {
				l, err := br.ReadString('\n')
				if err != nil {
					return
				}
				if l == ".\r\n" {
					break
				}
			}
			pick(sc.Dot)
			if sc.DotStatuses != nil {
				rsp = ""
				for i := 0; i < rcpts; i++ {
					if i < len(sc.DotStatuses) && sc.DotStatuses[i] != nil {
						rsp += sc.DotStatuses[i].Line()
					} else {
						rsp += "250 2.0.0 ok\r\n"
					}
				}
			}
		case strings.HasPrefix(cmd, "QUIT"):
			conn.Write([]byte("221 2.0.0 bye\r\n"))
			return
		}
		if _, err := conn.Write([]byte(rsp)); err != nil {
			return
		}
	}
}

var Codes = []int{421, 450, 451, 452, 454, 455, 500, 501, 502, 503, 504, 521, 535, 550, 551, 552, 553, 554, 555, 556}
var wireMsgs = []string{"Mailbox full", "Try again later", "café closed", "no such user here", "Пользователь не найден", "x"}

// GenReply: a reply of a next hop: every basic code of the list (552 over-represented), 25% without
// enhanced code, 60% with one of its class, 15% with one of another class (a next hop that is
// itself incoherent).  wire: something a server can send and the client parses back unchanged.
func GenReply(r *vh.Rng, wire bool) Reply {
	rp := Reply{Code: Codes[r.Intn(len(Codes))]}
	if !wire && r.Chance(8) {
		rp.Code = []int{250, 354, 399, 600, 0, 452, 552}[r.Intn(7)]
	}
	if r.Chance(25) {
		rp.Code = 552
	}
	switch p := r.Intn(100); {
	case p < 25:
	case p < 85:
		rp.Ench = [3]int{rp.Code / 100, r.Intn(8), r.Intn(30)}
	default:
		rp.Ench = [3]int{[]int{2, 4, 5}[r.Intn(3)], r.Intn(8), r.Intn(30)}
	}
	if wire {
		rp.Msg = wireMsgs[r.Intn(len(wireMsgs))]
	} else {
		rp.Msg = []string{"Mailbox full", "", "Пользователь не найден", "café", "\u0080", "Try again later"}[r.Intn(6)]
	}
	return rp
}
