package vc16

// Failures of maddy's own `limits` module (strengthening round 7): a REAL limits.Group built by the
// real Init from a configuration, brought into the situation in which it refuses a message (a limit
// of one scope exhausted and the wait for it ended by the time-out / the caller's context; the bucket
// table of a keyed scope full), and the error VALUE it returns.  Nothing is hand-built: the values
// are whatever limits.TakeMsg / TakeDest return on the current tree.

import (
	"context"
	"fmt"
	"net"
	"strconv"
	"strings"
	"time"

	"github.com/foxcpp/maddy/framework/config"
	"github.com/foxcpp/maddy/framework/exterrors"
	"github.com/foxcpp/maddy/internal/limits"
	"github.com/foxcpp/maddy/internal/verifshim/verr"
	"github.com/foxcpp/maddy/internal/verifshim/vh"
)

var LimScopes = []string{"all", "ip", "source", "destination"}

// LimCfg: "<all>/<ip>/<source>/<destination>", each "-" or a comma list of s<N> (concurrency N) /
// r<N> (rate N 1h: no refill within a run).
func LimNodes(cfg string) ([]config.Node, error) {
	parts := strings.Split(cfg, "/")
	if len(parts) != 4 {
		return nil, fmt.Errorf("bad limits configuration %q", cfg)
	}
	var out []config.Node
	for i, p := range parts {
		if p == "-" {
			continue
		}
		for _, x := range strings.Split(p, ",") {
			if len(x) < 2 {
				return nil, fmt.Errorf("bad limit %q", x)
			}
			if _, err := strconv.Atoi(x[1:]); err != nil {
				return nil, err
			}
			switch x[0] {
			case 's':
				out = append(out, config.Node{Name: LimScopes[i], Args: []string{"concurrency", x[1:]}})
			case 'r':
				out = append(out, config.Node{Name: LimScopes[i], Args: []string{"rate", x[1:], "1h"}})
			default:
				return nil, fmt.Errorf("bad limit %q", x)
			}
		}
	}
	return out, nil
}

// NewLimits runs the real limits.New + Init.
func NewLimits(cfg string) (*limits.Group, error) {
	nodes, err := LimNodes(cfg)
	if err != nil {
		return nil, err
	}
	m, err := limits.New("limits", "verif_c16", nil, nil)
	if err != nil {
		return nil, err
	}
	g := m.(*limits.Group)
	if err := g.Init(config.NewMap(nil, config.Node{Children: nodes})); err != nil {
		return nil, err
	}
	return g, nil
}

// limBound: how many takes exhaust the first limiter of the scope (0 = the scope cannot be exhausted).
func limBound(cfg string, scope int) int {
	p := strings.Split(cfg, "/")[scope]
	if p == "-" {
		return 0
	}
	b := 0
	for _, x := range strings.Split(p, ",") {
		n, _ := strconv.Atoi(x[1:])
		if n > 0 && (b == 0 || n < b) {
			b = n
		}
	}
	return b
}

func LimScopeIndex(scope string) int {
	for i, s := range LimScopes {
		if s == scope || (scope == "dest" && s == "destination") {
			return i
		}
	}
	return -1
}

// The keys of the message that is refused, and of the messages that hold the slots before it.
var (
	LimProbeIP     = net.IPv4(192, 0, 2, 77)
	LimProbeSource = "probe.c16.example"
	LimProbeDest   = "c16.invalid"
)

// MaxBuckets of the bucket sets limits.Init builds (the table of a keyed scope is full with more).
const limTableSize = 20010

// LimExhaust brings the group into the state in which the NEXT TakeMsg(LimProbeIP, LimProbeSource) /
// TakeDest(LimProbeDest) cannot get a slot of the given scope.  mode "F": the bucket table of the
// (keyed) scope is filled with buckets in use; otherwise: every slot of the scope's limit is taken,
// by messages that share only the key of that scope with the probe.
func LimExhaust(g *limits.Group, cfg, scope, mode string) error {
	bg := context.Background()
	si := LimScopeIndex(scope)
	if si < 0 {
		return fmt.Errorf("bad scope %q", scope)
	}
	if mode == "F" {
		if si == 0 {
			return fmt.Errorf("the global scope has no bucket table")
		}
		for i := 0; i <= limTableSize; i++ {
			var err error
			switch si {
			case 1:
				err = g.TakeMsg(bg, net.IPv4(10, byte(i>>16), byte(i>>8), byte(i)), "")
			case 2:
				err = g.TakeMsg(bg, net.IPv4(10, 0, 0, 1), "d"+strconv.Itoa(i)+".c16.example")
			case 3:
				err = g.TakeDest(bg, "d"+strconv.Itoa(i)+".c16.example")
			}
			if err != nil {
				return fmt.Errorf("filling the table: take %d: %v", i, err)
			}
		}
		return nil
	}
	n := limBound(cfg, si)
	if n == 0 {
		return fmt.Errorf("scope %s has no limit that can be exhausted in %s", scope, cfg)
	}
	for i := 0; i < n; i++ {
		ctx, cancel := context.WithTimeout(bg, 20*time.Second)
		var err error
		other := net.IPv4(198, 51, 100, byte(i+1))
		odom := "o" + strconv.Itoa(i) + ".c16.example"
		switch si {
		case 0:
			err = g.TakeMsg(ctx, other, odom)
		case 1:
			err = g.TakeMsg(ctx, LimProbeIP, odom)
		case 2:
			err = g.TakeMsg(ctx, other, LimProbeSource)
		case 3:
			err = g.TakeDest(ctx, LimProbeDest)
		}
		cancel()
		if err != nil {
			return fmt.Errorf("exhausting %s: take %d: %v", scope, i, err)
		}
	}
	return nil
}

// LimCtx is the context of the caller that is refused: "T0" its deadline has passed, "T1" it passes
// while the call waits (the limit can never be granted: no wall-clock dependence in the outcome),
// "C" cancelled, anything else: no deadline (only for calls that are not made to wait).
func LimCtx(mode string) (context.Context, context.CancelFunc) {
	switch mode {
	case "T0":
		return context.WithDeadline(context.Background(), time.Now().Add(-time.Second))
	case "T1":
		return context.WithTimeout(context.Background(), time.Millisecond)
	case "C":
		ctx, cancel := context.WithCancel(context.Background())
		cancel()
		return ctx, cancel
	}
	return context.WithCancel(context.Background())
}

// LimRetryLater: the situation is one a client is to retry later in (the wait for a slot timed out,
// the table of the scope is full) — as opposed to a call whose own context was cancelled.
func LimRetryLater(mode string) bool { return mode == "T0" || mode == "T1" || mode == "F" }

// CheckRetryLater evaluates C16 on a failure that is KNOWN (from the situation the harness built, not
// from the error value) to be a temporary, retry-later condition: the client is answered 4yz, the
// queue retries it and records 4yz — "temporary failures are retried by the queue and answered with
// 4yz" for the same failure through both mechanisms.
func CheckRetryLater(out *vh.Out, op string, s Seen) {
	if s.Ep0 == nil || s.Ep1 == nil || s.Stored == nil {
		return // C16/no-reply is reported by Check
	}
	if s.Ep0.Code/100 != 4 || s.Ep1.Code/100 != 4 {
		out.Violation("C16/overload-answered-permanently", op, fmt.Sprintf(
			"a message refused because a limit is exhausted is answered %d %s %q (the queue: retried=%v, recorded %d): a retry-later condition with a 5yz reply",
			s.Ep0.Code, verr.WireEnch(s.Ep0.Code, s.Ep0.EnhancedCode), s.Ep0.Message, s.Retried, s.Stored.Code))
	}
	if !s.Retried || s.Stored.Code/100 != 4 {
		out.Violation("C16/overload-not-retried", op, fmt.Sprintf("retried=%v recorded %d", s.Retried, s.Stored.Code))
	}
	if exterrors.IsTemporary(s.Err) != s.Retried {
		// the two classifications (permanent / temporary by default) see the same failure differently
		out.Stat("lim.classification-split")
	}
}
