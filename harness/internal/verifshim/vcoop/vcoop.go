// Package vcoop is a cooperative, fully deterministic scheduler for goroutines of instrumented code
// (C19: the rewritten internal/smtpconn/pool/pool.go).  Exactly one registered task runs at a time; a
// task runs from one Point to the next and then parks; the test decides which parked task runs next.
// It exists only inside the go test overlay (see /verif/DESIGN.md §2.1).
//
// Code that is not run under a scheduler (Cur() == nil, e.g. the pool's own ticker goroutine or the
// pool used by other tests) passes through every call unchanged: Point is a no-op, Lock locks, Now is
// the wall clock (or the manual clock, see SetManual), Go is a plain go statement.
package vcoop

import (
	"fmt"
	"sync"
	"time"
)

// Task is one controlled goroutine.
type Task struct {
	ID      int
	Label   string
	Arg     interface{}
	Done    bool
	Panic   interface{}
	wake    chan struct{}
	SkipOne string // a Point with this label is passed without parking, once (see Go)
	Stuck   bool   // a step of this task did not come back in time (it is blocked inside the code under test)
	Waiting bool   // the last step ended where it began: a failed lock attempt, or a waiting select none of whose cases was ready
}

// Sched owns the tasks of one test case.
type Sched struct {
	Tasks  []*Task
	Clock  int64
	cur    *Task
	parked chan struct{}
}

var (
	mu     sync.Mutex
	active *Sched
)

// Activate makes s the scheduler of the process (nil: none).
func Activate(s *Sched) {
	mu.Lock()
	active = s
	mu.Unlock()
}

func current() (*Sched, *Task) {
	mu.Lock()
	defer mu.Unlock()
	if active == nil {
		return nil, nil
	}
	return active, active.cur
}

func New() *Sched {
	return &Sched{parked: make(chan struct{})}
}

// Spawn registers f as a new task, parked before its first statement.
func (s *Sched) Spawn(label string, f func()) *Task {
	t := &Task{ID: len(s.Tasks), Label: label, wake: make(chan struct{})}
	s.Tasks = append(s.Tasks, t)
	go func() {
		<-t.wake
		defer func() {
			if r := recover(); r != nil {
				t.Panic = r
			}
			t.Done = true
			t.Label = "done"
			s.parked <- struct{}{}
		}()
		f()
	}()
	return t
}

// ErrStuck is returned by Step when the task neither parked nor finished in time.
var ErrStuck = fmt.Errorf("task did not reach its next synchronisation point")

// Step runs task id until its next Point (or its end).  ran=false: no such task or finished already.
func (s *Sched) Step(id int, patience time.Duration) (ran bool, err error) {
	if id < 0 || id >= len(s.Tasks) || s.Tasks[id].Done {
		return false, nil
	}
	t := s.Tasks[id]
	if t.Stuck {
		// it did not come back from an earlier step: it is not parked at a point, nothing can wake it
		return false, ErrStuck
	}
	mu.Lock()
	s.cur = t
	t.Waiting = false
	mu.Unlock()
	select {
	case t.wake <- struct{}{}:
	case <-time.After(patience):
		t.Stuck = true
		return true, ErrStuck
	}
	select {
	case <-s.parked:
	case <-time.After(patience):
		t.Stuck = true
		return true, ErrStuck
	}
	mu.Lock()
	s.cur = nil
	mu.Unlock()
	return true, nil
}

// Point parks the running task at a synchronisation point.
func Point(label string, arg interface{}) {
	s, t := current()
	if t == nil {
		return
	}
	if t.SkipOne == label {
		t.SkipOne = ""
		return
	}
	t.SkipOne = ""
	t.Label, t.Arg = label, arg
	s.parked <- struct{}{}
	<-t.wake
}

// Lock acquires mu with a point before every attempt; a failed attempt parks again at the same label.
func Lock(m *sync.Mutex, label string) {
	_, t := current()
	if t == nil {
		m.Lock()
		return
	}
	for {
		Point(label, nil)
		if m.TryLock() {
			return
		}
		t.Waiting = true
	}
}

// Blocked is called by the poll that replaces a waiting select (one without default) or a bare channel receive of the
// instrumented code when no case is ready: the task goes back to the Point in front of the select and parks there
// again, as a failed lock attempt does.  Without a scheduler the poll sleeps a moment.
func Blocked() {
	_, t := current()
	if t == nil {
		time.Sleep(200 * time.Microsecond)
		return
	}
	t.Waiting = true
}

// Go replaces a `go f()` statement: the new goroutine becomes a task of the running scheduler.  Its
// first Point labelled first is passed without parking (the task is already parked "before f").
func Go(first string, f func()) {
	s, t := current()
	if t == nil {
		go f()
		return
	}
	nt := s.Spawn("spawned", f)
	nt.SkipOne = first
}

// Now replaces time.Now in instrumented code.  Under a scheduler it is the scheduler's clock; otherwise the
// manual clock when one is set (SetManual), otherwise the wall clock.
func Now() time.Time {
	s, t := current()
	if t == nil {
		mu.Lock()
		defer mu.Unlock()
		if manualOn {
			return manualBase.Add(time.Duration(manualSecs) * time.Second)
		}
		return time.Now()
	}
	return time.Unix(s.Clock, 0)
}

// Since replaces time.Since in instrumented code.
func Since(t time.Time) time.Duration { return Now().Sub(t) }

// Manual clock for instrumented code that runs without a scheduler (C19: the real remote target with
// its real connections): frozen at base + the seconds added by Advance; it never moves by itself.
var (
	manualOn   bool
	manualBase time.Time
	manualSecs int64
)

// SetManual switches the manual clock on (at base) or off.
func SetManual(on bool, base time.Time) {
	mu.Lock()
	manualOn, manualBase, manualSecs = on, base, 0
	mu.Unlock()
}

// Advance moves the manual clock forward by d seconds.
func Advance(d int64) {
	mu.Lock()
	manualSecs += d
	mu.Unlock()
}

// ManualSecs is the number of seconds the manual clock was advanced since SetManual.
func ManualSecs() int64 {
	mu.Lock()
	defer mu.Unlock()
	return manualSecs
}
