// Package vcoop is a cooperative, fully deterministic scheduler for goroutines of instrumented code
// (C19: the rewritten internal/smtpconn/pool/pool.go).  Exactly one registered task runs at a time; a
// task runs from one Point to the next and then parks; the test decides which parked task runs next.
// It exists only inside the go test overlay (see /verif/DESIGN.md §2.1).
//
// Code that is not run under a scheduler (Cur() == nil, e.g. the pool's own ticker goroutine or the
// pool used by other tests) passes through every call unchanged: Point is a no-op, Lock locks, Now is
// the wall clock (or the manual clock, see SetManual), Go is a plain go statement.
package vcoop

import (
	"fmt"
	"reflect"
	"runtime"
	"sync"
	"time"
)

// Task is one controlled goroutine.
type Task struct {
	ID      int
	Label   string
	Arg     interface{}
	Done    bool
	Panic   interface{}
	wake    chan struct{}
	SkipOne string        // a Point with this label is passed without parking, once (see Go)
	Stuck   bool          // a step of this task did not come back in time (it is blocked inside the code under test)
	Waiting bool          // the last step ended where it began: a failed lock attempt, or a waiting select none of whose cases was ready
	WaitOn  []interface{} // the channels the waiting select this task is parked at receives from (see Wait)

	spin      bool          // the task polls its waiting select without parking: a sender is in a real send to it (see Send)
	spinFresh bool          // no poll since the spin began / the last poll found nothing ready
	notify    chan struct{} // where the next park / the end of this task is signalled instead of Sched.parked
	detached  bool          // released from the scheduler for good (see Detach)
}

// Sched owns the tasks of one test case.
type Sched struct {
	Tasks  []*Task
	Clock  int64
	cur    *Task
	parked chan struct{}

	// Daemon is the goroutine the code under test started for itself while no task was running (GoDaemon; C19: the
	// pool's ticker goroutine, started by pool.New).  It is a task like the others but not in Tasks until Adopt.
	Daemon *Task
	tick   chan time.Time // the channel of the ticker the daemon made (NewTicker): fed by Fire only
}

var (
	mu     sync.Mutex
	active *Sched
)

// Activate makes s the scheduler of the process (nil: none).
func Activate(s *Sched) {
	mu.Lock()
	active = s
	mu.Unlock()
}

func current() (*Sched, *Task) {
	mu.Lock()
	defer mu.Unlock()
	if active == nil {
		return nil, nil
	}
	return active, active.cur
}

func New() *Sched {
	return &Sched{parked: make(chan struct{})}
}

// Spawn registers f as a new task, parked before its first statement.
func (s *Sched) Spawn(label string, f func()) *Task {
	t := s.newTask(label, f)
	t.ID = len(s.Tasks)
	s.Tasks = append(s.Tasks, t)
	return t
}

func (s *Sched) newTask(label string, f func()) *Task {
	t := &Task{ID: -1, Label: label, wake: make(chan struct{})}
	go func() {
		<-t.wake
		defer func() {
			if r := recover(); r != nil {
				t.Panic = r
			}
			t.Done = true
			t.Label = "done"
			s.signal(t)
		}()
		f()
	}()
	return t
}

// signal: t has parked (or ended).
func (s *Sched) signal(t *Task) {
	if t.detached {
		return
	}
	if n := t.notify; n != nil {
		t.notify = nil
		n <- struct{}{}
		return
	}
	s.parked <- struct{}{}
}

// Adopt makes the daemon an ordinary task with the next id.
func (s *Sched) Adopt(t *Task) {
	t.ID = len(s.Tasks)
	s.Tasks = append(s.Tasks, t)
}

// Detach releases a parked task from the scheduler for good: it runs on as an ordinary goroutine (every vcoop call
// passes through, a waiting select really waits).  Used at the end of a case for the daemon of a pool the case did
// not shut down.
func (s *Sched) Detach(t *Task) {
	if t == nil || t.Done || t.Stuck || t.detached {
		return
	}
	t.detached = true
	t.wake <- struct{}{}
}

// Fire makes the ticker of the daemon fire (as time.Ticker does: the tick is dropped when one is pending already).
func (s *Sched) Fire() {
	if s.tick == nil {
		return
	}
	select {
	case s.tick <- time.Unix(s.Clock, 0):
	default:
	}
}

// ErrStuck is returned by Step when the task neither parked nor finished in time.
var ErrStuck = fmt.Errorf("task did not reach its next synchronisation point")

// Step runs task id until its next Point (or its end).  ran=false: no such task or finished already.
func (s *Sched) Step(id int, patience time.Duration) (ran bool, err error) {
	if id < 0 || id >= len(s.Tasks) {
		return false, nil
	}
	return s.StepTask(s.Tasks[id], patience)
}

// StepTask is Step for a task given by pointer (the daemon before it is adopted).
func (s *Sched) StepTask(t *Task, patience time.Duration) (ran bool, err error) {
	if t == nil || t.Done {
		return false, nil
	}
	if t.Stuck {
		// it did not come back from an earlier step: it is not parked at a point, nothing can wake it
		return false, ErrStuck
	}
	mu.Lock()
	s.cur = t
	t.Waiting = false
	mu.Unlock()
	select {
	case t.wake <- struct{}{}:
	case <-time.After(patience):
		t.Stuck = true
		return true, ErrStuck
	}
	select {
	case <-s.parked:
	case <-time.After(patience):
		t.Stuck = true
		return true, ErrStuck
	}
	mu.Lock()
	s.cur = nil
	mu.Unlock()
	return true, nil
}

// Point parks the running task at a synchronisation point.
func Point(label string, arg interface{}) { pointW(label, arg, nil) }

func pointW(label string, arg interface{}, waitOn []interface{}) {
	s, t := current()
	if t == nil {
		return
	}
	if t.SkipOne == label {
		t.SkipOne = ""
		return
	}
	t.SkipOne = ""
	if t.spin {
		if t.spinFresh && label == t.Label {
			// the poll of the waiting select this task is parked at, repeated without parking (see Send)
			t.spinFresh = false
			return
		}
		t.spin = false // the poll took a case: the task has moved on, it parks as usual
	}
	t.Label, t.Arg, t.WaitOn = label, arg, waitOn
	s.signal(t)
	<-t.wake
}

// Wait is the Point in front of a waiting select (one without default): chans are the channels its cases receive from.
func Wait(label string, chans ...interface{}) {
	pointW(label, nil, chans)
}

// Scheduled tells whether the calling goroutine is a task of the running scheduler.
func Scheduled() bool {
	_, t := current()
	return t != nil
}

func sameChan(a, b interface{}) bool {
	va, vb := reflect.ValueOf(a), reflect.ValueOf(b)
	return va.IsValid() && vb.IsValid() && va.Kind() == reflect.Chan && vb.Kind() == reflect.Chan && va.Pointer() == vb.Pointer()
}

// Send replaces a send statement `ch <- v` of instrumented code.  There is a Point before every attempt; an attempt
// that cannot complete parks again at the same label (as a failed lock attempt does).  A send on a buffered channel
// completes when there is room.  A send on an unbuffered channel completes when another task is parked in a waiting
// select that receives from ch and has found none of its cases ready (it is "blocked in the select"): the value is
// handed over by a real send while that task repeats its poll, and the receiver runs on to its next Point (or its
// end) before the sender continues — the rendezvous is one step of the sender.
func Send(label string, ch interface{}, v interface{}) {
	s, t := current()
	rv := reflect.ValueOf(ch)
	val := reflect.ValueOf(v)
	if !val.IsValid() {
		val = reflect.Zero(rv.Type().Elem())
	}
	if t == nil {
		rv.Send(val)
		return
	}
	for {
		Point(label, nil)
		if rv.Cap() > 0 {
			if rv.TrySend(val) {
				return
			}
			t.Waiting = true
			continue
		}
		var rcv *Task
		all := s.Tasks
		if s.Daemon != nil && s.Daemon.ID < 0 {
			all = append(append([]*Task{}, all...), s.Daemon)
		}
		for _, x := range all {
			if x == t || x.Done || x.Stuck || !x.Waiting {
				continue
			}
			for _, c := range x.WaitOn {
				if sameChan(c, ch) {
					rcv = x
				}
			}
		}
		if rcv == nil {
			t.Waiting = true
			continue
		}
		go rv.Send(val)
		done := make(chan struct{})
		mu.Lock()
		s.cur = rcv
		mu.Unlock()
		rcv.Waiting, rcv.spin, rcv.spinFresh, rcv.notify = false, true, true, done
		rcv.wake <- struct{}{}
		<-done
		mu.Lock()
		s.cur = t
		mu.Unlock()
		return
	}
}

// GoDaemon replaces the go statement by which the code under test starts its own background goroutine outside any
// task (C19: pool.New starts cleanUpTick).  With a scheduler active it becomes the scheduler's Daemon task.
func GoDaemon(f func()) {
	mu.Lock()
	s := active
	cur := (*Task)(nil)
	if s != nil {
		cur = s.cur
	}
	mu.Unlock()
	if s == nil {
		go f()
		return
	}
	if cur != nil || s.Daemon != nil {
		Go("", f)
		return
	}
	s.Daemon = s.newTask("daemon", f)
}

// Ticker replaces *time.Ticker in the daemon: under a scheduler it fires when Sched.Fire says so.
type Ticker struct {
	C    <-chan time.Time
	real *time.Ticker
}

func (t *Ticker) Stop() {
	if t.real != nil {
		t.real.Stop()
	}
}

func (t *Ticker) Reset(d time.Duration) {
	if t.real != nil {
		t.real.Reset(d)
	}
}

// NewTicker replaces time.NewTicker.
func NewTicker(d time.Duration) *Ticker {
	s, t := current()
	if t == nil {
		r := time.NewTicker(d)
		return &Ticker{C: r.C, real: r}
	}
	if s.tick == nil {
		s.tick = make(chan time.Time, 1)
	}
	return &Ticker{C: s.tick}
}

// Locker is what Lock needs of a lock: *sync.Mutex and *sync.RWMutex (its writer side) both qualify.
type Locker interface {
	Lock()
	TryLock() bool
}

// RLocker is the reader side of a reader/writer lock (*sync.RWMutex).
type RLocker interface {
	RLock()
	TryRLock() bool
}

// Lock acquires m with a point before every attempt; a failed attempt parks again at the same label.
func Lock(m Locker, label string) { LockF(label, m.TryLock, m.Lock) }

// RLock acquires the reader side of m with a point before every attempt.  Reader/writer semantics are those of the
// real sync.RWMutex under a scheduler in which nobody ever blocks inside Lock(): several readers hold it together
// (TryRLock succeeds while no writer holds it), a writer is exclusive (TryLock fails while any reader or writer
// holds it).  The unlock calls of the instrumented code are the real ones.
func RLock(m RLocker, label string) { LockF(label, m.TryRLock, m.RLock) }

// LockF is the general form (the rewriter passes method values, so the lock may be a value or a pointer field of
// any type that has the try/blocking pair): try is attempted after a Point; without a scheduler block is called.
func LockF(label string, try func() bool, block func()) {
	_, t := current()
	if t == nil {
		block()
		return
	}
	for {
		Point(label, nil)
		if try() {
			return
		}
		t.Waiting = true
	}
}

// Blocked is called by the poll that replaces a waiting select (one without default) or a bare channel receive of the
// instrumented code when no case is ready: the task goes back to the Point in front of the select and parks there
// again, as a failed lock attempt does.  (Without a scheduler the instrumented code really waits, see Scheduled.)
func Blocked() {
	_, t := current()
	if t == nil {
		runtime.Gosched() // (a task that was detached in the middle of a poll: its next attempt really waits)
		return
	}
	if t.spin {
		t.spinFresh = true
		runtime.Gosched()
		return
	}
	t.Waiting = true
}

// Go replaces a `go f()` statement: the new goroutine becomes a task of the running scheduler.  Its
// first Point labelled first is passed without parking (the task is already parked "before f").
func Go(first string, f func()) {
	s, t := current()
	if t == nil {
		if h := hooks(); h.Panic != nil {
			// a harness that runs the instrumented code without a scheduler wants to hear of a crash in a goroutine the
			// code under test started for itself, instead of dying with it
			go func() {
				defer func() {
					if r := recover(); r != nil {
						h.Panic(r)
					}
				}()
				f()
			}()
			return
		}
		go f()
		return
	}
	nt := s.Spawn("spawned", f)
	nt.SkipOne = first
}

// Hooks of a harness that runs instrumented code without a scheduler (C19: the real remote target).
type Hooks struct {
	Panic func(v interface{})                // a goroutine started by the code under test (Go) panicked
	Event func(kind string, arg interface{}) // see Event
}

var theHooks Hooks

func SetHooks(h Hooks) {
	mu.Lock()
	theHooks = h
	mu.Unlock()
}

func hooks() Hooks {
	mu.Lock()
	defer mu.Unlock()
	return theHooks
}

// Event is inserted at the entry of functions the monitor counts calls of (C19: mxConn.Close).
func Event(kind string, arg interface{}) {
	if h := hooks(); h.Event != nil {
		h.Event(kind, arg)
	}
}

// Now replaces time.Now in instrumented code.  Under a scheduler it is the scheduler's clock; otherwise the
// manual clock when one is set (SetManual), otherwise the wall clock.
func Now() time.Time {
	s, t := current()
	if t == nil {
		mu.Lock()
		defer mu.Unlock()
		if manualOn {
			return manualBase.Add(time.Duration(manualSecs) * time.Second)
		}
		return time.Now()
	}
	return time.Unix(s.Clock, 0)
}

// Since replaces time.Since in instrumented code.
func Since(t time.Time) time.Duration { return Now().Sub(t) }

// Manual clock for instrumented code that runs without a scheduler (C19: the real remote target with
// its real connections): frozen at base + the seconds added by Advance; it never moves by itself.
var (
	manualOn   bool
	manualBase time.Time
	manualSecs int64
)

// SetManual switches the manual clock on (at base) or off.
func SetManual(on bool, base time.Time) {
	mu.Lock()
	manualOn, manualBase, manualSecs = on, base, 0
	mu.Unlock()
}

// Advance moves the manual clock forward by d seconds.
func Advance(d int64) {
	mu.Lock()
	manualSecs += d
	mu.Unlock()
}

// ManualSecs is the number of seconds the manual clock was advanced since SetManual.
func ManualSecs() int64 {
	mu.Lock()
	defer mu.Unlock()
	return manualSecs
}
