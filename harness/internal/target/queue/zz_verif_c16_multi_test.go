package queue

// C16, strengthening round 9 — SEVERAL recipients of one message failing in the SAME attempt through
// the REAL queue (tryDelivery / deliver / emitDSN / dsn.GenerateDSN): what is kept and reported for
// each of them is ITS OWN failure of that attempt, whatever the other recipients failed with — in
// particular when the failures have the very same Error() text and differ in class, basic code,
// enhanced code, Go type or wrappers, in every envelope order.
//
//   C16 qmulti <maxTries> <utf8> <restarts> <plan of r1> / <plan of r2> / …
//     plan     = <attempt> ; <attempt> ; …      by attempt of the MESSAGE; beyond the plan: accepted
//     attempt  = ok | <stage> <error tree>      stage: r AddRcpt, n a BodyNonAtomic status
//     restarts = - | bits, bit k = 1: the queue is shut down and a new instance started on the spool
//                before attempt k+1 of the message
//     the envelope order is the order of the plans
//
//   observation, one item per attempt and recipient still in the envelope (from the .meta file's own
//   `To` list), in envelope order:
//     a<k>.r<i>:retry tries=<n> stored=<code> <a.b.c> <text>      (.meta file when the next attempt starts)
//     a<k>.r<i>:giveup status=… diag=… human=…                    (the recipient's group of the report)
//     a<k>.r<i>:giveup genfail | a<k>.r<i>:delivered
//
// Monitor (from the property text; per recipient, as for `qhist`): retried ⇒ recorded coherent 4yz;
// known-permanent ⇒ not retried; given up ⇒ reported, one class in the report, the class of the
// decision; and non-interference: the record of a recipient is what the conversion gives for ITS
// error alone (`C16/queue-record-not-own-failure`).

import (
	"bytes"
	"context"
	"fmt"
	"io"
	"os"
	"regexp"
	"strconv"
	"strings"
	"sync"
	"testing"
	"time"

	"github.com/emersion/go-message/textproto"
	"github.com/emersion/go-smtp"
	"github.com/foxcpp/maddy/framework/buffer"
	"github.com/foxcpp/maddy/framework/log"
	"github.com/foxcpp/maddy/framework/module"
	"github.com/foxcpp/maddy/internal/verifshim/vdsn"
	"github.com/foxcpp/maddy/internal/verifshim/verr"
	"github.com/foxcpp/maddy/internal/verifshim/vh"
)

type c16mCase struct {
	maxTries int
	utf8     bool
	restarts []bool
	plans    [][]c16hAttempt
}

func c16mRcpt(i int) string { return fmt.Sprintf("r%d@example.org", i+1) }

func c16mIndex(addr string) int {
	var i int
	if _, err := fmt.Sscanf(addr, "r%d@example.org", &i); err != nil {
		return -1
	}
	return i - 1
}

func (c *c16mCase) op() string {
	var ps []string
	for _, p := range c.plans {
		var segs []string
		for _, a := range p {
			if a.node == nil {
				segs = append(segs, "ok")
			} else {
				segs = append(segs, string([]byte{a.stage})+" "+a.node.String())
			}
		}
		ps = append(ps, strings.Join(segs, " ; "))
	}
	rs := ""
	any := false
	for _, b := range c.restarts {
		if b {
			rs += "1"
			any = true
		} else {
			rs += "0"
		}
	}
	if !any {
		rs = "-"
	}
	u := "0"
	if c.utf8 {
		u = "1"
	}
	return fmt.Sprintf("C16 qmulti %d %s %s %s", c.maxTries, u, rs, strings.Join(ps, " / "))
}

func c16mParse(op string) *c16mCase {
	t := strings.Fields(op)
	c := &c16mCase{utf8: t[3] == "1"}
	c.maxTries, _ = strconv.Atoi(t[2])
	if t[4] != "-" {
		for _, ch := range t[4] {
			c.restarts = append(c.restarts, ch == '1')
		}
	}
	var plan []c16hAttempt
	var cur []string
	flushAtt := func() {
		if len(cur) == 0 {
			return
		}
		a := c16hAttempt{}
		if cur[0] != "ok" {
			a.stage = cur[0][0]
			a.node, _ = verr.Parse(cur[1:])
		}
		plan = append(plan, a)
		cur = nil
	}
	for _, tok := range t[5:] {
		switch tok {
		case ";":
			flushAtt()
		case "/":
			flushAtt()
			c.plans = append(c.plans, plan)
			plan = nil
		default:
			cur = append(cur, tok)
		}
	}
	flushAtt()
	c.plans = append(c.plans, plan)
	return c
}

func (c *c16mCase) planned(rcpt, k int) c16hAttempt {
	if rcpt >= 0 && rcpt < len(c.plans) && k < len(c.plans[rcpt]) {
		return c.plans[rcpt][k]
	}
	return c16hAttempt{}
}

func (c *c16mCase) restartBefore(k int) bool { return k < len(c.restarts) && c.restarts[k] }

func (c *c16mCase) planLen() int {
	n := 0
	for _, p := range c.plans {
		if len(p) > n {
			n = len(p)
		}
	}
	return n
}

// ---- scripted target ----

type c16mTarget struct {
	mu      sync.Mutex
	c       *c16mCase
	q       *Queue
	spool   string
	started int
	snaps   []*c16hMeta
}

type c16mDelivery struct {
	t     *c16mTarget
	k     int
	rcpts []string
}

type c16mPartial struct{ *c16mDelivery }

func (t *c16mTarget) Start(ctx context.Context, msgMeta *module.MsgMetadata, mailFrom string) (module.Delivery, error) {
	t.mu.Lock()
	defer t.mu.Unlock()
	k := t.started
	t.started++
	t.snaps = append(t.snaps, c16hReadMeta(t.spool))
	if t.c.restartBefore(k + 1) {
		t.q.initialRetryTime = time.Hour
	} else {
		t.q.initialRetryTime = 0
	}
	d := &c16mDelivery{t: t, k: k}
	for i := range t.c.plans {
		if a := t.c.planned(i, k); a.node != nil && a.stage != 'r' {
			return &c16mPartial{d}, nil
		}
	}
	return d, nil
}

func (d *c16mDelivery) AddRcpt(ctx context.Context, to string, _ smtp.RcptOptions) error {
	if a := d.t.c.planned(c16mIndex(to), d.k); a.node != nil && a.stage == 'r' {
		return a.node.Build()
	}
	d.rcpts = append(d.rcpts, to)
	return nil
}

func (d *c16mDelivery) Body(ctx context.Context, header textproto.Header, body buffer.Buffer) error {
	return nil
}

func (d *c16mPartial) BodyNonAtomic(ctx context.Context, sc module.StatusCollector, header textproto.Header, body buffer.Buffer) {
	for _, to := range d.rcpts {
		if a := d.t.c.planned(c16mIndex(to), d.k); a.node != nil {
			sc.SetStatus(to, a.node.Build())
		} else {
			sc.SetStatus(to, nil)
		}
	}
}

func (d *c16mDelivery) Abort(ctx context.Context) error  { return nil }
func (d *c16mDelivery) Commit(ctx context.Context) error { return nil }

type c16mBounce struct {
	t    *c16mTarget
	mu   sync.Mutex
	msgs map[int][][]byte
}

type c16mBounceDelivery struct {
	b   *c16mBounce
	att int
}

func (b *c16mBounce) Start(ctx context.Context, msgMeta *module.MsgMetadata, mailFrom string) (module.Delivery, error) {
	b.t.mu.Lock()
	att := b.t.started - 1
	b.t.mu.Unlock()
	return &c16mBounceDelivery{b: b, att: att}, nil
}

func (d *c16mBounceDelivery) AddRcpt(ctx context.Context, to string, _ smtp.RcptOptions) error {
	return nil
}

func (d *c16mBounceDelivery) Body(ctx context.Context, header textproto.Header, body buffer.Buffer) error {
	var msg bytes.Buffer
	if err := textproto.WriteHeader(&msg, header); err != nil {
		return err
	}
	r, err := body.Open()
	if err != nil {
		return err
	}
	io.Copy(&msg, r)
	r.Close()
	d.b.mu.Lock()
	d.b.msgs[d.att] = append(d.b.msgs[d.att], msg.Bytes())
	d.b.mu.Unlock()
	return nil
}

func (d *c16mBounceDelivery) Abort(ctx context.Context) error  { return nil }
func (d *c16mBounceDelivery) Commit(ctx context.Context) error { return nil }

var c16mHumanRe = regexp.MustCompile(`Delivery to (\S+) failed with error: SMTP error ([0-9]{3})`)

// c16mParseReports: the recipient groups of a report by recipient index (stdlib parsing, vdsn)
func c16mParseReports(msg []byte, utf8 bool, into map[int][]c16hReport) {
	p := vdsn.Parse(msg, utf8)
	humans := map[int]string{}
	if len(p.PartBodies) > 0 {
		for _, m := range c16mHumanRe.FindAllSubmatch(p.PartBodies[0], -1) {
			v, _ := strconv.Atoi(string(m[2]))
			humans[c16mIndex(string(m[1]))] = strconv.Itoa(v)
		}
	}
	for _, g := range p.Rcpts {
		r := c16hReport{ok: true, action: "?", status: "?", diagCode: "?", diagEnch: "?", diagTxt: "?", human: "?", groups: len(p.Rcpts)}
		idx := -1
		if v := g["Final-Recipient"]; len(v) == 1 {
			if _, rest := vdsn.SplitTyped(v[0]); true {
				idx = c16mIndex(strings.TrimSpace(rest))
			}
		}
		if v := g["Action"]; len(v) == 1 {
			r.action = strings.ToLower(strings.TrimSpace(v[0]))
		}
		if v := g["Status"]; len(v) == 1 {
			r.status = strings.TrimSpace(v[0])
		}
		if v := g["Diagnostic-Code"]; len(v) == 1 {
			if t, rest := vdsn.SplitTyped(v[0]); t == "smtp" {
				f := strings.SplitN(vdsn.CanonWs(rest), " ", 3)
				for len(f) < 3 {
					f = append(f, "")
				}
				r.diagCode, r.diagEnch, r.diagTxt = f[0], f[1], vh.HexRunes(f[2])
			}
		}
		if h, ok := humans[idx]; ok {
			r.human = h
		}
		into[idx] = append(into[idx], r)
	}
}

func c16mRunCase(out *vh.Out, op string) {
	c := c16mParse(op)
	spool, err := os.MkdirTemp("", "verif-c16m-")
	if err != nil {
		panic(err)
	}
	defer os.RemoveAll(spool)
	tgt := &c16mTarget{c: c, spool: spool}
	bounce := &c16mBounce{t: tgt, msgs: map[int][][]byte{}}
	var logMu sync.Mutex
	genFail := map[int]int{}
	newQ := func() *Queue {
		mod, _ := NewQueue("", "queue", nil, nil)
		q := mod.(*Queue)
		q.initialRetryTime = 0
		q.retryTimeScale = 1
		q.postInitDelay = 0
		q.maxTries = c.maxTries
		q.location = spool
		q.Target = tgt
		q.hostname = "mx.example.org"
		q.autogenMsgDomain = "example.org"
		q.dsnPipeline = bounce
		q.Log = log.Logger{Out: log.FuncOutput(func(_ time.Time, _ bool, msg string) {
			if strings.Contains(msg, "failed to generate fail DSN") {
				tgt.mu.Lock()
				att := tgt.started - 1
				tgt.mu.Unlock()
				logMu.Lock()
				genFail[att]++
				logMu.Unlock()
			}
		}, func() error { return nil })}
		tgt.mu.Lock()
		tgt.q = q
		tgt.mu.Unlock()
		if err := q.start(1); err != nil {
			panic(err)
		}
		return q
	}
	q := newQ()
	ctx := context.Background()
	meta := &module.MsgMetadata{ID: c16hID, OriginalFrom: c16hSender, DontTraceSender: true, SMTPOpts: smtp.MailOptions{UTF8: c.utf8}}
	d, err := q.Start(ctx, meta, c16hSender)
	if err != nil {
		panic(err)
	}
	for i := range c.plans {
		if err := d.AddRcpt(ctx, c16mRcpt(i), smtp.RcptOptions{}); err != nil {
			panic(err)
		}
	}
	if err := d.Body(ctx, vdsn.Header(1), buffer.MemoryBuffer{Slice: []byte("hello\r\n")}); err != nil {
		panic(err)
	}
	if err := d.Commit(ctx); err != nil {
		panic(err)
	}

	empty := func() bool { e, _ := os.ReadDir(spool); return len(e) == 0 }
	timedOut := false
	wait := func(wantStarted int) {
		deadline := time.Now().Add(30 * time.Second)
		for {
			tgt.mu.Lock()
			st := tgt.started
			tgt.mu.Unlock()
			if st >= wantStarted || empty() {
				return
			}
			if time.Now().After(deadline) {
				timedOut = true
				return
			}
			time.Sleep(200 * time.Microsecond)
		}
	}
	natt := c.planLen()
	from := 0
	for {
		end := from
		for end+1 < natt && !c.restartBefore(end+1) {
			end++
		}
		if end+1 >= natt {
			end = natt
		}
		wait(end + 1)
		q.Close()
		if empty() || timedOut || end >= natt {
			break
		}
		from = end + 1
		q = newQ()
	}
	removed := empty()

	// ---- observation ----
	tgt.mu.Lock()
	started := tgt.started
	snaps := tgt.snaps
	tgt.mu.Unlock()
	type fin struct {
		k, rcpt int
		retried bool
		st      *c16hStored
		reps    []c16hReport
		genfail bool
	}
	var fins []fin
	var obs []string
	active := make([]int, len(c.plans))
	for i := range active {
		active[i] = i
	}
	for k := 0; k < started; k++ {
		if k > 0 {
			active = nil
			if m := snaps[k]; m != nil {
				for _, to := range m.To {
					active = append(active, c16mIndex(to))
				}
			}
		}
		reps := map[int][]c16hReport{}
		for _, m := range bounce.msgs[k] {
			c16mParseReports(m, c.utf8, reps)
		}
		logMu.Lock()
		gf := genFail[k] > 0
		logMu.Unlock()
		var next *c16hMeta
		if k+1 < started {
			next = snaps[k+1]
		}
		for _, ri := range active {
			f := fin{k: k, rcpt: ri, reps: reps[ri]}
			pfx := fmt.Sprintf("a%d.r%d:", k+1, ri+1)
			stays := false
			if next != nil {
				for _, to := range next.To {
					if to == c16mRcpt(ri) {
						stays = true
					}
				}
			}
			switch {
			case stays:
				f.retried = true
				s := "none"
				if e := next.RcptErrs[c16mRcpt(ri)]; e != nil {
					f.st = e
					s = verr.CanonStored(&smtp.SMTPError{Code: e.Code, EnhancedCode: smtp.EnhancedCode(e.EnhancedCode), Message: e.Message})
				}
				o := fmt.Sprintf("%sretry tries=%d stored=%s", pfx, next.TriesCount[c16mRcpt(ri)], s)
				if len(f.reps) > 0 {
					o += " stray-report"
				}
				obs = append(obs, o)
			case len(f.reps) == 1:
				obs = append(obs, pfx+"giveup "+f.reps[0].canon())
			case len(f.reps) > 1:
				obs = append(obs, fmt.Sprintf("%sgiveup %d-recipient-groups", pfx, len(f.reps)))
			case gf && c.planned(ri, k).node != nil:
				f.genfail = true
				obs = append(obs, pfx+"giveup genfail")
			default:
				obs = append(obs, pfx+"delivered")
			}
			fins = append(fins, f)
		}
		for ri := range reps {
			known := false
			for _, a := range active {
				known = known || a == ri
			}
			if !known {
				obs = append(obs, fmt.Sprintf("a%d:report-for-r%d-not-in-envelope", k+1, ri+1))
			}
		}
	}
	if !removed {
		obs = append(obs, "NOT-REMOVED")
	}
	if timedOut {
		obs = append(obs, "TIMED-OUT")
	}
	out.Corr(op, strings.Join(obs, " | "))

	// ---- monitor, per recipient and attempt ----
	out.Stat(fmt.Sprintf("qmulti.recipients.%d", len(c.plans)))
	out.Stat(fmt.Sprintf("qmulti.attempts.%d", started))
	// how alike the failures of one attempt are
	for k := 0; k < started; k++ {
		texts := map[string]map[int]bool{}
		nfail := 0
		for _, f := range fins {
			if a := c.planned(f.rcpt, k); f.k == k && a.node != nil {
				nfail++
				tx := a.node.Build().Error()
				if texts[tx] == nil {
					texts[tx] = map[int]bool{}
				}
				st := toSMTPErr(a.node.Build())
				texts[tx][st.Code*1000+st.EnhancedCode[0]*100+st.EnhancedCode[1]*10+st.EnhancedCode[2]] = true
			}
		}
		if nfail >= 2 {
			kind := "different-texts"
			for _, codes := range texts {
				if len(codes) >= 2 {
					kind = "same-text-different-records"
				}
			}
			if kind == "different-texts" && len(texts) < nfail {
				kind = "same-text-same-record"
			}
			out.Stat("qmulti.attempt-failures." + kind)
		}
	}
	for _, f := range fins {
		att := c.planned(f.rcpt, f.k)
		where := fmt.Sprintf("attempt %d, recipient %d of %d", f.k+1, f.rcpt+1, len(c.plans))
		if att.node == nil {
			out.Stat("qmulti.outcome.accepted")
			if f.retried || len(f.reps) > 0 {
				out.Violation("C16/queue-accepted-recipient-failed", op, where+": the target accepted the recipient, the queue treats it as failed")
			}
			continue
		}
		out.Stat("qmulti.stage." + string([]byte{att.stage}))
		// non-interference: the record is the conversion of THIS recipient's error alone
		own := toSMTPErr(att.node.Build())
		ownRec := fmt.Sprintf("%d %d.%d.%d", own.Code, own.EnhancedCode[0], own.EnhancedCode[1], own.EnhancedCode[2])
		if f.retried && f.st != nil {
			rec := fmt.Sprintf("%d %d.%d.%d", f.st.Code, f.st.EnhancedCode[0], f.st.EnhancedCode[1], f.st.EnhancedCode[2])
			if rec != ownRec || f.st.Message != own.Message {
				out.Violation("C16/queue-record-not-own-failure", op, fmt.Sprintf("%s failed with %s: alone that is recorded as %s %q, here %s %q", where, att.node.String(), ownRec, own.Message, rec, f.st.Message))
			}
		}
		for _, r := range f.reps {
			if r.diagCode+" "+r.diagEnch != ownRec {
				out.Violation("C16/queue-record-not-own-failure", op, fmt.Sprintf("%s failed with %s: alone that is recorded as %s, the report says Diagnostic-Code: smtp; %s %s", where, att.node.String(), ownRec, r.diagCode, r.diagEnch))
			}
		}
		if !verr.WellFormed(att.node) {
			out.Stat("qmulti.outcome.malformed-error")
			continue
		}
		temp, known := verr.TempOf(att.node)
		kind := "unclassified"
		if known && temp {
			kind = "temporary"
		} else if known {
			kind = "permanent"
		}
		if f.retried {
			out.Stat("qmulti.outcome.retried." + kind)
			if f.st == nil {
				out.Violation("C16/queue-class-mismatch", op, where+" was retried, nothing is recorded for the recipient")
				continue
			}
			cls := f.st.Code / 100
			rec := fmt.Sprintf("%d %d.%d.%d", f.st.Code, f.st.EnhancedCode[0], f.st.EnhancedCode[1], f.st.EnhancedCode[2])
			if f.st.EnhancedCode[0] != cls || (cls != 4 && cls != 5) {
				out.Violation("C16/queue-class-mismatch", op, where+" (retried): recorded "+rec)
			}
			if cls != 4 || f.st.EnhancedCode[0] != 4 {
				out.Violation("C16/queue-retry-vs-class", op, where+" failed with "+att.node.String()+" and was retried, the record says "+rec)
			}
			if known && !temp {
				out.Violation("C16/queue-permanent-retried", op, where+" failed permanently ("+att.node.String()+") and was retried")
			}
			continue
		}
		exhausted := f.k+1 >= c.maxTries
		if exhausted && !(known && !temp) {
			out.Stat("qmulti.outcome.tries-exhausted." + kind)
		} else {
			out.Stat("qmulti.outcome.gave-up." + kind)
		}
		if known && temp && !exhausted {
			out.Violation("C16/queue-temporary-not-retried", op, fmt.Sprintf("%s (bound %d) failed temporarily (%s) and was not retried", where, c.maxTries, att.node.String()))
		}
		if len(f.reps) == 0 {
			out.Violation("C16/queue-failure-not-reported", op, fmt.Sprintf("%s failed (%s), no further attempt, no failure report (generation failed: %v)", where, att.node.String(), f.genfail))
			continue
		}
		for _, r := range f.reps {
			want, why := 0, ""
			if !exhausted {
				want, why = 5, fmt.Sprintf("the queue gave up on %s with tries left (%d of %d), i.e. treated it as permanent", att.node.String(), f.k+1, c.maxTries)
			} else if known && !temp {
				want, why = 5, "the failure is permanent ("+att.node.String()+")"
			} else if known && temp {
				want, why = 4, "the failure is temporary ("+att.node.String()+"), the tries ran out"
			}
			c16hCheckReport(out, op, where, r, want, why)
			if r.action != "failed" {
				out.Violation("C16/report-class-vs-treatment", op, where+": no further attempt is made but Action is "+r.action)
			}
		}
	}
}

// ---- generators ----

// c16mFamily: error values that all have the SAME Error() text (exterrors.SMTPError prints the cause
// or the message, never the codes; WithTemporary / WithFields print the inner error; net.DNSError
// does not print its IsTemporary) — temps[i] are retried, perms[i] are not.
type c16mFamily struct{ temps, perms []*verr.Node }

func c16mFamilies(r *vh.Rng) []c16mFamily {
	msg := c16hMsgs[r.Intn(len(c16hMsgs))]
	if msg == "" {
		msg = "Mailbox unavailable"
	}
	other := "a different reply text"
	s := func(kind string, code, a, b, c int, m string, inner *verr.Node) *verr.Node {
		return &verr.Node{Kind: kind, Code: code, Ench: [3]int{a, b, c}, Msg: m, Inner: inner}
	}
	p := func() *verr.Node { return &verr.Node{Kind: "P"} }
	n := func(t bool) *verr.Node { return &verr.Node{Kind: "N", Temp: t} }
	t := func(b bool, i *verr.Node) *verr.Node { return &verr.Node{Kind: "T", Temp: b, Inner: i} }
	f := func(i *verr.Node) *verr.Node { return &verr.Node{Kind: "F", Inner: i} }
	fc := func(code, a, b, c int, m string, i *verr.Node) *verr.Node {
		return &verr.Node{Kind: "F", HasC: true, HasE: true, HasM: true, Code: code, Ench: [3]int{a, b, c}, Msg: m, Inner: i}
	}
	return []c16mFamily{
		{ // the text is the reply text
			temps: []*verr.Node{s("S", 450, 4, 2, 1, msg, nil), s("R", 450, 4, 2, 1, msg, nil), s("S", 451, 0, 0, 0, msg, nil), f(s("S", 421, 4, 4, 2, msg, nil)), t(true, s("S", 452, 4, 2, 2, msg, nil))},
			perms: []*verr.Node{s("S", 550, 5, 1, 1, msg, nil), s("R", 550, 5, 1, 1, msg, nil), s("S", 554, 0, 0, 0, msg, nil), f(s("S", 552, 5, 3, 4, msg, nil)), t(false, s("S", 501, 5, 5, 4, msg, nil))},
		},
		{ // the text is the text of the cause
			temps: []*verr.Node{p(), t(true, p()), s("W", 450, 4, 2, 1, msg, p()), s("W", 451, 4, 3, 0, other, f(p())), fc(450, 4, 4, 2, msg, t(true, p())), f(t(true, p()))},
			perms: []*verr.Node{t(false, p()), s("W", 550, 5, 1, 1, msg, p()), s("W", 554, 5, 7, 0, other, t(false, p())), fc(550, 5, 7, 1, msg, t(false, p())), f(t(false, p()))},
		},
		{ // the text is the text of a DNS error, which does not say whether it is temporary
			temps: []*verr.Node{n(true), t(true, n(false)), s("W", 450, 4, 4, 4, msg, n(true)), f(n(true))},
			perms: []*verr.Node{n(false), t(false, n(true)), s("W", 550, 5, 4, 4, msg, n(false)), f(n(false))},
		},
	}
}

func c16mClone(n *verr.Node) *verr.Node {
	if n == nil {
		return nil
	}
	c := *n
	c.Inner = c16mClone(n.Inner)
	return &c
}

func c16mPerms(n int) [][]int {
	if n == 1 {
		return [][]int{{0}}
	}
	var out [][]int
	for _, p := range c16mPerms(n - 1) {
		for pos := 0; pos <= len(p); pos++ {
			q := append([]int{}, p[:pos]...)
			q = append(q, n-1)
			q = append(q, p[pos:]...)
			out = append(out, q)
		}
	}
	return out
}

// c16mSystematic: per family every (temporary, permanent) pair of same-text failures in ONE attempt, in
// both envelope orders; attempt bound 1 (both are reported at once, one report) and 3 (the temporary
// one is retried and fails with the other's value next time); then triples in all six orders.
func c16mSystematic(r *vh.Rng) []string {
	var ops []string
	i := 0
	for _, fam := range c16mFamilies(r) {
		for ti, tn := range fam.temps {
			for pi, pn := range fam.perms {
				i++
				stage := func(j int) byte { return "rn"[(i+j)%2] }
				for _, order := range [][2]int{{0, 1}, {1, 0}} {
					mt := 1 + 2*((ti+pi+order[0])%2)
					c := &c16mCase{maxTries: mt, utf8: i%2 == 0}
					pl := [2][]c16hAttempt{
						{{stage: stage(0), node: c16mClone(tn)}, {stage: stage(1), node: c16mClone(pn)}},
						{{stage: stage(1), node: c16mClone(pn)}},
					}
					c.plans = [][]c16hAttempt{pl[order[0]], pl[order[1]]}
					if mt == 3 && i%3 == 0 {
						c.restarts = []bool{false, true}
					}
					ops = append(ops, c.op())
				}
			}
		}
		// three and four recipients: temporary, permanent, another temporary with other codes, one accepted
		for v := 0; v < 2; v++ {
			a, b, c3 := fam.temps[v%len(fam.temps)], fam.perms[(v+1)%len(fam.perms)], fam.temps[(v+2)%len(fam.temps)]
			plans := [][]c16hAttempt{
				{{stage: 'n', node: c16mClone(a)}, {stage: 'r', node: c16mClone(b)}},
				{{stage: 'n', node: c16mClone(b)}},
				{{stage: 'r', node: c16mClone(c3)}, {stage: 'n', node: c16mClone(a)}, {stage: 'n', node: c16mClone(b)}},
			}
			for _, perm := range c16mPerms(3) {
				c := &c16mCase{maxTries: 2 + v, utf8: v == 0}
				for _, j := range perm {
					c.plans = append(c.plans, plans[j])
				}
				ops = append(ops, c.op())
			}
			c := &c16mCase{maxTries: 2, utf8: v == 1, plans: [][]c16hAttempt{plans[1], {{}}, plans[0], plans[2]}, restarts: []bool{false, true}}
			ops = append(ops, c.op())
		}
	}
	return ops
}

func c16mGenCase(r *vh.Rng) *c16mCase {
	c := &c16mCase{maxTries: 1 + r.Intn(4), utf8: r.Bool()}
	nr := 2 + r.Intn(3)
	natt := 1 + r.Intn(3)
	fams := c16mFamilies(r)
	c.plans = make([][]c16hAttempt, nr)
	for k := 0; k < natt; k++ {
		fam := fams[r.Intn(len(fams))]
		sameText := r.Chance(75)
		for i := 0; i < nr; i++ {
			a := c16hAttempt{stage: "rn"[r.Intn(2)]}
			switch p := r.Intn(100); {
			case p < 10:
				// accepted
			case sameText && p < 55:
				a.node = c16mClone(fam.temps[r.Intn(len(fam.temps))])
			case sameText:
				a.node = c16mClone(fam.perms[r.Intn(len(fam.perms))])
			case p < 80:
				a.node = c16hClassNode(r, []int{0, 0, 1, 4, 2, 3}[r.Intn(6)])
			default:
				a.node = verr.Gen(r, r.Intn(3), r.Chance(75))
				c16hSetMsgs(r, a.node)
			}
			c.plans[i] = append(c.plans[i], a)
		}
		c.restarts = append(c.restarts, k > 0 && r.Chance(30))
	}
	return c
}

func TestVerifC16QueueMulti(t *testing.T) {
	out := vh.Open("c16_queue_multi")
	defer out.Close()
	dontRecover = false
	if ops := vh.Replay(); ops != nil {
		for _, op := range ops {
			if strings.HasPrefix(op, "C16 qmulti ") {
				c16mRunCase(out, op)
			}
		}
		return
	}
	r := vh.NewRng(vh.Seed() + 1609)
	ops := c16mSystematic(r)
	for i := 0; i < vh.N(4000)/25; i++ {
		ops = append(ops, c16mGenCase(r).op())
	}
	jobs := make(chan string, 64)
	var wg sync.WaitGroup
	for w := 0; w < 12; w++ {
		wg.Add(1)
		go func() {
			defer wg.Done()
			for op := range jobs {
				c16mRunCase(out, op)
			}
		}()
	}
	for _, op := range ops {
		jobs <- op
	}
	close(jobs)
	wg.Wait()
}
