package queue

// C10 end to end: a REAL SMTP endpoint (go-smtp server, maddy session, message pipeline) in front of
// the REAL queue in front of the recording target.  What the pipeline hands to the queue is
// recorded by a pass-through proxy target: that is "what the queue accepted"; the monitor compares
// every delivery attempt (first, retries, after restarts) with it.
//
//   C10 smtp <hist> <u|t|8|-...> A=<0|1> F=<hex addr> R=<hex addr>,.. H=<hex header blob> B=<kind>:<len>:<seed> [D=<0|1|2>] [P=<h>,<b>,<m>] [W=<hex addr>]
//
// D: the queue's bounce pipeline (absent / takes the failure reports / refuses them); default 0.
// P: leftover files ID.header / ID.body / ID.meta.new (ID = the id the endpoint gives the message) put
// into the spool right before the queue stores the message (see c10Pre); default none.
//
// The same execution is also handed to the Lean model as a synthesized `C10 run` op line built from
// the proxy's record.

import (
	"bufio"
	"bytes"
	"context"
	"encoding/base64"
	"fmt"
	"io"
	"net"
	"os"
	"path/filepath"
	"runtime"
	"strconv"
	"strings"
	"sync"
	"testing"
	"time"
	"unicode/utf8"

	"github.com/emersion/go-message/textproto"
	"github.com/emersion/go-smtp"
	"github.com/foxcpp/maddy/framework/address"
	"github.com/foxcpp/maddy/framework/buffer"
	"github.com/foxcpp/maddy/framework/config"
	"github.com/foxcpp/maddy/framework/module"
	smtpendp "github.com/foxcpp/maddy/internal/endpoint/smtp"
	"github.com/foxcpp/maddy/internal/verifshim/vh"
)

// ---- pass-through proxy between the endpoint's pipeline and the queue ----

type c10E2E struct {
	w        *c10World
	acc      *c10Accepted
	bufKind  string
	connAuth string // AuthUser seen in the connection state at Body time
	started  int
	// first step `R`: the queue is told to shut down while the transaction completes (its time wheel
	// is stopped right before Commit): the client gets its 250, nothing is dispatched, the server
	// "restarts" before the first attempt
	stopBeforeCommit bool
	// the header value and the metadata object the pipeline handed over (it still holds both)
	srcHdr  textproto.Header
	srcMeta *module.MsgMetadata
	// W=<hex addr>: the sender the queue is given instead of the client's (rewritten before the queue)
	hasRewrite bool
	rewrite    string
	// files of the message's own names (the id the endpoint has given it) put into the spool right
	// before the queue stores it
	pre c10Pre
}

type c10Proxy struct {
	mu  sync.Mutex
	cur *c10E2E
}

func (p *c10Proxy) Name() string                { return "c10proxy" }
func (p *c10Proxy) InstanceName() string        { return "c10proxy" }
func (p *c10Proxy) Init(cfg *config.Map) error  { return nil }

type c10ProxyDelivery struct {
	e       *c10E2E
	msgMeta *module.MsgMetadata
	d       module.Delivery
}

func (p *c10Proxy) Start(ctx context.Context, msgMeta *module.MsgMetadata, mailFrom string) (module.Delivery, error) {
	p.mu.Lock()
	e := p.cur
	p.mu.Unlock()
	if e == nil {
		return nil, fmt.Errorf("c10proxy: no case in progress")
	}
	e.started++
	e.acc.id = msgMeta.ID
	if e.hasRewrite {
		// W=: this step stands for whatever rewrites the sender between the endpoint and the queue (a
		// sender modifier, list / VERP-style rewriting); OriginalFrom stays what the client said in MAIL
		mailFrom = e.rewrite
	}
	e.acc.from = mailFrom
	e.acc.ofrom = msgMeta.OriginalFrom
	e.w.tgt.mu.Lock()
	e.w.tgt.id = msgMeta.ID
	e.w.tgt.mu.Unlock()
	d, err := e.w.q.Start(ctx, msgMeta, mailFrom)
	if err != nil {
		return nil, err
	}
	return &c10ProxyDelivery{e: e, msgMeta: msgMeta, d: d}, nil
}

func (d *c10ProxyDelivery) AddRcpt(ctx context.Context, to string, opts smtp.RcptOptions) error {
	if err := d.d.AddRcpt(ctx, to, opts); err != nil {
		return err
	}
	d.e.acc.to = append(d.e.acc.to, to)
	d.e.w.tgt.mu.Lock()
	d.e.w.tgt.toStrs = append(d.e.w.tgt.toStrs, to)
	d.e.w.tgt.mu.Unlock()
	return nil
}

func (d *c10ProxyDelivery) Body(ctx context.Context, header textproto.Header, body buffer.Buffer) error {
	acc := d.e.acc
	var hb bytes.Buffer
	if err := textproto.WriteHeader(&hb, header); err != nil {
		return err
	}
	acc.hdr = hb.Bytes()
	acc.fields, _ = c10RawFields(header)
	acc.wf = c10AllWF(acc.fields)
	r, err := body.Open()
	if err != nil {
		return err
	}
	acc.body, err = io.ReadAll(r)
	r.Close()
	if err != nil {
		return err
	}
	switch body.(type) {
	case buffer.MemoryBuffer:
		d.e.bufKind = "m"
	case buffer.FileBuffer:
		d.e.bufKind = "f"
	default:
		d.e.bufKind = "?"
	}
	m := d.msgMeta
	acc.utf8, acc.rtls, acc.tro = m.SMTPOpts.UTF8, m.SMTPOpts.RequireTLS, m.TLSRequireOverride
	if len(m.OriginalRcpts) > 0 {
		acc.orc = map[string]string{}
		for a, b := range m.OriginalRcpts {
			acc.orc[a] = b
		}
	}
	if m.Conn != nil {
		d.e.connAuth = m.Conn.AuthUser
	}
	d.e.srcHdr, d.e.srcMeta = header, m
	d.e.w.tgt.mu.Lock()
	d.e.w.tgt.accBody = acc.body
	d.e.w.tgt.mu.Unlock()
	if d.e.pre.any() {
		d.e.w.plantPre(m.ID, d.e.pre, len(acc.hdr), len(acc.body))
	}
	if err := d.d.Body(ctx, header, body); err != nil {
		return err
	}
	d.e.w.captureStored(m.ID, acc.hdr, acc.body)
	return nil
}

func (d *c10ProxyDelivery) Abort(ctx context.Context) error  { return d.d.Abort(ctx) }
func (d *c10ProxyDelivery) Commit(ctx context.Context) error {
	if d.e.stopBeforeCommit {
		d.e.w.q.wheel.Close()
	}
	return d.d.Commit(ctx)
}

type c10AuthMod struct {
	mu         sync.Mutex
	user, pass string
}

func (a *c10AuthMod) Name() string               { return "c10auth" }
func (a *c10AuthMod) InstanceName() string       { return "c10auth" }
func (a *c10AuthMod) Init(cfg *config.Map) error { return nil }
func (a *c10AuthMod) AuthPlain(username, password string) error {
	a.mu.Lock()
	defer a.mu.Unlock()
	if strings.EqualFold(username, a.user) && password == a.pass {
		return nil
	}
	return fmt.Errorf("c10auth: invalid credentials")
}

// ---- the endpoint ----

type c10Endpoint struct {
	endp  *smtpendp.Endpoint
	addr  string
	proxy *c10Proxy
	auth  *c10AuthMod
	state string
}

func c10StartEndpoint() (*c10Endpoint, error) {
	l, err := net.Listen("tcp", "127.0.0.1:0")
	if err != nil {
		return nil, err
	}
	addr := l.Addr().String()
	l.Close()
	state, err := os.MkdirTemp("", "verif-c10-state-")
	if err != nil {
		return nil, err
	}
	config.StateDirectory = state
	config.RuntimeDirectory = state
	e := &c10Endpoint{addr: addr, proxy: &c10Proxy{}, auth: &c10AuthMod{}, state: state}
	module.RegisterInstance(e.proxy, nil)
	module.Initialized["c10proxy"] = true
	module.RegisterInstance(e.auth, nil)
	module.Initialized["c10auth"] = true
	mod, err := smtpendp.New("smtp", []string{"tcp://" + addr})
	if err != nil {
		return nil, err
	}
	e.endp = mod.(*smtpendp.Endpoint)
	cfg := []config.Node{
		{Name: "hostname", Args: []string{"mx.example.org"}},
		{Name: "tls", Args: []string{"off"}},
		{Name: "auth", Args: []string{"&c10auth"}},
		{Name: "insecure_auth", Args: []string{"yes"}},
		{Name: "smtp_max_line_length", Args: []string{"200000"}},
		{Name: "max_message_size", Args: []string{"64M"}},
		{Name: "deliver_to", Args: []string{"&c10proxy"}},
	}
	if err := e.endp.Init(config.NewMap(nil, config.Node{Children: cfg})); err != nil {
		return nil, err
	}
	return e, nil
}

func (e *c10Endpoint) close() {
	e.endp.Close()
	os.RemoveAll(e.state)
}

var c10SmtpTimeout = 45 * time.Second

// ---- a minimal SMTP client that sends exactly the bytes it is given ----

type c10Client struct {
	c  net.Conn
	rd *bufio.Reader
}

func (cl *c10Client) reply() (int, string, error) {
	var text []string
	for {
		cl.c.SetReadDeadline(time.Now().Add(c10SmtpTimeout))
		l, err := cl.rd.ReadString('\n')
		if err != nil {
			return 0, strings.Join(text, " | "), err
		}
		l = strings.TrimRight(l, "\r\n")
		text = append(text, l)
		if len(l) < 4 || l[3] == ' ' {
			code, _ := strconv.Atoi(l[:min(3, len(l))])
			return code, strings.Join(text, " | "), nil
		}
	}
}

func (cl *c10Client) cmd(line string) (int, string, error) {
	if _, err := cl.c.Write([]byte(line + "\r\n")); err != nil {
		return 0, "", err
	}
	return cl.reply()
}

// c10DotStuff prepares a message for DATA the way the server's own line state machine reads it
// (go-smtp dataReader: a line ends at CR LF, but in "CR CR LF" the LF does NOT end a line): a dot at
// the beginning of a line is doubled, the message is completed to a full line, then ".CRLF".
func c10DotStuff(msg []byte) []byte {
	const (
		begin = iota
		data
		cr
	)
	out := make([]byte, 0, len(msg)+16)
	st := begin
	for _, c := range msg {
		switch st {
		case begin:
			if c == '.' {
				out = append(out, '.')
			}
			if c == '\r' {
				st = cr
			} else {
				st = data
			}
		case cr:
			if c == '\n' {
				st = begin
			} else {
				st = data
			}
		case data:
			if c == '\r' {
				st = cr
			}
		}
		out = append(out, c)
	}
	switch st {
	case data:
		out = append(out, '\r', '\n')
	case cr:
		out = append(out, '\n')
	}
	return append(out, '.', '\r', '\n')
}

// ---- one case ----

func c10Smtp(out *vh.Out, ep *c10Endpoint, op string) {
	t := strings.Fields(op)
	if len(t) < 9 || len(t) > 12 || t[1] != "smtp" {
		out.Note("unparsable smtp op")
		return
	}
	steps, herr := c10ParseHist(t[2])
	if herr != nil {
		out.Note("unparsable smtp op: " + herr.Error())
		return
	}
	optUTF8, optRTLS, opt8 := strings.Contains(t[3], "u"), strings.Contains(t[3], "t"), strings.Contains(t[3], "8")
	useAuth := t[4] == "A=1"
	from := string(vh.UnhexBytes(strings.TrimPrefix(t[5], "F=")))
	var rcpts []string
	for _, h := range strings.Split(strings.TrimPrefix(t[6], "R="), ",") {
		rcpts = append(rcpts, string(vh.UnhexBytes(h)))
	}
	blob := vh.UnhexBytes(strings.TrimPrefix(t[7], "H="))
	bp := strings.Split(strings.TrimPrefix(t[8], "B="), ":")
	bk, _ := strconv.Atoi(bp[0])
	bl, _ := strconv.Atoi(bp[1])
	bs, _ := strconv.ParseUint(bp[2], 10, 64)
	body := c10GenBody(bk, bl, bs)
	msg := append(append([]byte{}, blob...), body...)

	tag := fmt.Sprintf("%08x", c10Digest([]byte(op)))
	user, pass, secrets := c10Secrets(tag)
	w := c10NewWorld(steps, secrets)
	defer w.cleanup()
	pre, _ := c10ParsePre("-")
	for _, x := range t[9:] {
		switch {
		case strings.HasPrefix(x, "D="):
			w.dsnMode, _ = strconv.Atoi(x[2:])
		case strings.HasPrefix(x, "W="):
		case strings.HasPrefix(x, "P="):
			var perr error
			if pre, perr = c10ParsePre(x[2:]); perr != nil {
				out.Note("unparsable smtp op: " + perr.Error())
				return
			}
		default:
			out.Note("unparsable smtp op")
			return
		}
	}
	e := &c10E2E{w: w, acc: &c10Accepted{envUTF8: true}, pre: pre}
	for _, x := range t[9:] {
		if strings.HasPrefix(x, "W=") {
			e.hasRewrite, e.rewrite = true, string(vh.UnhexBytes(x[2:]))
		}
	}
	e.stopBeforeCommit = len(steps) > 0 && steps[0].restart && steps[0].commit
	ep.auth.mu.Lock()
	ep.auth.user, ep.auth.pass = user, pass
	ep.auth.mu.Unlock()
	w.newQ(false)
	ep.proxy.mu.Lock()
	ep.proxy.cur = e
	ep.proxy.mu.Unlock()
	defer func() {
		ep.proxy.mu.Lock()
		ep.proxy.cur = nil
		ep.proxy.mu.Unlock()
	}()

	// --- the SMTP transaction
	conn, err := net.Dial("tcp", ep.addr)
	if err != nil {
		panic(err)
	}
	defer conn.Close()
	cl := &c10Client{c: conn, rd: bufio.NewReader(conn)}
	stage := ""
	fail := func(st string, code int, text string, err error) {
		stage = fmt.Sprintf("%s:%d", st, code)
		if err != nil {
			stage = st + ":io-error"
			buf := make([]byte, 1<<20)
			buf = buf[:runtime.Stack(buf, true)]
			os.WriteFile(filepath.Join(os.TempDir(), "c10_smtp_hang_stacks.txt"), buf, 0o644)
			out.Note("smtp i/o error at " + st + ": " + err.Error())
		}
		_ = text
	}
	step := func(st, line string, want int) bool {
		code, text, err := cl.cmd(line)
		if err != nil || code != want {
			fail(st, code, text, err)
			return false
		}
		return true
	}
	accepted := false
	func() {
		if code, text, err := cl.reply(); err != nil || code != 220 {
			fail("greeting", code, text, err)
			return
		}
		if !step("ehlo", "EHLO client.example.net", 250) {
			return
		}
		if useAuth {
			if !step("auth", "AUTH PLAIN "+base64.StdEncoding.EncodeToString([]byte("\x00"+user+"\x00"+pass)), 235) {
				return
			}
		}
		mail := "MAIL FROM:<" + from + ">"
		if opt8 {
			mail += " BODY=8BITMIME"
		}
		if optUTF8 {
			mail += " SMTPUTF8"
		}
		if optRTLS {
			mail += " REQUIRETLS"
		}
		if !step("mail", mail, 250) {
			return
		}
		okRcpts := 0
		for _, r := range rcpts {
			code, text, err := cl.cmd("RCPT TO:<" + r + ">")
			if err != nil {
				fail("rcpt", code, text, err)
				return
			}
			if code == 250 {
				okRcpts++
			} else {
				out.Stat(fmt.Sprintf("smtp.rcpt-refused.%d", code))
			}
		}
		if okRcpts == 0 {
			stage = "rcpt:all-refused"
			return
		}
		if !step("data", "DATA", 354) {
			return
		}
		if _, err := conn.Write(c10DotStuff(msg)); err != nil {
			fail("data-body", 0, "", err)
			return
		}
		code, text, err := cl.reply()
		if err != nil || code != 250 {
			fail("data-end", code, text, err)
			return
		}
		accepted = true
	}()
	cl.cmd("QUIT")
	conn.Close()

	if !accepted {
		w.q.deliveryWg.Wait()
		w.q.Close()
		out.Stat("smtp.not-accepted." + stage)
		if ents, _ := os.ReadDir(w.spool); len(ents) != 0 {
			var names []string
			for _, e := range ents {
				names = append(names, e.Name())
			}
			out.Violation("C10/spool-not-empty-after-refusal", op, fmt.Sprintf("files %v left after the transaction was refused at %s", names, stage))
		}
		return
	}
	out.Stat("smtp.accepted")
	w.acked = true // 250 after DATA
	acc := e.acc
	for _, s := range append([]string{acc.from}, acc.to...) {
		if !utf8.ValidString(s) {
			acc.envUTF8 = false
		}
	}
	for a, b := range acc.orc {
		if !utf8.ValidString(a) || !utf8.ValidString(b) {
			acc.envUTF8 = false
		}
	}
	w.scan("after DATA")
	// plans are written for the recipients the client named; refused ones shift nothing: letters are per accepted position
	w.drive(steps, true)

	// --- correspondence: the same execution as a queue-level case for the model
	strs := []string{""}
	add := func(s string) int {
		for i, x := range strs {
			if x == s {
				return i
			}
		}
		strs = append(strs, s)
		return len(strs) - 1
	}
	fromI := add(acc.from)
	fromTok := strconv.Itoa(fromI)
	if acc.ofrom != acc.from {
		fromTok += "/" + strconv.Itoa(add(acc.ofrom))
	}
	var toI []string
	for _, r := range acc.to {
		toI = append(toI, strconv.Itoa(add(r)))
	}
	orc := "-"
	if len(acc.orc) > 0 {
		var ps []string
		for a, b := range acc.orc {
			ps = append(ps, fmt.Sprintf("%d:%d", add(a), add(b)))
		}
		orc = strings.Join(ps, ".")
	}
	var jp []string
	for i, n := 0, len(strs); i < n; i++ {
		if tt := c10JSONRoundTrip(strs[i]); tt != strs[i] {
			jp = append(jp, fmt.Sprintf("%d:%d", i, add(tt)))
		}
	}
	jtab := "-"
	if len(jp) > 0 {
		jtab = strings.Join(jp, ".")
	}
	var ss []string
	for _, s := range strs {
		ss = append(ss, vh.HexBytes([]byte(s)))
	}
	hdr := "-"
	if len(acc.fields) > 0 {
		var fs []string
		for _, f := range acc.fields {
			fs = append(fs, "r:"+vh.HexBytes(f))
		}
		hdr = strings.Join(fs, ",")
	}
	// plan letters padded/truncated to the accepted recipients
	var hist []string
	for _, st := range steps {
		if st.restart {
			hist = append(hist, st.token(""))
			continue
		}
		l := st.letters
		for len(l) < len(acc.to) {
			l += "o"
		}
		hist = append(hist, st.token(l[:len(acc.to)]))
	}
	authN := 1
	if useAuth {
		authN = 2
	}
	var xs []string
	for i, s := range strs {
		if i > 0 {
			if _, err := address.SelectIDNA(acc.utf8, s); err != nil {
				xs = append(xs, strconv.Itoa(i))
			}
		}
	}
	xtab := "-"
	if len(xs) > 0 {
		xtab = strings.Join(xs, ".")
	}
	runOp := fmt.Sprintf("C10 run %s %s %s:9:%d:0:%d S=%s J=%s from=%s to=%s orc=%s f=%s%s%s00 auth=%d late=1 dsn=%d X=%s peer=- pre=%s", strings.Join(hist, "."), hdr,
		e.bufKind, len(acc.body), c10Digest(acc.body), strings.Join(ss, ","), jtab, fromTok, strings.Join(toI, "."), orc,
		c10Bit(acc.utf8), c10Bit(acc.rtls), c10Bit(acc.tro), authN, w.dsnMode, xtab, pre)
	obs, fin := w.observation(strs, acc.id)
	out.Corr(runOp, obs)

	// --- monitor
	w.monitor(out, op, acc, true)
	if e.srcMeta != nil {
		c10SharedUnchanged(out, op, e.srcHdr, e.srcMeta, acc)
	}
	w.reportStats(out, "smtp", acc)
	if useAuth && e.connAuth != user {
		out.Note("endpoint did not record the authenticated user in the connection state")
	}
	w.stats(out, "smtp", steps, acc, fin)
	out.Stat("smtp.buf." + e.bufKind)
	if useAuth {
		out.Stat("smtp.authenticated")
	}
	out.StatN("smtp.fields", len(acc.fields))
}

// ---- generators ----

// body sizes asked of the generator (the DATA framing completes the last line, so the body the queue
// is handed is up to two bytes longer): empty, a lone line end, around the 4096 / 32 KiB buffers,
// around the 1 MiB spill-to-file threshold of the endpoint's buffer
var c10EdgeSizesSmtp = []int{0, 0, 1, 2, 4094, 4096, 32766, 32768, 1<<20 - 2, 1<<20 - 1, 1 << 20}

func c10GenSmtp(r *vh.Rng, big bool, edge int) string {
	utf8opt := r.Chance(60)
	genAddr := func() string {
		for {
			a := c10Locals[r.Intn(len(c10Locals))] + "@" + c10Domains[r.Intn(len(c10Domains))]
			ascii := true
			for i := 0; i < len(a); i++ {
				if a[i] >= 0x80 {
					ascii = false
				}
			}
			if strings.ContainsAny(a, "\t\x01 ") && !strings.HasPrefix(a, "\"") {
				continue
			}
			if strings.ContainsAny(a, "<>") {
				continue
			}
			if ascii || utf8opt || r.Chance(10) {
				if r.Chance(3) { // not valid UTF-8: the endpoint must refuse it
					a = "inv\xff\xfe" + a
				}
				return a
			}
		}
	}
	from := ""
	if !r.Chance(15) {
		from = genAddr()
	}
	nr := 1 + r.Intn(4)
	var rc []string
	for i := 0; i < nr; i++ {
		rc = append(rc, vh.HexBytes([]byte(genAddr())))
	}
	var steps []string
	na := 1 + r.Intn(3)
	if r.Chance(10) {
		steps = append(steps, "R") // restart before the first attempt
		if r.Chance(30) {
			steps = append(steps, "r")
		}
	}
	for a := 0; a < na; a++ {
		kind := "P"
		if r.Chance(30) {
			kind = "A"
		}
		var ls []byte
		for i := 0; i < nr; i++ {
			switch {
			case r.Chance(65):
				ls = append(ls, "tq"[r.Intn(5)/4])
			case r.Chance(25):
				ls = append(ls, 'p')
			default:
				ls = append(ls, 'o')
			}
		}
		steps = append(steps, "a"+kind+string(ls))
		for k := r.Intn(3) - 1 + r.Intn(2); k > 0 && (a+1 < na || r.Chance(30)); k-- {
			steps = append(steps, "r")
		}
	}
	opts := ""
	if utf8opt {
		opts += "u"
	}
	if r.Chance(30) {
		opts += "t"
	}
	if r.Chance(60) {
		opts += "8"
	}
	if opts == "" {
		opts = "-"
	}
	blob := c10GenBlobWF(r)
	if r.Chance(25) {
		blob = append([]byte("TLS-Required: No\r\n"), blob...)
	}
	if r.Chance(20) {
		blob = append([]byte("Bcc: hidden@example.org,\r\n hidden2@example.net\r\n"), blob...)
	}
	if r.Chance(10) && edge < 0 { // a header the endpoint's parser refuses
		blob = append([]byte(" leading space\r\n"), blob...)
	}
	if edge >= 0 {
		steps = c10EdgeHistory((edge/len(c10EdgeSizesSmtp))%c10EdgeShapes, nr, steps, false)
		if (edge+edge/len(c10EdgeSizesSmtp))%3 == 0 {
			blob = []byte("\r\n") // no header field at all from the client
		}
	}
	sizes := []int{0, 0, 1, 2, 17, 200, 1500, 4095, 4096, 4097, 32768, 70000}
	n := sizes[r.Intn(len(sizes))]
	if big {
		n = []int{1 << 20, 1<<20 + 1, 1<<20 + 4097, 2<<20 + 3}[r.Intn(4)]
	}
	if edge >= 0 {
		n = c10EdgeSizesSmtp[edge%len(c10EdgeSizesSmtp)]
		if sh := (edge / len(c10EdgeSizesSmtp)) % c10EdgeShapes; n >= 1<<19 && sh != 0 && sh != 2 && !vh.Thorough() {
			n = []int{0, 2}[edge%2] // quick tier: the 1 MiB bodies only with a restart before the first / the next attempt
		}
	}
	op := fmt.Sprintf("C10 smtp %s %s A=%s F=%s R=%s H=%s B=%d:%d:%d", strings.Join(steps, "."), opts, c10Bit(r.Chance(60)),
		c10HexOrEmpty([]byte(from)), strings.Join(rc, ","), c10HexOrEmpty(blob), r.Intn(4), n, r.Next()%1000000007)
	return op + fmt.Sprintf(" D=%d", []int{1, 1, 1, 1, 1, 1, 1, 2, 0, 0}[r.Intn(10)])
}

// c10DecorateSmtp: hdrPct % of the cases get one of the header fields that speak about the envelope on
// top of the client's header, prePct % leftover files of the message's own names.
func c10DecorateSmtp(r *vh.Rng, op string, hdrPct, prePct int) string {
	t := strings.Fields(op)
	if len(t) < 9 || !strings.HasPrefix(t[7], "H=") {
		return op
	}
	if r.Chance(hdrPct) {
		var blob []byte
		if t[7] != "H=-" {
			blob = vh.UnhexBytes(strings.TrimPrefix(t[7], "H="))
		}
		var add []byte
		for _, f := range c10GenEnvelopeFields(r) {
			add = append(add, f...)
		}
		t[7] = "H=" + vh.HexBytes(append(add, blob...))
	}
	if r.Chance(prePct) {
		t = append(t, "P="+c10GenPreSpec(r).String())
	}
	return strings.Join(t, " ")
}

// c10DecorateSmtpFrom: in pct % of the cases the sender is rewritten between the endpoint and the queue
// (W=); the client's MAIL FROM - the null reverse-path included - stays the ORIGINAL sender of the message.
func c10DecorateSmtpFrom(r *vh.Rng, op string, pct int) string {
	if !r.Chance(pct) || strings.Contains(op, " W=") {
		return op
	}
	a := "bounces+list=" + strconv.Itoa(r.Intn(1000)) + "@lists.example.net"
	if r.Chance(40) {
		// valid UTF-8 only: other addresses never get past the endpoint (outside the property's domain)
		if g := c10GenAddr(r); g != "" && utf8.ValidString(g) {
			a = g
		}
	}
	return op + " W=" + vh.HexBytes([]byte(a))
}

func TestVerifC10Smtp(t *testing.T) {
	out := vh.Open("c10_smtp")
	defer out.Close()
	dontRecover = false // production setting: a panic below Queue.dispatch is recovered, the entry marked as broken
	c10QuietPanics()
	replay := vh.Replay()
	if replay != nil {
		// nothing to replay here: do not start (and at once close) an endpoint - go-smtp's Close waits
		// for ever for a listener whose Serve goroutine has not registered it yet
		n := 0
		for _, op := range replay {
			if strings.HasPrefix(op, "C10 smtp ") {
				n++
			}
		}
		if n == 0 {
			return
		}
	}
	var ep *c10Endpoint
	var err error
	for try := 0; try < 5; try++ { // the port is picked, released and re-bound: another process may grab it in between
		if ep, err = c10StartEndpoint(); err == nil {
			break
		}
		time.Sleep(50 * time.Millisecond)
	}
	if err != nil {
		t.Fatal(err)
	}
	defer ep.close()
	if ops := replay; ops != nil {
		for _, op := range ops {
			if strings.HasPrefix(op, "C10 smtp ") {
				c10Smtp(out, ep, op)
			}
		}
		return
	}
	r := vh.NewRng(vh.Seed() + 3010)
	n := vh.N(600) / 6
	nbig := 2
	if vh.Thorough() {
		nbig = 10
	}
	rd := vh.NewRng(vh.Seed() + 3014)
	rp := vh.NewRng(vh.Seed() + 3015)
	rw := vh.NewRng(vh.Seed() + 3016)
	for i := 0; i < n; i++ {
		op := c10GenSmtp(r, i < nbig, -1)
		if i >= nbig {
			op = c10DecorateOp(rd, op, 10, 25)
			// header fields that speak about the envelope (TLS-Required in every spelling, Return-Path, ...)
			// whatever the options of the transaction; leftover files of the message's own names
			op = c10DecorateSmtp(rp, op, 35, 20)
			op = c10DecorateSmtpFrom(rw, op, 25)
		}
		c10Smtp(out, ep, op)
	}
	nedge := len(c10EdgeSizesSmtp) * c10EdgeShapes
	if vh.Thorough() {
		nedge *= 3
	}
	re := vh.NewRng(vh.Seed() + 3011)
	for e := 0; e < nedge; e++ {
		c10Smtp(out, ep, c10GenSmtp(re, false, e))
	}
	// fixed cases: addresses that are not valid UTF-8 (sender / recipient), with retry and restart
	for _, op := range []string{
		"C10 smtp aPt.aPt.r.aPo u8 A=1 F=" + vh.HexBytes([]byte("inv\xff\xfeuser@example.org")) + " R=" + vh.HexBytes([]byte("rcpt@example.org")) + " H=" + vh.HexBytes([]byte("Subject: x\r\n\r\n")) + " B=0:100:1",
		"C10 smtp aPtt.r.aPoo u A=0 F=" + vh.HexBytes([]byte("sender@example.org")) + " R=" + vh.HexBytes([]byte("rc\xffpt@example.org")) + "," + vh.HexBytes([]byte("ok@example.org")) + " H=" + vh.HexBytes([]byte("Subject: x\r\n\r\n")) + " B=0:100:2",
		// an empty body / a client header without a single field, restarted before the first resp. the second attempt
		"C10 smtp R.aPo - A=0 F=" + vh.HexBytes([]byte("a@example.org")) + " R=" + vh.HexBytes([]byte("b@example.org")) + " H=0d0a B=0:0:1",
		"C10 smtp aPt.r.aPo - A=0 F=" + vh.HexBytes([]byte("a@example.org")) + " R=" + vh.HexBytes([]byte("b@example.org")) + " H=" + vh.HexBytes([]byte("Subject: x\r\n\r\n")) + " B=0:0:1",
		"C10 smtp aAt.r.r.aPt.r 8 A=1 F=- R=" + vh.HexBytes([]byte("b@example.org")) + " H=0d0a B=0:0:1",
		// a failure report between attempts (one recipient given up while the other stays pending), header with Bcc
		"C10 smtp aPpt.aPot.r.aPoo 8 A=1 F=" + vh.HexBytes([]byte("a@example.org")) + " R=" + vh.HexBytes([]byte("gone@example.org")) + "," + vh.HexBytes([]byte("b@example.org")) +
			" H=" + vh.HexBytes([]byte("From: a@example.org\r\nBcc: hidden@example.org\r\nSubject: x\r\n\r\n")) + " B=0:100:3 D=1",
		"C10 smtp aAtp.r.aPto.aPoo u A=0 F=" + vh.HexBytes([]byte("a@example.org")) + " R=" + vh.HexBytes([]byte("b@example.org")) + "," + vh.HexBytes([]byte("ю́зер@example.org")) +
			" H=" + vh.HexBytes([]byte("Bcc: hidden@example.org\r\nSubject: x\r\n\r\n")) + " B=0:100:4 D=2",
	} {
		c10Smtp(out, ep, op)
	}
	// the downstream target panics in an attempt of a message submitted over an AUTHENTICATED session
	// (every stage of the first attempt, which is served from the metadata object of the session; a retry;
	// after a restart); restarts that find a leftover ID.meta.new beside the intact ID.meta
	two := " F=" + vh.HexBytes([]byte("a@example.org")) + " R=" + vh.HexBytes([]byte("b@example.org")) + "," + vh.HexBytes([]byte("c@example.org")) +
		" H=" + vh.HexBytes([]byte("From: a@example.org\r\nSubject: x\r\n\r\n")) + " B=0:100:5 D=1"
	// a TLS-Required field in the client's header, in several spellings, with and without REQUIRETLS, read
	// back from the spool in a retry / after a restart; leftover ID.header / ID.body / ID.meta.new of the
	// very id the endpoint gives the message (longer, of the same length, shorter than what is stored)
	env := " A=0 F=" + vh.HexBytes([]byte("a@example.org")) + " R=" + vh.HexBytes([]byte("b@example.org")) + "," + vh.HexBytes([]byte("c@example.org"))
	for i, h := range []string{"TLS-Required: No\r\n", "tls-required:\r\n NO\r\n", "TLS-Required: Yes\r\nTLS-Required: No\r\n", "TLS-Required: No (really)\r\n"} {
		blob := " H=" + vh.HexBytes([]byte("From: a@example.org\r\n"+h+"Subject: x\r\n\r\n")) + " B=0:100:6 D=1"
		c10Smtp(out, ep, "C10 smtp aPtt.aPto.r.aPoo "+[]string{"t8", "8"}[i%2]+env+blob)
		c10Smtp(out, ep, "C10 smtp R.aAtt.aPoo "+[]string{"8", "ut"}[i%2]+env+blob)
	}
	// the sender rewritten between the endpoint and the queue: a message that arrived with the null
	// reverse-path resp. with an address - first attempt, in-process retry, after a restart, `R`
	for i, h := range []string{"aPoo", "aPtt.aPto.r.aPoo", "R.aAtt.r.aPpo", "aPpt.aPot.r"} {
		wr := " W=" + vh.HexBytes([]byte("bounces+list=42@lists.example.net"))
		tail := " H=" + vh.HexBytes([]byte("From: a@example.org\r\nSubject: x\r\n\r\n")) + " B=0:100:8 D=" + []string{"1", "2"}[i%2]
		rc := " R=" + vh.HexBytes([]byte("b@example.org")) + "," + vh.HexBytes([]byte("c@example.org"))
		c10Smtp(out, ep, "C10 smtp "+h+" 8 A=0 F=-"+rc+tail+wr)
		c10Smtp(out, ep, "C10 smtp "+h+" 8 A=1 F="+vh.HexBytes([]byte("a@example.org"))+rc+tail+wr)
	}
	for i, p := range []string{"+17,+9,x", "x,+1,x", "+0,+0,3000", "-3,-3,100000", "x,x,100000", "+4096,+70000,0"} {
		c10Smtp(out, ep, "C10 smtp "+[]string{"aPoo", "aPtt.aPoo", "aAtt.r.aPoo", "R.aPto.aPoo", "aPtt.r"}[i%5]+" 8"+env+" H="+vh.HexBytes([]byte("Subject: x\r\n\r\n"))+" B=0:300:7 D=1 P="+p)
	}
	for _, h := range []string{"aPtt!s.r.aPoo", "aPtt!r.aPoo", "aAto!b.r.aPoo", "aPto!c.r.aPoo", "aPtt.aPto!b.aPoo", "aAtt.r.aPto!c.r.aPoo", "R.aPtt!b.r.aPoo",
		"aPto.rn0.aPoo", "aPto.rn1.aPoo", "aPtt.aPto.rn3.r.aPoo", "aPto.rn4.aPoo", "aPto.rn5.aPoo", "aAtt.rn6.aPto.rn7.aPoo", "Rn2.aPto.rn8.aPoo", "aPto.rn9.aPoo.r"} {
		c10Smtp(out, ep, "C10 smtp "+h+" u8 A=1"+two)
	}
}
